(* C19 — configuration store.  Executable model of quantem.core.config:
     canonical_name, set (mapping / double-underscore keyword / dotted keys; _assign with the
     record kept for the context manager), __enter__/__exit__ (REPAIRED behaviour, see
     /verif/fixes/C19-context-manager.diff), get, update (three priorities), merge,
     update_defaults, refresh, check_key_val with validate_device as a section parameter.
   Python dicts are association lists in insertion order (assign replaces in place, new keys
   go to the end).  Exceptions are modelled with the state reached when they were raised
   (in-place mutation before the raise is kept, as in the code).
   Definitions only; proofs are in proof/C19_Proofs*.v. *)
From QV.lib Require Import Prelude.
From Coq Require Import String Ascii.

(* ---------------------------------------------------------------- values *)
Inductive jval := JNone | JBool (b : bool) | JInt (z : Z) | JStr (s : string).
Inductive cfg := Leaf (v : jval) | Node (l : list (string * cfg)).
Definition items := list (string * cfg).
Inductive err := KeyErr | TypeErr | ValueErr | RuntimeErr | AttrErr.

(* Python `==` on scalars: bool is an int *)
Definition py_eqb (a b : jval) : bool :=
  match a, b with
  | JNone, JNone => true
  | JBool x, JBool y => Bool.eqb x y
  | JInt x, JInt y => Z.eqb x y
  | JStr x, JStr y => String.eqb x y
  | JBool x, JInt y | JInt y, JBool x => Z.eqb (if x then 1 else 0) y
  | _, _ => false
  end.

Definition py_truthy (a : jval) : bool :=
  match a with
  | JNone => false | JBool b => b | JInt z => negb (Z.eqb z 0)
  | JStr s => negb (String.eqb s EmptyString)
  end.

(* ---------------------------------------------------------------- dicts *)
Fixpoint lookup (k : string) (d : items) : option cfg :=
  match d with
  | [] => None
  | (k', v) :: r => if String.eqb k k' then Some v else lookup k r
  end.

Definition mem (k : string) (d : items) : bool :=
  match lookup k d with Some _ => true | None => false end.

(* d[k] = v *)
Fixpoint assign (k : string) (v : cfg) (d : items) : items :=
  match d with
  | [] => [(k, v)]
  | (k', v') :: r => if String.eqb k k' then (k', v) :: r else (k', v') :: assign k v r
  end.

(* d.pop(k, None) *)
Fixpoint remove (k : string) (d : items) : items :=
  match d with
  | [] => []
  | (k', v') :: r => if String.eqb k k' then r else (k', v') :: remove k r
  end.

(* Python dict equality: same key set, equal values; order-insensitive *)
Fixpoint cfg_eqb (a b : cfg) {struct a} : bool :=
  match a, b with
  | Leaf x, Leaf y => py_eqb x y
  | Node la, Node lb =>
      Nat.eqb (List.length la) (List.length lb) &&
      (fix all (l : items) : bool :=
         match l with
         | [] => true
         | (k, v) :: r =>
             match lookup k lb with Some w => cfg_eqb v w | None => false end && all r
         end) la
  | _, _ => false
  end.

(* ---------------------------------------------------------------- key strings *)
Definition dash : ascii := "-"%char.
Definition under : ascii := "_"%char.
Definition dot : ascii := "."%char.

Fixpoint has (c : ascii) (s : string) : bool :=
  match s with EmptyString => false | String a r => Ascii.eqb a c || has c r end.

(* str.replace for single characters *)
Fixpoint repl (a b : ascii) (s : string) : string :=
  match s with
  | EmptyString => EmptyString
  | String c r => String (if Ascii.eqb c a then b else c) (repl a b r)
  end.

(* altk = k.replace("_", "-") if "_" in k else k.replace("-", "_") *)
Definition alt_name (k : string) : string :=
  if has under k then repl under dash k else repl dash under k.

(* canonical_name(k, config) for a dict *)
Definition canon (k : string) (d : items) : string :=
  if mem k d then k else if mem (alt_name k) d then alt_name k else k.

(* key.replace("__", "."): non-overlapping, left to right *)
Fixpoint dunder (s : string) : string :=
  match s with
  | EmptyString => EmptyString
  | String a r =>
      match r with
      | String b r' =>
          if Ascii.eqb a under && Ascii.eqb b under then String dot (dunder r')
          else String a (dunder r)
      | EmptyString => String a EmptyString
      end
  end.

(* key.split("."): first component and the remaining ones (never empty) *)
Fixpoint split_dot (s : string) : string * list string :=
  match s with
  | EmptyString => (EmptyString, [])
  | String c r =>
      let (h, t) := split_dot r in
      if Ascii.eqb c dot then (EmptyString, h :: t) else (String c h, t)
  end.

Fixpoint is_prefix (p s : string) : bool :=
  match p, s with
  | EmptyString, _ => true
  | String a p', String b s' => Ascii.eqb a b && is_prefix p' s'
  | _, EmptyString => false
  end.

(* `needle in hay` for strings *)
Fixpoint contains (needle hay : string) : bool :=
  is_prefix needle hay ||
  match hay with EmptyString => false | String _ r => contains needle r end.

Definition lower_char (c : ascii) : ascii :=
  let n := nat_of_ascii c in
  if (Nat.leb 65 n && Nat.leb n 90)%bool then ascii_of_nat (n + 32) else c.
Fixpoint lower (s : string) : string :=
  match s with EmptyString => EmptyString | String c r => String (lower_char c) (lower r) end.

(* ---------------------------------------------------------------- device check *)
(* str(value) == "cpu" or (str(value).startswith("cpu:") and str(value)[4:].isdigit())
   (REPAIRED behaviour, see /verif/fixes/C19-cpu-substring.diff: the unrepaired code accepts
   every value whose text contains "cpu").  The text of None/bool/int/dict values never
   qualifies. *)
Definition is_digit (c : ascii) : bool :=
  let n := nat_of_ascii c in (Nat.leb 48 n && Nat.leb n 57)%bool.
Fixpoint all_digits (s : string) : bool :=
  match s with EmptyString => true | String c r => is_digit c && all_digits r end.
Definition drop4 (s : string) : string :=
  match s with String _ (String _ (String _ (String _ r))) => r | _ => EmptyString end.
Definition cpu_text (s : string) : bool :=
  String.eqb s "cpu" ||
  (is_prefix "cpu:" s && negb (String.eqb (drop4 s) EmptyString) && all_digits (drop4 s)).
Definition cpu_request (v : cfg) : bool :=
  match v with Leaf (JStr s) => cpu_text s | _ => false end.

(* validate_device on a host without CUDA and without MPS (the harness host) *)
Definition validate_nogpu (v : cfg) : err + string :=
  match v with
  | Leaf JNone => inr "cpu"%string
  | Leaf (JStr s) =>
      let l := lower s in
      if contains "cuda" l then inl RuntimeErr
      else if contains "gpu" l then inl RuntimeErr
      else if String.eqb l "mps" then inl RuntimeErr
      else if String.eqb l "cpu" then inr "cpu"%string
      else inl ValueErr
  | Leaf (JInt z) => if (z <? 0)%Z then inl ValueErr else inl RuntimeErr
  | Leaf (JBool _) => inl RuntimeErr
  | Node _ => inl TypeErr
  end.

Inductive priority := POld | PNew | PNewDefaults.

(* a canonical path and the previous value (None: the key was inserted) *)
Definition crec := (list string * option cfg)%type.

Record store := { conf : items; dflts : list items }.

Inductive sop :=
| SSet (arg : option cfg) (kw : items)      (* set(arg, **kw) used as a plain call *)
| SUpd (new : items)                        (* update_defaults(new) *)
| SRefresh (yaml : list items).             (* refresh(); yaml = parsed files found by collect *)

Inductive op :=
| Do (o : sop)
| With (arg : option cfg) (kw : items) (body : list sop)    (* with set(arg, **kw): body, every
                                                              statement of the body in its own try/except *)
| WithX (arg : option cfg) (kw : items) (body : list sop).  (* the first exception raised in the body
                                                              leaves the with-block (through __exit__) *)

Section Store.
  (* validate_device(value): the normalised device string, or the exception raised *)
  Variable validate : cfg -> err + string.

  (* check_key_val: None = value unchanged, Some s = value replaced by the string s *)
  Definition check_dev (k : string) (v : cfg) : err + option string :=
    if String.eqb k "device" then
      if cpu_request v then inr (Some "cpu"%string)
      else match validate v with inl e => inl e | inr s => inr (Some s) end
    else inr None.

  Definition check_key_val (k : string) (v : cfg) : err + cfg :=
    match check_dev k v with
    | inl e => inl e
    | inr None => inr v
    | inr (Some s) => inr (Leaf (JStr s))
    end.

  (* ------------------------------------------------------------ set._assign *)
  (* returns the new dict and the record entry (path relative to d) *)
  Fixpoint assign_path (k : string) (rest : list string) (v : cfg) (d : items)
    : err + (items * crec) :=
    let k' := canon k d in
    match rest with
    | [] => inr (assign k' v d, ([k'], lookup k' d))
    | k2 :: rest' =>
        match lookup k' d with
        | None =>
            match assign_path k2 rest' v [] with
            | inl e => inl e
            | inr (sub', _) => inr (assign k' (Node sub') d, ([k'], None))
            end
        | Some (Node sub) =>
            match assign_path k2 rest' v sub with
            | inl e => inl e
            | inr (sub', (p, o)) => inr (assign k' (Node sub') d, (k' :: p, o))
            end
        | Some (Leaf _) => inl TypeErr      (* item assignment / `in` on a scalar *)
        end
    end.

  (* one (key, value) of set: check_key_val then _assign(key.split(".")) *)
  Definition set_item (key : string) (v : cfg) (d : items) : err + (items * crec) :=
    match check_key_val key v with
    | inl e => inl e
    | inr v' => let (k, rest) := split_dot key in assign_path k rest v' d
    end.

  (* items in order; stops at the first exception keeping what was assigned before *)
  Fixpoint set_items (l : items) (d : items) (recs : list crec) : items * list crec * option err :=
    match l with
    | [] => (d, recs, None)
    | (key, v) :: r =>
        match set_item key v d with
        | inl e => (d, recs, Some e)
        | inr (d', rc) => set_items r d' (recs ++ [rc])
        end
    end.

  Definition kw_items (kw : items) : items := map (fun kv => (dunder (fst kv), snd kv)) kw.

  (* set.__init__ *)
  Definition set_call (arg : option cfg) (kw : items) (d : items) : items * list crec * option err :=
    match arg with
    | Some (Leaf _) => (d, [], Some TypeErr)          (* arg must be a dictionary *)
    | Some (Node l) =>
        match set_items l d [] with
        | (d', recs, Some e) => (d', recs, Some e)
        | (d', recs, None) => set_items (kw_items kw) d' recs
        end
    | None => set_items (kw_items kw) d []
    end.

  (* ------------------------------------------------------------ set.__exit__ (repaired) *)
  (* REPAIRED behaviour (see /verif/fixes/C19-exit-canonical-names.diff): every component of
     a recorded path is looked up under the spelling the dict holds now, canonical_name(key, d)
     (the unrepaired code uses the recorded spelling itself).
     op == "replace": for key in path[:-1]: d = d.setdefault(cn(key, d), {}); d[cn(path[-1], d)] = value *)
  Fixpoint restore_replace (p : list string) (old : cfg) (d : items) : err + items :=
    match p with
    | [] => inr d
    | [k] => inr (assign (canon k d) old d)
    | k :: p' =>
        let k' := canon k d in
        match lookup k' d with
        | None => match restore_replace p' old [] with
                  | inl e => inl e | inr s => inr (assign k' (Node s) d) end
        | Some (Node sub) => match restore_replace p' old sub with
                             | inl e => inl e | inr s => inr (assign k' (Node s) d) end
        | Some (Leaf _) => match p' with [_] => inl TypeErr | _ => inl AttrErr end
        end
    end.

  (* op == "insert": walk path[:-1] (KeyError: give up), then d.pop(cn(path[-1], d), None) *)
  Fixpoint restore_insert (p : list string) (d : items) : err + items :=
    match p with
    | [] => inr d
    | [k] => inr (remove (canon k d) d)
    | k :: p' =>
        let k' := canon k d in
        match lookup k' d with
        | None => inr d
        | Some (Node sub) => match restore_insert p' sub with
                             | inl e => inl e | inr s => inr (assign k' (Node s) d) end
        | Some (Leaf _) => match p' with [_] => inl AttrErr | _ => inl TypeErr end
        end
    end.

  Definition restore1 (r : crec) (d : items) : err + items :=
    match r with
    | (p, Some old) => restore_replace p old d
    | (p, None) => restore_insert p d
    end.

  (* for ... in reversed(self._record); `rrecs` is the record already reversed *)
  Fixpoint restore_all (rrecs : list crec) (d : items) : items * option err :=
    match rrecs with
    | [] => (d, None)
    | r :: rs => match restore1 r d with
                 | inl e => (d, Some e)
                 | inr d' => restore_all rs d'
                 end
    end.

  Definition exit_call (recs : list crec) (d : items) : items * option err :=
    restore_all (rev recs) d.

  (* ------------------------------------------------------------ get *)
  Fixpoint get_path (p : list string) (c : cfg) : err + cfg :=
    match p with
    | [] => inr c
    | k :: r =>
        match c with
        | Leaf _ => inl TypeErr
        | Node d => match lookup (canon k d) d with
                    | Some c' => get_path r c'
                    | None => inl KeyErr
                    end
        end
    end.

  Definition path_of (key : string) : list string := let (k, r) := split_dot key in k :: r.

  Definition get (key : string) (d : items) : err + cfg := get_path (path_of key) (Node d).

  (* get(key, default) *)
  Definition get_or (key : string) (default : cfg) (d : items) : cfg :=
    match get key d with inr c => c | inl _ => default end.

  (* ------------------------------------------------------------ update *)
  (* the `defaults` argument: None, or whatever defaults.get(k) returned one level up *)
  Definition dview := option cfg.

  Definition dv_truthy (dv : dview) : bool :=
    match dv with
    | None => false
    | Some (Leaf x) => py_truthy x
    | Some (Node l) => match l with [] => false | _ => true end
    end.

  (* dk = canonical_name(k, defaults) if defaults else k   (REPAIRED behaviour, see
     /verif/fixes/C19-defaults-spelling.diff: the unrepaired code uses k itself) *)
  Definition dkey (dv : dview) (k : string) : string :=
    if dv_truthy dv then
      match dv with
      | Some (Node l) => canon k l
      | Some (Leaf (JStr s)) =>
          if contains k s then k else if contains (alt_name k) s then alt_name k else k
      | _ => k                                 (* TypeError caught inside canonical_name *)
      end
    else k.

  (* defaults.get(dk) if defaults else None *)
  Definition dsub (dv : dview) (k : string) : err + dview :=
    if dv_truthy dv then
      match dv with
      | Some (Node l) => inr (lookup (dkey dv k) l)
      | _ => inl AttrErr                       (* scalar has no .get *)
      end
    else inr None.

  (* defaults and dk in defaults and defaults[dk] == old[k] *)
  Definition dmatch (dv : dview) (k : string) (ov : cfg) : err + bool :=
    if dv_truthy dv then
      match dv with
      | Some (Node l) =>
          match lookup (dkey dv k) l with Some x => inr (cfg_eqb x ov) | None => inr false end
      | Some (Leaf (JStr s)) => if contains (dkey dv k) s then inl TypeErr else inr false
      | _ => inl TypeErr                       (* `dk in 3` *)
      end
    else inr false.

  (* the non-mapping branch of update for the (canonical) key k' *)
  Definition leaf_step (prio : priority) (k' : string) (x : jval) (old : items) (dv : dview)
    : items * option err :=
    match prio with
    | PNew => (assign k' (Leaf x) old, None)
    | POld => match lookup k' old with
              | None => (assign k' (Leaf x) old, None)
              | Some _ => (old, None)
              end
    | PNewDefaults =>
        match lookup k' old with
        | None => (assign k' (Leaf x) old, None)
        | Some ov => match dmatch dv k' ov with
                     | inl e => (old, Some e)
                     | inr true => (assign k' (Leaf x) old, None)
                     | inr false => (old, None)
                     end
        end
    end.

  Definition subdict (k' : string) (old : items) : items :=
    match lookup k' old with Some (Node ol) => ol | _ => [] end.

  (* update(old, new, priority, defaults); `new` is the Node being merged in *)
  Fixpoint update_cfg (prio : priority) (new : cfg) {struct new}
    : items -> dview -> items * option err :=
    match new with
    | Leaf _ => fun old _ => (old, None)
    | Node nl =>
        (fix go (nl : items) : items -> dview -> items * option err :=
           match nl with
           | [] => fun old _ => (old, None)
           | (k, v) :: rest => fun old dv =>
               match check_dev k v with
               | inl e => (old, Some e)
               | inr (Some s) =>
                   match leaf_step prio (canon k old) (JStr s) old dv with
                   | (old', Some e) => (old', Some e)
                   | (old', None) => go rest old' dv
                   end
               | inr None =>
                   match v with
                   | Leaf x =>
                       match leaf_step prio (canon k old) x old dv with
                       | (old', Some e) => (old', Some e)
                       | (old', None) => go rest old' dv
                       end
                   | Node _ =>
                       let k' := canon k old in
                       let sub := subdict k' old in
                       match dsub dv k' with
                       | inl e => (assign k' (Node sub) old, Some e)
                       | inr dv' =>
                           match update_cfg prio v sub dv' with
                           | (sub', Some e) => (assign k' (Node sub') old, Some e)
                           | (sub', None) => go rest (assign k' (Node sub') old) dv
                           end
                       end
                   end
               end
           end) nl
    end.

  Definition update_items (prio : priority) (new old : items) (dv : dview) : items * option err :=
    update_cfg prio (Node new) old dv.

  (* merge of the dicts continued from acc *)
  Fixpoint merge_from (acc : items) (ds : list items) : items * option err :=
    match ds with
    | [] => (acc, None)
    | d :: r => match update_items PNew d acc None with
                | (acc', Some e) => (acc', Some e)
                | (acc', None) => merge_from acc' r
                end
    end.

  Definition merge (ds : list items) : items * option err := merge_from [] ds.

  (* the first loop of update_defaults: new[key] = check_key_val(key, value)[1] *)
  Fixpoint check_items (new : items) : err + items :=
    match new with
    | [] => inr []
    | (k, v) :: r =>
        match check_key_val k v with
        | inl e => inl e
        | inr v' => match check_items r with inl e => inl e | inr r' => inr ((k, v') :: r') end
        end
    end.

  Definition update_defaults (new : items) (s : store) : store * option err :=
    match check_items new with
    | inl e => (s, Some e)
    | inr new' =>
        match merge (dflts s) with
        | (_, Some e) => (s, Some e)
        | (cur, None) =>
            let (c', e) := update_items PNewDefaults new' (conf s) (Some (Node cur)) in
            ({| conf := c'; dflts := dflts s ++ [new'] |}, e)
        end
    end.

  (* config.clear(); for d in defaults: update(config, d, "new"); update(config, collect()) *)
  Definition refresh (yaml : list items) (s : store) : store * option err :=
    match merge_from [] (dflts s) with
    | (c1, Some e) => ({| conf := c1; dflts := dflts s |}, Some e)
    | (c1, None) =>
        match merge yaml with
        | (_, Some e) => ({| conf := c1; dflts := dflts s |}, Some e)
        | (cy, None) =>
            let (c2, e) := update_items PNew cy c1 None in
            ({| conf := c2; dflts := dflts s |}, e)
        end
    end.

  (* ------------------------------------------------------------ histories *)
  Definition step_s (o : sop) (s : store) : store * option err :=
    match o with
    | SSet arg kw =>
        match set_call arg kw (conf s) with
        | (c', _, e) => ({| conf := c'; dflts := dflts s |}, e)
        end
    | SUpd new => update_defaults new s
    | SRefresh yaml => refresh yaml s
    end.

  (* body of a with-block: every statement runs (an exception is caught per statement) *)
  Fixpoint run_s (os : list sop) (s : store) : store :=
    match os with [] => s | o :: r => run_s r (fst (step_s o s)) end.

  (* statements up to and including the first one that raises *)
  Fixpoint run_s_stop (os : list sop) (s : store) : store * option err :=
    match os with
    | [] => (s, None)
    | o :: r => match step_s o s with
                | (s', Some e) => (s', Some e)
                | (s', None) => run_s_stop r s'
                end
    end.

  Definition step (o : op) (s : store) : store * option err :=
    match o with
    | Do o => step_s o s
    | WithX arg kw body =>
        match set_call arg kw (conf s) with
        | (c1, _, Some e) => ({| conf := c1; dflts := dflts s |}, Some e)
        | (c1, recs, None) =>
            let (s2, eb) := run_s_stop body {| conf := c1; dflts := dflts s |} in
            let (c3, ee) := exit_call recs (conf s2) in
            (* an exception raised by __exit__ replaces the one of the body *)
            ({| conf := c3; dflts := dflts s2 |}, match ee with Some e => Some e | None => eb end)
        end
    | With arg kw body =>
        match set_call arg kw (conf s) with
        | (c1, _, Some e) => ({| conf := c1; dflts := dflts s |}, Some e)    (* __init__ raised *)
        | (c1, recs, None) =>
            let s2 := run_s body {| conf := c1; dflts := dflts s |} in
            let (c3, e) := exit_call recs (conf s2) in
            ({| conf := c3; dflts := dflts s2 |}, e)
        end
    end.

  Fixpoint run (os : list op) (s : store) : store :=
    match os with [] => s | o :: r => run r (fst (step o s)) end.

  (* snapshots for the correspondence run: state and outcome after every statement *)
  Fixpoint trace_s (os : list sop) (s : store) : list (store * option err) :=
    match os with
    | [] => []
    | o :: r => let (s', e) := step_s o s in (s', e) :: trace_s r s'
    end.

  Fixpoint trace_s_stop (os : list sop) (s : store) : list (store * option err) :=
    match os with
    | [] => []
    | o :: r => match step_s o s with
                | (s', Some e) => [(s', Some e)]
                | (s', None) => (s', None) :: trace_s_stop r s'
                end
    end.

  Definition trace_op (o : op) (s : store) : list (store * option err) :=
    match o with
    | Do o => [step_s o s]
    | WithX arg kw body =>
        match set_call arg kw (conf s) with
        | (c1, _, Some e) => [({| conf := c1; dflts := dflts s |}, Some e)]
        | (c1, recs, None) =>
            let s1 := {| conf := c1; dflts := dflts s |} in
            (s1, None) :: trace_s_stop body s1 ++ [step (WithX arg kw body) s]
        end
    | With arg kw body =>
        match set_call arg kw (conf s) with
        | (c1, _, Some e) => [({| conf := c1; dflts := dflts s |}, Some e)]
        | (c1, recs, None) =>
            let s1 := {| conf := c1; dflts := dflts s |} in
            (s1, None) :: trace_s body s1 ++ [step (With arg kw body) s]
        end
    end.

  Fixpoint trace (os : list op) (s : store) : list (list (store * option err)) :=
    match os with
    | [] => []
    | o :: r => trace_op o s :: trace r (fst (step o s))
    end.
End Store.

Definition empty_store : store := {| conf := []; dflts := [] |}.

(* ---------------------------------------------------------------- specification vocabulary *)
(* the spelling-insensitive name of a key: every '-' read as '_' *)
Definition norm (k : string) : string := repl dash under k.
(* a pure spelling does not mix the two separators *)
Definition pure (k : string) : bool := negb (has dash k && has under k).

(* every dict in the tree spells each key once, with a pure spelling *)
Inductive good : cfg -> Prop :=
| good_leaf v : good (Leaf v)
| good_node l :
    Forall (fun kv => pure (fst kv) = true) l ->
    NoDup (map (fun kv => norm (fst kv)) l) ->
    Forall (fun kv => good (snd kv)) l ->
    good (Node l).

Definition good_items (d : items) : Prop := good (Node d).

Definition pure_path (p : list string) : Prop := Forall (fun k => pure k = true) p.
Definition same_path (p q : list string) : Prop := map norm p = map norm q.

(* neither path is a prefix of the other (spelling-insensitively) *)
Fixpoint diverge (p q : list string) : Prop :=
  match p, q with
  | k :: p', j :: q' => norm k <> norm j \/ (norm k = norm j /\ diverge p' q')
  | _, _ => False
  end.
