(* C12 — executable model of the three places where a user-supplied aberration dictionary is
   accepted and the 'defocus' alias is resolved:

     validate     core/utils/validators.py : validate_aberration_coefficients
     standardize  diffractive_imaging/complex_probe.py : standardize_aberration_coefs
     setter       diffractive_imaging/probe_models.py : ProbeBase.probe_params (setter), the
                  dictionary stored under "aberration_coefs"

   A Python dict is an association list in insertion order (keys unique on input); assignment to
   an existing key replaces the value in place, a new key is appended.  Values are numbers
   (exact rationals), None, or (setter only) nested dicts.  Definitions only — no proofs. *)
From Coq Require Import QArith List String Bool Ascii.
Import ListNotations.
Local Open Scope string_scope.
Local Open Scope list_scope.

Inductive val :=
| VNone
| VNum (q : Q)
| VDict (d : list (string * val)).

Definition pydict := list (string * val).
Definition out := list (string * Q).

Inductive result (A : Type) :=
| Ok (a : A)
| ValueErr        (* validate_dict_keys: "Invalid keys" *)
| KeyErr          (* standardize: unknown aberration key *)
| TypeErr.        (* float(None) / float(dict) *)
Arguments Ok {A} a.
Arguments ValueErr {A}.
Arguments KeyErr {A}.
Arguments TypeErr {A}.

(* ---- the tables (repeated verbatim in validators.py and complex_probe.py) *)
Definition polar_aliases : list (string * string) :=
  [("defocus", "C10"); ("astigmatism", "C12"); ("astigmatism_angle", "phi12"); ("coma", "C21");
   ("coma_angle", "phi21"); ("Cs", "C30"); ("C5", "C50")].

Definition polar_symbols : list string :=
  ["C10"; "C12"; "phi12"; "C21"; "phi21"; "C23"; "phi23"; "C30"; "C32"; "phi32"; "C34"; "phi34";
   "C41"; "phi41"; "C43"; "phi43"; "C45"; "phi45"; "C50"; "C52"; "phi52"; "C54"; "phi54"; "C56"; "phi56"].

Definition default_probe_keys : list string :=
  ["energy"; "defocus"; "semiangle_cutoff"; "soft_edges"; "aberration_coefs"].

Definition mem (s : string) (l : list string) : bool := existsb (String.eqb s) l.

Fixpoint assoc {A : Type} (k : string) (l : list (string * A)) : option A :=
  match l with
  | [] => None
  | (k', v) :: t => if String.eqb k k' then Some v else assoc k t
  end.

(* d[k] = v *)
Fixpoint set {A : Type} (k : string) (v : A) (l : list (string * A)) : list (string * A) :=
  match l with
  | [] => [(k, v)]
  | (k', v') :: t => if String.eqb k k' then (k, v) :: t else (k', v') :: set k v t
  end.

(* the write performed for one (symbol, number) item by all three handlers:
   which canonical name is written, and with which value *)
Definition write_of (symbol : string) (q : Q) : option (string * Q) :=
  if mem symbol polar_symbols then Some (symbol, q)
  else if String.eqb symbol "defocus" then Some ("C10", Qopp q)
  else match assoc symbol polar_aliases with
       | Some target => Some (target, q)
       | None => None
       end.

Definition apply_write (w : option (string * Q)) (acc : out) : out :=
  match w with Some (k, q) => set k q acc | None => acc end.

(* ---- validators.validate_aberration_coefficients *)
Definition valid_keys (allowed : list string) (d : pydict) : bool :=
  forallb (fun kv => mem (fst kv) allowed) d.

Fixpoint validate_items (d : pydict) (acc : out) : result out :=
  match d with
  | [] => Ok acc
  | (k, VNone) :: t => validate_items t acc
  | (k, VNum q) :: t => validate_items t (apply_write (write_of k q) acc)
  | (k, VDict _) :: t => TypeErr
  end.

Definition validate (d : pydict) : result out :=
  if valid_keys (polar_symbols ++ map fst polar_aliases) d then validate_items d [] else ValueErr.

(* ---- complex_probe.standardize_aberration_coefs *)
Fixpoint standardize_items (d : pydict) (acc : out) : result out :=
  match d with
  | [] => Ok acc
  | (k, v) :: t =>
    let canonical := match assoc k polar_aliases with Some c => c | None => k end in
    if String.eqb k "defocus" then
      match v with VNum q => standardize_items t (set "C10" (Qopp q) acc) | _ => TypeErr end
    else if mem canonical polar_symbols then
      match v with VNum q => standardize_items t (set canonical q acc) | _ => TypeErr end
    else KeyErr
  end.

Definition standardize (d : pydict) : result out := standardize_items d [].

(* ---- probe_models.ProbeBase.probe_params setter -> params["aberration_coefs"] *)
Fixpoint process_val (symbol : string) (v : val) (acc : out) : out :=
  match v with
  | VDict d =>
    (fix go (l : pydict) (acc : out) : out :=
       match l with
       | [] => acc
       | (k, v') :: t => go t (process_val k v' acc)
       end) d acc
  | VNone => acc
  | VNum q => apply_write (write_of symbol q) acc
  end.

Fixpoint process_items (l : pydict) (acc : out) : out :=
  match l with
  | [] => acc
  | (k, v) :: t => process_items t (process_val k v acc)
  end.

(* order of a symbol: int(sym[-2]) *)
Definition digit_of (c : ascii) : option nat :=
  let n := nat_of_ascii c in
  if andb (Nat.leb 48 n) (Nat.leb n 57) then Some (n - 48)%nat else None.

Definition order_of (s : string) : option nat :=
  match rev (list_ascii_of_string s) with
  | _ :: c :: _ => digit_of c
  | _ => None
  end.

Fixpoint fill_zeros (syms : list string) (max_order : nat) (acc : out) : out :=
  match syms with
  | [] => acc
  | s :: t =>
    let acc' := match order_of s with
                | Some o => if andb (Nat.leb o max_order) (negb (mem s (map fst acc)))
                            then acc ++ [(s, 0%Q)] else acc
                | None => acc
                end in
    fill_zeros t max_order acc'
  end.

Definition fill (max_order : option nat) (acc : out) : out :=
  match max_order with Some m => fill_zeros polar_symbols m acc | None => acc end.

Definition setter (max_order : option nat) (params : pydict) : result out :=
  if valid_keys (default_probe_keys ++ polar_symbols ++ map fst polar_aliases) params then
    Ok (fill max_order (process_items params []))
  else ValueErr.

(* ---- reading a coefficient the way every consumer does: coefs.get(name, 0.0) *)
Definition getd (o : out) (k : string) : Q :=
  match assoc k o with Some q => q | None => 0%Q end.

(* ---- printing for the correspondence run *)
Definition show_q (q : Q) : Z * Z := (Qnum q, Zpos (Qden q)).
Definition show_out (o : out) : list (string * (Z * Z)) := map (fun kv => (fst kv, show_q (Qred (snd kv)))) o.
Definition show_result (r : result out) : Z * list (string * (Z * Z)) :=
  match r with
  | Ok o => (0%Z, show_out o)
  | ValueErr => (1%Z, [])
  | KeyErr => (2%Z, [])
  | TypeErr => (3%Z, [])
  end.

(* ---- specification vocabulary (used by the theorems): the sequence of values that the items of
   a dictionary, in iteration order, assign to the canonical name `s` *)
Fixpoint writes_val (s symbol : string) (v : val) : list Q :=
  match v with
  | VNone => []
  | VNum q => match write_of symbol q with
              | Some (k, q') => if String.eqb s k then [q'] else []
              | None => []
              end
  | VDict d =>
    (fix go (l : pydict) : list Q :=
       match l with
       | [] => []
       | (k, v') :: t => writes_val s k v' ++ go t
       end) d
  end.

Fixpoint writes (s : string) (d : pydict) : list Q :=
  match d with
  | [] => []
  | (k, v) :: t => writes_val s k v ++ writes s t
  end.

Fixpoint last_opt {A : Type} (l : list A) : option A :=
  match l with
  | [] => None
  | x :: t => match last_opt t with Some y => Some y | None => Some x end
  end.

(* no nested dictionaries *)
Definition flat (d : pydict) : Prop := forall k v, In (k, v) d -> forall d', v <> VDict d'.

(* ---- round 3: the STORED state of the probe-params setter, assigned several times.
   probe_models.ProbeBase.probe_params:
       params["aberration_coefs"] = set_aberrations(deepcopy(params), max_order)
       self._probe_params = self.DEFAULT_PROBE_PARAMS | self._probe_params | params
   Python's `a | b` is a copy of a updated with the items of b in order. *)
Fixpoint union (a b : pydict) : pydict :=
  match b with
  | [] => a
  | (k, v) :: t => union (set k v a) t
  end.

Definition out_val (o : out) : val := VDict (map (fun kv => (fst kv, VNum (snd kv))) o).

Definition default_probe_params : pydict :=
  [("energy", VNone); ("defocus", VNone); ("semiangle_cutoff", VNone); ("soft_edges", VNum 1);
   ("aberration_coefs", VDict [])].

(* one assignment `obj.probe_params = params` on an object whose stored dictionary is st; an
   assignment that raises leaves the object unchanged *)
Definition assign (max_order : option nat) (st params : pydict) : result pydict :=
  match setter max_order params with
  | Ok o => Ok (union (union default_probe_params st) (set "aberration_coefs" (out_val o) params))
  | ValueErr => ValueErr
  | KeyErr => KeyErr
  | TypeErr => TypeErr
  end.

Fixpoint assign_all (max_order : option nat) (st : pydict) (history : list pydict) : pydict :=
  match history with
  | [] => st
  | p :: t => match assign max_order st p with
              | Ok st' => assign_all max_order st' t
              | _ => assign_all max_order st t
              end
  end.

(* what a consumer reads: self.probe_params["aberration_coefs"].get(name, 0.0) *)
Definition stored_coef (st : pydict) (name : string) : Q :=
  match assoc "aberration_coefs" st with
  | Some (VDict d) => match assoc name d with Some (VNum q) => q | _ => 0%Q end
  | _ => 0%Q
  end.

(* printing of the stored coefficient dictionary for the correspondence run *)
Definition show_stored (st : pydict) : list (string * (Z * Z)) :=
  match assoc "aberration_coefs" st with
  | Some (VDict d) => flat_map (fun kv => match snd kv with
                                          | VNum q => [(fst kv, show_q (Qred q))]
                                          | _ => []
                                          end) d
  | _ => []
  end.
