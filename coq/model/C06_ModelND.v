(* C06 — multi-index view of the flat row-major tensors of model/C06_Model.v, the closed
   multi-index form of Dataset.bin, and the STAGE-WISE N-D Fourier pipeline of
   Dataset.fourier_resample (fftn over all axes, then fftshift over all axes, then the centred
   crop / zero pad of all axes, then ifftshift, then ifftn, then ONE multiplication by
   N_out / N_in).  Executable definitions only; proofs in proof/C06_Proofs_Index.v,
   C06_Proofs_BinND.v, C06_Proofs_Sep.v. *)
From QV.lib Require Import Prelude FinSum DFT.
From QV.model Require Import C06_Model.
From Coq Require Import QArith Qcanon.
Local Close Scope Q_scope.
Local Close Scope Qc_scope.
Unset Implicit Arguments.

(* ------------------------------------------------------------------------------------ *)
(* multi-indices: element J = [j0; j1; ...] of a tensor of shape sh lives at flat index
   ravel sh J = ((j0 * n1 + j1) * n2 + j2) ...   (row-major / C order) *)
Fixpoint ravel (sh idx : list nat) : nat :=
  match sh, idx with
  | _ :: sh', i :: idx' => i * prod sh' + ravel sh' idx'
  | _, _ => 0
  end.

Fixpoint unravel (sh : list nat) (p : nat) : list nat :=
  match sh with
  | [] => []
  | _ :: sh' => (p / prod sh') :: unravel sh' (p mod prod sh')
  end.

Definition in_bounds (sh idx : list nat) : Prop :=
  length idx = length sh /\ forall b, b < length sh -> nth b idx 0 < nth b sh 0.

Definition get {A : Type} (d : A) (t : tensor A) (idx : list nat) : A :=
  nth (ravel (shape t) idx) (data t) d.

(* ------------------------------------------------------------------------------------ *)
(* Dataset.bin over several axes at once, closed form: output pixel J is the sum over all
   offset tuples us = (u_1, .., u_k), u_i < f_i, of the input pixel whose coordinate on the
   i-th listed axis a_i is J[a_i] * f_i + u_i and whose other coordinates are those of J *)
Local Open Scope Qc_scope.
Fixpoint osum (fs : list nat) (G : list nat -> Qc) : Qc :=
  match fs with
  | [] => G []
  | f :: r => FinSum.sumn 0 Qcplus f (fun u => osum r (fun us => G (u :: us)))
  end.
Local Close Scope Qc_scope.

Fixpoint block_index (afs : list (nat * nat)) (J us : list nat) : list nat :=
  match afs, us with
  | af :: r, u :: us' => set_nth (fst af) (nth (fst af) J 0 * snd af + u) (block_index r J us')
  | _, _ => J
  end.

(* ------------------------------------------------------------------------------------ *)
(* an operator K (length-n line -> length-m line) applied to every line of one axis of an
   N-D buffer; [resample_axis] of C06_Model.v is this with K = resample *)
Section LineOps.
  Variable R : Type.
  Variable rO : R.

  Definition lineop_axis (K : (nat -> R) -> nat -> R) (outer n inner m : nat) (x : list R) : list R :=
    flat_map (fun o =>
                let cols := map (fun k => map (K (line rO n inner o k x)) (seq 0 m)) (seq 0 inner) in
                flat_map (fun j => map (fun col => nth j col rO) cols) (seq 0 m))
             (seq 0 outer).

  Definition lineop_at (a m : nat) (K : (nat -> R) -> nat -> R) (t : tensor R) : tensor R :=
    let sh := shape t in
    mkT (set_nth a m sh) (lineop_axis K (outer_of a sh) (len_of a sh) (inner_of a sh) m (data t)).

  (* a stage of the pipeline: for axis a with current length n and requested length m, apply
     K n m along the axis; the new length is olen n m *)
  Definition stage := nat -> nat -> tensor R -> tensor R.
  Definition mkstage (olen : nat -> nat -> nat) (K : nat -> nat -> (nat -> R) -> nat -> R) : stage :=
    fun a m t => let n := len_of a (shape t) in lineop_at a (olen n m) (K n m) t.

  (* one stage over all listed axes, first listed axis first *)
  Definition run (S : stage) (ams : list (nat * nat)) (t : tensor R) : tensor R :=
    fold_left (fun acc am => S (fst am) (snd am) acc) ams t.
End LineOps.
Arguments lineop_axis {R} rO K outer n inner m x.
Arguments lineop_at {R} rO a m K t.
Arguments mkstage {R} rO olen K a m t.
Arguments run {R} S ams t.

Section PipelineND.
  Variable R : Type.
  Variables (rO rI : R) (radd rmul : R -> R -> R).
  Variable tw : nat -> Z -> R.
  Variable inv : nat -> R.

  Definition keep_len (n m : nat) : nat := n.
  Definition new_len (n m : nat) : nat := m.

  (* the five stages of Dataset.fourier_resample *)
  Definition st_fft : stage R := mkstage rO keep_len (fun n _ => dft rO radd rmul n (tw n)).
  Definition st_fftshift : stage R := mkstage rO keep_len (fun n _ => fftshift n).
  Definition st_croppad : stage R := mkstage rO new_len (fun n m => croppad rO n m).
  Definition st_ifftshift : stage R := mkstage rO keep_len (fun n _ => ifftshift n).
  Definition st_ifft : stage R := mkstage rO keep_len (fun n _ => idft rO radd rmul n (tw n) (inv n)).

  Definition scale_all (s : R) (t : tensor R) : tensor R := mkT (shape t) (map (rmul s) (data t)).

  (* N_out / N_in as the product over the listed axes of m_i * (1 / n_i) *)
  Definition scale_prod (ams : list (nat * nat)) (sh : list nat) : R :=
    fold_left (fun s am => rmul s (rmul (of_nat rO rI radd (snd am)) (inv (len_of (fst am) sh)))) ams rI.

  (* array_resampled = ifftn(ifftshift(pad(crop(fftshift(fftn(x)))))) * (N_out / N_in), every
     function over ALL listed axes at once *)
  Definition pipeline_nd (ams : list (nat * nat)) (t : tensor R) : tensor R :=
    scale_all (scale_prod ams (shape t))
      (run st_ifft ams (run st_ifftshift ams (run st_croppad ams (run st_fftshift ams (run st_fft ams t))))).

  (* the one-axis pipeline without its scale factor, and with it, as line operators *)
  Definition resample0 (n m : nat) (x : nat -> R) : nat -> R :=
    idft rO radd rmul m (tw m) (inv m) (respectrum rO n m (dft rO radd rmul n (tw n) x)).
  Definition st_resample0 : stage R := mkstage rO new_len resample0.
End PipelineND.
Arguments st_fft {R} rO radd rmul tw a m t.
Arguments st_fftshift {R} rO a m t.
Arguments st_croppad {R} rO a m t.
Arguments st_ifftshift {R} rO a m t.
Arguments st_ifft {R} rO radd rmul tw inv a m t.
Arguments scale_all {R} rmul s t.
Arguments scale_prod {R} rO rI radd rmul inv ams sh.
Arguments pipeline_nd {R} rO rI radd rmul tw inv ams t.
Arguments resample0 {R} rO radd rmul tw inv n m x _.
Arguments st_resample0 {R} rO radd rmul tw inv a m t.

(* harness glue: the closed form evaluated on a whole tensor *)
Definition all_indices (sh : list nat) : list (list nat) := map (unravel sh) (seq 0 (prod sh)).
Definition bin_closed (afs : list (nat * nat)) (t : tensor Qc) (outsh : list nat) : list Qc :=
  map (fun J => osum (map snd afs) (fun us => get 0%Qc t (block_index afs J us))) (all_indices outsh).
