(* C18 — centre-of-mass origin estimation.  Executable exact (Q) model of
     quantem.diffractive_imaging.origin_models.CenterOfMassOriginModel
        .calculate_origin (batched torch path), .fit_origin_background (constant, PCA plane),
        .shift_origin_to (periodic grid arithmetic + bilinear grid_sample)
     quantem.diffractive_imaging.dataset_models.PtychographyDatasetRaster._set_intensities_com
        (vectorised path as written; looped path as REPAIRED by fixes/C18-looped-com-swap.diff,
         and, separately, as currently written: com_looped_unrepaired)
     quantem.diffractive_imaging.ptycho_utils.fit_origin (constant; plane as least squares)
   Definitions only; proofs are in proof/C18_Proofs.v. *)
From QV.lib Require Import Prelude Chunks C18_QTensor.
From Coq Require Import QArith Qround.
Local Close Scope Q_scope.

(* ---------------------------------------------------------------- specification *)
(* intensity-weighted mean detector coordinate (row, then column) for weights w r c on an
   H x W detector *)
Definition wmean (H W : nat) (w : nat -> nat -> Q) : Q * Q :=
  ((dsum H W (fun r c => Qn r * w r c) / dsum H W w)%Q,
   (dsum H W (fun r c => Qn c * w r c) / dsum H W w)%Q).

(* ---------------------------------------------------------------- coordinate grids *)
(* np/torch.meshgrid(arange H, arange W, indexing="ij"): first output varies along rows *)
Definition mesh_r (H W : nat) : matrix := map (fun r => repeat (Qn r) W) (seq 0 H).
Definition mesh_c (H W : nat) : matrix := repeat (map Qn (seq 0 W)) H.

Definition moment_r (H W : nat) (I : matrix) : Q := sum2 (mul2 I (mesh_r H W)).
Definition moment_c (H W : nat) (I : matrix) : Q := sum2 (mul2 I (mesh_c H W)).

(* sum(I * grid) / sum(I) for both grids: what each code path computes per pattern *)
Definition com_weighted (H W : nat) (I : matrix) : Q * Q :=
  ((moment_r H W I / sum2 I)%Q, (moment_c H W I / sum2 I)%Q).

(* ---------------------------------------------------------------- origin model (torch) *)
(* one batch: intensities = tensor_3d[batch_idx]; sums over the last two axes; division *)
Definition batch_col0 (H W : nat) (pats : list matrix) (idx : list nat) : list Q :=
  let ints := gather [] pats idx in
  map2 Qdiv (map (moment_r H W) ints) (map sum2 ints).
Definition batch_col1 (H W : nat) (pats : list matrix) (idx : list nat) : list Q :=
  let ints := gather [] pats idx in
  map2 Qdiv (map (moment_c H W) ints) (map sum2 ints).

(* calculate_origin(max_batch_size = b): com_measured = torch.empty((num, 2)) (None =
   uninitialised); batches are SimpleBatcher(num, b, shuffle=False) = consecutive chunks of
   arange(num); com_measured[batch_idx, 0] = ..., com_measured[batch_idx, 1] = ... *)
Definition calculate_origin (b H W : nat) (pats : list matrix)
  : list (option Q) * list (option Q) :=
  let n := length pats in
  fold_left
    (fun st idx =>
       (scatter idx (map Some (batch_col0 H W pats idx)) (fst st),
        scatter idx (map Some (batch_col1 H W pats idx)) (snd st)))
    (chunks b (seq 0 n))
    (repeat None n, repeat None n).

(* ---------------------------------------------------------------- dataset model (numpy) *)
Definition apply_mask (mask : option matrix) (I : matrix) : matrix :=
  match mask with Some m => mul2 I m | None => I end.

(* vectorized_calculation=True, as written: I4 is the (Rr, Rc, Qr, Qc) array *)
Definition com_vectorised (H W : nat) (mask : option matrix) (I4 : list (list matrix))
  : list (list Q) * list (list Q) :=
  let im := map (map (apply_mask mask)) I4 in
  let sr := map (map (moment_r H W)) im in         (* np.sum(intensities_mask * krm, (-2,-1)) *)
  let sc := map (map (moment_c H W)) im in         (* np.sum(intensities_mask * kcm, (-2,-1)) *)
  let s := map (map sum2) im in
  (map2 (map2 Qdiv) sr s, map2 (map2 Qdiv) sc s).  (* com_measured_r, com_measured_c *)

(* vectorized_calculation=False with the proposed repair: row component from krm, column
   component from kcm.  Every (Rr, Rc) cell is assigned exactly once. *)
Definition com_looped (Rn Cn H W : nat) (mask : option matrix) (I4 : list (list matrix))
  : list (list Q) * list (list Q) :=
  let masked Rr Rc := apply_mask mask (nth Rc (nth Rr I4 []) []) in
  (map (fun Rr => map (fun Rc => (moment_r H W (masked Rr Rc) / sum2 (masked Rr Rc))%Q) (seq 0 Cn)) (seq 0 Rn),
   map (fun Rr => map (fun Rc => (moment_c H W (masked Rr Rc) / sum2 (masked Rr Rc))%Q) (seq 0 Cn)) (seq 0 Rn)).

(* the looped path as currently written in /repo: kcm feeds com_measured_r, krm feeds
   com_measured_c *)
Definition com_looped_unrepaired (Rn Cn H W : nat) (mask : option matrix) (I4 : list (list matrix))
  : list (list Q) * list (list Q) :=
  let masked Rr Rc := apply_mask mask (nth Rc (nth Rr I4 []) []) in
  (map (fun Rr => map (fun Rc => (moment_c H W (masked Rr Rc) / sum2 (masked Rr Rc))%Q) (seq 0 Cn)) (seq 0 Rn),
   map (fun Rr => map (fun Rc => (moment_r H W (masked Rr Rc) / sum2 (masked Rr Rc))%Q) (seq 0 Cn)) (seq 0 Rn)).

Definition wf_scan (Rn Cn : nat) (I4 : list (list matrix)) : Prop :=
  length I4 = Rn /\ Forall (fun row => length row = Cn) I4.

(* ---------------------------------------------------------------- constant fit *)
(* origin model: origin_measured.mean(0), then expanded to every pattern *)
Definition fit_constant_origin (o0 o1 : list Q) : Q * Q := (mean o0, mean o1).
(* fit_origin(..., "constant"): np.mean(q) * np.ones_like(q) *)
Definition fit_origin_constant (g : list (list Q)) : list (list Q) :=
  map (map (fun _ => (mean (concat g) * 1)%Q)) g.

(* ---------------------------------------------------------------- PCA plane fit *)
Record P3 := mk3 { px : Q; py : Q; pz : Q }.
Record M3 := mkM { row1 : P3; row2 : P3; row3 : P3 }.

Definition dot3 (u v : P3) : Q := (px u * px v + py u * py v + pz u * pz v)%Q.
Definition sub3 (u v : P3) : P3 := mk3 (px u - px v) (py u - py v) (pz u - pz v).
Definition scale3 (k : Q) (u : P3) : P3 := mk3 (k * px u) (k * py u) (k * pz u).
Definition matvec (M : M3) (v : P3) : P3 := mk3 (dot3 (row1 M) v) (dot3 (row2 M) v) (dot3 (row3 M) v).
Definition eq3 (u v : P3) : Prop := (px u == px v)%Q /\ (py u == py v)%Q /\ (pz u == pz v)%Q.
Definition zero3 : P3 := mk3 0 0 0.

(* points.mean(0) *)
Definition centroid (pts : list P3) : P3 :=
  mk3 (mean (map px pts)) (mean (map py pts)) (mean (map pz pts)).
Definition centered (pts : list P3) : list P3 := map (fun p => sub3 p (centroid pts)) pts.

(* torch.cov(X.T): unbiased sample covariance (divides by N-1), subtracts the mean itself *)
Definition cov3 (pts : list P3) : M3 :=
  let q := centered pts in
  let nm1 := (Qn (length pts) - 1)%Q in
  let e (f g : P3 -> Q) := (sumQ (map (fun p => f p * g p) q) / nm1)%Q in
  mkM (mk3 (e px px) (e px py) (e px pz))
      (mk3 (e py px) (e py py) (e py pz))
      (mk3 (e pz px) (e pz py) (e pz pz)).

(* fit_linear_plane as written: covariance of the centred points *)
Definition plane_covariance (pts : list P3) : M3 := cov3 (centered pts).

(* what torch.linalg.eigh(M)[1][:, 0] is assumed to deliver (LAPACK contract): an
   eigenvector, not zero, belonging to the smallest eigenvalue *)
Definition eigh_min_contract (M : M3) (lam : Q) (n : P3) : Prop :=
  eq3 (matvec M n) (scale3 lam n) /\ ~ eq3 n zero3 /\
  (forall mu v, ~ eq3 v zero3 -> eq3 (matvec M v) (scale3 mu v) -> (lam <= mu)%Q).

(* a, b, c = normal; d = -dot(normal, centroid);
   fitted = (positions @ [-a, -b] - d) / c *)
Definition plane_fitted (pts : list P3) (n : P3) (x y : Q) : Q :=
  let d := (- dot3 n (centroid pts))%Q in
  ((x * (- px n) + y * (- py n) - d) / pz n)%Q.

Definition on_plane (A B D : Q) (pts : list P3) : Prop :=
  forall p, In p pts -> (pz p == A * px p + B * py p + D)%Q.

(* the scan positions are not all on one line *)
Definition noncollinear (pts : list P3) : Prop :=
  exists o p q, In o pts /\ In p pts /\ In q pts /\
    ~ ((px p - px o) * (py q - py o) - (px q - px o) * (py p - py o) == 0)%Q.

(* ---------------------------------------------------------------- least-squares fit *)
(* fit_origin(plane / parabola): scipy curve_fit minimises the sum of squared residuals over
   the (r, c) index grid; modelled by its contract (returns a global minimiser) *)
Definition sse {P : Type} (f : P -> nat -> nat -> Q) (Rn Cn : nat) (data : list (list Q)) (p : P) : Q :=
  dsum Rn Cn (fun r c => (f p r c - get data r c) * (f p r c - get data r c))%Q.

Definition plane_fn (p : Q * Q * Q) (r c : nat) : Q :=    (* _plane(xy, mx, my, b) *)
  let '(mx, my, b) := p in (mx * Qn r + my * Qn c + b)%Q.

(* ---------------------------------------------------------------- periodic shift *)
(* torch `%` on floats: remainder with the sign of the divisor *)
Definition qmod (a n : Q) : Q := (a - n * inject_Z (Qfloor (a / n)))%Q.

(* padding_mode="zeros" *)
Definition getz (H W : nat) (I : matrix) (y x : Z) : Q :=
  if ((0 <=? y) && (y <? Z.of_nat H) && (0 <=? x) && (x <? Z.of_nat W))%Z%bool
  then get I (Z.to_nat y) (Z.to_nat x) else 0%Q.

(* F.grid_sample(mode="bilinear", align_corners=True) at pixel coordinates (gy, gx) *)
Definition bilinear (H W : nat) (I : matrix) (gy gx : Q) : Q :=
  let y0 := Qfloor gy in let x0 := Qfloor gx in
  let wy := (gy - inject_Z y0)%Q in let wx := (gx - inject_Z x0)%Q in
  (getz H W I y0 x0 * ((1 - wy) * (1 - wx))
   + getz H W I y0 (x0 + 1) * ((1 - wy) * wx)
   + getz H W I (y0 + 1) x0 * (wy * (1 - wx))
   + getz H W I (y0 + 1) (x0 + 1) * (wy * wx))%Q.

(* shift_origin_to for one pattern: fitted origin (oy, ox), target coordinate (cy, cx):
   shifted_grid = (base_grid + (origin - coordinate)) % (H, W); normalise to [-1, 1];
   grid_sample un-normalises ((g + 1) / 2 * (size - 1)) and interpolates *)
Definition shift_pattern (H W : nat) (oy ox cy cx : Q) (I : matrix) : matrix :=
  map (fun y => map (fun x =>
    let sy := qmod (Qn y + (oy - cy)) (Qn H) in
    let sx := qmod (Qn x + (ox - cx)) (Qn W) in
    let gxn := (2 * sx / (Qn W - 1) - 1)%Q in
    let gyn := (2 * sy / (Qn H - 1) - 1)%Q in
    bilinear H W I ((gyn + 1) / 2 * (Qn H - 1))%Q ((gxn + 1) / 2 * (Qn W - 1))%Q)
    (seq 0 W)) (seq 0 H).

(* the index arithmetic the property speaks about *)
Definition shift_index (H W : nat) (sy sx : Z) (I : matrix) : matrix :=
  map (fun y => map (fun x =>
    get I (Z.to_nat ((Z.of_nat y + sy) mod Z.of_nat H)) (Z.to_nat ((Z.of_nat x + sx) mod Z.of_nat W)))
    (seq 0 W)) (seq 0 H).

(* ---------------------------------------------------------------- harness glue *)
Definition qz (z : Z) : Q := inject_Z z.
Definition zmat (m : list (list Z)) : matrix := map (map inject_Z) m.
(* a rational is printed as the two-element list [numerator; denominator] in lowest terms *)
Definition showq (q : Q) : list Z := let r := Qred q in [Qnum r; Zpos (Qden r)].
Definition showp (p : Q * Q) : list (list Z) := [showq (fst p); showq (snd p)].
(* None (an entry never written) is printed as [] *)
Definition showol (l : list (option Q)) : list (list Z) :=
  map (fun o => match o with Some q => showq q | None => [] end) l.
Definition showm (m : list (list Q)) : list (list (list Z)) := map (map showq) m.

(* ================================================================ round-3 extension *)
(* ---------------------------------------------------------------- call histories *)
(* One call of _set_intensities_com(intensities, dp_mask, vectorized_calculation) on an array
   the caller keeps: the result (com_measured_r, com_measured_c) and the caller's array after
   the call. *)
Inductive com_call := ComCall (vectorised : bool) (mask : option matrix).
Definition call_mask (c : com_call) : option matrix := let '(ComCall _ m) := c in m.

(* with fixes/C18-looped-com-mutates-input.diff: neither path touches the caller's array *)
Definition com_step (Rn Cn H W : nat) (I4 : list (list matrix)) (c : com_call)
  : (list (list Q) * list (list Q)) * list (list matrix) :=
  match c with
  | ComCall true m => (com_vectorised H W m I4, I4)
  | ComCall false m => (com_looped Rn Cn H W m I4, I4)
  end.

(* as written before that fix: `masked_intensity *= dp_mask` acts on a view of the caller's
   array, so after a looped call with a mask the array holds I * mask *)
Definition com_step_inplace (Rn Cn H W : nat) (I4 : list (list matrix)) (c : com_call)
  : (list (list Q) * list (list Q)) * list (list matrix) :=
  match c with
  | ComCall true m => (com_vectorised H W m I4, I4)
  | ComCall false m => (com_looped Rn Cn H W m I4, map (map (apply_mask m)) I4)
  end.

Fixpoint com_history {R : Type} (step : list (list matrix) -> com_call -> R * list (list matrix))
         (I4 : list (list matrix)) (calls : list com_call) : list R :=
  match calls with
  | [] => []
  | c :: cs => let '(r, I4') := step I4 c in r :: com_history step I4' cs
  end.

(* a 0/1 detector mask *)
Definition binary_mask (m : matrix) : Prop :=
  Forall (Forall (fun x => (x == 0)%Q \/ (x == 1)%Q)) m.

(* ---------------------------------------------------------------- curve_fit families *)
(* _parabola(xy, c0, cx1, cx2, cy1, cy2, cxy) on the (r, c) index grid *)
Definition parabola_fn (p : Q * Q * Q * Q * Q * Q) (r c : nat) : Q :=
  let '(c0, cx1, cx2, cy1, cy2, cxy) := p in
  let x := Qn r in let y := Qn c in
  (c0 + cx1 * x + cy1 * y + cx2 * (x * x) + cy2 * (y * y) + cxy * x * y)%Q.

(* _bezier_two(xy, c00, c01, c02, c10, c11, c12, c20, c21, c22) *)
Definition bezier2_fn (p : (Q * Q * Q) * (Q * Q * Q) * (Q * Q * Q)) (r c : nat) : Q :=
  let '((c00, c01, c02), (c10, c11, c12), (c20, c21, c22)) := p in
  let x := Qn r in let y := Qn c in
  (c00 * ((1 - x) * (1 - x)) * ((1 - y) * (1 - y))
   + c10 * 2 * (1 - x) * x * ((1 - y) * (1 - y))
   + c20 * (x * x) * ((1 - y) * (1 - y))
   + c01 * 2 * ((1 - x) * (1 - x)) * (1 - y) * y
   + c11 * 4 * (1 - x) * x * (1 - y) * y
   + c21 * 2 * (x * x) * (1 - y) * y
   + c02 * ((1 - x) * (1 - x)) * (y * y)
   + c12 * 2 * (1 - x) * x * (y * y)
   + c22 * (x * x) * (y * y))%Q.

Definition const_fn (k : Q) (_ _ : nat) : Q := k.

(* explicit re-parametrisations: a constant as a plane, a plane as a parabola, a parabola in
   the Bernstein basis (1 = B0+B1+B2, t = B1/2 + B2, t^2 = B2) *)
Definition plane_of_const (k : Q) : Q * Q * Q := (0%Q, 0%Q, k).
Definition parabola_of_plane (p : Q * Q * Q) : Q * Q * Q * Q * Q * Q :=
  let '(mx, my, b) := p in (b, mx, 0%Q, my, 0%Q, 0%Q).
Definition bezier2_of_parabola (p : Q * Q * Q * Q * Q * Q) : (Q * Q * Q) * (Q * Q * Q) * (Q * Q * Q) :=
  let '(c0, cx1, cx2, cy1, cy2, cxy) := p in
  let a (i : nat) : Q := match i with O => 0%Q | S O => (1 # 2)%Q | _ => 1%Q end in
  let b (i : nat) : Q := match i with O => 0%Q | S O => 0%Q | _ => 1%Q end in
  let k (i j : nat) : Q := (c0 + cx1 * a i + cy1 * a j + cx2 * b i + cy2 * b j + cxy * a i * a j)%Q in
  ((k 0 0, k 0 1, k 0 2), (k 1 0, k 1 1, k 1 2), (k 2 0, k 2 1, k 2 2)).

(* ---------------------------------------------------------------- shift: general shifts *)
(* bilinear interpolation on the PERIODIC continuation of the pattern (what a circular shift
   by a non-integer amount would be) *)
Definition getp (H W : nat) (I : matrix) (y x : Z) : Q :=
  get I (Z.to_nat (y mod Z.of_nat H)) (Z.to_nat (x mod Z.of_nat W)).

Definition pbilinear (H W : nat) (I : matrix) (gy gx : Q) : Q :=
  let y0 := Qfloor gy in let x0 := Qfloor gx in
  let wy := (gy - inject_Z y0)%Q in let wx := (gx - inject_Z x0)%Q in
  (getp H W I y0 x0 * ((1 - wy) * (1 - wx))
   + getp H W I y0 (x0 + 1) * ((1 - wy) * wx)
   + getp H W I (y0 + 1) x0 * (wy * (1 - wx))
   + getp H W I (y0 + 1) (x0 + 1) * (wy * wx))%Q.

(* shift_origin_to with fixes/C18-shift-unit-detector-dimension.diff: the [-1,1] normalisation
   divides by max(size - 1, 1); grid_sample un-normalises with (size - 1) *)
Definition dn (n : nat) : Q := Qn (Nat.max (n - 1) 1).
Definition shift_pattern_r (H W : nat) (oy ox cy cx : Q) (I : matrix) : matrix :=
  map (fun y => map (fun x =>
    let sy := qmod (Qn y + (oy - cy)) (Qn H) in
    let sx := qmod (Qn x + (ox - cx)) (Qn W) in
    let gxn := (2 * sx / dn W - 1)%Q in
    let gyn := (2 * sy / dn H - 1)%Q in
    bilinear H W I ((gyn + 1) / 2 * (Qn H - 1))%Q ((gxn + 1) / 2 * (Qn W - 1))%Q)
    (seq 0 W)) (seq 0 H).

(* masks given in quarters (harness glue: 0, 1/4, 1/2, 3/4, 1 are exact in float32) *)
Definition qmat4 (m : list (list Z)) : matrix := map (map (fun z => (z # 4)%Q)) m.

(* exactly what the zero-padded bilinear sampler returns for a coordinate inside [0,H) x [0,W):
   the periodic interpolation with every neighbour beyond the last row / column replaced by 0 *)
Definition zb (b : bool) (q : Q) : Q := if b then q else 0%Q.
Definition seam_bilinear (H W : nat) (I : matrix) (gy gx : Q) : Q :=
  let y0 := Qfloor gy in let x0 := Qfloor gx in
  let wy := (gy - inject_Z y0)%Q in let wx := (gx - inject_Z x0)%Q in
  let iy := (y0 + 1 <? Z.of_nat H)%Z in let ix := (x0 + 1 <? Z.of_nat W)%Z in
  (getp H W I y0 x0 * ((1 - wy) * (1 - wx))
   + zb ix (getp H W I y0 (x0 + 1)) * ((1 - wy) * wx)
   + zb iy (getp H W I (y0 + 1) x0) * (wy * (1 - wx))
   + zb (iy && ix) (getp H W I (y0 + 1) (x0 + 1)) * (wy * wx))%Q.

(* a genuinely circular sub-pixel shift (NOT what shift_origin_to computes at the seam) *)
Definition pshift_pattern (H W : nat) (oy ox cy cx : Q) (I : matrix) : matrix :=
  map (fun y => map (fun x =>
    pbilinear H W I (qmod (Qn y + (oy - cy)) (Qn H)) (qmod (Qn x + (ox - cx)) (Qn W)))
    (seq 0 W)) (seq 0 H).
