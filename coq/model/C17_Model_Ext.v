(* C17 — model extension (round 3).  Executable definitions ONLY; proofs are in
   proof/C17_Proofs_Ext.v.
     * _pixel_reliability  (wrapped second differences through torch.roll, +inf outside the mask)
     * the edge sort of _build_edges (key = rel[i1] + rel[i2], ascending) as an explicit, stable
       insertion sort, and `code_order` = the order in which the driver processes the edges
     * the driver run in the code's own order (`unwrap_code`)
     * unwrap_bf_overlap_phase_torch: embedding of the bright-field samples into the grid, the
       `max - min > pi` guard, first pass on phase * mask, optional second pass, extraction
     * the union-find state (parent, rank, offset) after every prefix (for the per-step tie) *)
From QV.lib Require Import Prelude.
From QV.model Require Import C17_Model.
From Coq Require Import QArith Qround.
Local Close Scope Q_scope.

(* ---------------------------------------------------------------- reliability *)
(* neighbour of flat pixel i in an H x W periodic grid: torch.roll(c, s, axis)[r, c] reads the
   pixel at (r - s) mod H resp. (c - s) mod W.  dr, dc in {0, 1, 2} stand for -1, 0, +1 so that
   everything stays in nat: (r + H + dr - 1) mod H *)
Definition nb (H W : nat) (i dr dc : nat) : nat :=
  ((i / W + H + dr - 1) mod H) * W + (i mod W + W + dc - 1) mod W.

Definition sq (x : Q) : Q := (x * x)%Q.

(* second difference through the centre: wrap(a - c) - wrap(c - b) *)
Definition sdiff (P a c b : Q) : Q := Qred (wrapP P (a - c) - wrapP P (c - b)).

(* R = Hterm^2 + Vterm^2 + D1term^2 + D2term^2 for every pixel (mask not yet applied) *)
Definition reliability_raw (P : Q) (H W : nat) (phi : nat -> Q) (i : nat) : Q :=
  let v := fun dr dc => phi (nb H W i dr dc) in
  let c := phi i in
  Qred (sq (sdiff P (v 1 0) c (v 1 2))        (* left,  right *)
      + sq (sdiff P (v 0 1) c (v 2 1))        (* up,    down  *)
      + sq (sdiff P (v 0 0) c (v 2 2))        (* ul,    dr    *)
      + sq (sdiff P (v 0 2) c (v 2 0))).      (* ur,    dl    *)

(* torch.where(mask, R, inf): None stands for +inf *)
Definition reliability (P : Q) (H W : nat) (mask : nat -> bool) (phi : nat -> Q) (i : nat)
  : option Q :=
  if mask i then Some (reliability_raw P H W phi i) else None.

(* ---------------------------------------------------------------- the sort *)
(* argsort of the keys, ascending: stable insertion sort on (key, element) pairs; keys are
   computed once per element *)
Fixpoint insert_kv {A : Type} (k : Q) (a : A) (l : list (Q * A)) : list (Q * A) :=
  match l with
  | [] => [(k, a)]
  | (k', b) :: r => if Qle_bool k k' then (k, a) :: l else (k', b) :: insert_kv k a r
  end.

Definition isort_kv {A : Type} (l : list (Q * A)) : list (Q * A) :=
  fold_right (fun ka acc => insert_kv (fst ka) (snd ka) acc) [] l.

Definition sort_by {A : Type} (key : A -> Q) (l : list A) : list A :=
  map snd (isort_kv (map (fun a => (key a, a)) l)).

(* rel = rel_f[i1] + rel_f[i2]; every kept edge has both ends in the mask, so the key is finite
   (the value for pixels outside the mask is never used; 0 is a placeholder) *)
Definition edge_key (rl : list Q) (e : nat * nat) : Q :=
  Qred (nth (fst e) rl 0%Q + nth (snd e) rl 0%Q).

Definition rel_list (P : Q) (H W : nat) (phi : nat -> Q) : list Q :=
  map (reliability_raw P H W phi) (seq 0 (H * W)).

(* the sorted (key, (i1, i2)) list: `order = rel.argsort()` applied to the edge columns *)
Definition code_sorted (P : Q) (H W : nat) (wrap : bool) (mask : nat -> bool) (phi : nat -> Q)
  : list (Q * (nat * nat)) :=
  let rl := rel_list P H W phi in
  isort_kv (map (fun e => (edge_key rl e, e)) (grid_pairs H W wrap mask)).

(* the (i1, i2) order in which _unwrap_phase_2d_torch_reliability_sorting feeds the union-find
   ( = sort_by (edge_key (rel_list P H W phi)) (grid_pairs H W wrap mask) ) *)
Definition code_order (P : Q) (H W : nat) (wrap : bool) (mask : nat -> bool) (phi : nat -> Q)
  : list (nat * nat) :=
  map snd (code_sorted P H W wrap mask phi).

(* the sorted keys themselves (harness: sortedness of the implementation's order) *)
Definition code_keys (P : Q) (H W : nat) (wrap : bool) (mask : nat -> bool) (phi : nat -> Q)
  : list Q :=
  map fst (code_sorted P H W wrap mask phi).

(* the reliability-sorting driver as written: reliability -> sorted edges -> union-find -> output *)
Definition unwrap_code (P : Q) (H W : nat) (wrap : bool) (mask : nat -> bool) (phiw : nat -> Q)
  : option (list Q) :=
  unwrap P (H * W) phiw (code_order P H W wrap mask phiw).

(* ---------------------------------------------------------------- masked embedding *)
(* grid[bf_mask] = vals  (boolean-mask assignment: row-major order of the True pixels) *)
Fixpoint embed {A : Type} (bf : list bool) (vals : list A) (d : A) : list A :=
  match bf with
  | [] => []
  | true :: r =>
    match vals with
    | v :: vs => v :: embed r vs d
    | [] => d :: embed r [] d
    end
  | false :: r => d :: embed r vals d
  end.

(* grid[bf_mask] *)
Fixpoint extract {A : Type} (bf : list bool) (g : list A) : list A :=
  match bf, g with
  | true :: r, v :: gs => v :: extract r gs
  | false :: r, _ :: gs => extract r gs
  | _, _ => []
  end.

(* flat grid positions of the True pixels, in order *)
Definition positions (bf : list bool) : list nat :=
  filter (fun i => nth i bf false) (seq 0 (length bf)).

Fixpoint maxQ (d : Q) (l : list Q) : Q :=
  match l with [] => d | x :: r => let m := maxQ x r in if Qle_bool x m then m else x end.
Fixpoint minQ (d : Q) (l : list Q) : Q :=
  match l with [] => d | x :: r => let m := minQ x r in if Qle_bool m x then m else x end.
Definition spanQ (l : list Q) : Q := (maxQ 0 l - minQ 0 l)%Q.

Definition b2q (b : bool) : Q := if b then 1%Q else 0%Q.
Definition lfun (l : list Q) : nat -> Q := fun i => nth i l 0%Q.
Definition mulmask (mask : nat -> bool) (l : list Q) : list Q :=
  map (fun i => (nth i l 0 * b2q (mask i))%Q) (seq 0 (length l)).

(* unwrap_bf_overlap_phase_torch on the grid (before the final `[bf_mask]`).
   `ord pass f` is the order in which the edges are processed in pass 0 / 1 for the input f
   (the code: code_order; the theorems: any permutation of the grid edges).
   phase_grid = embed bf ang 0 (ang = torch.angle(complex_data_bf)); mask_grid = embed bf mask_bf *)
Definition bf_grid (P : Q) (H W : nat) (wrap : bool)
           (ord : nat -> (nat -> bool) -> (nat -> Q) -> list (nat * nat))
           (bf : list bool) (ang : list Q) (mask_bf : list bool) (two_pass : bool)
  : option (list Q) :=
  let n := H * W in
  let pg := embed bf ang 0%Q in
  let mg := embed bf mask_bf false in
  let mask := mask_of mg in
  if existsb (fun b => b) mg then
    if Qltb P (spanQ pg) then
      let in1 := lfun (mulmask mask pg) in
      match unwrap P n in1 (ord 0 mask in1) with
      | None => None
      | Some o1 =>
        let g1 := mulmask mask o1 in
        if two_pass then
          match unwrap P n (lfun g1) (ord 1 mask (lfun g1)) with
          | None => None
          | Some o2 => Some (mulmask mask o2)
          end
        else Some g1
      end
    else Some pg
  else Some pg.

Definition bf_unwrap (P : Q) (H W : nat) (wrap : bool)
           (ord : nat -> (nat -> bool) -> (nat -> Q) -> list (nat * nat))
           (bf : list bool) (ang : list Q) (mask_bf : list bool) (two_pass : bool)
  : option (list Q) :=
  option_map (extract bf) (bf_grid P H W wrap ord bf ang mask_bf two_pass).

(* the code's own order in both passes *)
Definition bf_code_ord (P : Q) (H W : nat) (wrap : bool)
  : nat -> (nat -> bool) -> (nat -> Q) -> list (nat * nat) :=
  fun _ mask f => code_order P H W wrap mask f.

(* which branch is taken: 0 = empty mask, 1 = span <= P (returned as is), 2 = unwrapped *)
Definition bf_branch (P : Q) (bf : list bool) (ang : list Q) (mask_bf : list bool) : Z :=
  if existsb (fun b => b) (embed bf mask_bf false) then
    if Qltb P (spanQ (embed bf ang 0%Q)) then 2%Z else 1%Z
  else 0%Z.

(* ---------------------------------------------------------------- per-step union-find state *)
Definition st_z (st : uf) : list Z * list Z * list Z :=
  (map Z.of_nat (parent st), map Z.of_nat (rank st), offset st).

(* state after the whole list *)
Definition uf_state (n : nat) (es : list edge) : option (list Z * list Z * list Z) :=
  option_map st_z (run (fuel_of es) (uf_init n) es).

(* one run, both observables: (_final_offsets, final (parent, rank, offset)) *)
Definition uf_run_obs (n : nat) (es : list edge)
  : option (list Z * (list Z * list Z * list Z)) :=
  match run (fuel_of es) (uf_init n) es with
  | Some st => option_map (fun o => (o, st_z st)) (final_offsets (fuel_of es) st n)
  | None => None
  end.

(* states after every union (prefixes of length 1, 2, ...) *)
Fixpoint uf_trace_from (fuel : nat) (st : uf) (es : list edge)
  : list (option (list Z * list Z * list Z)) :=
  match es with
  | [] => []
  | (x, y, inc) :: r =>
    match union fuel st x y inc with
    | Some st' => Some (st_z st') :: uf_trace_from fuel st' r
    | None => [None]
    end
  end.
Definition uf_trace (n : nat) (es : list edge) := uf_trace_from (fuel_of es) (uf_init n) es.

(* ---------------------------------------------------------------- harness glue *)
(* phases given as (numerator, log2 denominator): exact float values *)
Definition qz (num : Z) (den : positive) : Q := Qmake num den.
Definition qlist (den : positive) (l : list Z) : list Q := map (fun k => Qmake k den) l.
Definition qpair (q : Q) : Z * Z := let r := Qred q in (Qnum r, Zpos (Qden r)).
Definition npairs (l : list (Z * Z)) : list (nat * nat) :=
  map (fun t => (Z.to_nat (fst t), Z.to_nat (snd t))) l.
(* a fixed order per pass (harness: the order recorded from the implementation) *)
Definition fixed_ord (o1 o2 : list (nat * nat))
  : nat -> (nat -> bool) -> (nat -> Q) -> list (nat * nat) :=
  fun pass _ _ => if pass =? 0 then o1 else o2.
