(* C05 — the vocabulary of the SOURCE TIE (round 4).  Definitions only.

   harness/c05_tie.py reads the current source of

     OptimizerMixin.reconnect_optimizer_to_parameters        (core/ml/optimizer_mixin.py)
     Ptychography.save, .reconstruct, ._record_iter, .reset_recon   (diffractive_imaging/ptychography.py)
     PtychographyBase.to, .reset_recon, ._store_current_iter_snapshot (…/ptychography_base.py)
     the `to` methods of the object / probe / dataset model classes

   and writes every function down as a SCRIPT: the list of its effects, in source order, in the token
   types below (one token per statement of a recognised shape, local variables by NAME; anything it
   does not recognise makes it refuse).  This file gives the tokens their meaning over the state of
   coq/model/C05_Model.v — these interpreters are the fixed, trusted meaning of the torch / Python
   calls involved (`dict.copy`, `list.clear`, `add_param_group`, `dict.update`, …) — and
   coq/gen_proofs/C05_GenProofs.v proves, on every run, that the scripts of the CURRENT source compute
   what the model's hand-written definitions compute (reconnect_model, save, to_dev, iterate) and that
   the attribute lists are the ones the model assumes.  Local names, the order of independent statements
   and statements without effect on the modelled state do not matter: only the computed function does. *)
From QV.lib Require Import Prelude.
From QV.model Require Import C05_Model.
From Coq Require Import String.
Local Open Scope string_scope.

Definition assoc {A : Type} (l : list (string * A)) (x : string) : option A :=
  match find (fun e => String.eqb (fst e) x) l with Some e => Some (snd e) | None => None end.

(* ================================================================ reconnect_optimizer_to_parameters *)
Inductive rtok :=
| RGuardNoOpt                        (* if self._optimizer is None: return *)
| RCurrent (x : string)              (* x = self.get_optimization_parameters()  (+ Tensor / Generator -> list) *)
| RFilterLeaf (y x : string)         (* y = [p for p in x if isinstance(p, torch.Tensor) and p.is_leaf] *)
| RIfEmptyRemove (y : string)        (* if not y: …; self.remove_optimizer(); return *)
| RRequiresGrad (y : string)         (* for p in y: p.requires_grad_(True) *)
| RSaveState (s : string)            (* s = self._optimizer.state.copy() *)
| RSaveParams (x : string)           (* x = [p for group in self._optimizer.param_groups for p in group["params"]] *)
| RSaveGroup (g : string)            (* g = self._optimizer.param_groups[0].copy() *)
| RClearGroups                       (* self._optimizer.param_groups.clear() *)
| RAddGroup (y : string)             (* self._optimizer.add_param_group({"params": y}) *)
| RNewDict (d : string)              (* d = {} *)
| RDevice (y : string)               (* device = y[0].device *)
| RRekey (x y s d : string)          (* for a, b in zip(x, y): if a not in s: continue; d[b] = copy of s[a] (moved to device) *)
| RClearState                        (* self._optimizer.state.clear() *)
| RUpdateState (d : string)          (* self._optimizer.state.update(d) *)
| RRestoreGroup (g : string)         (* self._optimizer.param_groups[0].update({k: v for k, v in g.items() if k != "params"}) *)
| RSchedRebind                       (* if self._scheduler is not None …: self._scheduler.optimizer = self._optimizer *)
| RReturn.

Section Reconnect.
  Variables V M R C SS : Type.
  Notation pst := (pstate M).
  Notation heap := (heap V M R SS).
  Notation mdl := (mdl C).

  (* the optimiser object while the function runs.  `e_groups` = param_groups (the parameter list of
     every group); `e_lr` = the settings of param_groups[0]: None = the defaults of a group that was just
     added (whatever they are, they are not the settings the optimiser had) *)
  Record renv := {
    e_lists : list (string * list id);
    e_dicts : list (string * list (id * pst));
    e_sets : list (string * R);
    e_groups : list (list id);
    e_lr : option R;
    e_state : list (id * pst);
    e_rebound : bool;                (* the scheduler has been pointed at this optimiser *)
    e_removed : bool;                (* remove_optimizer() was called *)
    e_done : bool                    (* a return statement was reached *)
  }.

  (* dict assignment in a loop: d[b] = s[a] for the pairs (a, b) whose a is a key of s *)
  Definition rekey_dict (prs : list (id * id)) (s d : list (id * pst)) : list (id * pst) :=
    fold_left (fun acc pr => match st_lookup s (fst pr) with
                             | Some ps => st_set acc (snd pr) ps
                             | None => acc
                             end) prs d.
  (* dict.update: assignment of every item, in order *)
  Definition dict_update (d new : list (id * pst)) : list (id * pst) :=
    fold_left (fun acc e => st_set acc (fst e) (snd e)) new d.

  Definition rstep (params : list id) (e : renv) (t : rtok) : option renv :=
    if e_done e then Some e else
    let upd_lists l := {| e_lists := l; e_dicts := e_dicts e; e_sets := e_sets e; e_groups := e_groups e;
                          e_lr := e_lr e; e_state := e_state e; e_rebound := e_rebound e;
                          e_removed := e_removed e; e_done := e_done e |} in
    let upd_dicts l := {| e_lists := e_lists e; e_dicts := l; e_sets := e_sets e; e_groups := e_groups e;
                          e_lr := e_lr e; e_state := e_state e; e_rebound := e_rebound e;
                          e_removed := e_removed e; e_done := e_done e |} in
    let upd_opt g lr st := {| e_lists := e_lists e; e_dicts := e_dicts e; e_sets := e_sets e; e_groups := g;
                              e_lr := lr; e_state := st; e_rebound := e_rebound e;
                              e_removed := e_removed e; e_done := e_done e |} in
    match t with
    | RGuardNoOpt => Some e                                   (* the optimiser exists here *)
    | RCurrent x => Some (upd_lists ((x, params) :: e_lists e))
    | RFilterLeaf y x =>                                      (* the model's parameters are leaf tensors *)
        match assoc (e_lists e) x with Some l => Some (upd_lists ((y, l) :: e_lists e)) | None => None end
    | RIfEmptyRemove y =>
        match assoc (e_lists e) y with
        | Some [] => Some {| e_lists := e_lists e; e_dicts := e_dicts e; e_sets := e_sets e; e_groups := e_groups e;
                             e_lr := e_lr e; e_state := e_state e; e_rebound := e_rebound e;
                             e_removed := true; e_done := true |}
        | Some (_ :: _) => Some e
        | None => None
        end
    | RRequiresGrad y | RDevice y =>
        match assoc (e_lists e) y with Some _ => Some e | None => None end
    | RSaveState s => Some (upd_dicts ((s, e_state e) :: e_dicts e))
    | RSaveParams x => Some (upd_lists ((x, List.concat (e_groups e)) :: e_lists e))
    | RSaveGroup g =>
        match e_groups e, e_lr e with
        | _ :: _, Some lr => Some {| e_lists := e_lists e; e_dicts := e_dicts e; e_sets := (g, lr) :: e_sets e;
                                     e_groups := e_groups e; e_lr := e_lr e; e_state := e_state e;
                                     e_rebound := e_rebound e; e_removed := e_removed e; e_done := e_done e |}
        | _, _ => None
        end
    | RClearGroups => Some (upd_opt [] None (e_state e))
    | RAddGroup y =>
        match assoc (e_lists e) y with
        | Some l => Some (upd_opt ((e_groups e ++ [l])%list) (match e_groups e with [] => None | _ :: _ => e_lr e end) (e_state e))
        | None => None
        end
    | RNewDict d => Some (upd_dicts ((d, []) :: e_dicts e))
    | RRekey x y s d =>
        match assoc (e_lists e) x, assoc (e_lists e) y, assoc (e_dicts e) s, assoc (e_dicts e) d with
        | Some lx, Some ly, Some ds, Some dd => Some (upd_dicts ((d, rekey_dict (combine lx ly) ds dd) :: e_dicts e))
        | _, _, _, _ => None
        end
    | RClearState => Some (upd_opt (e_groups e) (e_lr e) [])
    | RUpdateState d =>
        match assoc (e_dicts e) d with
        | Some dd => Some (upd_opt (e_groups e) (e_lr e) (dict_update (e_state e) dd))
        | None => None
        end
    | RRestoreGroup g =>
        match e_groups e, assoc (e_sets e) g with
        | _ :: _, Some lr => Some (upd_opt (e_groups e) (Some lr) (e_state e))
        | _, _ => None
        end
    | RSchedRebind => Some {| e_lists := e_lists e; e_dicts := e_dicts e; e_sets := e_sets e; e_groups := e_groups e;
                              e_lr := e_lr e; e_state := e_state e; e_rebound := true;
                              e_removed := e_removed e; e_done := e_done e |}
    | RReturn => Some {| e_lists := e_lists e; e_dicts := e_dicts e; e_sets := e_sets e; e_groups := e_groups e;
                         e_lr := e_lr e; e_state := e_state e; e_rebound := e_rebound e;
                         e_removed := e_removed e; e_done := true |}
    end.

  Fixpoint rexec (params : list id) (script : list rtok) (e : renv) : option renv :=
    match script with
    | [] => Some e
    | t :: rest => match rstep params e t with Some e' => rexec params rest e' | None => None end
    end.

  Definition starts_with_guard (script : list rtok) : bool :=
    match script with RGuardNoOpt :: _ => true | _ => false end.

  (* the function on the model's state: None = the Python would raise / reads an unbound name *)
  Definition run_reconnect (script : list rtok) (h : heap) (m : mdl) : option (heap * mdl) :=
    match mopt m with
    | None => if starts_with_guard script then Some (h, m) else None
    | Some o =>
      match ho h o with
      | None => Some (h, m)                                   (* dangling reference: not a Python state *)
      | Some ob =>
        match rexec (mparams m) script
                    {| e_lists := []; e_dicts := []; e_sets := []; e_groups := [oparams ob]; e_lr := Some (olr ob);
                       e_state := ostate ob; e_rebound := false; e_removed := false; e_done := false |} with
        | None => None
        | Some e =>
          if e_removed e then Some (h, {| mparams := mparams m; mopt := None; msched := None; mcons := mcons m |})
          else match e_lr e with
               | None => None                                 (* the group settings (lr, betas, …) were lost *)
               | Some lr =>
                 let ob' := {| okind := okind ob; oparams := List.concat (e_groups e); ostate := e_state e; olr := lr |} in
                 let hs' := if e_rebound e then
                              match msched m with
                              | Some s => match hs h s with
                                          | Some sb => fupd (hs h) s {| sopt := o; slast := slast sb; sst := sst sb |}
                                          | None => hs h
                                          end
                              | None => hs h
                              end
                            else hs h in
                 Some ({| hp := hp h; ho := fupd (ho h) o ob'; hs := hs'; hnext := hnext h |}, m)
               end
        end
      end
    end.
End Reconnect.

Arguments e_lists {M R} r.
Arguments e_dicts {M R} r.
Arguments e_sets {M R} r.
Arguments e_groups {M R} r.
Arguments e_lr {M R} r.
Arguments e_state {M R} r.
Arguments e_rebound {M R} r.
Arguments e_removed {M R} r.
Arguments e_done {M R} r.
Arguments rekey_dict {M} prs s d.
Arguments dict_update {M} d new.
Arguments rstep {M R} params e t.
Arguments rexec {M R} params script e.
Arguments run_reconnect {V M R C SS} script h m.

(* ================================================================ PtychographyBase.to *)
(* TModelTo i: `self.<model i>.to(dev)` for a model whose class' `to` moves the module and then calls
   self.reconnect_optimizer_to_parameters(); TNoModel: a statement that touches no model (device
   bookkeeping, masks, propagators, rng) *)
Inductive ttok := TModelTo (i : nat) | TNoModel.

Section To.
  Variables V M L R C SS : Type.
  Notation st := (st V M L R C SS).

  Definition reconnect_nth (written : bool) (i : nat) (s : st) : option st :=
    match nth_error (models (rc s)) i with
    | None => None                                            (* AttributeError *)
    | Some m =>
      let '(h, m') := reconnect_model written (hh s) m in
      Some {| hh := h; rc := {| models := upd_nth (models (rc s)) i (fun _ => m');
                                losses := losses (rc s); lrs := lrs (rc s) |} |}
    end.
  Fixpoint run_to (written : bool) (script : list ttok) (s : st) : option st :=
    match script with
    | [] => Some s
    | TNoModel :: rest => run_to written rest s
    | TModelTo i :: rest => match reconnect_nth written i s with Some s' => run_to written rest s' | None => None end
    end.
End To.
Arguments reconnect_nth {V M L R C SS} written i s.
Arguments run_to {V M L R C SS} written script s.

(* ================================================================ Ptychography.save *)
Inductive stok :=
| SMeta                       (* inside `if not save_raw_data`: self._dataset_metadata = {… learned positions / descan …} *)
| SSkipDset                   (* inside `if not save_raw_data`: "_dset" / "dset" added to the skip list *)
| SCapture (v : string)       (* v = self.device *)
| SToCpu                      (* self.to("cpu") *)
| SToVar (v : string)         (* self.to(v) *)
| SWrite                      (* super().save(path, …, skip=…) *)
| SDelMeta                    (* inside `if not save_raw_data …`: delattr(self, "_dataset_metadata") *)
| SNoEffect.                  (* argument normalisation, printing *)

Section Save.
  Variables V M L R C SS : Type.
  Notation st := (st V M L R C SS).

  (* devices are abstract: "cpu" or the name the object was on when save() was entered *)
  Inductive dev := DCpu | DOrig.
  Record senv := {
    s_live : st; s_dev : dev; s_vars : list (string * dev);
    s_meta : option (list (option V));       (* the value of _dataset_metadata on the live object *)
    s_skip : bool;
    s_file : option (st * option (list (option V)) * bool)    (* what was written: state, metadata, dataset skipped *)
  }.
  (* `raw` = save_raw_data; `di` = the index of the dataset model *)
  Definition sstep (written raw : bool) (di : nat) (e : senv) (t : stok) : option senv :=
    match t with
    | SMeta => Some (if raw then e else
                 {| s_live := s_live e; s_dev := s_dev e; s_vars := s_vars e;
                    s_meta := Some (meta_of (s_live e) di); s_skip := s_skip e; s_file := s_file e |})
    | SSkipDset => Some (if raw then e else
                 {| s_live := s_live e; s_dev := s_dev e; s_vars := s_vars e; s_meta := s_meta e; s_skip := true;
                    s_file := s_file e |})
    | SCapture v => Some {| s_live := s_live e; s_dev := s_dev e; s_vars := (v, s_dev e) :: s_vars e;
                            s_meta := s_meta e; s_skip := s_skip e; s_file := s_file e |}
    | SToCpu => Some {| s_live := to_dev written (s_live e); s_dev := DCpu; s_vars := s_vars e;
                        s_meta := s_meta e; s_skip := s_skip e; s_file := s_file e |}
    | SToVar v => match assoc (s_vars e) v with
                  | Some d => Some {| s_live := to_dev written (s_live e); s_dev := d; s_vars := s_vars e;
                                      s_meta := s_meta e; s_skip := s_skip e; s_file := s_file e |}
                  | None => None
                  end
    | SWrite => match s_dev e, s_file e with
                | DCpu, None =>                      (* serialised from the CPU, once *)
                    Some {| s_live := s_live e; s_dev := s_dev e; s_vars := s_vars e; s_meta := s_meta e;
                            s_skip := s_skip e;
                            s_file := Some (copy_st Joint (s_live e), s_meta e, s_skip e) |}
                | _, _ => None
                end
    | SDelMeta => Some (if raw then e else
                 {| s_live := s_live e; s_dev := s_dev e; s_vars := s_vars e; s_meta := None; s_skip := s_skip e;
                    s_file := s_file e |})
    | SNoEffect => Some e
    end.
  Fixpoint sexec (written raw : bool) (di : nat) (script : list stok) (e : senv) : option senv :=
    match script with
    | [] => Some e
    | t :: rest => match sstep written raw di e t with Some e' => sexec written raw di rest e' | None => None end
    end.
  (* result: (file state, metadata in the file, dataset skipped, the live object afterwards); the live
     object must be back on its device and carry no temporary metadata *)
  Definition run_save (written raw : bool) (di : nat) (script : list stok) (s : st)
    : option (st * option (list (option V)) * bool * st) :=
    match sexec written raw di script
                {| s_live := s; s_dev := DOrig; s_vars := []; s_meta := None; s_skip := false; s_file := None |} with
    | Some e =>
      match s_file e, s_dev e, s_meta e with
      | Some (f, meta, skipped), DOrig, None => Some (f, meta, skipped, s_live e)
      | _, _, _ => None
      end
    | None => None
    end.
End Save.
Arguments run_save {V M L R C SS} written raw di script s.

(* ================================================================ one iteration of reconstruct() *)
Inductive itok :=
| IBatchStep        (* the batch loop: zero_grad_all; forward; loss; backward; step_optimizers *)
| IValAppend        (* if batcher.has_validation: … no_grad … self._iter_val_losses.append(val_loss) *)
| IRecord           (* self._record_iter(total_loss) *)
| ISched            (* self.step_schedulers(total_loss) *)
| ISnapshot         (* if self.store_snapshots and …: self._store_current_iter_snapshot() *)
| INoState.         (* loss accumulators, constraint-loss reset, logger, progress bar *)
(* _record_iter *)
Inductive ktok :=
| KLoss                   (* self._iter_losses.append(iter_loss) *)
| KLrs (back : nat).      (* the learning-rate bookkeeping: current lr of every optimiser appended, 0.0 for a vanished
                             one, a new key back-filled with 0.0 for `self.num_iters - back` iterations *)

Section Iter.
  Variables V G M L R C SS : Type.
  Variable Rzero : R.
  Variable forward : list (list (option V) * C) -> L * list (list (option G)).
  Variable opt_update : opt_kind -> R -> V -> G -> option (pstate M) -> V * option (pstate M).
  Variable sched_step : SS -> nat -> L -> R -> SS * R.
  Notation st := (st V M L R C SS).

  (* extra histories that the model does not carry: counted only (validation losses, snapshots) *)
  Record ienv := { i_st : st; i_loss : option L; i_nval : nat; i_nsnap : nat }.

  Definition kstep (loss : L) (s : st) (t : ktok) : st :=
    match t with
    | KLoss => {| hh := hh s; rc := {| models := models (rc s); losses := (losses (rc s) ++ [loss])%list; lrs := lrs (rc s) |} |}
    | KLrs back =>
        {| hh := hh s;
           rc := {| models := models (rc s); losses := losses (rc s);
                    (* record_lrs n back-fills n - 1 entries *)
                    lrs := record_lrs Rzero (S (List.length (losses (rc s)) - back))
                                      (map (cur_lr (hh s)) (models (rc s))) (lrs (rc s)) |} |}
    end.

  Definition istep (rec : list ktok) (e : ienv) (t : itok) : option ienv :=
    match t with
    | IBatchStep =>
        match i_loss e with
        | Some _ => None                                  (* one full batch per iteration *)
        | None =>
          let s := i_st e in
          let ms := models (rc s) in
          let '(loss, grads) := forward (map (fun m => (map (hp (hh s)) (mparams m), mcons m)) ms) in
          Some {| i_st := {| hh := fold_left (opt_step_model opt_update) (zipd ms grads) (hh s); rc := rc s |};
                  i_loss := Some loss; i_nval := i_nval e; i_nsnap := i_nsnap e |}
        end
    | IValAppend => Some {| i_st := i_st e; i_loss := i_loss e; i_nval := S (i_nval e); i_nsnap := i_nsnap e |}
    | IRecord =>
        match i_loss e with
        | Some loss => Some {| i_st := fold_left (kstep loss) rec (i_st e); i_loss := i_loss e;
                               i_nval := i_nval e; i_nsnap := i_nsnap e |}
        | None => None
        end
    | ISched =>
        match i_loss e with
        | Some loss =>
          let s := i_st e in
          Some {| i_st := {| hh := fold_left (sched_step_model sched_step loss) (models (rc s)) (hh s); rc := rc s |};
                  i_loss := i_loss e; i_nval := i_nval e; i_nsnap := i_nsnap e |}
        | None => None
        end
    | ISnapshot => Some {| i_st := i_st e; i_loss := i_loss e; i_nval := i_nval e; i_nsnap := S (i_nsnap e) |}
    | INoState => Some e
    end.
  Fixpoint iexec (rec : list ktok) (script : list itok) (e : ienv) : option ienv :=
    match script with
    | [] => Some e
    | t :: rest => match istep rec e t with Some e' => iexec rec rest e' | None => None end
    end.
  Definition run_iter (rec : list ktok) (script : list itok) (s : st) : option st :=
    match iexec rec script {| i_st := s; i_loss := None; i_nval := 0; i_nsnap := 0 |} with
    | Some e => Some (i_st e)
    | None => None
    end.
End Iter.
Arguments run_iter {V G M L R C SS} Rzero forward opt_update sched_step rec script s.

(* ================================================================ attribute lists the model assumes *)
(* the histories of a reconstruction (name, the empty value reset_recon assigns) *)
Definition model_reset_fields : list (string * string) :=
  [("_iter_losses", "list"); ("_iter_lrs", "dict"); ("_iter_recon_types", "list");
   ("_iter_val_losses", "list"); ("_snapshots", "list")].
(* what PtychographyBase.reset_recon calls besides (sorted): generator re-seeded, every model back to its
   initial values, propagators recomputed, object constraints back to their defaults *)
Definition model_reset_calls : list string :=
  ["_reset_rng"; "compute_propagator_arrays"; "dset.reset"; "obj_model.constraints:=DEFAULT_CONSTRAINTS";
   "obj_model.reset"; "probe_model.reset"].
(* Ptychography.reset_recon: the base class first, then a fresh optimiser + scheduler for every model *)
Definition model_reset_top : list string :=
  ["super.reset_recon"; "obj_model.reset_optimizer"; "probe_model.reset_optimizer"; "dset.reset_optimizer"].
(* the histories one iteration of reconstruct() appends to (sorted; `_iter_val_losses` only with a
   validation split, `_snapshots` only when snapshots are stored) *)
Definition model_iter_appends : list string := ["_iter_losses"; "_iter_lrs"; "_iter_val_losses"; "_snapshots"].
(* a snapshot: (field, what it is taken from, the snapshot owns its data) *)
Definition model_snapshot : list (string * string * bool) :=
  [("iteration", "num_iters", true); ("obj", "obj", true); ("probe", "probe", true)].
(* the order of the models: index in the model's `models` list (harness: MODEL_IDX) *)
Definition model_order : list string := ["obj_model"; "probe_model"; "dset"].

(* histories as a map name -> length: reset, and one iteration's appends *)
Definition hist_reset (fields : list (string * string)) (h : list (string * nat)) : list (string * nat) :=
  map (fun e => if existsb (fun f => String.eqb (fst f) (fst e)) fields then (fst e, 0) else e) h.
Definition hist_append (names : list string) (h : list (string * nat)) : list (string * nat) :=
  map (fun e => if existsb (String.eqb (fst e)) names then (fst e, S (snd e)) else e) h.
Fixpoint hist_iter (n : nat) (names : list string) (h : list (string * nat)) : list (string * nat) :=
  match n with 0 => h | S k => hist_iter k names (hist_append names h) end.
