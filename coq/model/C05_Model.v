(* C05 — checkpoint / resume equivalence for iterative ptychography (save, reload, clone).

   Executable model of the BOOKKEEPING of
     quantem.diffractive_imaging.ptychography.Ptychography   (reconstruct loop, _record_iter, save, from_file, clone)
     quantem.diffractive_imaging.ptychography_base.PtychographyBase.to
     quantem.diffractive_imaging.ptychography_opt.PtychographyOpt  (step_optimizers, step_schedulers)
     quantem.core.ml.optimizer_mixin.OptimizerMixin  (set_optimizer, set_scheduler, remove_optimizer,
                                                      reconnect_optimizer_to_parameters)
     quantem.core.io.serialize.AutoSerialize         (which sub-objects are pickled together)
   over an explicit heap.  Definitions only; proofs are in proof/C05_Proofs*.v.

   HEAP.  Three kinds of cells share one allocation counter `hnext`:
     parameter cells   id |-> value of an nn.Parameter
     optimiser objects id |-> kind, param_groups[0]["params"] as a list of REFERENCES (ids of
                              parameter cells), the state dict (insertion ordered, keyed by
                              parameter reference, as torch keys it), lr (stands for all group settings)
     scheduler objects id |-> REFERENCE to its optimiser, last_epoch, internal state
   A model (object / probe / dataset) holds references to its parameter cells, optionally to
   its optimiser and scheduler, and its constraint dictionary.  A reconstruction holds its
   models and the histories (_iter_losses, _iter_lrs).

   WHAT IS PICKLED TOGETHER (read off serialize.py and confirmed on a stored tree):
     * Ptychography.save -> AutoSerialize._recursive_save over Ptychography.__dict__: every model
       is an nn.Module and goes through the `_torch_whole_module` branch: ONE torch.save blob per
       model, which contains the model's parameters AND its _optimizer AND its _scheduler (they are
       attributes of the module).  Sharing inside a model is preserved, nothing is shared
       across blobs.                                                      -> granularity Joint
     * AutoSerialize.save called on a model object itself (obj_model.save(path)) walks the
       model's __dict__: the parameters, `_optimizer` and `_scheduler` are written by three
       separate torch.save calls, so the optimiser blob carries its own copies of the parameter
       tensors and the scheduler blob its own copy of the optimiser.      -> granularity Split
     * copy.deepcopy (clone) uses one memo for the whole object.          -> granularity Deep
   A pickle/deepcopy unit is modelled as a block copy of the heap with all references inside
   the block shifted by the block base (an isomorphic copy: ids are not observable, sharing
   patterns are).  Which block each reference of the root object points into is the
   granularity. *)
From QV.lib Require Import Prelude.

Definition id := nat.
Inductive opt_kind := SGD | SGDm | Adam | AdamW.
(* Deep: one memo (deepcopy).  Joint: one blob per model.  Split: parameters / optimiser /
   scheduler of a model in three blobs.  ModelSplit i: only model i is saved and loaded (on its
   own, hence split), the other models stay as they are. *)
Inductive gran := Deep | Joint | Split | ModelSplit (i : nat).

Section C05.
  Variables V G M L R C SS : Type.
  (* V parameter tensor value, G gradient, M optimiser moments of one parameter, L loss,
     R learning rate (all param_group settings), C constraint dictionary of one model,
     SS scheduler-internal state *)
  Variable Rzero : R.                                    (* the 0.0 that _record_iter back-fills *)
  (* ---- the abstract numerical kernels (oracle assumptions: deterministic functions) ---- *)
  (* forward + loss + backward: from every model's parameter VALUES (read through the MODEL's
     references) and constraints to the loss and, per model and parameter, an optional
     gradient (None: the parameter receives no gradient, e.g. an unused probe tilt) *)
  Variable forward : list (list (option V) * C) -> L * list (list (option G)).

  Record pstate := { ps_steps : nat; ps_mom : M }.        (* optimizer.state[p] *)
  (* one parameter update: kind, lr, value, gradient, state entry -> new value, new entry
     (None: the optimiser keeps no state for this kind, plain SGD) *)
  Variable opt_update : opt_kind -> R -> V -> G -> option pstate -> V * option pstate.
  Variable sched_init : SS -> R -> SS * R.                (* scheduler construction (initial step) *)
  Variable sched_step : SS -> nat -> L -> R -> SS * R.    (* internal state, last_epoch, loss, lr *)

  Record optobj := { okind : opt_kind; oparams : list id; ostate : list (id * pstate); olr : R }.
  Record schedobj := { sopt : id; slast : nat; sst : SS }.
  Record heap := { hp : id -> option V; ho : id -> option optobj; hs : id -> option schedobj; hnext : id }.
  Record mdl := { mparams : list id; mopt : option id; msched : option id; mcons : C }.
  Record recon := { models : list mdl; losses : list L; lrs : list (nat * list R) }.
  Record st := { hh : heap; rc : recon }.

  Definition fupd {A : Type} (f : id -> option A) (i : id) (a : A) : id -> option A :=
    fun j => if Nat.eqb j i then Some a else f j.

  (* ------------------------------------------------------------- the optimiser state dict *)
  Fixpoint st_lookup (l : list (id * pstate)) (r : id) : option pstate :=
    match l with
    | [] => None
    | (k, ps) :: t => if Nat.eqb k r then Some ps else st_lookup t r
    end.
  (* dict assignment: replace in place, or append a new key at the end *)
  Fixpoint st_set (l : list (id * pstate)) (r : id) (ps : pstate) : list (id * pstate) :=
    match l with
    | [] => [(r, ps)]
    | (k, q) :: t => if Nat.eqb k r then (k, ps) :: t else (k, q) :: st_set t r ps
    end.
  Definition st_put (l : list (id * pstate)) (r : id) (o : option pstate) : list (id * pstate) :=
    match o with Some ps => st_set l r ps | None => l end.

  (* ------------------------------------------------------------- one iteration (FULL batch) *)
  (* FIELDS READ by an iteration (and written back): for every model its parameter values,
     constraints, optimiser kind / lr / per-parameter state, scheduler last_epoch / internal
     state — reached through the references below — and the two histories. *)

  (* loss.backward() leaves the gradient ON the model's parameter tensor: a map from cell id *)
  Fixpoint grad_map (ps : list id) (gs : list (option G)) : id -> option G :=
    match ps with
    | [] => fun _ => None
    | p :: t => fun r => if Nat.eqb r p then hd None gs else grad_map t (tl gs) r
    end.

  (* optimizer.step(): for every REFERENCE the optimiser holds, in order: if that tensor has a
     gradient, update the tensor it refers to and the state entry keyed by that reference *)
  Definition opt_step1 (gm : id -> option G) (acc : (id -> option V) * optobj) (r : id)
    : (id -> option V) * optobj :=
    let '(hpv, ob) := acc in
    match gm r, hpv r with
    | Some g, Some v =>
        let '(v', ps') := opt_update (okind ob) (olr ob) v g (st_lookup (ostate ob) r) in
        (fupd hpv r v',
         {| okind := okind ob; oparams := oparams ob; ostate := st_put (ostate ob) r ps'; olr := olr ob |})
    | _, _ => acc
    end.

  Definition opt_step_model (h : heap) (mg : mdl * list (option G)) : heap :=
    let '(m, gs) := mg in
    match mopt m with
    | None => h
    | Some o =>
      match ho h o with
      | None => h
      | Some ob =>
        let '(hpv, ob') := fold_left (opt_step1 (grad_map (mparams m) gs)) (oparams ob) (hp h, ob) in
        {| hp := hpv; ho := fupd (ho h) o ob'; hs := hs h; hnext := hnext h |}
      end
    end.

  Fixpoint zipd (ms : list mdl) (gs : list (list (option G))) : list (mdl * list (option G)) :=
    match ms with
    | [] => []
    | m :: t => (m, hd [] gs) :: zipd t (tl gs)
    end.

  Definition cur_lr (h : heap) (m : mdl) : option R :=
    match mopt m with
    | Some o => match ho h o with Some ob => Some (olr ob) | None => None end
    | None => None
    end.

  (* Ptychography._record_iter: existing keys get the current lr (0.0 when the optimiser is
     gone); a new optimiser's history is back-filled with 0.0.  Keys are model indices. *)
  Definition has_key (k : nat) (l : list (nat * list R)) : bool := existsb (fun e => Nat.eqb (fst e) k) l.
  Definition record_lrs (niter : nat) (cur : list (option R)) (old : list (nat * list R))
    : list (nat * list R) :=
    map (fun e => (fst e, snd e ++ [match nth (fst e) cur None with Some lr => lr | None => Rzero end])) old
    ++ flat_map (fun k => match nth k cur None with
                          | Some lr => if has_key k old then [] else [(k, repeat Rzero (niter - 1) ++ [lr])]
                          | None => []
                          end) (seq 0 (length cur)).

  (* scheduler.step(): writes the lr of the optimiser the SCHEDULER refers to *)
  Definition sched_step_model (loss : L) (h : heap) (m : mdl) : heap :=
    match msched m with
    | None => h
    | Some s =>
      match hs h s with
      | None => h
      | Some sb =>
        match ho h (sopt sb) with
        | None => h
        | Some ob =>
          let '(ss', lr') := sched_step (sst sb) (slast sb) loss (olr ob) in
          {| hp := hp h;
             ho := fupd (ho h) (sopt sb) {| okind := okind ob; oparams := oparams ob; ostate := ostate ob; olr := lr' |};
             hs := fupd (hs h) s {| sopt := sopt sb; slast := S (slast sb); sst := ss' |};
             hnext := hnext h |}
        end
      end
    end.

  Definition iterate (s : st) : st :=
    let h := hh s in
    let ms := models (rc s) in
    let '(loss, grads) := forward (map (fun m => (map (hp h) (mparams m), mcons m)) ms) in
    let h1 := fold_left opt_step_model (zipd ms grads) h in
    let losses' := losses (rc s) ++ [loss] in
    let lrs' := record_lrs (length losses') (map (cur_lr h1) ms) (lrs (rc s)) in
    let h2 := fold_left (sched_step_model loss) ms h1 in
    {| hh := h2; rc := {| models := ms; losses := losses'; lrs := lrs' |} |}.

  Fixpoint run (k : nat) (s : st) : st :=
    match k with 0 => s | S k' => run k' (iterate s) end.

  (* ------------------------------------------------------------- to(device) + reconnect *)
  (* reconnect_optimizer_to_parameters.  param_groups is rebuilt from the model's current
     parameters; the state is re-keyed; lr and the other settings are kept; the scheduler is
     pointed at the optimiser again.
       AS WRITTEN (pinned commit): `for i, old_param in enumerate(old_state.keys())` — the i-th
         KEY OF THE STATE DICT goes to the i-th current parameter.
       REPAIRED (fixes/C05-reconnect-rekey-by-parameter.diff): the state of the i-th OLD
         PARAMETER (param_groups order) goes to the i-th current parameter. *)
  Definition rekey_by_position (new_params : list id) (old_state : list (id * pstate)) : list (id * pstate) :=
    combine new_params (map snd old_state).
  Definition rekey_by_param (old_params new_params : list id) (old_state : list (id * pstate))
    : list (id * pstate) :=
    flat_map (fun pr => match st_lookup old_state (fst pr) with Some ps => [(snd pr, ps)] | None => [] end)
             (combine old_params new_params).

  Definition reconnect_model (written : bool) (h : heap) (m : mdl) : heap * mdl :=
    match mopt m with
    | None => (h, m)
    | Some o =>
      match ho h o with
      | None => (h, m)
      | Some ob =>
        match mparams m with
        | [] => (h, {| mparams := []; mopt := None; msched := None; mcons := mcons m |})   (* remove_optimizer *)
        | _ :: _ =>
          let st' := if written then rekey_by_position (mparams m) (ostate ob)
                     else rekey_by_param (oparams ob) (mparams m) (ostate ob) in
          let ob' := {| okind := okind ob; oparams := mparams m; ostate := st'; olr := olr ob |} in
          let hs' := match msched m with
                     | Some s => match hs h s with
                                 | Some sb => fupd (hs h) s {| sopt := o; slast := slast sb; sst := sst sb |}
                                 | None => hs h
                                 end
                     | None => hs h
                     end in
          ({| hp := hp h; ho := fupd (ho h) o ob'; hs := hs'; hnext := hnext h |}, m)
        end
      end
    end.

  Fixpoint reconnect_all (written : bool) (h : heap) (ms : list mdl) : heap * list mdl :=
    match ms with
    | [] => (h, [])
    | m :: t =>
      let '(h1, m1) := reconnect_model written h m in
      let '(h2, t2) := reconnect_all written h1 t in
      (h2, m1 :: t2)
    end.

  (* PtychographyBase.to: obj_model.to, probe_model.to, dset.to — each reconnects *)
  Definition to_dev (written : bool) (s : st) : st :=
    let '(h, ms) := reconnect_all written (hh s) (models (rc s)) in
    {| hh := h; rc := {| models := ms; losses := losses (rc s); lrs := lrs (rc s) |} |}.

  (* ------------------------------------------------------------- pickling / deepcopy *)
  (* block q >= 1 of the copied heap holds a copy of every cell of h (local id i at n*q + i,
     n = hnext h) with the references inside optimiser and scheduler objects shifted into the
     same block; block 0 is h itself *)
  Definition cref (n q r : nat) : id := n * q + r.
  Definition shift_opt (b : nat) (ob : optobj) : optobj :=
    {| okind := okind ob; oparams := map (Nat.add b) (oparams ob);
       ostate := map (fun e => (b + fst e, snd e)) (ostate ob); olr := olr ob |}.
  Definition shift_sched (b : nat) (sb : schedobj) : schedobj :=
    {| sopt := b + sopt sb; slast := slast sb; sst := sst sb |}.

  Definition copy_heap (h : heap) (nb : nat) : heap :=
    let n := hnext h in
    {| hp := fun j => if j <? n then hp h j else if j <? n * S nb then hp h (j mod n) else None;
       ho := fun j => if j <? n then ho h j
                      else if j <? n * S nb then option_map (shift_opt (n * (j / n))) (ho h (j mod n)) else None;
       hs := fun j => if j <? n then hs h j
                      else if j <? n * S nb then option_map (shift_sched (n * (j / n))) (hs h (j mod n)) else None;
       hnext := n * S nb |}.

  (* blocks used by the parameters / optimiser / scheduler references of model i *)
  Definition blocks (g : gran) (i : nat) : option (nat * nat * nat) :=
    match g with
    | Deep => Some (1, 1, 1)
    | Joint => Some (S i, S i, S i)
    | Split => Some (3 * i + 1, 3 * i + 2, 3 * i + 3)
    | ModelSplit i0 => if Nat.eqb i i0 then Some (1, 2, 3) else None
    end.
  Definition nblocks (g : gran) (nm : nat) : nat :=
    match g with Deep => 1 | Joint => nm | Split => 3 * nm | ModelSplit _ => 3 end.

  Definition copy_model (n : nat) (a : option (nat * nat * nat)) (m : mdl) : mdl :=
    match a with
    | None => m
    | Some (qp, qo, qs) =>
      {| mparams := map (cref n qp) (mparams m); mopt := option_map (cref n qo) (mopt m);
         msched := option_map (cref n qs) (msched m); mcons := mcons m |}
    end.
  Fixpoint copy_models (n : nat) (a : nat -> option (nat * nat * nat)) (i : nat) (ms : list mdl) : list mdl :=
    match ms with
    | [] => []
    | m :: t => copy_model n (a i) m :: copy_models n a (S i) t
    end.

  (* serialise + deserialise (or deepcopy) with granularity g: the copy lives next to the
     original in the same heap (all its cells are fresh: ids >= the old hnext) *)
  Definition copy_st (g : gran) (s : st) : st :=
    let n := hnext (hh s) in
    {| hh := copy_heap (hh s) (nblocks g (length (models (rc s))));
       rc := {| models := copy_models n (blocks g) 0 (models (rc s));
                losses := losses (rc s); lrs := lrs (rc s) |} |}.

  (* Ptychography.save: to("cpu"); write; to(current_device).  The file is a state of its own. *)
  Definition save (written : bool) (g : gran) (s : st) : st * st :=    (* (file, the live object afterwards) *)
    let s1 := to_dev written s in
    (copy_st g s1, to_dev written s1).
  (* Ptychography.from_file(path, device): load; optionally .to(device) *)
  Definition load (written : bool) (dev : bool) (file : st) : st :=
    if dev then to_dev written file else file.
  Definition reload (written : bool) (g : gran) (dev : bool) (s : st) : st :=
    load written dev (fst (save written g s)).
  (* Ptychography.clone: deepcopy, then cloned.to(device) *)
  Definition clone (written : bool) (s : st) : st := to_dev written (copy_st Deep s).
  (* clone when deepcopy raises: save(tmp, save_raw_data=True); from_file(tmp, device=None); .to(device) *)
  Definition clone_fallback (written : bool) (s : st) : st :=
    to_dev written (load written false (fst (save written Joint s))).

  (* ------------------------------------------------------------- building a reconstruction *)
  Fixpoint upd_nth {A : Type} (l : list A) (i : nat) (f : A -> A) : list A :=
    match l, i with
    | [], _ => []
    | x :: t, 0 => f x :: t
    | x :: t, S i' => x :: upd_nth t i' f
    end.

  (* ------------------------------------------------------------- save() WITHOUT the raw data *)
  (* Ptychography.save(save_raw_data=False) (the default): `_dset` / `dset` are skipped by the
     serialiser, so the dataset model (index i) — its parameter cells, optimiser and scheduler —
     is NOT in the file; `_dataset_metadata` carries the VALUES of its parameters
     ("learned_scan_positions_px", "learned_descan_shifts": `.data.cpu()` of the model's own
     tensors, taken before the object is moved).  from_file(path, dset=d): d is a freshly
     preprocessed dataset model — its own parameter cells, no optimiser, no scheduler, its own
     constraint dictionary c; `_set_initial_scan_positions_px` resets its cells and then their
     `.data` is overwritten with the metadata values; `ptycho.dset = d` makes it model i of the
     loaded reconstruction.  (The other route, save_raw_data=True + from_file(path), is `reload`.) *)
  Definition meta_of (s : st) (i : nat) : list (option V) :=
    match nth_error (models (rc s)) i with
    | Some m => map (hp (hh s)) (mparams m)
    | None => []
    end.
  Definition attach (i : nat) (meta : list (option V)) (c : C) (s : st) : st :=
    let h := hh s in
    let n := hnext h in
    match nth_error (models (rc s)) i with
    | None => s
    | Some _ =>
      {| hh := {| hp := fun j => if j <? n then hp h j
                                 else if j <? n + length meta then nth (j - n) meta None else hp h j;
                  ho := ho h; hs := hs h; hnext := n + length meta |};
         rc := {| models := upd_nth (models (rc s)) i
                             (fun _ => {| mparams := seq n (length meta); mopt := None; msched := None; mcons := c |});
                  losses := losses (rc s); lrs := lrs (rc s) |} |}
    end.
  (* (the blob of model i is simply never read: copying it and dropping the reference is the same
     thing in a heap whose ids are not observable) *)
  Definition reload_meta (written : bool) (i : nat) (c : C) (dev : bool) (s : st) : st :=
    let s1 := to_dev written s in
    load written dev (attach i (meta_of s1 i) c (copy_st Joint s1)).

  (* set_optimizer + set_scheduler of model i (reconstruct(optimizer_params=…, scheduler_params=…)):
     a NEW optimiser over the model's current parameters with empty state, and a new scheduler
     (or none) that refers to it.  torch refuses an empty parameter list: then nothing changes. *)
  Definition set_opt (i : nat) (k : opt_kind) (lr : R) (sc : option SS) (s : st) : st :=
    let h := hh s in
    match nth_error (models (rc s)) i with
    | None => s
    | Some m =>
      match mparams m with
      | [] => s
      | _ :: _ =>
        let o := hnext h in
        match sc with
        | None =>
          {| hh := {| hp := hp h; ho := fupd (ho h) o {| okind := k; oparams := mparams m; ostate := []; olr := lr |};
                      hs := hs h; hnext := S o |};
             rc := {| models := upd_nth (models (rc s)) i
                                 (fun m => {| mparams := mparams m; mopt := Some o; msched := None; mcons := mcons m |});
                      losses := losses (rc s); lrs := lrs (rc s) |} |}
        | Some ss =>
          let '(ss', lr') := sched_init ss lr in
          {| hh := {| hp := hp h; ho := fupd (ho h) o {| okind := k; oparams := mparams m; ostate := []; olr := lr' |};
                      hs := fupd (hs h) (S o) {| sopt := o; slast := 0; sst := ss' |}; hnext := S (S o) |};
             rc := {| models := upd_nth (models (rc s)) i
                                 (fun m => {| mparams := mparams m; mopt := Some o; msched := Some (S o); mcons := mcons m |});
                      losses := losses (rc s); lrs := lrs (rc s) |} |}
        end
      end
    end.
  Definition remove_opt (i : nat) (s : st) : st :=
    {| hh := hh s;
       rc := {| models := upd_nth (models (rc s)) i
                           (fun m => {| mparams := mparams m; mopt := None; msched := None; mcons := mcons m |});
                losses := losses (rc s); lrs := lrs (rc s) |} |}.
  Definition set_cons (i : nat) (c : C) (s : st) : st :=
    {| hh := hh s;
       rc := {| models := upd_nth (models (rc s)) i
                           (fun m => {| mparams := mparams m; mopt := mopt m; msched := msched m; mcons := c |});
                losses := losses (rc s); lrs := lrs (rc s) |} |}.

  (* a freshly preprocessed reconstruction: model j has parameters with the given initial
     values (ids allocated consecutively), no optimisers, empty histories *)
  Fixpoint init_models (next : nat) (spec : list (list V * C)) : list mdl :=
    match spec with
    | [] => []
    | (vs, c) :: t =>
      {| mparams := seq next (length vs); mopt := None; msched := None; mcons := c |}
      :: init_models (next + length vs) t
    end.
  Definition init_st (spec : list (list V * C)) : st :=
    let vals := concat (map fst spec) in
    {| hh := {| hp := fun j => nth_error vals j; ho := fun _ => None; hs := fun _ => None; hnext := length vals |};
       rc := {| models := init_models 0 spec; losses := []; lrs := [] |} |}.

  (* ------------------------------------------------------------- operation histories *)
  Inductive op :=
  | OpSetOpt (i : nat) (k : opt_kind) (lr : R) (sc : option SS)
  | OpRemoveOpt (i : nat)
  | OpSetCons (i : nat) (c : C)
  | OpIter
  | OpTo                          (* .to(device) *)
  | OpSaveContinue                (* save(); go on with the object that was saved *)
  | OpReload (dev : bool)         (* save(); go on with from_file(path[, device]) *)
  | OpClone                       (* go on with clone() *)
  | OpCloneFallback               (* go on with clone() whose deepcopy failed *)
  | OpModelReload (i : nat)       (* m = load(save(model i)); recon.model_i = m  (the setter calls m.to(device)) *)
  | OpReloadMeta (i : nat) (c : C) (dev : bool).   (* save(save_raw_data=False); go on with from_file(path, dset=d[, device]) *)

  Definition apply_op (written : bool) (o : op) (s : st) : st :=
    match o with
    | OpSetOpt i k lr sc => set_opt i k lr sc s
    | OpRemoveOpt i => remove_opt i s
    | OpSetCons i c => set_cons i c s
    | OpIter => iterate s
    | OpTo => to_dev written s
    | OpSaveContinue => snd (save written Joint s)
    | OpReload dev => reload written Joint dev s
    | OpClone => clone written s
    | OpCloneFallback => clone_fallback written s
    | OpModelReload i => to_dev written (copy_st (ModelSplit i) s)
    | OpReloadMeta i c dev => reload_meta written i c dev s
    end.
  Definition run_ops (written : bool) (ops : list op) (s : st) : st :=
    fold_left (fun s o => apply_op written o s) ops s.

  (* ------------------------------------------------------------- the id-free view *)
  (* exactly the fields an iteration reads, with every reference resolved: this is what
     `the same state` means for two reconstructions living at different heap addresses *)
  Record mview := { vvals : list (option V); vcons : C;
                    vopt : option (opt_kind * R * list (option pstate));
                    vsched : option (nat * SS) }.
  Record view := { vmodels : list mview; vlosses : list L; vlrs : list (nat * list R) }.

  Definition mview_of (h : heap) (m : mdl) : mview :=
    {| vvals := map (hp h) (mparams m);
       vcons := mcons m;
       vopt := match mopt m with
               | Some o => match ho h o with
                           | Some ob => Some (okind ob, olr ob, map (st_lookup (ostate ob)) (oparams ob))
                           | None => None
                           end
               | None => None
               end;
       vsched := match msched m with
                 | Some s => match hs h s with Some sb => Some (slast sb, sst sb) | None => None end
                 | None => None
                 end |}.
  Definition view_of (s : st) : view :=
    {| vmodels := map (mview_of (hh s)) (models (rc s)); vlosses := losses (rc s); vlrs := lrs (rc s) |}.

  (* what the property statement lets a user observe: iteration count, loss history, lr
     history, constraints, and the parameter values (object and probe are functions of the
     parameter values and the constraints) *)
  Record observation := { o_iters : nat; o_losses : list L; o_lrs : list (nat * list R);
                          o_cons : list C; o_vals : list (list (option V)) }.
  Definition obs_of_view (v : view) : observation :=
    {| o_iters := length (vlosses v); o_losses := vlosses v; o_lrs := vlrs v;
       o_cons := map vcons (vmodels v); o_vals := map vvals (vmodels v) |}.
  Definition obs (s : st) : observation := obs_of_view (view_of s).

  (* the iteration as a function of the view alone *)
  Definition vstep_param (k : opt_kind) (lr : R) (v : option V) (g : option G) (ps : option pstate)
    : option V * option pstate :=
    match g, v with
    | Some g', Some v' =>
        let '(v2, ps2) := opt_update k lr v' g' ps in
        (Some v2, match ps2 with Some x => Some x | None => ps end)
    | _, _ => (v, ps)
    end.
  Fixpoint vstep_params (k : opt_kind) (lr : R) (vs : list (option V)) (gs : list (option G))
           (sts : list (option pstate)) : list (option V * option pstate) :=
    match vs with
    | [] => []
    | v :: vs' => vstep_param k lr v (hd None gs) (hd None sts) :: vstep_params k lr vs' (tl gs) (tl sts)
    end.
  Definition vstep_model (mv : mview) (gs : list (option G)) : mview :=
    match vopt mv with
    | None => mv
    | Some (k, lr, sts) =>
      let r := vstep_params k lr (vvals mv) gs sts in
      {| vvals := map fst r; vcons := vcons mv; vopt := Some (k, lr, map snd r); vsched := vsched mv |}
    end.
  Fixpoint vstep_models (mvs : list mview) (gs : list (list (option G))) : list mview :=
    match mvs with
    | [] => []
    | mv :: t => vstep_model mv (hd [] gs) :: vstep_models t (tl gs)
    end.
  Definition vcur_lr (mv : mview) : option R :=
    match vopt mv with Some (_, lr, _) => Some lr | None => None end.
  Definition vsched_model (loss : L) (mv : mview) : mview :=
    match vsched mv, vopt mv with
    | Some (last, ss), Some (k, lr, sts) =>
      let '(ss', lr') := sched_step ss last loss lr in
      {| vvals := vvals mv; vcons := vcons mv; vopt := Some (k, lr', sts); vsched := Some (S last, ss') |}
    | _, _ => mv
    end.
  Definition step_view (v : view) : view :=
    let '(loss, grads) := forward (map (fun mv => (vvals mv, vcons mv)) (vmodels v)) in
    let ms1 := vstep_models (vmodels v) grads in
    let losses' := vlosses v ++ [loss] in
    {| vmodels := map (vsched_model loss) ms1;
       vlosses := losses';
       vlrs := record_lrs (length losses') (map vcur_lr ms1) (vlrs v) |}.

  (* ------------------------------------------------------------- the binding invariant *)
  Definition bound (h : heap) (m : mdl) : Prop :=
    NoDup (mparams m) /\ Forall (fun r => r < hnext h) (mparams m) /\
    match mopt m with
    | None => msched m = None
    | Some o => o < hnext h /\ mparams m <> [] /\
                exists ob, ho h o = Some ob /\ oparams ob = mparams m   (* the optimiser holds the model's own cells *)
    end /\
    match msched m with
    | None => True
    | Some s => s < hnext h /\ exists sb, hs h s = Some sb /\ Some (sopt sb) = mopt m   (* the scheduler drives that optimiser *)
    end.
  (* distinct models own distinct cells, optimisers and schedulers *)
  Definition sep (m m' : mdl) : Prop :=
    (forall p, In p (mparams m) -> ~ In p (mparams m')) /\
    (forall o, mopt m = Some o -> mopt m' <> Some o) /\
    (forall s, msched m = Some s -> msched m' <> Some s).
  Definition binding_inv (s : st) : Prop :=
    ForallOrdPairs sep (models (rc s)) /\ Forall (bound (hh s)) (models (rc s)).

  (* the state torch.load hands back when optimiser and scheduler were pickled apart from the
     module: objects exist and have the right shape, but refer to their own copies *)
  Definition prebound (h : heap) (m : mdl) : Prop :=
    NoDup (mparams m) /\ Forall (fun r => r < hnext h) (mparams m) /\
    match mopt m with
    | None => msched m = None
    | Some o => o < hnext h /\ mparams m <> [] /\
                exists ob, ho h o = Some ob /\ length (oparams ob) = length (mparams m) /\ NoDup (oparams ob)
    end /\
    match msched m with
    | None => True
    | Some s => s < hnext h /\ mopt m <> None /\ exists sb, hs h s = Some sb
    end.
  Definition loaded_inv (s : st) : Prop :=
    ForallOrdPairs sep (models (rc s)) /\ Forall (prebound (hh s)) (models (rc s)).

  (* state-dict order matches parameter order (then positional re-keying is harmless) *)
  Definition aligned_opt (ob : optobj) : Prop :=
    map fst (ostate ob) = firstn (length (ostate ob)) (oparams ob).
  Definition aligned (s : st) : Prop :=
    Forall (fun m => match mopt m with
                     | Some o => match ho (hh s) o with Some ob => aligned_opt ob | None => True end
                     | None => True
                     end) (models (rc s)).
End C05.

Arguments ps_steps {M} p.
Arguments ps_mom {M} p.
Arguments okind {M R} o.
Arguments oparams {M R} o.
Arguments ostate {M R} o.
Arguments olr {M R} o.
Arguments sopt {SS} s.
Arguments slast {SS} s.
Arguments sst {SS} s.
Arguments hp {V M R SS} h.
Arguments ho {V M R SS} h.
Arguments hs {V M R SS} h.
Arguments hnext {V M R SS} h.
Arguments mparams {C} m.
Arguments mopt {C} m.
Arguments msched {C} m.
Arguments mcons {C} m.
Arguments models {L R C} r.
Arguments losses {L R C} r.
Arguments lrs {L R C} r.
Arguments hh {V M L R C SS} s.
Arguments rc {V M L R C SS} s.


(* type arguments are implicit from here on (inferred from the heap / state arguments) *)
Arguments fupd {A} f i a _.
Arguments st_lookup {M} l r.
Arguments st_set {M} l r ps.
Arguments st_put {M} l r o.
Arguments grad_map {G} ps gs _.
Arguments opt_step1 {V G M R} opt_update gm acc r.
Arguments opt_step_model {V G M R C SS} opt_update h mg.
Arguments zipd {G C} ms gs.
Arguments cur_lr {V M R C SS} h m.
Arguments has_key {R} k l.
Arguments record_lrs {R} Rzero niter cur old.
Arguments sched_step_model {V M L R C SS} sched_step loss h m.
Arguments iterate {V G M L R C SS} Rzero forward opt_update sched_step s.
Arguments run {V G M L R C SS} Rzero forward opt_update sched_step k s.
Arguments rekey_by_position {M} new_params old_state.
Arguments rekey_by_param {M} old_params new_params old_state.
Arguments reconnect_model {V M R C SS} written h m.
Arguments reconnect_all {V M R C SS} written h ms.
Arguments to_dev {V M L R C SS} written s.
Arguments shift_opt {M R} b ob.
Arguments shift_sched {SS} b sb.
Arguments copy_heap {V M R SS} h nb.
Arguments copy_model {C} n a m.
Arguments copy_models {C} n a i ms.
Arguments copy_st {V M L R C SS} g s.
Arguments save {V M L R C SS} written g s.
Arguments load {V M L R C SS} written dev file.
Arguments reload {V M L R C SS} written g dev s.
Arguments clone {V M L R C SS} written s.
Arguments clone_fallback {V M L R C SS} written s.
Arguments upd_nth {A} l i f.
Arguments meta_of {V M L R C SS} s i.
Arguments attach {V M L R C SS} i meta c s.
Arguments reload_meta {V M L R C SS} written i c dev s.
Arguments set_opt {V M L R C SS} sched_init i k lr sc s.
Arguments remove_opt {V M L R C SS} i s.
Arguments set_cons {V M L R C SS} i c s.
Arguments init_models {V C} next spec.
Arguments init_st {V M L R C SS} spec.
Arguments OpSetOpt {R C SS} i k lr sc.
Arguments OpRemoveOpt {R C SS} i.
Arguments OpSetCons {R C SS} i c.
Arguments OpIter {R C SS}.
Arguments OpTo {R C SS}.
Arguments OpSaveContinue {R C SS}.
Arguments OpReload {R C SS} dev.
Arguments OpClone {R C SS}.
Arguments OpCloneFallback {R C SS}.
Arguments OpModelReload {R C SS} i.
Arguments OpReloadMeta {R C SS} i c dev.
Arguments apply_op {V G M L R C SS} Rzero forward opt_update sched_init sched_step written o s.
Arguments run_ops {V G M L R C SS} Rzero forward opt_update sched_init sched_step written ops s.
Arguments mview_of {V M R C SS} h m.
Arguments view_of {V M L R C SS} s.
Arguments obs_of_view {V M L R C SS} v.
Arguments obs {V M L R C SS} s.
Arguments vstep_param {V G M R} opt_update k lr v g ps.
Arguments vstep_params {V G M R} opt_update k lr vs gs sts.
Arguments vstep_model {V G M R C SS} opt_update mv gs.
Arguments vstep_models {V G M R C SS} opt_update mvs gs.
Arguments vcur_lr {V M R C SS} mv.
Arguments vsched_model {V M L R C SS} sched_step loss mv.
Arguments step_view {V G M L R C SS} Rzero forward opt_update sched_step v.
Arguments bound {V M R C SS} h m.
Arguments sep {C} m m'.
Arguments binding_inv {V M L R C SS} s.
Arguments prebound {V M R C SS} h m.
Arguments loaded_inv {V M L R C SS} s.
Arguments aligned_opt {M R} ob.
Arguments aligned {V M L R C SS} s.
Arguments vvals {V M R C SS} m.
Arguments vcons {V M R C SS} m.
Arguments vopt {V M R C SS} m.
Arguments vsched {V M R C SS} m.
Arguments vmodels {V M L R C SS} v.
Arguments vlosses {V M L R C SS} v.
Arguments vlrs {V M L R C SS} v.
Arguments o_iters {V L R C} o.
Arguments o_losses {V L R C} o.
Arguments o_lrs {V L R C} o.
Arguments o_cons {V L R C} o.
Arguments o_vals {V L R C} o.

(* ================================================================= structural instance *)
(* The instance the harness runs next to the real library.  Values are update counters, the
   moments are the NUMBER of moment buffers torch keeps for the kind, gradients are present or
   absent according to a mask (which parameters receive a gradient), losses / lr / scheduler
   state are trivial.  Only structure is observed. *)
Module Struct.
  Definition V := Z. Definition G := unit. Definition M := nat. Definition L := unit.
  Definition R := unit. Definition C := Z. Definition SS := unit.

  Definition forward (mask : list (list bool)) (inp : list (list (option V) * C)) : L * list (list (option G)) :=
    (tt, map (map (fun b : bool => if b then Some tt else None)) mask).
  Definition opt_update (k : opt_kind) (_ : R) (v : V) (_ : G) (ps : option (pstate M)) : V * option (pstate M) :=
    ((v + 1)%Z,
     match k with
     | SGD => None
     | SGDm => Some {| ps_steps := 0; ps_mom := 1 |}
     | Adam | AdamW => Some {| ps_steps := S (match ps with Some p => ps_steps p | None => 0 end); ps_mom := 2 |}
     end).
  Definition sched_init (ss : SS) (lr : R) : SS * R := (ss, lr).
  Definition sched_step (ss : SS) (_ : nat) (_ : L) (lr : R) : SS * R := (ss, lr).

  Definition st := st V M L R C SS.
  Definition op := op R C SS.
  Definition apply (mask : list (list bool)) (written : bool) (o : op) (s : st) : st :=
    @apply_op V G M L R C SS tt (forward mask) opt_update sched_init sched_step written o s.
  Definition init (spec : list (nat * Z)) : st :=
    @init_st V M L R C SS (map (fun e => (repeat 0%Z (fst e), snd e)) spec).

  (* structural observables of one model: None when it has no optimiser, else
       number of model parameters,
       for each optimiser reference the index of the model parameter it IS (-1: a foreign cell),
       for each state key in dict order (index of the model parameter it IS or -1, step counter, #moment buffers),
       scheduler: -1 none | 0 refers to another optimiser | 1 refers to this optimiser, and last_epoch *)
  Definition idx (ps : list id) (r : id) : Z :=
    (fix go (l : list id) (i : Z) : Z :=
       match l with [] => (-1)%Z | x :: t => if Nat.eqb x r then i else go t (i + 1)%Z end) ps 0%Z.
  Definition mobs (h : heap V M R SS) (m : mdl C) : option (Z * list Z * list (Z * Z * Z) * (Z * Z)) :=
    match mopt m with
    | None => None
    | Some o =>
      match ho h o with
      | None => None
      | Some ob =>
        Some (Z.of_nat (length (mparams m)),
              map (idx (mparams m)) (oparams ob),
              map (fun e => (idx (mparams m) (fst e), Z.of_nat (ps_steps (snd e)), Z.of_nat (ps_mom (snd e)))) (ostate ob),
              match msched m with
              | None => ((-1)%Z, 0%Z)
              | Some s => match hs h s with
                          | None => ((-1)%Z, 0%Z)
                          | Some sb => ((if Nat.eqb (sopt sb) o then 1 else 0)%Z, Z.of_nat (slast sb))
                          end
              end)
      end
    end.
  (* per model observables, #losses, lr-history lengths by key, constraint tags, update counters *)
  Definition sobs (s : st) :=
    (map (mobs (hh s)) (models (rc s)),
     Z.of_nat (length (losses (rc s))),
     map (fun e => (Z.of_nat (fst e), Z.of_nat (length (snd e)))) (lrs (rc s)),
     map (fun m => mcons m) (models (rc s)),
     map (fun m => map (hp (hh s)) (mparams m)) (models (rc s))).
  (* observables after every operation of a history *)
  Fixpoint trace (mask : list (list bool)) (written : bool) (ops : list op) (s : st) :=
    match ops with
    | [] => []
    | o :: t => let s' := apply mask written o s in sobs s' :: trace mask written t s'
    end.
  (* do two reconstructions in one heap share a cell / optimiser / scheduler? *)
  Definition ids_of (s : st) : list id :=
    flat_map (fun m => mparams m ++ match mopt m with Some o => [o] | None => [] end
                                 ++ match msched m with Some x => [x] | None => [] end) (models (rc s)).
  Definition shares (a b : st) : bool := existsb (fun i => memb i (ids_of b)) (ids_of a).
End Struct.
