(* C01 / C14 - executable model of quantem.core.io.serialize (AutoSerialize.save / load).

   Python                                   here
   ------                                   ----
   object graph (vars() of AutoSerialize)   value            (VObj cls fields, ...)
   zarr store (dir or unpacked zip)         node             (Group attrs arrays groups)
   JSON attribute values                    jval
   AutoSerialize._serialize_value           encode_value     (the if/elif chain, in its order)
   AutoSerialize._serialize_container       encode_seq / encode_dict (incl. all-numeric fast path)
   AutoSerialize._write_ndarray             write_ndarray    (0-d / empty / normal)
   AutoSerialize._write_bytes               write_bytes
   AutoSerialize._recursive_save            encode_fields / encode_root (skip names/types threaded)
   AutoSerialize.save (+write_skip_metadata) save_file
   AutoSerialize._array_to_np               array_to_np
   AutoSerialize._recursive_load            decode_obj       (attrs loop, arrays loop, sub-group loop, delattr)
   AutoSerialize._deserialize_container     decode_container
   load                                     load_file        (merge of file-stored and user skip lists)

   The model describes the REPAIRED code (fixes/C01-*.diff):
     set-container-type : a set keeps _container_type = "set" and is decoded on the list/tuple path
     zero-dim-array     : _array_to_np returns the stored value of a 0-d array
     root-skip-attrs    : the two _autoserialize_skip_* root attributes are metadata, not attributes
     rng-state-json     : (save side only: the bit-generator state is made JSON-able; it is opaque here)
     root-logger        : class_name "RootLogger" is restored like "Logger"
     npscalar-complex   : complex NumPy scalars skip the value.item() branch and take the dill fallback
                          (they are VOther values here, like Python complex)
     rng-in-container   : the container decoder restores `_numpy_rng` groups (one helper, four callers)
     dill-fallback-in-container : the container decoder unpickles gzip+dill payloads like the arrays loop

   Conventions.  Association lists model Python dicts / zarr attribute maps in insertion order;
   `set_key` is dict assignment (replace in place or append).  array_keys()/group_keys() of a real
   store come in directory order: no observable of the property depends on it, the harness
   compares maps order-insensitively (smap_eqb below) and the model lists members in insertion
   order.  Floats are IEEE binary64 bit patterns in Z.  Array payloads, torch.save and dill byte
   strings are opaque content identifiers (the codecs are oracle contracts, see the harness).
   Definitions only; proofs are in proof/C01_Proofs*.v and proof/C14_Proofs.v. *)
From QV.lib Require Import Prelude.
From Coq Require Import String Ascii Decimal DecimalString DecimalNat.
Local Open Scope string_scope.
Local Open Scope list_scope.

(* ------------------------------------------------------------------ strings, string maps *)
Definition sapp (a b : string) : string := String.append a b.

Fixpoint ends_with (s suf : string) : bool :=
  String.eqb s suf || match s with EmptyString => false | String _ r => ends_with r suf end.

Fixpoint has_char (c : ascii) (s : string) : bool :=
  match s with EmptyString => false | String d r => Ascii.eqb c d || has_char c r end.

Definition mem (k : string) (l : list string) : bool := existsb (String.eqb k) l.

Fixpoint nodupb (l : list string) : bool :=
  match l with [] => true | x :: r => negb (mem x r) && nodupb r end.

(* str(i) and int(k) for k.isdigit() *)
Definition str_of (i : nat) : string := NilEmpty.string_of_uint (Nat.to_uint i).
Definition idx_of (k : string) : option nat :=
  match k with
  | EmptyString => None
  | _ => match NilEmpty.uint_of_string k with Some d => Some (Nat.of_uint d) | None => None end
  end.

Definition smap (A : Type) := list (string * A).

Section SMap.
  Context {A : Type}.
  Fixpoint lookup (k : string) (m : smap A) : option A :=
    match m with
    | [] => None
    | (k', x) :: r => if String.eqb k k' then Some x else lookup k r
    end.
  Definition has_key (k : string) (m : smap A) : bool :=
    match lookup k m with Some _ => true | None => false end.
  (* d[k] = x *)
  Fixpoint set_key (k : string) (x : A) (m : smap A) : smap A :=
    match m with
    | [] => [(k, x)]
    | (k', y) :: r => if String.eqb k k' then (k', x) :: r else (k', y) :: set_key k x r
    end.
  Definition keys (m : smap A) : list string := map fst m.
End SMap.

(* ------------------------------------------------------------------ numbers *)
Inductive num := NBool (b : bool) | NInt (z : Z) | NFloat (bits : Z).

(* int -> binary64 (round to nearest even), as numpy's int64 -> float64 cast; result = bit pattern *)
Definition z2f (z : Z) : Z :=
  if (z =? 0)%Z then 0%Z
  else
    let s := if (z <? 0)%Z then (2 ^ 63)%Z else 0%Z in
    let a := Z.abs z in
    let e := Z.log2 a in
    if (e <=? 52)%Z then (s + (e + 1023) * 2 ^ 52 + (a * 2 ^ (52 - e) - 2 ^ 52))%Z
    else
      let sh := (e - 52)%Z in
      let q := (a / 2 ^ sh)%Z in
      let r := (a mod 2 ^ sh)%Z in
      let half := (2 ^ (sh - 1))%Z in
      let q' := if ((r >? half) || ((r =? half) && Z.odd q))%Z%bool then (q + 1)%Z else q in
      (s + (e + 1023) * 2 ^ 52 + (q' - 2 ^ 52))%Z.

Definition b2z (b : bool) : Z := if b then 1%Z else 0%Z.

(* result category of np.asarray over a numeric sequence *)
Inductive ncat := CBool | CSigned | CUSmall | CU64 | CFloat.
Inductive rcat := RB | RI | RF.

Definition num_to (r : rcat) (n : num) : num :=
  match r, n with
  | RB, _ => n
  | RI, NBool b => NInt (b2z b)
  | RI, _ => n
  | RF, NBool b => NFloat (z2f (b2z b))
  | RF, NInt z => NFloat (z2f z)
  | RF, NFloat _ => n
  end.

(* ------------------------------------------------------------------ JSON, arrays, store tree *)
Inductive jval :=
| JNull
| JBool (b : bool)
| JInt (z : Z)
| JFloat (bits : Z)
| JStr (s : string)
| JList (l : list jval)
| JDict (l : list (string * jval))
| JOpaque (h : Z).              (* JSON the serializer writes but never interprets (rng state) *)

Definition jnum (n : num) : jval :=
  match n with NBool b => JBool b | NInt z => JInt z | NFloat f => JFloat f end.

(* array contents: opaque bytes (content id), the numbers of a fast-path sequence, or the byte
   string of torch.save / gzip(dill.dumps) that loads as an object with MRO `tys` and content id h *)
Inductive adata :=
| AOpaque (h : Z)
| ANums (l : list num)
| ABytes (codec : string) (tys : list string) (h : Z).

Record arr := mkArr { a_dtype : string; a_shape : list Z; a_data : adata }.
Record sarr := mkSArr { s_arr : arr; s_attrs : smap jval }.      (* zarr array + its attrs *)

Inductive node := Group (attrs : smap jval) (arrays : smap sarr) (groups : list (string * node)).

Definition n_attrs (g : node) := match g with Group a _ _ => a end.
Definition n_arrays (g : node) := match g with Group _ r _ => r end.
Definition n_groups (g : node) := match g with Group _ _ s => s end.
Definition empty_group : node := Group [] [] [].

Definition set_attr (k : string) (j : jval) (g : node) : node :=
  match g with Group a r s => Group (set_key k j a) r s end.
Fixpoint set_attrs (l : smap jval) (g : node) : node :=
  match l with [] => g | (k, j) :: r => set_attrs r (set_attr k j g) end.
(* `name in group` *)
Definition member (k : string) (g : node) : bool := has_key k (n_arrays g) || has_key k (n_groups g).
(* group.create_array (zarr refuses an existing name: unreachable for well-formed graphs) *)
Definition create_array (k : string) (a : sarr) (g : node) : node :=
  match g with Group at_ r s => if has_key k r || has_key k s then g else Group at_ (r ++ [(k, a)]) s end.
(* sub = group.require_group(name); <mutate sub> *)
Definition with_group (k : string) (f : node -> node) (g : node) : node :=
  match g with
  | Group a r s =>
    match lookup k s with
    | Some sub => Group a r (set_key k (f sub) s)
    | None => Group a r (s ++ [(k, f empty_group)])
    end
  end.

(* ------------------------------------------------------------------ values *)
Inductive bkind := BTensor | BOptimizer | BScheduler | BModule.

Inductive value :=
| VNone
| VBool (b : bool)
| VInt (z : Z)
| VFloat (bits : Z)
| VStr (s : string)
| VPath (s : string)
| VNpScalar (dt : string) (n : num)
| VArr (a : arr)
| VBlob (k : bkind) (tys : list string) (meta : smap jval) (h : Z)   (* torch.save byte path *)
| VLogger (cname name : string) (level : Z)
| VRng (bitgen : string) (state : jval)
| VList (l : list value)
| VTuple (l : list value)
| VSet (l : list value)                       (* in the iteration order of the running interpreter *)
| VDict (l : list (string * value))
| VObj (cmod cname : string) (fields : list (string * value))
| VOther (tys : list string) (h : Z)          (* anything else: gzip(dill) fallback *)
| VTbWriter (log_dir : string) (max_queue flush_secs : Z) (suffix : string).   (* tensorboard SummaryWriter: metadata only *)

(* ------------------------------------------------------------------ Python types of values *)
Definition np_scalar_types (dt : string) : list string :=
  let fam :=
    if mem dt ["int8"; "int16"; "int32"; "int64"] then ["numpy.signedinteger"; "numpy.integer"; "numpy.number"]
    else if mem dt ["uint8"; "uint16"; "uint32"; "uint64"] then ["numpy.unsignedinteger"; "numpy.integer"; "numpy.number"]
    else if mem dt ["float16"; "float32"; "float64"] then ["numpy.floating"; "numpy.inexact"; "numpy.number"]
    else [] in
  (sapp "numpy." dt :: fam) ++ ["numpy.generic"] ++ (if String.eqb dt "float64" then ["builtins.float"] else []).

Definition cls_name (m c : string) : string := sapp m (sapp "." c).

(* [c.__module__ + "." + c.__qualname__ for c in type(v).__mro__], head = type(v) *)
Definition types_of (v : value) : list string :=
  (match v with
   | VNone => ["builtins.NoneType"]
   | VBool _ => ["builtins.bool"; "builtins.int"]
   | VInt _ => ["builtins.int"]
   | VFloat _ => ["builtins.float"]
   | VStr _ => ["builtins.str"]
   | VPath _ => ["pathlib.PosixPath"; "pathlib.Path"; "pathlib.PurePosixPath"; "pathlib.PurePath"]
   | VNpScalar dt _ => np_scalar_types dt
   | VArr _ => ["numpy.ndarray"]
   | VBlob _ tys _ _ => tys
   | VLogger c _ _ => if String.eqb c "Logger" then ["logging.Logger"; "logging.Filterer"]
                      else [sapp "logging." c; "logging.Logger"; "logging.Filterer"]
   | VRng _ _ => ["numpy.random._generator.Generator"]
   | VList _ => ["builtins.list"]
   | VTuple _ => ["builtins.tuple"]
   | VSet _ => ["builtins.set"]
   | VDict _ => ["builtins.dict"]
   | VObj m c _ => [cls_name m c; "quantem.core.io.serialize.AutoSerialize"]
   | VOther tys _ => tys
   | VTbWriter _ _ _ _ => ["torch.utils.tensorboard.writer.SummaryWriter"]
   end) ++ ["builtins.object"].

Definition exact_ty (v : value) : string := hd "" (types_of v).

(* virtual subclasses: the abstract base classes of `abc_domain` (those whose membership comes from
   ABCMeta.register / inheritance, not from a structural __subclasshook__) that isinstance() accepts
   for each value kind although no MRO lists them.  Table tied to the interpreter on every run. *)
Definition abc_domain : list string :=
  ["numbers.Number"; "numbers.Complex"; "numbers.Real"; "numbers.Rational"; "numbers.Integral";
   "collections.abc.Sequence"; "collections.abc.MutableSequence"; "collections.abc.Mapping";
   "collections.abc.MutableMapping"; "collections.abc.Set"; "collections.abc.MutableSet"].
Definition abc_integral : list string :=
  ["numbers.Number"; "numbers.Complex"; "numbers.Real"; "numbers.Rational"; "numbers.Integral"].
Definition abc_real : list string := ["numbers.Number"; "numbers.Complex"; "numbers.Real"].
Definition abc_complex : list string := ["numbers.Number"; "numbers.Complex"].
Definition abcs_of (v : value) : list string :=
  match v with
  | VBool _ | VInt _ => abc_integral
  | VFloat _ => abc_real
  | VStr _ => ["collections.abc.Sequence"]
  | VNpScalar dt _ =>
    if mem dt ["int8"; "int16"; "int32"; "int64"; "uint8"; "uint16"; "uint32"; "uint64"] then abc_integral
    else if mem dt ["float16"; "float32"; "float64"] then abc_real
    else []                                               (* numpy.bool_ is not a numbers.Number *)
  | VList _ => ["collections.abc.Sequence"; "collections.abc.MutableSequence"]
  | VTuple _ => ["collections.abc.Sequence"]
  | VSet _ => ["collections.abc.Set"; "collections.abc.MutableSet"]
  | VDict _ => ["collections.abc.Mapping"; "collections.abc.MutableMapping"]
  | VOther tys _ => if mem "builtins.complex" tys || mem "numpy.complexfloating" tys then abc_complex else []
  | _ => []
  end.
(* every class t with isinstance(v, t), for t a concrete class or in abc_domain *)
Definition isa (v : value) : list string := types_of v ++ abcs_of v.
(* isinstance(v, skip_types) *)
Definition inst_any (v : value) (st : list string) : bool := existsb (fun t => mem t (isa v)) st.

(* ------------------------------------------------------------------ the dispatch chain *)
(* the fifteen guards of _serialize_value as predicates on the value's Python capabilities
   (isinstance / hasattr); every guard is true for every kind for which the Python test is
   true, not only for the kind the branch is meant for - so the ORDER matters, as in the code *)
Definition g_tensor v := match v with VBlob BTensor _ _ _ => true | _ => false end.
Definition g_optimizer v := match v with VBlob BOptimizer _ _ _ => true | _ => false end.
Definition g_scheduler v := match v with VBlob BScheduler _ _ _ => true | _ => false end.   (* step & get_last_lr *)
Definition g_torch_logger v := match v with VTbWriter _ _ _ _ => true | _ => false end.  (* add_scalar & add_image *)
Definition g_py_logger v := match v with VLogger _ _ _ => true | _ => false end.            (* log & info *)
Definition g_module v :=                                 (* nn.Module or "torch" in __module__ *)
  match v with VBlob _ _ _ _ | VTbWriter _ _ _ _ => true | _ => false end.
Definition g_ndarray v := match v with VArr _ => true | _ => false end.
Definition g_pyscalar v :=
  match v with
  | VNone | VBool _ | VInt _ | VFloat _ | VStr _ => true
  | VNpScalar dt _ => String.eqb dt "float64"            (* np.float64 subclasses float *)
  | _ => false
  end.
Definition g_dtype_item v :=                             (* hasattr dtype & item, not np.complexfloating *)
  match v with VNpScalar _ _ | VArr _ | VBlob BTensor _ _ _ => true | _ => false end.
Definition g_path v := match v with VPath _ => true | _ => false end.
Definition g_autoserialize v := match v with VObj _ _ _ => true | _ => false end.
Definition g_list_tuple_dict v := match v with VList _ | VTuple _ | VDict _ => true | _ => false end.
Definition g_set v := match v with VSet _ => true | _ => false end.
Definition g_bit_generator v := match v with VRng _ _ => true | _ => false end.
Definition g_get_set_state v :=                          (* get_state & set_state: torch.Generator *)
  match v with VBlob BModule tys _ _ => mem "torch._C.Generator" tys | _ => false end.

Definition guards : list (value -> bool) :=
  [g_tensor; g_optimizer; g_scheduler; g_torch_logger; g_py_logger; g_module; g_ndarray; g_pyscalar;
   g_dtype_item; g_path; g_autoserialize; g_list_tuple_dict; g_set; g_bit_generator; g_get_set_state].

Fixpoint first_true (l : list (value -> bool)) (v : value) (i : nat) : nat :=
  match l with [] => i | g :: r => if g v then i else first_true r v (S i) end.
(* index of the branch that fires; 15 = the dill fallback (`else`) *)
Definition dispatch (v : value) : nat := first_true guards v 0.
(* the branch each kind is meant for *)
Definition intended (v : value) : nat :=
  match v with
  | VBlob BTensor _ _ _ => 0 | VBlob BOptimizer _ _ _ => 1 | VBlob BScheduler _ _ _ => 2
  | VLogger _ _ _ => 4 | VBlob BModule _ _ _ => 5 | VArr _ => 6
  | VNone | VBool _ | VInt _ | VFloat _ | VStr _ => 7
  | VNpScalar dt _ => if String.eqb dt "float64" then 7 else 8
  | VPath _ => 9 | VObj _ _ _ => 10 | VList _ | VTuple _ | VDict _ => 11 | VSet _ => 12
  | VRng _ _ => 13 | VOther _ _ => 15 | VTbWriter _ _ _ _ => 3
  end.

(* ------------------------------------------------------------------ numeric sequences *)
Definition np_cat (dt : string) : option ncat :=
  if String.eqb dt "bool" then Some CBool
  else if mem dt ["int8"; "int16"; "int32"; "int64"] then Some CSigned
  else if mem dt ["uint8"; "uint16"; "uint32"] then Some CUSmall
  else if String.eqb dt "uint64" then Some CU64
  else if mem dt ["float16"; "float32"; "float64"] then Some CFloat
  else None.

(* _is_numeric_scalar + the element's dtype category *)
Definition num_cat (v : value) : option (ncat * num) :=
  match v with
  | VBool b => Some (CBool, NBool b)
  | VInt z => Some (CSigned, NInt z)
  | VFloat f => Some (CFloat, NFloat f)
  | VNpScalar dt n => match np_cat dt with Some c => Some (c, n) | None => None end
  | _ => None
  end.

Fixpoint all_numeric (l : list value) : option (list (ncat * num)) :=
  match l with
  | [] => Some []
  | v :: r => match num_cat v, all_numeric r with
              | Some cn, Some rr => Some (cn :: rr)
              | _, _ => None
              end
  end.

Definition has_cat (c : ncat) (l : list (ncat * num)) : bool :=
  existsb (fun cn => match fst cn, c with
                     | CBool, CBool | CSigned, CSigned | CUSmall, CUSmall | CU64, CU64 | CFloat, CFloat => true
                     | _, _ => false end) l.

(* numpy promotion: any float -> float64-like; uint64 with a signed integer -> float64;
   any integer -> integer; else bool *)
Definition result_cat (l : list (ncat * num)) : rcat :=
  if has_cat CFloat l then RF
  else if has_cat CU64 l && has_cat CSigned l then RF
  else if has_cat CSigned l || has_cat CUSmall l || has_cat CU64 l then RI
  else RB.

(* Some (category, np.asarray(l).tolist()) when the fast path applies (len > 0, all numeric) *)
Definition numeric_seq (l : list value) : option (rcat * list num) :=
  match l with
  | [] => None
  | _ => match all_numeric l with
         | Some cl => let r := result_cat cl in Some (r, map (fun cn => num_to r (snd cn)) cl)
         | None => None
         end
  end.

Definition rcat_name (r : rcat) : string := match r with RB => "bool" | RI => "int" | RF => "float" end.

(* ------------------------------------------------------------------ arrays *)
Definition has_zero (sh : list Z) : bool := existsb (fun s => (s =? 0)%Z) sh.
Definition no_data : adata := AOpaque 0.

Definition write_ndarray (a : arr) : sarr :=
  match a_shape a with
  | [] => mkSArr a []                                                      (* ds[()] = array.item() *)
  | sh => if has_zero sh
          then mkSArr (mkArr (a_dtype a) [] no_data) [("_original_shape", JList (map JInt sh))]
          else mkSArr a []
  end.

Definition jints (l : list jval) : list Z :=
  map (fun j => match j with JInt z => z | JBool b => b2z b | _ => 0%Z end) l.

(* _array_to_np (repaired: a 0-d array without _original_shape yields its value) *)
Definition array_to_np (sa : sarr) : arr :=
  let a := s_arr sa in
  match a_shape a with
  | [] =>
    match lookup "_original_shape" (s_attrs sa) with
    | Some (JList l) => mkArr (a_dtype a) (jints l) no_data
    | Some (JInt n) => mkArr (a_dtype a) [n] no_data
    | Some _ => mkArr (a_dtype a) [] no_data
    | None => a
    end
  | sh =>
    if has_zero sh then
      match lookup "_original_shape" (s_attrs sa) with
      | Some (JList l) => mkArr (a_dtype a) (jints l) no_data
      | Some (JInt n) => mkArr (a_dtype a) [n] no_data
      | Some _ => mkArr (a_dtype a) [] no_data
      | None => mkArr (a_dtype a) sh no_data
      end
    else a
  end.

(* _write_bytes: a 1-d uint8 array (its length is not modelled: canonical shape [1]) *)
Definition write_bytes (key : string) (d : adata) (g : node) : node :=
  create_array key (mkSArr (mkArr "uint8" [1%Z] d) []) g.

(* ------------------------------------------------------------------ save *)
Section Folds.
  Variable f : value -> string -> node -> node.
  Fixpoint fold_items (l : list value) (i : nat) (g : node) : node :=
    match l with [] => g | v :: r => fold_items r (S i) (f v (str_of i) g) end.
  Fixpoint fold_entries (l : list (string * value)) (g : node) : node :=
    match l with [] => g | (k, v) :: r => fold_entries r (f v k g) end.
  Variable skipped : string -> value -> bool.
  Fixpoint fold_fields (l : list (string * value)) (g : node) : node :=
    match l with
    | [] => g
    | (k, v) :: r => fold_fields r (if skipped k v then g else f v k g)
    end.
End Folds.

Definition autoserialize_meta (m c : string) : jval :=
  JDict [("version", JInt 1); ("class_module", JStr m); ("class_name", JStr c)].

Definition marker_of (k : bkind) : string :=
  match k with BTensor => "_torch_tensor" | BOptimizer => "_torch_optimizer"
             | BScheduler => "_torch_scheduler" | BModule => "_torch_whole_module" end.
Definition payload_of (k : bkind) : string :=
  match k with BTensor => "tensor" | BOptimizer => "optimizer" | BScheduler => "scheduler" | BModule => "module" end.

Section Encode.
  Variables (sn st : list string).          (* skip_names, skip_types (full type names) *)

  Definition skipped (name : string) (v : value) : bool := mem name sn || inst_any v st.

  Definition encode_blob (k : bkind) (tys : list string) (meta : smap jval) (h : Z) (sub : node) : node :=
    write_bytes (payload_of k) (ABytes "torch" tys h) (set_attrs ((marker_of k, JBool true) :: meta) sub).

  (* the list/tuple half of _serialize_container *)
  Definition encode_seq (enc : value -> string -> node -> node) (ctype : string) (l : list value) (sub : node) : node :=
    let g1 := set_attr "_container_type" (JStr ctype) sub in
    match numeric_seq l with
    | Some (r, ns) =>
      create_array "values" (write_ndarray (mkArr (rcat_name r) [Z.of_nat (List.length ns)] (ANums ns)))
                   (set_attr "_sequence_encoding" (JStr "ndarray") g1)
    | None => fold_items enc l 0 g1
    end.

  Definition encode_dict (enc : value -> string -> node -> node) (l : list (string * value)) (sub : node) : node :=
    fold_entries enc l (set_attr "_container_type" (JStr "dict") sub).

  (* _recursive_save on an existing group *)
  Definition encode_fields (enc : value -> string -> node -> node) (m c : string)
             (fields : list (string * value)) (g : node) : node :=
    let g1 := if has_key "_autoserialize" (n_attrs g) then g
              else set_attr "_autoserialize" (autoserialize_meta m c) g in
    fold_fields enc skipped fields g1.

  (* _serialize_value: the chain, in the order of the code *)
  Fixpoint encode_value (v : value) (name : string) (g : node) {struct v} : node :=
    if g_tensor v then
      match v with VBlob k tys meta h => with_group name (encode_blob BTensor tys meta h) g | _ => g end
    else if g_optimizer v then
      match v with VBlob k tys meta h => with_group name (encode_blob BOptimizer tys meta h) g | _ => g end
    else if g_scheduler v then
      match v with VBlob k tys meta h => with_group name (encode_blob BScheduler tys meta h) g | _ => g end
    else if g_torch_logger v then
      match v with
      | VTbWriter d q f sfx =>
        (* value.comment does not exist on a SummaryWriter: no "comment" attribute is written *)
        with_group name (set_attrs [("_torch_logger", JBool true); ("class_name", JStr "SummaryWriter"); ("log_dir", JStr d);
                                    ("max_queue", JInt q); ("flush_secs", JInt f); ("filename_suffix", JStr sfx)]) g
      | _ => g
      end
    else if g_py_logger v then
      match v with
      | VLogger c n lv =>
        with_group name (set_attrs [("_python_logger", JBool true); ("class_name", JStr c);
                                    ("logger_name", JStr n); ("logger_level", JInt lv)]) g
      | _ => g
      end
    else if g_module v then
      match v with VBlob k tys meta h => with_group name (encode_blob BModule tys meta h) g | _ => g end
    else if g_ndarray v then
      match v with
      | VArr a => if member name g then g else create_array name (write_ndarray a) g
      | _ => g
      end
    else if g_pyscalar v then
      match v with
      | VNone => set_attr name JNull g
      | VBool b => set_attr name (JBool b) g
      | VInt z => set_attr name (JInt z) g
      | VFloat f => set_attr name (JFloat f) g
      | VStr s => set_attr name (JStr s) g
      | VNpScalar _ n => set_attr name (jnum n) g
      | _ => g
      end
    else if g_dtype_item v then
      match v with VNpScalar _ n => set_attr name (jnum n) g | _ => g end          (* value.item() *)
    else if g_path v then
      match v with
      | VPath s => set_attr (sapp name ".is_path") (JBool true) (set_attr name (JStr s) g)
      | _ => g
      end
    else if g_autoserialize v then
      match v with
      | VObj m c fields => with_group name (encode_fields encode_value m c fields) g
      | _ => g
      end
    else if g_list_tuple_dict v then
      match v with
      | VList l => with_group name (encode_seq encode_value "list" l) g
      | VTuple l => with_group name (encode_seq encode_value "tuple" l) g
      | VDict l => with_group name (encode_dict encode_value l) g
      | _ => g
      end
    else if g_set v then
      match v with
      | VSet l =>
        (* repaired: _container_type = "set" is written after _serialize_container(list(value)),
           which records "list" *)
        with_group name (fun sub => set_attr "_container_type" (JStr "set")
                                      (encode_seq encode_value "list" l sub)) g
      | _ => g
      end
    else if g_bit_generator v then
      match v with
      | VRng bg stt =>
        with_group name (set_attrs [("_numpy_rng", JBool true); ("_rng_state", stt);
                                    ("_rng_type", JStr "Generator"); ("_bit_generator_type", JStr bg)]) g
      | _ => g
      end
    else if g_get_set_state v then g
    else
      match v with
      | VOther tys h => write_bytes name (ABytes "dill" tys h) g
      | _ => g
      end.

  (* self._recursive_save(self, root, ...) *)
  Definition encode_root (v : value) : node :=
    match v with
    | VObj m c fields => encode_fields encode_value m c fields empty_group
    | _ => empty_group
    end.

  (* AutoSerialize.save: + write_skip_metadata(root) *)
  Definition save_file (v : value) : node :=
    set_attr "_autoserialize_skip_types" (JList (map JStr st))
             (set_attr "_autoserialize_skip_names" (JList (map JStr sn)) (encode_root v)).
End Encode.

(* ------------------------------------------------------------------ load *)
Inductive res := RVal (v : value) | RSkip | RErr.      (* value / `continue` / exception *)

Definition truthy (o : option jval) : bool :=
  match o with
  | Some (JBool b) => b
  | Some (JInt z) => negb (z =? 0)%Z
  | Some (JFloat f) => negb ((f =? 0)%Z || (f =? 2 ^ 63)%Z)
  | Some (JStr s) => negb (String.eqb s "")
  | Some (JList l) => match l with [] => false | _ => true end
  | Some (JDict l) => match l with [] => false | _ => true end
  | Some (JOpaque _) => true
  | Some JNull | None => false
  end.

(* a JSON attribute value as the Python object json.loads returns (+ the .is_path flag) *)
Fixpoint jval_to_value (is_path : bool) (j : jval) : value :=
  match j with
  | JNull => VNone
  | JBool b => VBool b
  | JInt z => VInt z
  | JFloat f => VFloat f
  | JStr s => if is_path then VPath s else VStr s
  | JList l => VList (map (jval_to_value false) l)
  | JDict l => VDict (map (fun kj => match kj with (k, x) => (k, jval_to_value false x) end) l)
  | JOpaque h => VOther ["json"] h
  end.

(* group.attrs.get(f"{key}.is_path", False) *)
Definition path_flag (k : string) (a : smap jval) : bool := truthy (lookup (sapp k ".is_path") a).
Definition attr_value (k : string) (j : jval) (a : smap jval) : value :=
  jval_to_value (match j with JStr _ => path_flag k a | _ => false end) j.

(* names the attribute loop of _recursive_load treats as metadata (repaired: + the two skip lists) *)
Definition obj_meta_attr (k : string) : bool :=
  String.eqb k "_autoserialize" || ends_with k ".torch_save" || ends_with k ".is_path"
  || String.eqb k "_autoserialize_skip_names" || String.eqb k "_autoserialize_skip_types".
Definition dict_meta_attr (k : string) : bool :=
  String.eqb k "_container_type" || ends_with k ".torch_save" || ends_with k ".is_path".

(* arrays loop of _recursive_load: gzip+dill payloads are unpickled, everything else is an ndarray *)
Definition array_value (sa : sarr) : value :=
  match a_data (s_arr sa) with
  | ABytes codec tys h => if String.eqb codec "dill" then VOther tys h else VArr (array_to_np sa)
  | _ => VArr (array_to_np sa)
  end.
(* maybe_tensor in containers (repaired: gzip+dill payloads are unpickled there too) *)
Definition array_raw (sa : sarr) : value := array_value sa.

Definition jstr_or (o : option jval) (d : string) : string :=
  match o with Some (JStr s) => s | _ => d end.
Definition jint_or (o : option jval) (d : Z) : Z :=
  match o with Some (JInt z) => z | Some (JBool b) => b2z b | _ => d end.

Definition decode_blob (k : bkind) (sub : node) : res :=
  match lookup (payload_of k) (n_arrays sub) with
  | Some sa =>
    match a_data (array_to_np sa) with
    | ABytes codec tys h =>
      if String.eqb codec "torch"
      then RVal (VBlob k tys (filter (fun kj => negb (String.eqb (fst kj) (marker_of k))) (n_attrs sub)) h)
      else RErr
    | _ => RErr
    end
  | None => RErr
  end.

(* repaired: "RootLogger" is restored like "Logger" (logging.getLogger("root") is the root logger) *)
Definition decode_logger (sub : node) : res :=
  let a := n_attrs sub in
  let c := jstr_or (lookup "class_name" a) "Logger" in
  if String.eqb c "Logger" || String.eqb c "RootLogger"
  then RVal (VLogger c (jstr_or (lookup "logger_name" a) "quantem") (jint_or (lookup "logger_level" a) 20))
  else RSkip.

(* SummaryWriter(log_dir, comment, max_queue, flush_secs, filename_suffix) re-created from the metadata *)
Definition decode_tb (sub : node) : res :=
  let a := n_attrs sub in
  if String.eqb (jstr_or (lookup "class_name" a) "SummaryWriter") "SummaryWriter"
  then RVal (VTbWriter (jstr_or (lookup "log_dir" a) "") (jint_or (lookup "max_queue" a) 10)
                       (jint_or (lookup "flush_secs" a) 120) (jstr_or (lookup "filename_suffix" a) ""))
  else RSkip.

Definition known_bitgens : list string := ["PCG64"; "MT19937"; "Philox"; "SFC64"].
Definition canon_bitgen (bg : string) : string := if mem bg known_bitgens then bg else "PCG64".
Definition decode_rng (sub : node) : res :=
  RVal (VRng (canon_bitgen (jstr_or (lookup "_bit_generator_type" (n_attrs sub)) "PCG64")) JNull).

Definition type_checked (st : list string) (r : res) : res :=
  match r with RVal v => if mem (exact_ty v) st then RSkip else r | _ => r end.

Definition class_of (a : smap jval) : option (string * string) :=
  match lookup "_autoserialize" a with
  | Some (JDict d) =>
    if (jint_or (lookup "version" d) 1 =? 1)%Z then
      match lookup "class_module" d, lookup "class_name" d with
      | Some (JStr m), Some (JStr c) => Some (m, c)
      | _, _ => None
      end
    else None
  | _ => None
  end.

(* sub-group dispatch of _recursive_load (marker order of the code) *)
Definition obj_sub (st : list string) (dobj dcont : node -> res) (sub : node) : res :=
  let a := n_attrs sub in
  if truthy (lookup "_torch_tensor" a) then type_checked st (decode_blob BTensor sub)
  else if truthy (lookup "_torch_optimizer" a) then type_checked st (decode_blob BOptimizer sub)
  else if truthy (lookup "_torch_scheduler" a) then type_checked st (decode_blob BScheduler sub)
  else if truthy (lookup "_torch_logger" a) then type_checked st (decode_tb sub)
  else if truthy (lookup "_python_logger" a) then type_checked st (decode_logger sub)
  else if truthy (lookup "_torch_whole_module" a) then type_checked st (decode_blob BModule sub)
  else if has_key "_autoserialize" a then
    match class_of a with
    | Some (m, c) => if mem (cls_name m c) st then RSkip else type_checked st (dobj sub)
    | None => RErr
    end
  else if match lookup "_container_type" a with Some JNull | None => false | Some _ => true end
  then type_checked st (dcont sub)
  else if truthy (lookup "_numpy_rng" a) then decode_rng sub
  else if truthy (lookup "_torch_rng_skipped" a) then RVal (VOther ["torch._C.Generator"] 0)
  else RErr.

(* sub-group dispatch of _deserialize_container (the same in its list, set and dict copies) *)
Definition cont_sub (dobj dcont : node -> res) (sub : node) : res :=
  let a := n_attrs sub in
  if has_key "_container_type" a then dcont sub
  else if has_key "_autoserialize" a then dobj sub
  else if truthy (lookup "_torch_whole_module" a) then decode_blob BModule sub
  else if truthy (lookup "_torch_tensor" a) then decode_blob BTensor sub
  else if truthy (lookup "_torch_logger" a) then decode_tb sub
  else if truthy (lookup "_python_logger" a) then decode_logger sub
  else if truthy (lookup "_numpy_rng" a) then decode_rng sub         (* repaired: _restore_numpy_rng *)
  else RErr.

(* max(int(k) for digit keys, default=-1) + 1 *)
Definition seq_len (ks : list string) : nat :=
  fold_right (fun k acc => match idx_of k with Some n => Nat.max (S n) acc | None => acc end) 0 ks.

(* items.append(...) over range(length); `continue` drops the item, an exception aborts *)
Fixpoint collect (l : list res) : option (list value) :=
  match l with
  | [] => Some []
  | RVal v :: r => match collect r with Some vs => Some (v :: vs) | None => None end
  | RSkip :: r => collect r
  | RErr :: _ => None
  end.
Fixpoint collect_kv (l : list (string * res)) : option (list (string * value)) :=
  match l with
  | [] => Some []
  | (k, RVal v) :: r => match collect_kv r with Some vs => Some ((k, v) :: vs) | None => None end
  | (_, RSkip) :: r => collect_kv r
  | (_, RErr) :: _ => None
  end.

Definition of_num (n : num) : value :=
  match n with NBool b => VBool b | NInt z => VInt z | NFloat f => VFloat f end.

Definition item_at (a : smap jval) (r : smap sarr) (dg : smap res) (key : string) : res :=
  match lookup key a with
  | Some j => RVal (attr_value key j a)
  | None =>
    match lookup key r with
    | Some sa => RVal (array_raw sa)
    | None => match lookup key dg with Some x => x | None => RErr end      (* KeyError *)
    end
  end.

(* the loop over group.group_keys(): `continue` when the name is skipped, else restore the sub-group *)
Section MapGroups.
  Variable f : node -> res.
  Variable skip : string -> bool.
  Fixpoint map_groups (l : list (string * node)) : list (string * res) :=
    match l with
    | [] => []
    | (k, sub) :: rest => if skip k then map_groups rest else (k, f sub) :: map_groups rest
    end.
End MapGroups.

Fixpoint decode_obj (sn st : list string) (g : node) {struct g} : res :=
  match g with
  | Group a r s =>
    match class_of a with
    | None => RErr
    | Some (m, c) =>
      (* --- Restore simple attributes --- *)
      let fa := flat_map (fun kj => match kj with (k, j) =>
                  if obj_meta_attr k || mem k sn then [] else [(k, attr_value k j a)] end) a in
      (* --- Restore datasets --- *)
      let fr := flat_map (fun ks => match ks with (k, sa) =>
                  if mem k sn then [] else
                    let v := array_value sa in if mem (exact_ty v) st then [] else [(k, v)] end) r in
      (* --- Restore subgroups --- *)
      let fg := map_groups (fun sub => obj_sub st (decode_obj sn st) decode_container sub)
                           (fun k => mem k sn) s in
      match collect_kv fg with
      | None => RErr
      | Some fgv =>
        (* for name in skip_names: delattr *)
        RVal (VObj m c (filter (fun kv => negb (mem (fst kv) sn)) (fa ++ fr ++ fgv)))
      end
    end
  end
with decode_container (g : node) {struct g} : res :=
  match g with
  | Group a r s =>
    let dg := map_groups (fun sub => cont_sub (decode_obj [] []) decode_container sub)
                         (fun _ => false) s in
    match lookup "_container_type" a with
    | Some (JStr ct) =>
      if String.eqb ct "list" || String.eqb ct "tuple" || String.eqb ct "set" then
        let items :=
          match (if String.eqb (jstr_or (lookup "_sequence_encoding" a) "") "ndarray"
                 then lookup "values" r else None) with
          | Some sa =>
            match a_data (array_to_np sa) with
            | ANums ns => Some (map of_num ns)                       (* arr.tolist() *)
            | _ => None
            end
          | None =>
            collect (map (fun i => item_at a r dg (str_of i))
                         (seq 0 (seq_len (keys a ++ keys r ++ keys s))))
          end in
        match items with
        | None => RErr
        | Some vs => RVal (if String.eqb ct "list" then VList vs
                           else if String.eqb ct "tuple" then VTuple vs else VSet vs)
        end
      else if String.eqb ct "dict" then
        let fa := flat_map (fun kj => match kj with (k, j) =>
                    if dict_meta_attr k then [] else [(k, attr_value k j a)] end) a in
        let fr := map (fun ks => match ks with (k, sa) => (k, array_raw sa) end) r in
        match collect_kv dg with
        | None => RErr
        | Some fgv => RVal (VDict (fa ++ fr ++ fgv))
        end
      else RErr
    | _ => RErr
    end
  end.

Definition jstrs (o : option jval) : list string :=
  match o with
  | Some (JList l) => flat_map (fun j => match j with JStr s => [s] | _ => [] end) l
  | _ => []
  end.

(* quantem.core.io.load(path, skip): user lists merged with the lists stored in the file *)
Definition load_file (usn ust : list string) (root : node) : res :=
  let a := n_attrs root in
  if has_key "_autoserialize" a then
    let fsn := jstrs (lookup "_autoserialize_skip_names" a) in
    let fst_ := jstrs (lookup "_autoserialize_skip_types" a) in
    decode_obj (usn ++ fsn) (ust ++ filter (fun t => negb (mem t ust)) fst_) root
  else RErr.

(* ------------------------------------------------------------------ the coarsening norm *)
Inductive sclass := SAttr | SArr | SGrp.
(* where a value is stored: JSON attribute / zarr array / sub-group *)
Definition sclass_of (v : value) : sclass :=
  match v with
  | VNone | VBool _ | VInt _ | VFloat _ | VStr _ | VPath _ | VNpScalar _ _ => SAttr
  | VArr _ | VOther _ _ => SArr
  | _ => SGrp
  end.
Definition is_class (c : sclass) (v : value) : bool :=
  match c, sclass_of v with SAttr, SAttr | SArr, SArr | SGrp, SGrp => true | _, _ => false end.

(* attribute maps and dicts are finite maps; they are listed in the canonical order
   "JSON attributes, then arrays, then sub-groups", each in insertion order *)
Definition reorder (l : list (string * value)) : list (string * value) :=
  filter (fun kv => is_class SAttr (snd kv)) l ++ filter (fun kv => is_class SArr (snd kv)) l
  ++ filter (fun kv => is_class SGrp (snd kv)) l.

Definition norm_seq (nrm : value -> value) (l : list value) : list value :=
  match numeric_seq l with
  | Some (_, ns) => map of_num ns
  | None => map nrm l
  end.

(* what the quantifier of C01 allows a round trip to forget: NumPy scalar -> Python scalar of the
   same numeric value; all-numeric sequences -> the promoted numbers; rng -> its kind *)
Fixpoint norm (v : value) : value :=
  match v with
  | VNpScalar _ n => of_num n
  | VRng bg _ => VRng (canon_bitgen bg) JNull
  | VList l => VList (norm_seq norm l)
  | VTuple l => VTuple (norm_seq norm l)
  | VSet l => VSet (norm_seq norm l)
  | VDict l => VDict (reorder (map (fun kv => match kv with (k, x) => (k, norm x) end) l))
  | VObj m c l => VObj m c (reorder (map (fun kv => match kv with (k, x) => (k, norm x) end) l))
  | _ => v
  end.

(* ------------------------------------------------------------------ pruning (C14) *)
(* what save(skip=...) removes: named / typed attributes of every AutoSerialize object that is
   serialised, including objects inside containers (the skip lists are threaded through
   _serialize_container) *)
Fixpoint prune_save (sn st : list string) (v : value) : value :=
  match v with
  | VObj m c l =>
    VObj m c (flat_map (fun kv => match kv with (k, x) =>
                          if mem k sn || inst_any x st then [] else [(k, prune_save sn st x)] end) l)
  | VList l => VList (map (prune_save sn st) l)
  | VTuple l => VTuple (map (prune_save sn st) l)
  | VSet l => VSet (map (prune_save sn st) l)
  | VDict l => VDict (map (fun kv => match kv with (k, x) => (k, prune_save sn st x) end) l)
  | _ => v
  end.

(* what load(skip=...) removes: names at every attribute-nested object level; types by exact type
   and never for JSON-attribute values or rngs; objects inside containers are loaded unpruned *)
Definition load_type_skipped (st : list string) (v : value) : bool :=
  match sclass_of v with
  | SAttr => false
  | _ => match v with VRng _ _ => false | _ => mem (exact_ty v) st end
  end.
Fixpoint prune_load (sn st : list string) (v : value) : value :=
  match v with
  | VObj m c l =>
    VObj m c (flat_map (fun kv => match kv with (k, x) =>
                          if mem k sn || load_type_skipped st x then [] else [(k, prune_load sn st x)] end) l)
  | _ => v
  end.

(* no AutoSerialize object below a container (the quantifier of C14) *)
Fixpoint no_obj (v : value) : bool :=
  match v with
  | VObj _ _ _ => false
  | VList l | VTuple l | VSet l => forallb no_obj l
  | VDict l => forallb (fun kv => no_obj (snd kv)) l
  | _ => true
  end.
Fixpoint attr_nested (v : value) : bool :=
  match v with
  | VObj _ _ l => forallb (fun kv => attr_nested (snd kv)) l
  | VList _ | VTuple _ | VSet _ | VDict _ => no_obj v
  | _ => true
  end.

(* every attribute name of every AutoSerialize object in the graph (any depth, also in containers) *)
Fixpoint all_names (v : value) : list string :=
  match v with
  | VObj _ _ l => flat_map (fun kv => fst kv :: all_names (snd kv)) l
  | VList l | VTuple l | VSet l => flat_map all_names l
  | VDict l => flat_map (fun kv => all_names (snd kv)) l
  | _ => []
  end.

(* ------------------------------------------------------------------ well-formed graphs *)
Definition reserved : list string :=
  ["_autoserialize"; "_container_type"; "_sequence_encoding"; "_torch_iterable_module_type";
   "_torch_tensor"; "_torch_optimizer"; "_torch_scheduler"; "_torch_logger"; "_python_logger";
   "_torch_whole_module"; "_numpy_rng"; "_torch_rng_skipped";
   "_autoserialize_skip_names"; "_autoserialize_skip_types"].

(* attribute names and dict keys: a valid store path component (non-empty, no '/' or '\', not
   "." / ".." / the store's own "zarr.json"), not a reserved metadata name or flag suffix *)
Definition key_ok (k : string) : bool :=
  negb (String.eqb k "") && negb (has_char "/"%char k) && negb (has_char "\"%char k)
  && negb (mem k ["."; ".."; "zarr.json"]) && negb (mem k reserved)
  && negb (ends_with k ".is_path") && negb (ends_with k ".torch_save").

Definition int64_ok (z : Z) : bool := ((- 2 ^ 63 <=? z) && (z <? 2 ^ 63))%Z%bool.
Definition exact53 (z : Z) : bool := ((- 2 ^ 53 <=? z) && (z <=? 2 ^ 53))%Z%bool.
(* integers inside an all-numeric sequence: within int64, and exactly representable when the
   sequence is promoted to float *)
Definition nums_ok (l : list value) : bool :=
  match l with
  | [] => true
  | _ => match all_numeric l with
         | None => true
         | Some cl =>
           let r := result_cat cl in
           forallb (fun cn => match snd cn with
                              | NInt z => int64_ok z && match r with RF => exact53 z | _ => true end
                              | _ => true end) cl
         end
  end.

Definition np_dtypes : list string :=
  ["bool"; "int8"; "int16"; "int32"; "int64"; "uint8"; "uint16"; "uint32"; "uint64";
   "float16"; "float32"; "float64"].
Definition num_matches (dt : string) (n : num) : bool :=
  match np_cat dt, n with
  | Some CBool, NBool _ => true
  | Some CSigned, NInt _ | Some CUSmall, NInt _ | Some CU64, NInt _ => true
  | Some CFloat, NFloat _ => true
  | _, _ => false
  end.

Definition arr_ok (a : arr) : bool :=
  forallb (fun s => (0 <=? s)%Z) (a_shape a) &&
  match a_data a with
  | AOpaque h => if has_zero (a_shape a) then (h =? 0)%Z else true
  | _ => false
  end.

(* the attributes written next to a blob's marker (_tensor_shape, ..., class_name): distinct names,
   none of them one of the serializer's markers *)
Definition meta_ok (meta : smap jval) : bool :=
  nodupb (keys meta) && forallb (fun k => negb (mem k reserved)) (keys meta).

(* in_cont: the value sits inside a list/tuple/set/dict, where _deserialize_container has no
   branch for optimizers and schedulers *)
Fixpoint wf_value (in_cont : bool) (v : value) : bool :=
  match v with
  | VNone | VBool _ | VInt _ | VFloat _ | VStr _ | VPath _ => true
  | VNpScalar dt n => mem dt np_dtypes && num_matches dt n
  | VArr a => arr_ok a
  | VBlob k _ meta _ => meta_ok meta && match k with BTensor | BModule => true | _ => negb in_cont end
  | VLogger c _ _ => String.eqb c "Logger" || String.eqb c "RootLogger"
  | VRng bg _ => mem bg known_bitgens
  | VList l | VTuple l | VSet l => forallb (wf_value true) l && nums_ok l
  | VDict l => nodupb (map fst l) && forallb (fun kv => key_ok (fst kv)) l
               && forallb (fun kv => wf_value true (snd kv)) l
  | VObj _ _ l => nodupb (map fst l) && forallb (fun kv => key_ok (fst kv)) l
                  && forallb (fun kv => wf_value false (snd kv)) l
  | VOther _ _ => true
  | VTbWriter _ _ _ _ => true
  end.

Definition wf_obj (v : value) : bool :=
  match v with VObj _ _ _ => wf_value false v | _ => false end.

(* ------------------------------------------------------------------ a store as a flat file map *)
(* LocalStore: one zarr.json per group (its attrs) and per array (metadata + chunks), addressed
   by '/'-separated paths; the zip store is the same file map inside an archive *)
Inductive entry := EGroup (a : smap jval) | EArray (sa : sarr).
Definition fmap := list (list string * entry).

Fixpoint flatten (g : node) : fmap :=
  match g with
  | Group a r s =>
    ([], EGroup a) :: map (fun ks => match ks with (k, sa) => ([k], EArray sa) end) r
    ++ (fix go (l : list (string * node)) : fmap :=
          match l with
          | [] => []
          | (k, sub) :: rest => map (fun pe => (k :: fst pe, snd pe)) (flatten sub) ++ go rest
          end) s
  end.

(* children of the root in a file map: entries with a one-element path are arrays or groups;
   the sub-tree of group k is every entry whose path starts with k *)
Definition under (k : string) (m : fmap) : fmap :=
  flat_map (fun pe => match fst pe with
                      | k' :: p => if String.eqb k k' then [(p, snd pe)] else []
                      | [] => [] end) m.

Fixpoint unflatten (fuel : nat) (m : fmap) : option node :=
  match fuel with
  | O => None
  | S f =>
    match m with
    | ([], EGroup a) :: _ =>
      let arrays := flat_map (fun pe => match pe with ([k], EArray sa) => [(k, sa)] | _ => [] end) m in
      let gnames := flat_map (fun pe => match pe with ([k], EGroup _) => [k] | _ => [] end) m in
      let subs := map (fun k => (k, unflatten f (under k m))) gnames in
      match (fix go (l : list (string * option node)) : option (list (string * node)) :=
               match l with
               | [] => Some []
               | (k, Some n) :: rest => match go rest with Some r => Some ((k, n) :: r) | None => None end
               | (_, None) :: _ => None
               end) subs with
      | Some gs => Some (Group a arrays gs)
      | None => None
      end
    | _ => None
    end
  end.

Fixpoint depth (g : node) : nat :=
  match g with
  | Group _ _ s => S (fold_right (fun kn acc => Nat.max (depth (snd kn)) acc) 0 s)
  end.

(* ZipFile.write of every file / extractall: the archive is the list of (arcname, content) *)
Definition zip_store (m : fmap) : list (list string * entry) := m.
Definition unzip_store (z : list (list string * entry)) : fmap := z.

(* ------------------------------------------------------------------ comparisons for the harness *)
(* order-insensitive on maps and sets (no duplicate keys assumed) *)
Definition smap_eqb {A B} (eqb : A -> B -> bool) (m1 : smap A) (m2 : smap B) : bool :=
  Nat.eqb (List.length m1) (List.length m2) &&
  forallb (fun kx => match lookup (fst kx) m2 with Some y => eqb (snd kx) y | None => false end) m1.

Definition num_eqb (a b : num) : bool :=
  match a, b with
  | NBool x, NBool y => Bool.eqb x y
  | NInt x, NInt y => (x =? y)%Z
  | NFloat x, NFloat y => (x =? y)%Z
  | _, _ => false
  end.
Section ListEqb.
  Context {A B : Type}.
  Variable eqb : A -> B -> bool.
  Fixpoint list_eqb (l1 : list A) (l2 : list B) : bool :=
    match l1, l2 with
    | [], [] => true
    | x :: r1, y :: r2 => eqb x y && list_eqb r1 r2
    | _, _ => false
    end.
End ListEqb.

Fixpoint jval_eqb (a b : jval) {struct a} : bool :=
  match a, b with
  | JNull, JNull => true
  | JBool x, JBool y => Bool.eqb x y
  | JInt x, JInt y => (x =? y)%Z
  | JFloat x, JFloat y => (x =? y)%Z
  | JStr x, JStr y => String.eqb x y
  | JList x, JList y => list_eqb jval_eqb x y
  | JDict x, JDict y => smap_eqb jval_eqb x y
  | JOpaque x, JOpaque y => (x =? y)%Z
  | _, _ => false
  end.

Definition adata_eqb (a b : adata) : bool :=
  match a, b with
  | AOpaque x, AOpaque y => (x =? y)%Z
  | ANums x, ANums y => list_eqb num_eqb x y
  | ABytes c1 t1 h1, ABytes c2 t2 h2 => String.eqb c1 c2 && list_eqb String.eqb t1 t2 && (h1 =? h2)%Z
  | _, _ => false
  end.
Definition arr_eqb (a b : arr) : bool :=
  String.eqb (a_dtype a) (a_dtype b) && list_eqb Z.eqb (a_shape a) (a_shape b) && adata_eqb (a_data a) (a_data b).
Definition sarr_eqb (a b : sarr) : bool :=
  arr_eqb (s_arr a) (s_arr b) && smap_eqb jval_eqb (s_attrs a) (s_attrs b).

Fixpoint node_eqb (a b : node) {struct a} : bool :=
  match a, b with
  | Group a1 r1 s1, Group a2 r2 s2 =>
    smap_eqb jval_eqb a1 a2 && smap_eqb sarr_eqb r1 r2 && smap_eqb node_eqb s1 s2
  end.

Fixpoint value_eqb (a b : value) {struct a} : bool :=
  match a, b with
  | VNone, VNone => true
  | VBool x, VBool y => Bool.eqb x y
  | VInt x, VInt y => (x =? y)%Z
  | VFloat x, VFloat y => (x =? y)%Z
  | VStr x, VStr y => String.eqb x y
  | VPath x, VPath y => String.eqb x y
  | VNpScalar d1 n1, VNpScalar d2 n2 => String.eqb d1 d2 && num_eqb n1 n2
  | VArr x, VArr y => arr_eqb x y
  | VBlob k1 t1 m1 h1, VBlob k2 t2 m2 h2 =>
    String.eqb (marker_of k1) (marker_of k2) && list_eqb String.eqb t1 t2 && smap_eqb jval_eqb m1 m2 && (h1 =? h2)%Z
  | VLogger c1 n1 l1, VLogger c2 n2 l2 => String.eqb c1 c2 && String.eqb n1 n2 && (l1 =? l2)%Z
  | VRng b1 s1, VRng b2 s2 => String.eqb b1 b2 && jval_eqb s1 s2
  | VList x, VList y => list_eqb value_eqb x y
  | VTuple x, VTuple y => list_eqb value_eqb x y
  | VSet x, VSet y => Nat.eqb (List.length x) (List.length y) && forallb (fun e => existsb (value_eqb e) y) x
  | VDict x, VDict y => smap_eqb value_eqb x y
  | VObj m1 c1 x, VObj m2 c2 y => String.eqb m1 m2 && String.eqb c1 c2 && smap_eqb value_eqb x y
  | VOther t1 h1, VOther t2 h2 => list_eqb String.eqb t1 t2 && (h1 =? h2)%Z
  | VTbWriter d1 q1 f1 s1, VTbWriter d2 q2 f2 s2 => String.eqb d1 d2 && (q1 =? q2)%Z && (f1 =? f2)%Z && String.eqb s1 s2
  | _, _ => false
  end.

Definition res_eqb (a : res) (b : res) : bool :=
  match a, b with
  | RVal x, RVal y => value_eqb x y
  | RSkip, RSkip | RErr, RErr => true
  | _, _ => false
  end.

(* ------------------------------------------------------------------ example graphs (non-vacuity) *)
Definition ex_arr : arr := mkArr "float32" [2; 3]%Z (AOpaque 77).
Definition ex_fields_common : list (string * value) :=
  [("n", VNone); ("b", VBool true); ("i", VInt 7); ("f", VFloat 4607182418800017408);
   ("s", VStr "hello"); ("p", VPath "/a/b"); ("np", VNpScalar "int16" (NInt 3));
   ("a", VArr ex_arr); ("a0", VArr (mkArr "int8" [] (AOpaque 5))); ("ae", VArr (mkArr "float64" [0; 3]%Z (AOpaque 0)));
   ("t", VBlob BTensor ["torch.Tensor"; "torch._C.TensorBase"]
               [("_tensor_shape", JList [JInt 2]); ("_tensor_dtype", JStr "torch.float32");
                ("_tensor_device", JStr "cpu"); ("_tensor_requires_grad", JBool true)] 11);
   ("o", VBlob BOptimizer ["torch.optim.adam.Adam"; "torch.optim.optimizer.Optimizer"] [("class_name", JStr "Adam")] 12);
   ("sch", VBlob BScheduler ["torch.optim.lr_scheduler.StepLR"] [("class_name", JStr "StepLR")] 13);
   ("m", VBlob BModule ["torch.nn.modules.linear.Linear"; "torch.nn.modules.module.Module"] [] 14);
   ("lg", VLogger "Logger" "c01" 20); ("tb", VTbWriter "runs/x" 10 120 "");
   ("r", VRng "PCG64" (JOpaque 1));
   ("l", VList [VInt 1; VStr "x"; VTuple [VPath "q"; VDict [("k", VSet [VInt 1; VFloat 4609434218613702656])]]]);
   ("nl", VList [VBool true; VInt 2; VNpScalar "float32" (NFloat 4602678819172646912)]);
   ("sub", VObj "harness.c01_classes" "NodeB"
                [("x", VInt 1); ("a", VArr ex_arr);
                 ("sub", VObj "harness.c01_classes" "NodeC" [("w", VTuple []); ("x", VStr "deep")])]);
   ("z", VOther ["builtins.complex"] 99);
   ("rc", VDict [("r", VRng "MT19937" (JOpaque 2)); ("c", VTuple [VOther ["numpy.complex64"; "numpy.complexfloating"] 98; VStr "c"])])].
(* every constructor, depth 3, objects reached through attributes only (C14's quantifier) *)
Definition ex_graph_attr : value := VObj "harness.c01_classes" "NodeA" ex_fields_common.
(* the same plus an object inside a dict inside the root *)
Definition ex_graph : value :=
  VObj "harness.c01_classes" "NodeA"
       (ex_fields_common ++ [("d", VDict [("0", VObj "harness.c01_classes" "NodeB" [("x", VArr ex_arr); ("y", VList [])])])]).
