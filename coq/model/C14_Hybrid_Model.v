(* C14 - nn.Module + AutoSerialize hybrid as the ROOT object (the pattern of quantem's ObjectBase / ProbeBase /
   dataset classes).  Definitions only; proofs in proof/C14_Proofs_Hybrid.v.

   For save() / load() such an object is an AutoSerialize object whose fields are its vars(): torch keeps its
   parameters, buffers and sub-modules as entries of the dict-valued fields _parameters / _buffers / _modules.
   Entries of containers are never name-filtered (neither by _recursive_save nor by the three loops of
   _recursive_load), so C01_Model.load_file leaves them in place.  What removes a skipped parameter / buffer /
   sub-module is the final clean-up of _recursive_load

       for name in skip_names:
           if hasattr(obj, name): delattr(obj, name)

   through torch's Module.__getattr__ (looks the name up in the three registries) and Module.__delattr__ (deletes
   the entry from the registry that has it).  `hyb_delattr` is that step; `load_file_hyb` is load() on a hybrid root.
   Registration keeps a name in at most one registry and never next to a plain attribute of the same name, so removing
   the name from all three is what __delattr__ does. *)
From QV.lib Require Import Prelude.
From QV.model Require Import C01_Model.
From Coq Require Import String.
Local Open Scope string_scope.
Local Open Scope list_scope.

Definition hyb_regs : list string := ["_parameters"; "_buffers"; "_modules"].

Definition hyb_field (sn : list string) (kv : string * value) : string * value :=
  match kv with
  | (k, VDict d) => if mem k hyb_regs then (k, VDict (filter (fun e => negb (mem (fst e) sn)) d)) else kv
  | _ => kv
  end.

Definition hyb_delattr (sn : list string) (v : value) : value :=
  match v with
  | VObj m c l => VObj m c (map (hyb_field sn) l)
  | _ => v
  end.

Definition on_res (f : value -> value) (r : res) : res := match r with RVal v => RVal (f v) | _ => r end.

(* the names load() ends up with: user names + names recorded in the file *)
Definition merged_names (usn : list string) (root : node) : list string :=
  usn ++ jstrs (lookup "_autoserialize_skip_names" (n_attrs root)).

(* quantem.core.io.load(path, skip) when the root class is an nn.Module hybrid *)
Definition load_file_hyb (usn ust : list string) (root : node) : res :=
  on_res (hyb_delattr (merged_names usn root)) (load_file usn ust root).

(* the attribute names of a hybrid as hasattr sees them: plain fields (the three registries themselves excluded)
   plus the entries of the registries *)
Definition hyb_attr_names (v : value) : list string :=
  match v with
  | VObj _ _ l =>
    flat_map (fun kv => match kv with
                        | (k, VDict d) => if mem k hyb_regs then map fst d else [k]
                        | (k, _) => [k]
                        end) l
  | _ => []
  end.
