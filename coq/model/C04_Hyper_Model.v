(* C04 — hyper-parameter layers and name dispatch of
     quantem.diffractive_imaging.direct_ptychography   (definitions only; proofs in proof/C04_Proofs_Hyper.v)

     HyperparameterState.current_aberrations     initial (+) optimized (+) validate(override), later layer wins per key
     HyperparameterState.current_rotation_angle  override, else optimized, else initial, else 0.0
     DirectPtychography._normalize_kernel_name   lower-case, alias table
     the kernel dispatch of _return_kernel_contributions / reconstruct (which branch, who has a power accumulator)

   A dictionary is its lookup function (the order of the keys of a Python dict is not observable by the
   reconstruction); values are ABSTRACT: nothing in the merge may look at a value, in particular not whether it is zero.
   The generated file build/C04/Gen_C04.v (harness/c04_tie.py, from the CURRENT source) is proved equal to these
   definitions on every run (coq/gen_proofs/C04_GenProofs.v). *)
From Coq Require Import List Bool String Ascii Arith ZArith PrimFloat.
Import ListNotations.
Unset Implicit Arguments.
Local Open Scope string_scope.

Section Dict.
  Variables K V : Type.
  Definition dict := K -> option V.
  Definition d_empty : dict := fun _ => None.
  (* a.update(b)  /  {**a, **b}  /  a | b   (dict(a), a.copy() are a itself) *)
  Definition d_update (a b : dict) : dict :=
    fun k => match b k with Some v => Some v | None => a k end.
  (* current_aberrations(override_fixed): override_fixed = None means no third layer *)
  Definition merge_layers (init opt : dict) (ovr : option dict) : dict :=
    match ovr with
    | Some o => d_update (d_update init opt) o
    | None => d_update init opt
    end.
  (* the value in force for key k, read off the layers directly *)
  Definition layer_lookup (init opt : dict) (ovr : option dict) (k : K) : option V :=
    match (match ovr with Some o => o k | None => None end) with
    | Some v => Some v
    | None => match opt k with Some v => Some v | None => init k end
    end.
  (* current_rotation_angle(override_fixed) *)
  Definition eff_rotation (ovr opt init : option V) (dflt : V) : V :=
    match ovr with
    | Some v => v
    | None => match opt with
              | Some v => v
              | None => match init with Some v => v | None => dflt end
              end
    end.
  Definition dict_eq (a b : dict) : Prop := forall k, a k = b k.

  (* one reconstruct call: a function `rec` of the effective aberrations and rotation (everything else fixed) *)
  Variable Res : Type.
  Variable rec : dict -> V -> Res.
  Variable zero : V.
  Definition layered_call (init : dict) (irot : option V) (opt : dict) (orot : option V)
             (ovr : option dict) (ovrrot : option V) : Res :=
    rec (merge_layers init opt ovr) (eff_rotation ovrrot orot irot zero).
  (* a fresh object constructed with aberrations e and rotation r, called without overrides *)
  Definition fresh_call (e : dict) (r : V) : Res := layered_call e (Some r) d_empty None None None.
End Dict.

Arguments dict K V : clear implicits.
Arguments d_empty {K V} _.
Arguments d_update {K V} a b _.
Arguments merge_layers {K V} init opt ovr _.
Arguments layer_lookup {K V} init opt ovr k.
Arguments eff_rotation {V} ovr opt init dflt.
Arguments dict_eq {K V} a b.
Arguments layered_call {K V Res} rec zero init irot opt orot ovr ovrrot.
Arguments fresh_call {K V Res} rec zero e r.

(* what the seeded "drop vanishing entries of every layer before merging" would compute (for the refutation) *)
Definition d_prune {K V} (is_zero : V -> bool) (a : dict K V) : dict K V :=
  fun k => match a k with Some v => if is_zero v then None else Some v | None => None end.
Definition merge_layers_pruned {K V} (is_zero : V -> bool) (init opt : dict K V) (ovr : option (dict K V)) : dict K V :=
  merge_layers (d_prune is_zero init) (d_prune is_zero opt) (option_map (d_prune is_zero) ovr).

(* ------------------------------------------------------------------ runnable instance: association lists *)
Fixpoint alist_get {V} (k : nat) (l : list (nat * V)) : option V :=
  match l with
  | [] => None
  | (k', v) :: r => if Nat.eqb k k' then Some v else alist_get k r
  end.
(* a Python dict literal / sequence of assignments d[k] = v: the LAST assignment to a key is its value *)
Definition of_alist {V} (l : list (nat * V)) : dict nat V := fun k => alist_get k (rev l).
Definition dump {V} (keys : list nat) (d : dict nat V) : list (nat * V) :=
  flat_map (fun k => match d k with Some v => [(k, v)] | None => [] end) keys.

(* validate_aberration_coefficients: key numbering of the harness: 0..24 polar symbols in the order of POLAR_SYMBOLS,
   25.. the aliases in the order (defocus, astigmatism, astigmatism_angle, coma, coma_angle, Cs, C5) *)
Definition alias_target (k : nat) : nat :=
  match k with
  | 25 => 0 | 26 => 1 | 27 => 2 | 28 => 3 | 29 => 4 | 30 => 7 | 31 => 18
  | _ => k
  end%nat.
Definition canon_alist {V} (opp : V -> V) (l : list (nat * V)) : list (nat * V) :=
  map (fun p => (alias_target (fst p), if Nat.eqb (fst p) 25 then opp (snd p) else snd p)) l.
(* the same as a function on dictionaries over the 32 names (no dictionary with both an alias and its target) *)
Definition canon_dict {V} (opp : V -> V) (d : dict nat V) : dict nat V :=
  of_alist (canon_alist opp (dump (seq 0 32) d)).

(* ------------------------------------------------------------------ kernel names *)
Fixpoint slookup (s : string) (l : list (string * string)) : option string :=
  match l with
  | [] => None
  | (a, b) :: r => if String.eqb s a then Some b else slookup s r
  end.
(* the alias table of _normalize_kernel_name, entries sorted by alias (a dict literal has no order) *)
Definition kernel_aliases : list (string * string) :=
  [ ("aberration-corrected-bright-field", "ssb"); ("acbf", "ssb"); ("center-of-mass", "icom"); ("icom", "icom");
    ("matched-filter", "mf"); ("mf", "mf"); ("obf", "obf"); ("optimum-bright-field", "obf"); ("parallax", "prlx");
    ("prlx", "prlx"); ("single-sideband", "ssb"); ("ssb", "ssb"); ("tcbf", "prlx");
    ("tilt-corrected-bright-field", "prlx") ].
(* None = ValueError("Unknown deconvolution kernel") ; `lower` = str.lower *)
Definition normalize_kernel (lower : string -> string) (k : string) : option string :=
  slookup (lower k) kernel_aliases.
Definition canonical_kernels : list string := ["ssb"; "obf"; "mf"; "prlx"; "icom"].
Definition sin (s : string) (l : list string) : bool := existsb (String.eqb s) l.

(* which formula of _return_kernel_contributions serves a canonical kernel, and whether it returns a power *)
Inductive kbranch := BrGamma | BrPrlx | BrIcom.
Definition kernel_branch (k : string) : kbranch :=
  if sin k ["ssb"; "obf"; "mf"] then BrGamma else if String.eqb k "prlx" then BrPrlx else BrIcom.
Definition two_pass (k : string) : bool := sin k ["obf"; "mf"].
Definition returns_power (k : string) : bool := sin k ["ssb"; "obf"; "mf"] && negb (String.eqb k "ssb").
Definition ssb_divides (k : string) : bool := String.eqb k "ssb".
Definition kbranch_eqb (a b : kbranch) : bool :=
  match a, b with BrGamma, BrGamma | BrPrlx, BrPrlx | BrIcom, BrIcom => true | _, _ => false end.

(* ------------------------------------------------------------------ what the skeleton of C04_Model.v assumes about reconstruct
   (structural facts the translator extracts from the source; sorted by name) *)
Definition reconstruct_facts : list (string * string) :=
  [ ("batch_default", "num_bf");
    ("batcher", "SimpleBatcher(num_bf,batch_size=max_batch_size,shuffle=False)");
    ("bf_weights", "sum |probe|^2 over bf.bf_mask");
    ("context", "bf=self._return_bf_context(bf_mask or self.bf_mask);num_bf,vbf_index_mapping,bf_mask from bf");
    ("kernel_args", "kxa,kya,qxa,qya,cmplx_probe_k,grad_k,sign_sin_chi_q,aberration_coefs");
    ("kernel_input", "tile(self._vbf_fourier[vbf_index_mapping[batch_idx]])");
    ("kernel_name", "normalised") ].
