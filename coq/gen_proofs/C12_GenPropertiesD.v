(* C12 — One aberration surface: the GRADIENT theorems about the functions translated on this run
   from the current complex_probe.py (Gen12.Gen_Chi).  ONLY statements closed by `exact` and their
   assumption reports; proofs in the fixed scripts C12_GenDeriv.v and C12_GenDeriv2.v (Coquelicot
   `is_derive` / `auto_derive`).  Companion of C12_GenProperties.v (same vocabulary). *)
From Coq Require Import Reals String.
From Coquelicot Require Import Coquelicot.
From QV.lib Require Import C12_RealLib.
From Gen12 Require Import Gen_Chi C12_GenDeriv C12_GenDeriv2.
Local Open Scope R_scope.

(* analytic gradient: true derivatives of the surface *)
Theorem C12_grad_alpha :
  forall (c : env) (alpha phi lambda : R),
    lambda <> 0 ->
    is_derive (fun a => chi_polar c a phi lambda) alpha (dchi_dk c alpha phi / lambda).
Proof. exact grad_alpha. Qed.
Print Assumptions C12_grad_alpha.

Theorem C12_grad_phi :
  forall (c : env) (alpha phi lambda : R),
    lambda <> 0 ->
    is_derive (fun p => chi_polar c alpha p lambda) phi (alpha * dchi_dphi c alpha phi / lambda).
Proof. exact grad_phi. Qed.
Print Assumptions C12_grad_phi.

(* "the analytic gradient equals the wavelength times the true gradient" *)
Theorem C12_grad_is_lambda_times_derivative :
  forall (c : env) (alpha phi lambda : R),
    lambda <> 0 ->
    dchi_dk c alpha phi = lambda * Derive (fun a => chi_polar c a phi lambda) alpha /\
    alpha * dchi_dphi c alpha phi = lambda * Derive (fun p => chi_polar c alpha p lambda) phi.
Proof. exact grad_is_lambda_times_derivative. Qed.
Print Assumptions C12_grad_is_lambda_times_derivative.

(* the Cartesian gradient (dchi_dx, dchi_dy) is lambda times the derivative of the surface along any Cartesian direction (dx, dy)
   of the angle plane (x, y) = alpha (cos phi, sin phi) *)
Theorem C12_grad_cartesian_directional :
  forall (c : env) (alpha phi lambda dx dy : R),
    lambda <> 0 -> alpha <> 0 ->
    let da := cos phi * dx + sin phi * dy in
    let dphi := (- sin phi * dx + cos phi * dy) / alpha in
    is_derive (fun t => chi_polar c (alpha + t * da) (phi + t * dphi) lambda) 0
              ((dchi_dx c alpha phi * dx + dchi_dy c alpha phi * dy) / lambda).
Proof. exact grad_cartesian_directional. Qed.
Print Assumptions C12_grad_cartesian_directional.
