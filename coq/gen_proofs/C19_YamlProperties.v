(* C19 — property theorems about the store after import, instantiated with the CURRENT quantem.yaml
   (regenerated into build/C19/C19_Yaml.v by every run of the check). *)
From QV.lib Require Import Prelude.
From QV.model Require Import C19_Model C19_Model2.
From QV.proof Require Import C19_Proofs_Keys C19_Proofs_Set C19_Proofs_Update C19_Proofs_Ctx C19_Proofs_Hist
  C19_Proofs_Last C19_Proofs_With C19_Proofs_Ext.
From Gen19 Require Import C19_Yaml C19_YamlProofs.
From Coq Require Import String Ascii.

(* the parsed yaml (and the probe defaults) spell every key once and purely; importing raises
   nothing; the defaults stack after import is [probe; yaml]; the device is the cpu *)
Theorem C19_yaml_import :
  (good (Node probe_defaults) /\ good (Node yaml_defaults)) /\
  snd (import_store validate_nogpu probe_defaults yaml_defaults) = None /\
  dflts init_store = [probe_defaults; yaml_defaults] /\
  C19_Model.get "device" (conf init_store) = inr (Leaf (JStr "cpu")).
Proof. exact (conj yaml_good (conj import_ok (conj init_dflts init_device))). Qed.
Print Assumptions C19_yaml_import.

(* all histories started after import: one spelling per dict, stored device validated *)
Theorem C19_yaml_histories :
  forall ops, Forall op_ok ops ->
    (good (Node (conf (run validate_nogpu ops init_store))) /\
     Forall (fun d => good (Node d)) (dflts (run validate_nogpu ops init_store))) /\
    dev_ok validate_nogpu (conf (run validate_nogpu ops init_store)).
Proof. exact histories_after_import. Qed.
Print Assumptions C19_yaml_histories.

(* refresh restores exactly the shipped defaults after any set / with / refresh statements *)
Theorem C19_yaml_refresh_restores :
  forall ops, Forall no_upd ops ->
    conf (fst (refresh validate_nogpu [] (run validate_nogpu ops init_store))) = conf init_store.
Proof. exact refresh_restores_import. Qed.
Print Assumptions C19_yaml_refresh_restores.

(* every scalar of the yaml file reads back after import under either spelling *)
Theorem C19_yaml_leaf_after_import :
  forall q q' x,
    pure_path q -> pure_path q' -> nodev q -> same_path q q' -> q <> [] ->
    get_path q (Node yaml_defaults) = inr (Leaf x) ->
    get_path q' (Node (conf init_store)) = inr (Leaf x).
Proof. exact yaml_leaf_after_import. Qed.
Print Assumptions C19_yaml_leaf_after_import.

(* last writer wins over histories that start after import *)
Theorem C19_yaml_last_writer :
  forall key v v' d2 r key' post,
    key_ok key -> good v -> key_ok key' -> nodev (path_of key') ->
    same_path (path_of key) (path_of key') ->
    check_key_val validate_nogpu key v = inr v' ->
    set_item validate_nogpu key v (conf init_store) = inr (d2, r) ->
    Forall (no_write_op key') post ->
    C19_Model.get key' (conf (run validate_nogpu post {| conf := d2; dflts := dflts init_store |})) = inr v'.
Proof. exact (fun key v v' d2 r key' post => get_last_writer_from validate_nogpu init_store key v v' d2 r key' post (proj1 init_inv)). Qed.
Print Assumptions C19_yaml_last_writer.

Example C19_nonvacuous_yaml_leaf :
  get_path ["dtype_real"%string] (Node yaml_defaults) = inr (Leaf (JStr "float32")) ->
  get_path ["dtype-real"%string] (Node (conf init_store)) = inr (Leaf (JStr "float32")).
Proof.
  apply C19_yaml_leaf_after_import; try (vm_compute; repeat constructor; discriminate); try reflexivity; discriminate.
Qed.
