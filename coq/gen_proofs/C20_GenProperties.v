(* C20 — Display normalisation, part 2: the property theorems about the functions TRANSLATED
   from the current custom_normalizations.py (Gen20.Gen_Norm, regenerated on every run).
   ONLY theorem statements closed by `exact`, their assumption reports and non-vacuity
   examples; the proofs are in C20_GenProofs.v (fixed script) and proof/C20_RLemmas.v.

   Vocabulary (C20_GenProofs.v):
     stretch_cfg        SLinearDefault | SPower p | SLog a | SInvLog a | SAsinh a | SSinh a
     cfg_domain s       what the constructor of that stretch enforces (read from __post_init__)
     cfg_call s         <Class>_call params          — the translated body of __call__
     cfg_inverse_call s the declared inverse: class and parameters read from `inverse`
     norm s vmin vmax x       = CustomNormalization_call (interval_map vmin vmax) (cfg_call s) x
     norm_inverse s vmin vmax = CustomNormalization_inverse ... *)
From Coq Require Import Reals.
From QV.lib Require Import C20_NpReal.
From QV.model Require Import C20_Model.
From QV.proof Require Import C20_RLemmas C20_Proofs.
From Gen20 Require Import Gen_Norm C20_GenProofs C20_GenProofs2.
From Coq Require Import List.
Import ListNotations.
Local Open Scope R_scope.

(* finite data are mapped into [0, 1] — for every stretch, all limits (ordered or not) *)
Theorem C20_norm_range :
  forall s vmin vmax x, cfg_domain s -> 0 <= norm s vmin vmax x <= 1.
Proof. exact norm_range_lemma. Qed.
Print Assumptions C20_norm_range.

(* non-decreasing in the data value *)
Theorem C20_norm_monotone :
  forall s vmin vmax x y,
    cfg_domain s -> vmin <= vmax -> x <= y -> norm s vmin vmax x <= norm s vmin vmax y.
Proof. exact norm_monotone_lemma. Qed.
Print Assumptions C20_norm_monotone.

(* the lower and upper limits go to 0 and 1 *)
Theorem C20_norm_endpoints :
  forall s vmin vmax,
    cfg_domain s -> vmin < vmax -> norm s vmin vmax vmin = 0 /\ norm s vmin vmax vmax = 1.
Proof. exact norm_endpoints_lemma. Qed.
Print Assumptions C20_norm_endpoints.

(* each stretch composed with its declared inverse — either way round — is the identity on
   [0, 1]; the declared inverse satisfies its own constructor's domain check *)
Theorem C20_stretch_inverse :
  forall s x,
    cfg_domain s -> 0 <= x <= 1 ->
    cfg_inverse_call s (cfg_call s x) = x /\ cfg_call s (cfg_inverse_call s x) = x.
Proof. exact stretch_inverse_lemma. Qed.
Print Assumptions C20_stretch_inverse.

Theorem C20_inverse_constructible :
  forall s, cfg_domain s -> cfg_inverse_domain s.
Proof. exact inverse_constructible. Qed.
Print Assumptions C20_inverse_constructible.

(* a general LinearStretch(slope, intercept) (not constructed by CustomNormalization) cancels
   with its declared inverse wherever the stretched value stays inside [0, 1] *)
Theorem C20_linear_inverse_general :
  forall slope intercept x,
    slope <> 0 -> 0 <= x <= 1 -> 0 <= x * slope + intercept <= 1 ->
    LinearStretch_inverse_call slope intercept (LinearStretch_call slope intercept x) = x.
Proof. exact linear_inverse_general. Qed.
Print Assumptions C20_linear_inverse_general.

(* CustomNormalization.inverse (colour bars) undoes __call__ between the limits *)
Theorem C20_norm_inverse :
  forall s vmin vmax x,
    cfg_domain s -> vmin < vmax -> vmin <= x <= vmax ->
    norm_inverse s vmin vmax (norm s vmin vmax x) = x.
Proof. exact norm_inverse_lemma. Qed.
Print Assumptions C20_norm_inverse.

(* vmin = vmax (e.g. quantile limits of almost-constant data): range and monotonicity still
   hold and the common limit is sent to 0; "the upper limit goes to 1" is then impossible
   (the same value would have to go to 0 and to 1) and is not claimed *)
Theorem C20_degenerate_safe :
  forall s v x y,
    cfg_domain s ->
    0 <= norm s v v x <= 1 /\ (x <= y -> norm s v v x <= norm s v v y) /\ norm s v v v = 0.
Proof. exact degenerate_safe_lemma. Qed.
Print Assumptions C20_degenerate_safe.

(* the hypothesis vmin <= vmax of C20_norm_monotone is necessary: no constructor rejects
   reversed manual limits, and with them the map is decreasing *)
Theorem C20_reversed_limits_refuted :
  ~ (forall vmin vmax x y, x <= y ->
       norm SLinearDefault vmin vmax x <= norm SLinearDefault vmin vmax y).
Proof. exact reversed_limits_not_monotone. Qed.
Print Assumptions C20_reversed_limits_refuted.

(* limits as the translated get_limits compute them from (dmin, dmax) = (np.min, np.max) of
   the finite data: manual limits are returned as given / filled from the data; centred limits
   are symmetric about vcenter, cover the data and are strictly ordered when dmin < dmax;
   quantile limits are ordered when the quantile function is monotone (which
   props/C20_Properties.v proves for the executable np.quantile model) *)
Theorem C20_limits_ordered_translated :
  ((forall a b dmin dmax, ManualInterval_get_limits (Some a) (Some b) dmin dmax = (a, b)) /\
   (forall dmin dmax, ManualInterval_get_limits None None dmin dmax = (dmin, dmax)) /\
   (forall a dmin dmax, ManualInterval_get_limits (Some a) None dmin dmax = (a, dmax)) /\
   (forall b dmin dmax, ManualInterval_get_limits None (Some b) dmin dmax = (dmin, b))) /\
  ((forall c h dmin dmax, CenteredInterval_get_limits c (Some h) dmin dmax = (c - h, c + h)) /\
   (forall c dmin dmax, dmin <= dmax ->
      let '(vmin, vmax) := CenteredInterval_get_limits c None dmin dmax in
      vmin + vmax = 2 * c /\ vmin <= dmin /\ dmax <= vmax /\ vmin <= vmax /\
      (dmin < dmax -> vmin < vmax))) /\
  (forall (quantile : R -> R) lq uq,
      (forall p q, p <= q -> quantile p <= quantile q) -> lq <= uq ->
      let '(vmin, vmax) := QuantileInterval_get_limits quantile lq uq in
      vmin = quantile lq /\ vmax = quantile uq /\ vmin <= vmax).
Proof. exact (conj manual_limits_lemma (conj centered_limits_lemma quantile_limits_lemma)). Qed.
Print Assumptions C20_limits_ordered_translated.

(* the extended-value model of model/C20_Model.v instantiated with R and the translated
   stretches: on finite data it IS the translated normalisation; +inf goes to 1, -inf to 0;
   an entry is masked exactly when the input is NaN *)
Theorem C20_norm_extended :
  forall s vmin vmax,
    cfg_domain s -> vmin <= vmax ->
    (forall x, x_norm Rcarrier (cfg_call s) vmin vmax (Fin x) = Fin (norm s vmin vmax x)) /\
    x_norm Rcarrier (cfg_call s) vmin vmax PInf = Fin 1 /\
    x_norm Rcarrier (cfg_call s) vmin vmax NInf = Fin 0 /\
    (forall v, x_masked (x_norm Rcarrier (cfg_call s) vmin vmax v) = true <-> v = XNaN).
Proof. exact norm_extended_lemma. Qed.
Print Assumptions C20_norm_extended.

(* the stretch objects CustomNormalization.__init__ constructs are covered by stretch_cfg *)
Theorem C20_constructed_stretches_covered :
  (forall x, CustomNormalization_stretch_LinearStretch x = cfg_call SLinearDefault x) /\
  (forall p x, CustomNormalization_stretch_PowerLawStretch p x = cfg_call (SPower p) x) /\
  (forall a x, CustomNormalization_stretch_LogarithmicStretch a x = cfg_call (SLog a) x) /\
  (forall a x, CustomNormalization_stretch_InverseHyperbolicSineStretch a x = cfg_call (SAsinh a) x).
Proof. exact cn_dispatch. Qed.
Print Assumptions C20_constructed_stretches_covered.

(* ---------------------------------------------------------------- non-vacuity *)
(* every domain is inhabited (the class defaults satisfy their own constructor checks) *)
Example C20_nonvacuous_domains :
  cfg_domain SLinearDefault /\ cfg_domain (SPower 2) /\ cfg_domain (SPower (1 / 2)) /\
  cfg_domain (SLog 1000) /\ cfg_domain (SInvLog 1000) /\ cfg_domain (SAsinh (1 / 10)) /\
  cfg_domain (SSinh (1 / 3)) /\
  PowerLawStretch_default_domain /\ LogarithmicStretch_default_domain /\
  InverseLogarithmicStretch_default_domain /\ InverseHyperbolicSineStretch_default_domain /\
  HyperbolicSineStretch_default_domain.
Proof.
  cbv beta iota delta [cfg_domain LinearStretch_default_domain LinearStretch_domain
    PowerLawStretch_domain LogarithmicStretch_domain InverseLogarithmicStretch_domain
    InverseHyperbolicSineStretch_domain HyperbolicSineStretch_domain
    PowerLawStretch_default_domain LogarithmicStretch_default_domain
    InverseLogarithmicStretch_default_domain InverseHyperbolicSineStretch_default_domain
    HyperbolicSineStretch_default_domain].
  repeat split; try exact I; Lra.lra.
Qed.

(* the map is not constant: an interior point of a proper interval lands strictly inside *)
Example C20_nonvacuous_interior : norm SLinearDefault 1 5 2 = 1 / 4.
Proof.
  rewrite norm_unfold. simpl. rewrite linear_default_id, imap_proper by Lra.lra.
  unfold c_imap. replace ((2 - 1) / (5 - 1)) with (1 / 4) by (field; Lra.lra).
  apply clip01_id. Lra.lra.
Qed.

(* ================================================================ round-3 extension
   (proofs: coq/gen_proofs/C20_GenProofs2.v) *)

(* Every stretch object over the WHOLE real line, not only on [0, 1]: non-decreasing everywhere;
   the clipping ones (all but `LinearStretch()` and `PowerLawStretch(1.0)`, which return their
   argument untouched) factor through clip01, map R into [0, 1], saturate at 0 below 0 and at 1
   above 1, and composed with the declared inverse — either way round — they are clip01, i.e.
   the identity exactly on [0, 1]; the two short-cut ones and their inverses are the identity. *)
Theorem C20_stretch_whole_line :
  forall s, cfg_domain s ->
    (forall x y, x <= y -> cfg_call s x <= cfg_call s y) /\
    (cfg_clips s ->
     forall x, 0 <= cfg_call s x <= 1 /\ cfg_call s x = cfg_call s (clip01 x) /\
               (x <= 0 -> cfg_call s x = 0) /\ (1 <= x -> cfg_call s x = 1) /\
               cfg_inverse_call s (cfg_call s x) = clip01 x /\
               cfg_call s (cfg_inverse_call s x) = clip01 x) /\
    (~ cfg_clips s ->
     forall x, cfg_call s x = x /\ cfg_inverse_call s x = x).
Proof. exact whole_line_lemma. Qed.
Print Assumptions C20_stretch_whole_line.

(* a general LinearStretch(slope, intercept) is non-decreasing on the whole line for every
   slope >= 0 (slope 1 with and without intercept included); for a negative slope it is not *)
Theorem C20_linear_general_monotone :
  forall slope intercept, 0 <= slope -> forall x y, x <= y ->
    LinearStretch_call slope intercept x <= LinearStretch_call slope intercept y.
Proof. exact linear_general_mono. Qed.
Print Assumptions C20_linear_general_monotone.

Theorem C20_linear_negative_slope_refuted :
  ~ (forall slope intercept x y, x <= y ->
       LinearStretch_call slope intercept x <= LinearStretch_call slope intercept y).
Proof. exact linear_negative_slope_refuted. Qed.
Print Assumptions C20_linear_negative_slope_refuted.

(* the boundary of the parameter domain: power = 0 is rejected by PowerLawStretch's constructor
   and must be — the stretch would be constant on (0, 1], so NO function inverts it *)
Theorem C20_power_zero_not_invertible :
  ~ PowerLawStretch_domain 0 /\
  ~ (exists g : R -> R, forall x, 0 <= x <= 1 -> g (PowerLawStretch_call 0 x) = x).
Proof. exact power_zero_not_invertible. Qed.
Print Assumptions C20_power_zero_not_invertible.

(* THE FULL PIPELINE as one statement.  pipeline s vmin vmax = masked_invalid o stretch o
   interval map on extended values Fin x | NaN | +inf | -inf (the polymorphic executable model of
   model/C20_Model.v at the reals, with the TRANSLATED stretch), x_le the order of the extended
   line with NaN incomparable.  For every stretch in its constructor's domain and vmin <= vmax:
   NaN in <-> NaN out <-> masked; every other input — finite or infinite — yields a number in
   [0, 1]; the map is non-decreasing along the whole extended line; on finite data it is the
   translated real-valued normalisation; -inf -> 0, +inf -> 1; and for vmin < vmax the limits
   go to 0 and 1. *)
Theorem C20_pipeline_extended :
  forall s vmin vmax,
    cfg_domain s -> vmin <= vmax ->
    (forall v, (pipeline s vmin vmax v = XNaN <-> v = XNaN) /\
               (x_masked (pipeline s vmin vmax v) = true <-> v = XNaN) /\
               (v <> XNaN -> exists y, pipeline s vmin vmax v = Fin y /\ 0 <= y <= 1)) /\
    (forall v w y z, x_le v w ->
       pipeline s vmin vmax v = Fin y -> pipeline s vmin vmax w = Fin z -> y <= z) /\
    (forall x, pipeline s vmin vmax (Fin x) = Fin (norm s vmin vmax x)) /\
    pipeline s vmin vmax NInf = Fin 0 /\ pipeline s vmin vmax PInf = Fin 1 /\
    (vmin < vmax -> pipeline s vmin vmax (Fin vmin) = Fin 0 /\ pipeline s vmin vmax (Fin vmax) = Fin 1).
Proof. exact pipeline_extended_lemma. Qed.
Print Assumptions C20_pipeline_extended.

(* The property as its text reads, limits computed FROM THE DATA: for every list of extended
   reals with at least two distinct finite entries and every stretch, the min/max interval
   (`ManualInterval()`; presets minmax, linear_minmax, log_minmax) yields limits vmin < vmax that
   are entries of the data, and on the data: masked <-> NaN, every other entry lands in [0, 1],
   the map is non-decreasing, vmin -> 0, vmax -> 1. *)
Theorem C20_pipeline_minmax_from_data :
  forall s data,
    cfg_domain s ->
    (exists a b, In (Fin a) data /\ In (Fin b) data /\ a <> b) ->
    exists dmin dmax,
      data_minmax Rcarrier data = Some (dmin, dmax) /\
      let '(vmin, vmax) := ManualInterval_get_limits None None dmin dmax in
      vmin < vmax /\ In (Fin vmin) data /\ In (Fin vmax) data /\
      pipeline_on_data s vmin vmax data.
Proof. exact pipeline_minmax_lemma. Qed.
Print Assumptions C20_pipeline_minmax_from_data.

(* same for the centred interval with the half-range taken from the data (presets
   linear_centered, asinh_centered): limits symmetric about vcenter, strictly ordered, covering
   every finite entry *)
Theorem C20_pipeline_centered_from_data :
  forall s c data,
    cfg_domain s ->
    (exists a b, In (Fin a) data /\ In (Fin b) data /\ a <> b) ->
    exists dmin dmax,
      data_minmax Rcarrier data = Some (dmin, dmax) /\
      let '(vmin, vmax) := CenteredInterval_get_limits c None dmin dmax in
      vmin < vmax /\ vmin + vmax = 2 * c /\
      (forall x, In (Fin x) data -> vmin <= x <= vmax) /\
      (forall v, In v data ->
         (x_masked (pipeline s vmin vmax v) = true <-> v = XNaN) /\
         (v <> XNaN -> exists y, pipeline s vmin vmax v = Fin y /\ 0 <= y <= 1)) /\
      (forall v w y z, In v data -> In w data -> x_le v w ->
         pipeline s vmin vmax v = Fin y -> pipeline s vmin vmax w = Fin z -> y <= z) /\
      pipeline s vmin vmax (Fin vmin) = Fin 0 /\ pipeline s vmin vmax (Fin vmax) = Fin 1.
Proof. exact pipeline_centered_lemma. Qed.
Print Assumptions C20_pipeline_centered_from_data.

(* ---------------------------------------------------------------- non-vacuity (round 3) *)
(* both kinds of stretch exist; the boundary parameter p = 1 (identity short-cut) is a
   legitimate member of the domain and its inverse pair is the identity *)
Example C20_nonvacuous_clips :
  cfg_domain (SPower 2) /\ cfg_clips (SPower 2) /\ cfg_domain (SPower 1) /\ ~ cfg_clips (SPower 1) /\
  cfg_domain SLinearDefault /\ ~ cfg_clips SLinearDefault /\ cfg_clips (SLog 1000) /\
  cfg_inverse_call (SPower 1) (cfg_call (SPower 1) (1 / 2)) = 1 / 2.
Proof.
  cbv beta iota delta [cfg_domain cfg_clips PowerLawStretch_domain LinearStretch_default_domain
                       LinearStretch_domain].
  repeat split; try exact I; try Lra.lra; try (intros H; apply H; reflexivity); try tauto.
  destruct (whole_line_lemma (SPower 1)) as [_ [_ H]].
  - cbv beta iota delta [cfg_domain PowerLawStretch_domain]. Lra.lra.
  - assert (Hn : ~ cfg_clips (SPower 1)) by (simpl; intros H1; apply H1; reflexivity).
    destruct (H Hn (1 / 2)) as [E1 _]. rewrite E1. apply (H Hn (1 / 2)).
Qed.

(* the order of the extended line and a data set with two distinct finite entries next to
   NaN and both infinities *)
Example C20_nonvacuous_pipeline :
  x_le NInf (Fin 0) /\ x_le (Fin 0) (Fin 1) /\ x_le (Fin 1) PInf /\ ~ x_le XNaN XNaN /\ ~ x_le PInf (Fin 0) /\
  (exists a b, In (Fin a) [Fin 1; XNaN; PInf; Fin 3; NInf] /\ In (Fin b) [Fin 1; XNaN; PInf; Fin 3; NInf] /\ a <> b).
Proof.
  simpl. repeat split; try Lra.lra; try tauto.
  exists 1, 3. repeat split; [tauto | tauto | Lra.lra].
Qed.
