(* Arithmetic tie, group "utils": the theorems that tie the functions TRANSLATED on this run from
   quantem/core/utils/utils.py (GenArith.Gen_Arith) to the hand-written model coq/model/C09_Model.v.
   ONLY statements closed by `exact` and their assumption reports; the proofs are in
   Arith_Utils_GenProofs.v (fixed script).

   Vocabulary (Arith_Utils_GenProofs.v):
     res_of r        the model's result with its exception enum renamed into the generated file's
     opt_nonneg o    o = None (argument not given) or o = Some v with 0 <= v *)
From QV.lib Require Import Prelude.
From QV.model Require Import C09_Model.
From GenArith Require Import Gen_Arith Arith_Utils_GenProofs.
Local Open Scope Z_scope.

(* subdivide_batches: every num_items (any sign), counts / maximum sizes >= 0 or absent; covers the
   RuntimeError / ValueError / ZeroDivisionError outcomes as well as the returned sizes *)
Theorem Arith_subdivide_batches_tie :
  forall (n : Z) (nb mb : option Z),
    opt_nonneg nb -> opt_nonneg mb ->
    gen_subdivide_batches n nb mb = res_of (subdivide_batches n nb mb).
Proof. exact gen_subdivide_batches_eq_model. Qed.
Print Assumptions Arith_subdivide_batches_tie.

(* generate_batches (as the list of the ranges it yields), any start index *)
Theorem Arith_generate_batches_tie :
  forall (n : Z) (nb mb : option Z) (start : Z),
    opt_nonneg nb -> opt_nonneg mb ->
    gen_generate_batches n nb mb start = res_of (generate_batches n nb mb start).
Proof. exact gen_generate_batches_eq_model. Qed.
Print Assumptions Arith_generate_batches_tie.

(* the loop of the generator alone: consecutive half-open ranges for ANY list of sizes *)
Theorem Arith_generate_batches_loop_tie :
  forall (sizes : list Z) (idx : Z),
    gen_generate_batches_loop sizes idx = ranges_from idx sizes.
Proof. exact gen_generate_batches_loop_eq_model. Qed.
Print Assumptions Arith_generate_batches_loop_tie.

(* non-vacuity: the domain is inhabited and the translated function computes *)
Example Arith_nonvacuous_subdivide :
  opt_nonneg None /\ opt_nonneg (Some 3) /\
  gen_subdivide_batches 10 None (Some 3) = inr [3; 3; 2; 2] /\
  gen_generate_batches 10 None (Some 3) 2 = inr [(2, 5); (5, 8); (8, 10); (10, 12)] /\
  gen_subdivide_batches 2 (Some 3) None = inl GValueError.
Proof. cbn. repeat split; lia. Qed.
