(* C03 — FIXED proof script of the translator tie: the functions that harness/translate_C03.py
   translated on THIS run from the source of quantem/core/datastructures/dataset.py and
   quantem/core/utils/validators.py (GenC03.Gen_C03) equal the hand-written definitions of
   coq/model/C03_Model.v for all arguments.  The script starts from `cbv zeta` (the generated
   lets are inlined), so it does not depend on local names or on the order of independent
   statements of the source; it depends on what the statements compute. *)
From Coq Require Import QArith String.
From QV.lib Require Import Prelude C03_Slice.
From QV.model Require Import C03_Model C03_PyLib.
From QV.proof Require Import C03_Proofs_Base C03_Proofs_Getitem C03_Proofs_Getitem2.
From GenC03 Require Import Gen_C03.
From Coq Require Import List.
Import ListNotations.
Local Close Scope Q_scope.
Local Open Scope list_scope.

(* ------------------------------------------------------------------ small facts *)
Lemma to_nat_sub (a b : nat) : Z.to_nat (Z.of_nat a - Z.of_nat b) = a - b.
Proof. lia. Qed.

Lemma In_firstn {A : Type} k (l : list A) x : In x (firstn k l) -> In x l.
Proof. intros H. rewrite <- (firstn_skipn k l). apply in_or_app. left. exact H. Qed.
Lemma In_skipn {A : Type} k (l : list A) x : In x (skipn k l) -> In x l.
Proof. intros H. rewrite <- (firstn_skipn k l). apply in_or_app. right. exact H. Qed.

Lemma code_expand_In n raw x : In x (code_expand n raw) -> In x raw \/ x = full.
Proof.
  unfold code_expand. cbv zeta.
  set (i1 := if existsb is_ell raw then _ else raw).
  assert (H1 : In x i1 -> In x raw \/ x = full).
  { subst i1. destruct (existsb is_ell raw); [|tauto].
    intros H. apply in_app_or in H. destruct H as [H|H]; [left; eapply In_firstn; exact H|].
    apply in_app_or in H. destruct H as [H|H]; [right; eapply repeat_spec; exact H|left; eapply In_skipn; exact H]. }
  destruct (length i1 <? n); [|exact H1].
  intros H. apply in_app_or in H. destruct H as [H|H]; [exact (H1 H)|right; eapply repeat_spec; exact H].
Qed.

Lemma filter_positions {A : Type} (p q : A -> bool) (l : list A) d :
  filter (fun i => q (nth i l d)) (positions p l) = positions (fun x => p x && q x) l.
Proof.
  rewrite !positions_eq, <- (filter_pos_from _ p q l d 0).
  apply filter_ext. intros i. rewrite Nat.sub_0_r. reflexivity.
Qed.

Lemma filter_positions_neg {A : Type} (p q : A -> bool) (l : list A) d :
  filter (fun i => negb (q (nth i l d))) (positions p l) = positions (fun x => p x && negb (q x)) l.
Proof. exact (filter_positions p (fun x => negb (q x)) l d). Qed.

Lemma pos_from_ext_in {A : Type} (p q : A -> bool) (l : list A) k :
  (forall x, In x l -> p x = q x) -> pos_from k p l = pos_from k q l.
Proof.
  revert k. induction l as [|x r IH]; intros k H; [reflexivity|].
  cbn [pos_from]. rewrite (H x) by (left; reflexivity). rewrite IH by (intros y Hy; apply H; right; exact Hy).
  reflexivity.
Qed.

Lemma nonempty_pos_from {A : Type} (p : A -> bool) (l : list A) k :
  nonempty (pos_from k p l) = existsb p l.
Proof.
  revert k. induction l as [|x r IH]; intros k; [reflexivity|].
  cbn [pos_from existsb]. destruct (p x); [reflexivity|]. apply IH.
Qed.

Lemma firstn1_pos_from {A : Type} (p : A -> bool) (l : list A) k :
  existsb p l = true -> firstn 1 (pos_from k p l) = [k + first_pos p l].
Proof.
  revert k. induction l as [|x r IH]; intros k; cbn [existsb]; [discriminate|].
  cbn [pos_from first_pos]. destruct (p x); cbn [orb]; intros H.
  - cbn [firstn]. rewrite Nat.add_0_r. reflexivity.
  - rewrite IH by exact H. f_equal. lia.
Qed.

Lemma pos_from_head_min {A : Type} (p : A -> bool) (l : list A) k a r :
  pos_from k p l = a :: r -> forall i, In i (a :: r) -> a <= i.
Proof.
  revert k. induction l as [|x l' IH]; intros k H; [discriminate|].
  cbn [pos_from] in H. destruct (p x).
  - injection H as <- <-. intros i [<-|Hi]; [lia|]. apply pos_from_ge in Hi. lia.
  - eapply IH. exact H.
Qed.

Lemma last_In (l : list nat) a : In (last (a :: l) 0) (a :: l).
Proof.
  revert a. induction l as [|b r IH]; intros a; [left; reflexivity|].
  change (last (a :: b :: r) 0) with (last (b :: r) 0). right. apply IH.
Qed.

Lemma fold_min_head (r : list nat) x : (forall i, In i r -> x <= i) -> fold_left Nat.min r x = x.
Proof.
  revert x. induction r as [|y r IH]; intros x H; [reflexivity|].
  cbn [fold_left]. rewrite (Nat.min_l x y) by (apply H; left; reflexivity).
  apply IH. intros i Hi. apply H. right. exact Hi.
Qed.

Lemma py_min_pos_from {A : Type} (p : A -> bool) (l : list A) k :
  existsb p l = true -> py_min (pos_from k p l) = Ok (k + first_pos p l).
Proof.
  intros H. pose proof (firstn1_pos_from p l k H) as F.
  destruct (pos_from k p l) as [|a r] eqn:E; [discriminate|].
  cbn [firstn] in F. injection F as F. unfold py_min. f_equal. rewrite <- F.
  apply fold_min_head. intros i Hi. apply (pos_from_head_min p l k _ _ E). right. exact Hi.
Qed.

(* the adjacency test on Python ints = the model's test on naturals *)
Lemma adjacent_code raw adv la fi :
  adv = positions (fun x => negb (is_slice x) && negb (is_ell x)) raw ->
  py_last adv = Ok la -> py_first adv = Ok fi ->
  ((Z.of_nat la - Z.of_nat fi + 1 =? Z.of_nat (length adv))%Z) = negb (code_separated raw).
Proof.
  intros -> Hl Hf. unfold code_separated. cbv zeta.
  rewrite positions_eq in *.
  destruct (pos_from 0 _ raw) as [|a r] eqn:E; [discriminate|].
  assert (Hla : la = last (a :: r) 0)
    by (change (py_last (a :: r)) with (Ok (A := nat) (last (a :: r) 0)) in Hl; congruence).
  assert (Hfa : fi = a) by (change (py_first (a :: r)) with (Ok (A := nat) a) in Hf; congruence).
  clear Hl Hf. subst la fi.
  rewrite Bool.negb_involutive.
  pose proof (pos_from_head_min _ raw 0 _ _ E _ (last_In r a)) as Hle.
  destruct (Z.eqb_spec (Z.of_nat (last (a :: r) 0) - Z.of_nat a + 1) (Z.of_nat (length (a :: r))));
    destruct (Nat.eqb_spec (last (a :: r) 0 - a + 1) (length (a :: r))); try reflexivity; lia.
Qed.

(* ------------------------------------------------------------------ Dataset._registry *)
Theorem gen_registry_eq k : reg_lookup gen_registry k Generic = registry k.
Proof.
  unfold gen_registry, reg_lookup. cbn [fold_left fst snd].
  destruct k as [|[|[|[|[|k]]]]]; reflexivity.
Qed.

(* ------------------------------------------------------------------ Dataset.__getitem__ *)
(* what the model's getitem hands to from_array *)
Definition model_getitem_meta (n out : nat) (cls : tag) (raw : list index)
  (o sa : list Q) (u : list string) : tag * (list Q * (list Q * list string)) :=
  let ix := code_expand n raw in
  let kept := code_kept_axes raw ix in
  (if out =? n then cls else registry out,
   (map (fun i => nth i o 0%Q) kept,
    (scale_steps ix kept (map (fun i => nth i sa 1%Q) kept),
     map (fun i => nth i u ""%string) kept))).

(* the loop body of the step scaling, whatever shape the source gives its conditions *)
Ltac loop_body :=
  let sa := fresh "sa" in let i := fresh "i" in let x := fresh "x" in
  intros sa [i x]; destruct x as [?|? ? [c|]|?|];
  cbn [snd fst is_slice slice_step oz_in oz_eqb existsb andb negb orb oz_val]; try reflexivity;
  destruct (c =? 1)%Z; cbn [orb negb andb]; try reflexivity;
  match goal with |- context [existsb ?f ?k] => destruct (existsb f k) end; reflexivity.

Lemma fold_left_ext2 {A B : Type} (f g : A -> B -> A) (l : list B) a :
  (forall a b, f a b = g a b) -> fold_left f l a = fold_left g l a.
Proof. intros H. revert a. induction l as [|b r IH]; intros a; [reflexivity|]. cbn [fold_left]. rewrite H. apply IH. Qed.

Ltac finish_meta Hu :=
  unfold py_getq, py_count, scale_steps;
  rewrite ?gen_registry_eq, ?(proj2 (Nat.ltb_lt _ _) Hu);
  f_equal; f_equal; f_equal; f_equal;
  apply fold_left_ext2; loop_body.

Theorem gen_getitem_meta_eq n out cls raw o sa u ex :
  np_expand n raw = Ok ex -> 0 < length u ->
  gen_getitem_meta n out cls raw o sa u = Ok (model_getitem_meta n out cls raw o sa u).
Proof.
  intros Hnp Hu. destruct (code_expand_np _ _ _ Hnp) as (Hix & Hlen & Hce).
  pose proof (code_expand_In n raw) as Hin.
  unfold gen_getitem_meta, model_getitem_meta, code_kept_axes. cbv zeta.
  rewrite ?to_nat_sub.
  unfold code_expand in Hix, Hin |- *. cbv zeta in Hix, Hin |- *.
  match type of Hix with ?X = _ => set (ix := X) in * end.
  rewrite <- Hix in Hlen, Hce. clear Hix Hnp ex.
  assert (Hne : forall x, In x ix -> is_ell x = false).
  { apply Forall_forall. apply forallb_no_ell. exact Hce. }
  clearbody ix.
  (* array_axes, sliced in the model's spelling *)
  rewrite ?filter_positions_neg, ?filter_positions.
  assert (Ea : positions (fun x => negb (is_int x) && negb (is_slice x)) ix = positions is_list ix).
  { rewrite !positions_eq. apply pos_from_ext_in. intros x Hx. specialize (Hne x Hx). destruct x; try reflexivity; discriminate. }
  assert (Es : positions (fun x => negb (is_int x) && is_slice x) ix
               = positions (fun x => negb (is_int x) && negb (is_list x)) ix).
  { rewrite !positions_eq. apply pos_from_ext_in. intros x Hx. specialize (Hne x Hx). destruct x; try reflexivity; discriminate. }
  rewrite Ea, Es. rewrite (positions_eq _ is_list ix), nonempty_pos_from.
  destruct (existsb is_list ix) eqn:El.
  - (* an index array is present *)
    assert (Hadv : existsb (fun x => negb (is_slice x) && negb (is_ell x)) raw = true).
    { apply existsb_exists in El. destruct El as (x & Hx & Hl). destruct (Hin x Hx) as [Hr| ->]; [|discriminate].
      apply existsb_exists. exists x. split; [exact Hr|]. destruct x; try discriminate; reflexivity. }
    assert (Hns : existsb (fun x => negb (is_slice x)) ix = true).
    { apply existsb_exists in El. destruct El as (x & Hx & Hl). apply existsb_exists. exists x. split; [exact Hx|].
      destruct x; try discriminate; reflexivity. }
    set (adv := positions (fun x => negb (is_slice x) && negb (is_ell x)) raw).
    assert (Hnz : nonempty adv = true) by (subst adv; rewrite positions_eq, nonempty_pos_from; exact Hadv).
    destruct (py_last adv) as [la|] eqn:Hla; [|destruct adv; discriminate].
    destruct (py_first adv) as [fi|] eqn:Hfi; [|destruct adv; discriminate].
    cbn [bind].
    rewrite (adjacent_code raw adv la fi eq_refl Hla Hfi).
    rewrite (positions_eq _ (fun x => negb (is_slice x)) ix), (py_min_pos_from _ ix 0 Hns). cbn [bind Nat.add].
    rewrite (firstn1_pos_from is_list ix 0 El). cbn [Nat.add app].
    rewrite <- (filter_positions_neg (fun x => negb (is_int x)) is_list ix full).
    destruct (code_separated raw); cbn [negb]; finish_meta Hu.
  - finish_meta Hu.
Qed.

(* a bare (non-tuple) index is the one-element tuple *)
Theorem gen_getitem_bare_eq n out cls x o sa u :
  gen_getitem_meta_bare n out cls x o sa u = gen_getitem_meta n out cls [x] o sa u.
Proof. reflexivity. Qed.

(* the whole of Dataset.__getitem__ with the bookkeeping taken from the translated source *)
Definition getitem_via_gen (s : state) (t : nat) (idx : list index) : res state :=
  let d := get_ds s t in
  let a := get_arr s (d_arr d) in
  do v <- np_index (a_shape a) (a_flat a) idx;
  do m <- gen_getitem_meta (ndim a) (length (np_shape v)) (d_cls d) idx
            (get_num s (d_origin d)) (get_num s (d_sampling d)) (get_str s (d_units d));
  if np_scalar v then Err TypeErr
  else
    let (s1, aid) := if np_copy v then alloc_fresh s (np_shape v) (np_flat v)
                     else alloc_view s (d_arr d) (np_shape v) (np_flat v) in
    from_array s1 (fst m) aid (Some (NList (fst (snd m)))) (Some (NList (fst (snd (snd m)))))
               (Some (UList (snd (snd (snd m))))).

Theorem getitem_via_gen_eq s t idx :
  0 < length (get_str s (d_units (get_ds s t))) ->
  getitem_via_gen s t idx = getitem s t idx.
Proof.
  intros Hu. unfold getitem_via_gen, getitem. cbv zeta.
  destruct (np_index _ _ idx) as [v|e] eqn:Hv; [|reflexivity]. cbn [bind].
  destruct (np_index_inv _ _ _ _ Hv) as (ex & nix0 & m & nix & Hex & _).
  unfold ndim. rewrite (gen_getitem_meta_eq _ _ _ _ _ _ _ _ Hex Hu). cbn [bind].
  reflexivity.
Qed.

(* the property's indexing clause (calibration part), stated directly about the translated source: for
   every array, every index expression NumPy accepts and every calibration, the translated bookkeeping
   does not raise and returns, for each axis of NumPy's result (np_axes, in NumPy's order), the origin
   and units of the source axis it runs along and that axis' sampling times the slice step *)
Theorem gen_getitem_numpy_layout sh fl idx v cls o sa u :
  np_index sh fl idx = Ok v -> 0 < length u ->
  exists o' sa' u',
    gen_getitem_meta (length sh) (length (np_shape v)) cls idx o sa u
    = Ok (if length (np_shape v) =? length sh then cls else registry (length (np_shape v)), (o', (sa', u'))) /\
    o' = map (fun a => nth (oax_src a) o 0%Q) (np_axes v) /\
    u' = map (fun a => nth (oax_src a) u ""%string) (np_axes v) /\
    length sa' = length (np_axes v) /\
    forall j d, j < length (np_axes v) ->
      (nth j sa' 0 == nth (oax_src (nth j (np_axes v) d)) sa 1 * inject_Z (oax_step (nth j (np_axes v) d)))%Q.
Proof.
  intros Hv Hu.
  destruct (np_index_inv _ _ _ _ Hv) as (ex & nix0 & m & nix & Hex & Hn0 & Hck & Hax & _).
  destruct (code_expand_np _ _ _ Hex) as (Hix & Hlen & Hce).
  pose proof (norm_kinds ex sh nix0 m nix Hlen Hce Hn0 Hck) as K.
  rewrite (gen_getitem_meta_eq _ _ _ _ _ _ _ _ Hex Hu). unfold model_getitem_meta. cbv zeta.
  rewrite Hix, (kept_axes_np idx ex nix m K), <- Hax.
  eexists _, _, _. split; [reflexivity|].
  split; [apply map_map|]. split; [apply map_map|].
  assert (Hnd : NoDup (map oax_src (np_axes v))) by (rewrite Hax; apply np_axes_NoDup).
  destruct (scale_steps_spec ex (map oax_src (np_axes v)) (map (fun i => nth i sa 1%Q) (map oax_src (np_axes v))) Hnd)
    as [HL HS]; [rewrite !map_length; reflexivity|].
  rewrite map_length in HL. split; [exact HL|].
  intros j d Hj. rewrite HS by (rewrite map_length; exact Hj).
  rewrite map_map.
  rewrite (nth_indep _ 0%Q (nth (oax_src d) sa 1%Q)) by (rewrite map_length; exact Hj).
  rewrite (map_nth (fun a => nth (oax_src a) sa 1%Q)).
  rewrite (nth_indep _ 0 (oax_src d)) by (rewrite map_length; exact Hj).
  rewrite (map_nth oax_src).
  pose proof (np_axes_steps idx ex nix m K) as St. rewrite <- Hax in St.
  rewrite Forall_forall in St. rewrite (St (nth j (np_axes v) d)) by (apply nth_In; exact Hj).
  reflexivity.
Qed.

(* ------------------------------------------------------------------ Dataset._normalize_axes *)
Lemma norm_axes_range n k m :
  k + m <= n -> mapM (norm_axis n) (map Z.of_nat (seq k m)) = Ok (map Z.of_nat (seq k m)).
Proof.
  revert k. induction m as [|m IH]; intros k H; [reflexivity|].
  cbn [seq map mapM]. unfold norm_axis at 1, pyidx.
  replace ((0 <=? Z.of_nat k) && (Z.of_nat k <? Z.of_nat n))%Z with true
    by (symmetry; apply andb_true_intro; split; [apply Z.leb_le|apply Z.ltb_lt]; lia).
  cbn [bind]. rewrite Nat2Z.id. rewrite IH by lia. reflexivity.
Qed.

Theorem gen_normalize_axes_eq n axes : gen_normalize_axes n axes = norm_axes n (axes_list n axes).
Proof.
  unfold gen_normalize_axes, norm_axes, axes_list. cbv zeta.
  destruct axes as [|k|l]; try reflexivity.
  symmetry. apply norm_axes_range. lia.
Qed.

(* ------------------------------------------------------------------ validators.py *)
Theorem gen_validate_ndinfo_eq v n : gen_validate_ndinfo v n = validate_ndinfo v n.
Proof.
  unfold gen_validate_ndinfo, validate_ndinfo. cbv zeta.
  destruct v; try reflexivity;
    repeat match goal with
           | |- context [rectangular ?l] => destruct (rectangular l)
           | |- context [?a =? ?b] => destruct (a =? b)
           end; reflexivity.
Qed.

Theorem gen_validate_units_eq v n : gen_validate_units v n = validate_units v n.
Proof.
  unfold gen_validate_units, validate_units. cbv zeta.
  destruct v; try reflexivity;
    repeat match goal with |- context [?a =? ?b] => destruct (a =? b) end; reflexivity.
Qed.

(* each calibration setter validates (value, self.ndim) with the validator the model uses and
   stores the result in the field the model's set_origin / set_sampling / set_units replaces *)
Theorem gen_setters_eq :
  gen_setters = [("origin", ("validate_ndinfo", "self._origin")); ("sampling", ("validate_ndinfo", "self._sampling"));
                 ("units", ("validate_units", "self._units"))]%string.
Proof. reflexivity. Qed.

(* ------------------------------------------------------------------ in-place / copying tails *)
Ltac tail_steps :=
  repeat first
    [ reflexivity
    | progress cbn [bind fst snd nth_error run_effs run_eff store_array]
    | progress unfold alloc_fresh, alloc_view, alloc_arr
    | match goal with
      | |- context [copy_ds ?s ?t] => destruct (copy_ds s t)
      | |- context [set_array ?s ?t ?a] => destruct (set_array s t a)
      | |- context [set_sampling ?s ?t ?a] => destruct (set_sampling s t a)
      | |- context [set_origin ?s ?t ?a] => destruct (set_origin s t a)
      | |- context [np_index ?a ?b ?c] => destruct (np_index a b c)
      end ].

Lemma tail1_ip tail s t sh fl :
  tail true = [ERaw AArray 0] ->
  run_tail t [VArr sh fl] s (tail true) = (let (s1, aid) := alloc_fresh s sh fl in Ok (assign_array s1 t aid)).
Proof. intros ->. unfold run_tail, alloc_fresh, alloc_arr. tail_steps. Qed.

Lemma tail1_cp tail s t sh fl :
  tail false = [ECopySelf; ESet AArray 0] ->
  run_tail t [VArr sh fl] s (tail false)
  = (do s1 <- copy_ds s t; let (s2, aid) := alloc_fresh s1 sh fl in set_array s2 (length (dss s)) aid).
Proof. intros ->. unfold run_tail, alloc_fresh, alloc_arr. tail_steps. Qed.

Lemma tail3_ip tail s t sh fl sa o :
  tail true = [ERaw AArray 0; ERaw ASampling 1; ERaw AOrigin 2] ->
  run_tail t [VArr sh fl; VNum sa; VNum o] s (tail true)
  = (let (s1, aid) := alloc_fresh s sh fl in
     Ok (assign_origin (assign_sampling (assign_array s1 t aid) t sa) t o)).
Proof. intros ->. unfold run_tail, alloc_fresh, alloc_arr. tail_steps. Qed.

Lemma tail3_cp tail s t sh fl sa o :
  tail false = [ECopySelf; ESet AArray 0; ESet ASampling 1; ESet AOrigin 2] ->
  run_tail t [VArr sh fl; VNum sa; VNum o] s (tail false)
  = (do s1 <- copy_ds s t;
     let t' := length (dss s) in
     let (s2, aid) := alloc_fresh s1 sh fl in
     do s3 <- set_array s2 t' aid;
     do s4 <- set_sampling s3 t' (NList sa);
     set_origin s4 t' (NList o)).
Proof. intros ->. unfold run_tail, alloc_fresh, alloc_arr. cbv zeta. tail_steps. Qed.

Definition pad_via (tail : bool -> list eff) (s : state) (t : nat) (p : padspec) (in_place : bool) : res state :=
  let d := get_ds s t in
  let a := get_arr s (d_arr d) in
  do w <- pad_widths (a_shape a) p;
  let (osh, ofl) := pad_data (a_shape a) (a_flat a) w in
  run_tail t [VArr osh ofl] s (tail in_place).

Theorem gen_pad_tail_eq s t p ip : pad_via gen_pad_tail s t p ip = pad s t p ip.
Proof.
  unfold pad_via, pad. cbv zeta. destruct (pad_widths _ p) as [w|e]; [|reflexivity]. cbn [bind].
  destruct (pad_data _ _ w) as [osh ofl].
  destruct ip; [rewrite tail1_ip by reflexivity|rewrite tail1_cp by reflexivity]; reflexivity.
Qed.

Definition crop_via (tail : bool -> list eff) (s : state) (t : nat) (widths : list (Z * Z)) (axes : axesarg)
  (in_place : bool) : res state :=
  let a := get_arr s (d_arr (get_ds s t)) in
  do sl <- crop_index (ndim a) widths axes;
  run_tail t [VCrop sl] s (tail in_place).

Theorem gen_crop_tail_eq s t w axes ip : crop_via gen_crop_tail s t w axes ip = crop s t w axes ip.
Proof.
  unfold crop_via, crop. cbv zeta. destruct (crop_index _ w axes) as [sl|e]; [|reflexivity]. cbn [bind].
  unfold run_tail, alloc_view, alloc_arr. destruct ip; cbn [gen_crop_tail]; tail_steps.
Qed.

Section Tails.
  Variable FR : list Z -> list Z -> list nat -> list Z -> list Z.
  Variable divf : Z -> Z -> Z.

  Definition bin_via (tail : bool -> list eff) (s : state) (t : nat) (fa : factorarg) (axes : axesarg)
    (mean in_place : bool) : res state :=
    let d := get_ds s t in
    let a := get_arr s (d_arr d) in
    do ax <- norm_axes (ndim a) (axes_list (ndim a) axes);
    do facs <- bin_factors fa (length ax);
    if existsb (fun f => (f <=? 0)%Z) facs then Err ValueErr
    else
      let dict := dict_of (combine ax facs) in
      let (osh, summed) := bin_data (a_shape a) (a_flat a) dict in
      let vol := fold_left Z.mul (map snd dict) 1%Z in
      let ofl := if mean then map (divf vol) summed else summed in
      do os <- bin_meta dict (get_num s (d_origin d)) (get_num s (d_sampling d));
      let (new_origin, new_sampling) := (os : list Q * list Q) in
      run_tail t [VArr osh ofl; VNum new_sampling; VNum new_origin] s (tail in_place).

  Theorem gen_bin_tail_eq s t fa axes mean ip :
    bin_via gen_bin_tail s t fa axes mean ip = bin divf s t fa axes mean ip.
  Proof.
    unfold bin_via, bin. cbv zeta.
    destruct (norm_axes _ _) as [ax|e]; [|reflexivity]. cbn [bind].
    destruct (bin_factors fa _) as [facs|e]; [|reflexivity]. cbn [bind].
    destruct (existsb _ facs); [reflexivity|].
    destruct (bin_data _ _ _) as [osh summed].
    destruct (bin_meta _ _ _) as [[no ns]|e]; [|reflexivity]. cbn [bind].
    destruct ip; [rewrite tail3_ip by reflexivity|rewrite tail3_cp by reflexivity]; reflexivity.
  Qed.

  Definition fourier_via (tail : bool -> list eff) (s : state) (t : nat) (spec : frspec) (axes : axesarg)
    (in_place : bool) : res state :=
    let d := get_ds s t in
    let a := get_arr s (d_arr d) in
    let sh := a_shape a in
    do ax <- norm_axes (ndim a) (axes_list (ndim a) axes);
    do outs <- fr_out_shape sh ax spec;
    if existsb (fun n => (n <? 1)%Z) outs then Err ValueErr
    else if existsb (fun a0 => match shape_at sh a0 with Ok 0%Z => true | _ => false end) ax
    then Err ValueErr
    else
      let dict := dict_of (combine ax outs) in
      let osh := map (fun i => match dict_get (Z.of_nat i) dict with
                               | Some n => Z.to_nat n
                               | None => nth i sh 0
                               end) (seq 0 (length sh)) in
      let ofl := FR ax outs sh (a_flat a) in
      let origin := get_num s (d_origin d) in
      let sampling := get_num s (d_sampling d) in
      let items := combine ax outs in
      let new_sampling := fr_sampling sh items sampling in
      let new_origin := fr_origin sh items origin sampling new_sampling origin in
      run_tail t [VArr osh ofl; VNum new_sampling; VNum new_origin] s (tail in_place).

  Theorem gen_fourier_tail_eq s t spec axes ip :
    fourier_via gen_fourier_tail s t spec axes ip = fourier FR s t spec axes ip.
  Proof.
    unfold fourier_via, fourier. cbv zeta.
    destruct (norm_axes _ _) as [ax|e]; [|reflexivity]. cbn [bind].
    destruct (fr_out_shape _ ax spec) as [outs|e]; [|reflexivity]. cbn [bind].
    destruct (existsb _ outs); [reflexivity|].
    destruct (existsb _ ax); [reflexivity|].
    destruct ip; [rewrite tail3_ip by reflexivity|rewrite tail3_cp by reflexivity]; reflexivity.
  Qed.
End Tails.
