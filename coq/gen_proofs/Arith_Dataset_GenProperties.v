(* Arithmetic tie, group "dataset": the theorems that tie the per-axis index arithmetic TRANSLATED
   on this run from quantem/core/datastructures/dataset.py (GenArith.Gen_Arith) to the hand-written
   model coq/model/C06_Model.v.  ONLY statements closed by `exact` and their assumption reports;
   the proofs are in Arith_Dataset_GenProofs.v (fixed script).

   Vocabulary (Arith_Dataset_GenProofs.v; NumPy / Python semantics fixed there):
     slice_bounds len s          (start, stop) selected by x[slice] on an axis of length len
     slice_pad rO len (s, (b,a)) the index function of np.pad(x[s], (b, a)) on that axis
     slice_pad_len len (s,(b,a)) its length *)
From QV.lib Require Import Prelude.
From QV.model Require Import C06_Model.
From Coq Require Import QArith Qcanon.
From GenArith Require Import Gen_Arith Arith_Dataset_GenProofs.
Local Close Scope Qc_scope.
Local Close Scope Q_scope.
Local Open Scope Z_scope.

(* _shift_center_index, every n >= 0 *)
Theorem Arith_shift_center_index_tie :
  forall n, 0 <= n -> gen_shift_center_index n = Z.of_nat (shift_center_index (Z.to_nat n)).
Proof. exact gen_shift_center_index_eq_model. Qed.
Print Assumptions Arith_shift_center_index_tie.

(* Dataset.pad(output_shape=...): the (before, after) widths of one axis, all lengths >= 0 *)
Theorem Arith_pad_widths_tie :
  forall n out, 0 <= n -> 0 <= out ->
    gen_pad_widths n out =
    (Z.of_nat (fst (pad_width_to (Z.to_nat n) (Z.to_nat out))),
     Z.of_nat (snd (pad_width_to (Z.to_nat n) (Z.to_nat out)))).
Proof. exact gen_pad_widths_eq_model. Qed.
Print Assumptions Arith_pad_widths_tie.

(* Dataset.crop: the slice built for a listed axis selects the model's crop_bounds (every length,
   every pair of integers incl. negative and out-of-range ones); an unlisted axis is kept whole *)
Theorem Arith_crop_slice_tie :
  forall (len : nat) (before after : Z),
    slice_bounds len (gen_crop_slice true before after) = crop_bounds len (before, after) /\
    slice_bounds len (gen_crop_slice false before after) = (0%nat, len).
Proof. exact gen_crop_slice_eq_model. Qed.
Print Assumptions Arith_crop_slice_tie.

(* Dataset.bin, first loop: the slice keeps [0, (n // f) * f) and records that length *)
Theorem Arith_bin_cut_tie :
  forall n f, 0 <= n -> 0 < f ->
    match gen_bin_cut n true f with
    | inr (s, e) => slice_bounds (Z.to_nat n) s = (0%nat, eff_len (Z.to_nat n) (Z.to_nat f)) /\
                    e = Z.of_nat (eff_len (Z.to_nat n) (Z.to_nat f))
    | inl _ => False
    end /\
    match gen_bin_cut n false f with
    | inr (s, e) => slice_bounds (Z.to_nat n) s = (0%nat, Z.to_nat n) /\ e = n
    | inl _ => False
    end.
Proof. exact gen_bin_cut_eq_model. Qed.
Print Assumptions Arith_bin_cut_tie.

(* Dataset.bin, second loop: reshape to (n // f, f), reduce the second of the pair *)
Theorem Arith_bin_blocks_tie :
  forall n f ra, 0 <= n -> 0 < f ->
    gen_bin_blocks true f (Z.of_nat (eff_len (Z.to_nat n) (Z.to_nat f))) ra =
      inr ([Z.of_nat (Z.to_nat n / Z.to_nat f); f], [ra + 1], ra + 2) /\
    forall e, gen_bin_blocks false f e ra = inr ([e], [], ra + 1).
Proof. exact gen_bin_blocks_eq_model. Qed.
Print Assumptions Arith_bin_blocks_tie.

(* Dataset.bin, calibration of a binned axis (sampling, origin) on exact rationals *)
Theorem Arith_bin_meta_tie :
  forall (f : Z) (s o : Q), 0 <= f ->
    Q2Qc (fst (gen_bin_meta f s o)) = bin_sampling (Z.to_nat f) (Q2Qc s) /\
    Q2Qc (snd (gen_bin_meta f s o)) = bin_origin (Z.to_nat f) (Q2Qc o) (Q2Qc s).
Proof. exact gen_bin_meta_eq_model. Qed.
Print Assumptions Arith_bin_meta_tie.

(* Dataset.fourier_resample: slicing / zero-padding the shifted spectrum with the translated
   indices is the model's croppad, for every ring, spectrum, index and all lengths >= 1 *)
Theorem Arith_resample_croppad_tie :
  forall (R : Type) (rO : R) (n m : Z) (S : nat -> R) (i : nat),
    0 < n -> 0 < m ->
    ((i < Z.to_nat m)%nat ->
       slice_pad rO (Z.to_nat n) (gen_resample_croppad n true m) S i = croppad rO (Z.to_nat n) (Z.to_nat m) S i) /\
    slice_pad_len (Z.to_nat n) (gen_resample_croppad n true m) = m /\
    0 <= fst (snd (gen_resample_croppad n true m)) /\ 0 <= snd (snd (gen_resample_croppad n true m)) /\
    ((i < Z.to_nat n)%nat -> slice_pad rO (Z.to_nat n) (gen_resample_croppad n false m) S i = S i) /\
    slice_pad_len (Z.to_nat n) (gen_resample_croppad n false m) = n.
Proof. exact gen_resample_croppad_eq_model. Qed.
Print Assumptions Arith_resample_croppad_tie.

(* non-vacuity: the translated functions compute the expected indices on small instances *)
Example Arith_nonvacuous_dataset :
  gen_shift_center_index 6 = 3 /\ gen_shift_center_index 7 = 3 /\
  gen_pad_widths 4 9 = (2, 3) /\
  gen_crop_slice true 1 (-2) = (Some 1, Some (-2)) /\ gen_crop_slice true 1 0 = (Some 1, None) /\
  gen_bin_cut 7 true 3 = inr ((Some 0, Some 6), 6) /\
  gen_resample_croppad 8 true 5 = ((Some 2, Some 7), (0, 0)) /\
  gen_resample_croppad 5 true 8 = ((None, None), (2, 1)).
Proof. cbv. repeat split; reflexivity. Qed.
