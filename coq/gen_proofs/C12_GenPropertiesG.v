(* C12 — One aberration surface (round 3, part G): what the shift fit returns OUTSIDE the identifiable domain.
   Property theorems about the functions TRANSLATED on this run from the current sources
   (Gen12.Gen_Chi); ONLY statements closed by `exact`, assumption reports and non-vacuity examples;
   proofs in the fixed scripts C12_GenFit.v.  Same vocabulary as C12_GenProperties.v; a file of its
   own so that the property files are checked in parallel. *)
From Coq Require Import Reals String List Bool.
From QV.lib Require Import C12_RealLib C12_Trig.
From Gen12 Require Import Gen_Chi C12_GenAlg C12_GenFit.
From QV.model Require C12_Model.
Import ListNotations.
Local Open Scope R_scope.

(* the fit: for ANY polar pair whose orthogonal factor is a proper rotation, the returned
   (rotation, C10, C12, phi12) reproduce the fitted matrix — no domain restriction *)
Theorem C12_fit_reproduces_matrix :
  forall (U P : mat2),
    orthogonal U -> mdet U = 1 -> symmetric P ->
    shift_M (fit_rotation_angle U P) (fit_C10 U P) (fit_C12 U P) (fit_phi12 U P) = mmul U P.
Proof. exact fit_reproduces_matrix. Qed.
Print Assumptions C12_fit_reproduces_matrix.

(* hence for ANY rotation angle and astigmatism angle, either sign of C10 and 0 <= C12 < |C10| the
   fitted set predicts exactly the lateral shifts it was fitted to *)
Theorem C12_fit_equivalent :
  forall (theta C10 C12 p : R) (U P : mat2) (lambda kx0 ky0 : R),
    0 <= C12 < Rabs C10 ->
    orthogonal U -> psd P -> mmul U P = shift_M theta C10 C12 p ->
    lateral_shift_x (env3 (fit_C10 U P) (fit_C12 U P) (fit_phi12 U P)) (fit_rotation_angle U P) lambda kx0 ky0
      = lateral_shift_x (env3 C10 C12 p) theta lambda kx0 ky0 /\
    lateral_shift_y (env3 (fit_C10 U P) (fit_C12 U P) (fit_phi12 U P)) (fit_rotation_angle U P) lambda kx0 ky0
      = lateral_shift_y (env3 C10 C12 p) theta lambda kx0 ky0.
Proof. exact fit_predicts_same_shifts. Qed.
Print Assumptions C12_fit_equivalent.

Example C12_nonvacuous_fit_equivalent :
  exists U P, orthogonal U /\ psd P /\ mmul U P = shift_M PI (-2) 0 0.
Proof. exact fit_equivalent_nonvacuous. Qed.

(* pure defocus (C12 = 0) is inside: rotation, C10 and C12 are returned exactly (phi12 is then
   not determined by the shifts) *)
Theorem C12_fit_extracts_pure_defocus_allowed :
  forall (theta C10 C12 p : R) (U P : mat2),
    - (PI / 2) < theta < PI / 2 -> 0 <= C12 < Rabs C10 ->
    orthogonal U -> psd P -> mmul U P = shift_M theta C10 C12 p ->
    fit_rotation_angle U P = theta /\ fit_C10 U P = C10 /\ fit_C12 U P = C12.
Proof. exact fit_extracts_weak. Qed.
Print Assumptions C12_fit_extracts_pure_defocus_allowed.

(* beyond a quarter turn the fit returns the rotation folded by PI and the negated defocus *)
Theorem C12_fit_large_angle :
  forall (theta C10 C12 p : R) (U P : mat2),
    0 <= C12 < Rabs C10 ->
    orthogonal U -> psd P -> mmul U P = shift_M theta C10 C12 p ->
    (PI / 2 < theta <= PI ->
     fit_rotation_angle U P = theta - PI /\ fit_C10 U P = - C10 /\ fit_C12 U P = C12) /\
    (- PI <= theta < - (PI / 2) ->
     fit_rotation_angle U P = theta + PI /\ fit_C10 U P = - C10 /\ fit_C12 U P = C12).
Proof.
  exact (fun theta C10 C12 p U P HC HU HP HM =>
           conj (fun Ht => fit_large_angle theta C10 C12 p U P Ht HC HU HP HM)
                (fun Ht => fit_large_angle_neg theta C10 C12 p U P Ht HC HU HP HM)).
Qed.
Print Assumptions C12_fit_large_angle.
