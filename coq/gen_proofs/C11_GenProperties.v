(* C11 translator tie: the theorems that tie the logic TRANSLATED on this run from the source of
   quantem/core/datastructures/vector.py and quantem/core/utils/validators.py (GenC11.Gen_C11, written by
   harness/translate_C11.py) to the definitions the hand-written model coq/model/C11_Model.v uses.
   ONLY statements closed by `exact` and their assumption reports. *)
From QV.lib Require Import Prelude C11_Heap C11_TieLib.
From QV.model Require Import C11_Model.
From GenC11 Require Import Gen_C11 C11_GenProofs.
From Coq Require Import QArith.
Local Close Scope Q_scope.
Local Open Scope Z_scope.

(* get_indices of get_data / set_data / the multi-cell branch of __setitem__: every axis length, every index
   expression (int / slice / list): the same per-axis index list or the same error class as the model's
   res_checked *)
Theorem C11_tie_index_checked :
  forall (n : nat) (x : ix),
    sum_map (map Z.to_nat) (gen_gi_get_data (Z.of_nat n) x) = res_checked n x /\
    sum_map (map Z.to_nat) (gen_gi_set_data (Z.of_nat n) x) = res_checked n x /\
    sum_map (map Z.to_nat) (gen_gi_setitem (Z.of_nat n) x) = res_checked n x.
Proof. intros n x. exact (conj (gen_gi_get_data_eq n x) (conj (gen_gi_set_data_eq n x) (gen_gi_setitem_eq n x))). Qed.
Print Assumptions C11_tie_index_checked.

(* get_indices of __getitem__: no bounds check (res_raw); its only error is the ValueError of a zero step *)
Theorem C11_tie_index_raw :
  forall (n : nat) (x : ix),
    opt_of (gen_gi_getitem (Z.of_nat n) x) = res_raw n x /\
    (forall e, gen_gi_getitem (Z.of_nat n) x = inl e -> e = EValue).
Proof. intros n x. exact (conj (gen_gi_getitem_eq n x) (gen_gi_getitem_err n x)). Qed.
Print Assumptions C11_tie_index_raw.

(* the guards in front of EVERY store into the nested lists (set_data x 2, __setitem__ x 2) and the per-cell
   guards of validate_vector_data: not an ndarray -> TypeError, ndim <> 2 -> ValueError, another column count
   -> ValueError, in this order = check_val *)
Theorem C11_tie_cell_guards :
  forall (h : list cell) (nf : nat) (v : rval) (nd s0 s1 : Z), nd <> 2 ->
    gen_cell_set_data_1 (v_isarr h v) (v_ndim nd v) s0 (v_shape1 h s1 v) (Z.of_nat nf) = cres_of_check (check_val h nf v) /\
    gen_cell_set_data_2 (v_isarr h v) (v_ndim nd v) s0 (v_shape1 h s1 v) (Z.of_nat nf) = cres_of_check (check_val h nf v) /\
    gen_cell_setitem_1 (v_isarr h v) (v_ndim nd v) s0 (v_shape1 h s1 v) (Z.of_nat nf) = cres_of_check (check_val h nf v) /\
    gen_cell_setitem_2 (v_isarr h v) (v_ndim nd v) s0 (v_shape1 h s1 v) (Z.of_nat nf) = cres_of_check (check_val h nf v) /\
    gen_vdata_cell (v_isarr h v) (v_ndim nd v) s0 (v_shape1 h s1 v) (Z.of_nat nf) = cres_of_check (check_val h nf v).
Proof.
  intros h nf v nd s0 s1 H.
  exact (conj (gen_cell_set_data_1_eq h nf v nd s0 s1 H) (conj (gen_cell_set_data_2_eq h nf v nd s0 s1 H)
        (conj (gen_cell_setitem_1_eq h nf v nd s0 s1 H) (conj (gen_cell_setitem_2_eq h nf v nd s0 s1 H)
              (gen_vdata_cell_eq h nf v nd s0 s1 H))))).
Qed.
Print Assumptions C11_tie_cell_guards.

(* one index per fixed dimension, checked before anything is resolved or stored *)
Theorem C11_tie_index_count :
  forall (idx : list ix) (sh : list nat),
    gen_arity_get_data (zlength idx) (zlength sh) = arity_model idx sh /\
    gen_arity_set_data (zlength idx) (zlength sh) = arity_model idx sh /\
    gen_arity_setitem (zlength idx) (zlength sh) = arity_model idx sh.
Proof. intros idx sh. exact (conj (gen_arity_get_data_eq idx sh) (conj (gen_arity_set_data_eq idx sh) (gen_arity_setitem_eq idx sh))). Qed.
Print Assumptions C11_tie_index_count.

(* get_data / set_data: one cell exactly when every axis resolves to one index; the multi-cell branches of
   set_data / __setitem__ want a list (TypeError) with one array per addressed cell (ValueError) *)
Theorem C11_tie_single_multi :
  (forall idxs : list (list Z),
     gen_get_data_single idxs = forallb (fun l => Nat.eqb (length l) 1) (map (map Z.to_nat) idxs) /\
     gen_set_data_single idxs = forallb (fun l => Nat.eqb (length l) 1) (map (map Z.to_nat) idxs)) /\
  (forall (islist : bool) (nv np : nat),
     gen_set_data_multi_guard islist (Z.of_nat nv) (Z.of_nat np) = multi_guard_model islist nv np /\
     gen_setitem_multi_guard islist (Z.of_nat nv) (Z.of_nat np) = multi_guard_model islist nv np).
Proof.
  exact (conj (fun idxs => conj (gen_get_data_single_eq idxs) (gen_set_data_single_eq idxs))
              (fun b nv np => conj (gen_set_data_multi_guard_eq b nv np) (gen_setitem_multi_guard_eq b nv np))).
Qed.
Print Assumptions C11_tie_single_multi.

(* which branch __setitem__ / __getitem__ take *)
Theorem C11_tie_dispatch :
  forall (sh : list nat) (idx : list ix),
    (length idx = length sh -> gen_has_fancy sh idx = has_fancy idx) /\
    gen_return_np sh idx = return_np_model (length sh) idx.
Proof. intros sh idx. exact (conj (gen_has_fancy_eq sh idx) (gen_return_np_eq sh idx)). Qed.
Print Assumptions C11_tie_dispatch.

(* Vector.flatten / _FieldView.flatten / the Vector-valued right-hand side of __setitem__ visit the populated
   cells in the order `leaves` (row-major), for every nesting *)
Theorem C11_tie_traversal :
  forall (k : Z) (t : tree),
    gen_collect_arrays t = pop_ids t /\
    gen_field_collect k t = map (fun id => (id, k)) (pop_ids t) /\
    gen_flatten_cells t = cells_model t.
Proof. intros k t. exact (conj (gen_collect_arrays_eq t) (conj (gen_field_collect_eq k t) (gen_flatten_cells_eq t))). Qed.
Print Assumptions C11_tie_traversal.

(* set_flattened: the cursor walk (values[cursor : cursor + n] into column k of every populated cell, cursor
   advanced by n, started at 0) is the model's `fill`, for every nesting, heap and value list *)
Theorem C11_tie_set_flattened_offsets :
  forall (k : nat) (t : tree) (vals : list Q) (h : list cell),
    fst (gen_fill (Z.of_nat k) t vals gen_set_flattened_start h) = fill k h (leaves t) vals.
Proof. exact gen_fill_eq. Qed.
Print Assumptions C11_tie_set_flattened_offsets.

(* slicing: whenever the model goes on to build the slice, the translated `take` yields the model's `take`
   (the addressed cells, same objects, one nesting level per axis); nested_list = tfill *)
Theorem C11_tie_slicing_take :
  (forall (sh : list nat) (raw : list (list Z)) (idxs : list (list nat)) (t : tree),
     shaped sh t -> resolve_take sh raw = inr idxs -> gen_take raw t = inr (take idxs t)) /\
  (forall (sh : list nat) (x : leaf), gen_nested_list (map Z.of_nat sh) x = tfill sh x).
Proof. exact (conj gen_take_model gen_nested_list_eq). Qed.
Print Assumptions C11_tie_slicing_take.

(* add_fields: guards (existing name, duplicates -> ValueError, in this order), new fields / units;
   remove_fields: the removed column positions and the kept ones *)
Theorem C11_tie_add_remove_fields :
  (forall fields names : list Z, gen_add_guard fields names = add_guard_model fields names) /\
  (forall fields names : list Z, gen_add_fields fields names = fields ++ names) /\
  (forall units names : list Z, gen_add_units units names = units ++ repeat 0 (length names)) /\
  (forall fields names : list Z, NoDup fields ->
     map Z.to_nat (gen_remove_indices fields names) = filter_map (fun x => index_of x fields) names) /\
  (forall (fields : list Z) (rm : list nat),
     gen_remove_keep fields (map Z.of_nat rm) = map Z.of_nat (filter (fun i => negb (memb i rm)) (seq 0 (length fields)))).
Proof.
  exact (conj gen_add_guard_eq (conj gen_add_fields_eq (conj gen_add_units_eq (conj gen_remove_indices_eq gen_remove_keep_eq)))).
Qed.
Print Assumptions C11_tie_add_remove_fields.

(* validate_fields (TypeError unless list / tuple, ValueError on duplicates) and the per-level checks of
   validate_vector_data (list, length = shape[0], recursion while more than one dimension is left) *)
Theorem C11_tie_validators :
  (forall (isseq : bool) (names : list Z), gen_validate_fields isseq names = validate_fields_model isseq names) /\
  (forall (islist : bool) (len n : nat), gen_vdata_level islist (Z.of_nat len) (Z.of_nat n) = vdata_level_model islist len n) /\
  (forall sh : list nat, gen_vdata_recurse (zlength sh) = match sh with _ :: _ :: _ => true | _ => false end).
Proof. exact (conj gen_validate_fields_eq (conj gen_vdata_level_eq gen_vdata_recurse_eq)). Qed.
Print Assumptions C11_tie_validators.

(* where new arrays come from: flatten results are NEW arrays (np.empty / np.vstack / np.concatenate),
   copy() deep-copies, from_data / v.data = ... store what validate_vector_data returns, a slice holds the
   SAME cell objects; expand_array / prune_array rebuild the nesting with one new array per populated cell *)
Theorem C11_tie_structure :
  gen_flatten_returns = [RetFreshEmpty; RetFreshStack] /\
  gen_field_flatten_returns = [RetFreshEmpty; RetFreshConcat] /\
  gen_copy_datasrc = SrcDeepcopy /\ gen_from_data_datasrc = SrcValidated /\ gen_getitem_datasrc = SrcTake /\
  gen_expand_scheme = SchemeMapRebuild /\ gen_prune_scheme = SchemeMapRebuild /\ gen_apply_scheme = SchemeEffect /\
  gen_get_data_order = TravNdindex /\ gen_set_data_order = TravNdindexEnumerate /\ gen_setitem_order = TravNdindexEnumerate.
Proof. exact gen_facts. Qed.
Print Assumptions C11_tie_structure.

(* ------------------------------------------------------------------ non-vacuity *)
Example C11_tie_nonvacuous_take :
  exists t idxs, shaped [2; 2]%nat t /\ resolve_take [2; 2]%nat [[-1]; [0; 1]] = inr idxs /\
                 gen_take [[-1]; [0; 1]] t = inr (Node [Node [Leaf (Some 2%nat); Leaf None]]).
Proof.
  exists (Node [Node [Leaf (Some 0%nat); Leaf (Some 1%nat)]; Node [Leaf (Some 2%nat); Leaf None]]), [[1]; [0; 1]]%nat.
  repeat split; try (vm_compute; reflexivity). vm_compute. repeat constructor.
Qed.

Example C11_tie_nonvacuous_index :
  gen_gi_get_data 4 (ISlice (Some (-1)) None (Some (-2))) = inr [3; 1] /\
  gen_gi_get_data 4 (IList [0; 4]) = inl EIndex /\ gen_gi_getitem 4 (IList [0; 4]) = inr [0; 4] /\
  gen_gi_setitem 2 (IInt (-1)) = inl EIndex /\ gen_gi_getitem 3 (ISlice None None (Some 0)) = inl EValue.
Proof. repeat split; vm_compute; reflexivity. Qed.

Example C11_tie_nonvacuous_guards :
  gen_cell_set_data_1 false 2 0 0 2 = CRaise EType /\ gen_cell_setitem_2 true 3 0 0 2 = CRaise EValue /\
  gen_cell_setitem_1 true 2 1 3 2 = CRaise EValue /\ gen_vdata_cell true 2 1 2 2 = COk /\
  has_fancy [IInt 0; IList [0; 1]] = true /\ gen_has_fancy [2; 2]%nat [IInt 0; IList [0; 1]] = true /\
  gen_return_np [2; 2]%nat [IInt 0; IInt 1; IInt 0] = true /\ gen_return_np [2; 2]%nat [IInt 0] = false.
Proof. repeat split; vm_compute; reflexivity. Qed.

Example C11_tie_nonvacuous_fields :
  NoDup [5; 7; 9] /\ gen_remove_indices [5; 7; 9] [9; 4; 5] = [2; 0] /\ gen_remove_keep [5; 7; 9] [2; 0] = [1] /\
  gen_add_guard [5; 7] [8; 8] = CRaise EValue /\ gen_add_guard [5; 7] [8; 9] = COk /\
  gen_validate_fields true [1; 1] = CRaise EValue.
Proof. repeat split; try (vm_compute; reflexivity). repeat constructor; simpl; intuition lia. Qed.

Example C11_tie_nonvacuous_fill :
  let h := [mkCell 2 [[1#1; 2#1]; [3#1; 4#1]]; mkCell 2 [[5#1; 6#1]]]%Q in
  gen_fill 1 (Node [Leaf (Some 1%nat); Leaf None; Leaf (Some 0%nat)]) [7#1; 8#1; 9#1]%Q 0 h =
  ([mkCell 2 [[1#1; 8#1]; [3#1; 9#1]]; mkCell 2 [[5#1; 7#1]]]%Q, 3).
Proof. vm_compute. reflexivity. Qed.
