(* C08 effect-program tie: the theorem that ties the effect program EXTRACTED on this run from the source of
   quantem.core.io.serialize.AutoSerialize.save (GenC08.Gen_C08, written by harness/c08_tie.py) to the protocol
   `save_prog` / `tree_prog` the theorems of props/C08_Properties.v are about.
   ONLY statements closed by `exact` and their assumption reports. *)
From QV.lib Require Import Prelude.
From QV.model Require Import C08_Model C08_Model_Tree C08_Model_Tie.
From QV.proof Require Import C08_Proofs_Tie.
From GenC08 Require Import Gen_C08 C08_GenProofs.

(* for both stores the extracted program evaluates to the fixed skeleton *)
Theorem C08_save_source_is_skeleton :
  forall st : store, interp gen_save_toks st 0 [] = Some (save_skeleton st).
Proof. exact gen_save_is_skeleton. Qed.
Print Assumptions C08_save_source_is_skeleton.

(* ... and therefore: for every store, mode, target p (the RESOLVED name; praw = the name as given reaches no
   site), chain anc of directories above it, staging paths, item writes of the three phases (root group /
   recursive save / skip metadata) and archive members, the effects the source performs, in source order, ARE
   tree_prog (= save_prog for a chain-less target); the handler stack given by the `with` nesting of the source at
   every effect IS the one `run` uses; hence running the extracted program with a fault at any k is `run k` of
   the protocol, the object of C08_no_partial_loadable / _write_once / _frame / C08_tree_* *)
Theorem C08_save_effect_program_tie :
  forall (st : store) (m : mode) (p praw : path) (anc : list path) (ts tz : path) (wg wr wk zs : list item),
  exists sk, interp gen_save_toks st 0 [] = Some sk /\
    let l := expand m p praw anc ts tz wg wr wk zs sk in
    map fst l = tree_prog st m p anc ts tz (wg ++ wr ++ wk) zs /\
    l = annot (tree_prog st m p anc ts tz (wg ++ wr ++ wk) zs) [] /\
    (forall k fs, run_annot k l fs = run k (tree_prog st m p anc ts tz (wg ++ wr ++ wk) zs) fs) /\
    (forall k fs, anc = [] -> run_annot k l fs = run k (save_prog st m p ts tz (wg ++ wr ++ wk) zs) fs).
Proof. exact (skeleton_meaning gen_save_toks gen_save_is_skeleton). Qed.
Print Assumptions C08_save_effect_program_tie.

Example C08_tie_nonvacuous :
  gen_kinds SZip MO 0 1 2 1 2 = [0; 2; 4; 4; 4; 4; 5; 6; 6; 7; 1; 8]%Z /\
  gen_kinds SDir MW 2 1 1 1 0 = [0; 3; 3; 2; 4; 4; 4; 1; 8]%Z.
Proof. split; vm_compute; reflexivity. Qed.
