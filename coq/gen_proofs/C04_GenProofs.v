(* C04 source tie — FIXED proof script, compiled by the check on every run against the file build/C04/Gen_C04.v that
   harness/c04_tie.py translated from the CURRENT source of quantem/diffractive_imaging/direct_ptychography.py.
   Every gen_* definition is proved equal to the hand-written model (coq/model/C04_Model.v, C04_Hyper_Model.v) for all
   inputs.  The proofs unfold, fuse maps and split on the option / lookup results: they do not depend on names of locals,
   the order of independent statements, or how the dictionary merge is spelled. *)
From Coq Require Import List Bool String Ascii Arith ZArith Lia PrimFloat.
From QV.lib Require Import Prelude Chunks FinSum DFT DFT2 DFT_Float.
From QV.model Require Import C04_Model C04_Hyper_Model.
From QV.proof Require Import C04_Proofs_Hyper.
From GenC04 Require Import Gen_C04.
Import ListNotations.
Local Open Scope string_scope.

Ltac split_matches :=
  repeat match goal with
         | |- context [match ?x with _ => _ end] => destruct x eqn:?
         end.

(* ------------------------------------------------------------------ 1. the layer merge *)
Lemma gen_current_aberrations_eq : forall (K V : Type) (canon : dict K V -> dict K V) (init opt : dict K V)
    (ovr : option (dict K V)) (k : K),
    gen_current_aberrations canon init opt ovr k = merge_layers init opt (option_map canon ovr) k.
Proof.
  intros K V canon init opt ovr k.
  unfold gen_current_aberrations, merge_layers, d_update, d_empty.
  destruct ovr as [o|]; cbn [option_map]; split_matches; congruence.
Qed.

(* ------------------------------------------------------------------ 2. the rotation angle *)
Lemma gen_current_rotation_eq : forall (V : Type) (ovr opt init : option V) (zero : V),
    gen_current_rotation ovr opt init zero = eff_rotation ovr opt init zero.
Proof. intros V [o|] [p|] [i|] zero; reflexivity. Qed.

(* ------------------------------------------------------------------ 3. kernel names *)
Lemma gen_kernel_aliases_eq : gen_kernel_aliases = kernel_aliases.
Proof. reflexivity. Qed.

Lemma gen_normalize_eq : forall lower k, gen_normalize lower k = normalize_kernel lower k.
Proof.
  intros lower k. unfold gen_normalize, normalize_kernel. rewrite gen_kernel_aliases_eq.
  destruct (slookup (lower k) kernel_aliases) eqn:E; try rewrite E; reflexivity.
Qed.

(* ------------------------------------------------------------------ 4. dispatch on the (normalised) kernel name *)
Lemma gen_contrib_dispatch_eq : forall c, In c canonical_kernels ->
    gen_contrib_dispatch c = (kernel_branch c, returns_power c, ssb_divides c).
Proof. intros c H. cbn in H. repeat (destruct H as [<-|H]; [vm_compute; reflexivity|]). contradiction. Qed.

Lemma gen_flags_eq : forall c, In c canonical_kernels ->
    gen_alloc_power c = two_pass c /\
    (gen_alloc_power c = true -> gen_norm_defined c = true) /\
    gen_grad_defined c = kbranch_eqb (kernel_branch c) BrPrlx.
Proof.
  intros c H. cbn in H.
  repeat (destruct H as [<-|H]; [vm_compute; repeat split; intros; try discriminate; reflexivity|]). contradiction.
Qed.

(* ------------------------------------------------------------------ 5. the BF context *)
Lemma gen_ctx_eq : forall full sub,
    gen_ctx_mask full sub = sub /\ gen_ctx_pixels full sub = nonzero2 sub /\
    gen_ctx_num_bf full sub = ctx_n sub /\ gen_ctx_index_map full sub = index_map full sub.
Proof. intros full sub. repeat split; reflexivity. Qed.

(* ------------------------------------------------------------------ 6. the passes of reconstruct *)
Lemma fold_left_ext_eq : forall (A B : Type) (f g : A -> B -> A), (forall a b, f a b = g a b) ->
    forall l a, fold_left f l a = fold_left g l a.
Proof. intros A B f g H l. induction l as [|x l IH]; intro a; cbn; [reflexivity|]. rewrite H. apply IH. Qed.

Section Passes.
  Variable R : Type.
  Variables (rO : R) (radd rmul : R -> R -> R) (conj : R -> R) (half : R) (rinv : R -> R).
  Variables (N1 N2 : nat) (w1 w2 : Z -> R) (Ninv1 Ninv2 : R).
  Variable n : nat.
  Variable contrib : nat -> img R.
  Variable pw : nat -> img R.
  Variable wt : nat -> R.
  Variable env : img R.
  Variable normf : img R -> img R.
  Variable garbage : img R.

  Lemma gen_pass1_single_eq : forall arr batch,
      gen_pass1_single R rO radd rmul N1 N2 w1 w2 Ninv1 Ninv2 contrib env arr batch =
      pass_single rO radd rmul N1 N2 w1 w2 Ninv1 Ninv2 contrib env arr batch.
  Proof. intros. unfold gen_pass1_single, pass_single. rewrite ?map_map. reflexivity. Qed.

  Lemma gen_pass1_two_eq : forall st batch,
      gen_pass1_two R rO radd contrib pw st batch = pass1 rO radd contrib pw st batch.
  Proof. intros. unfold gen_pass1_two, pass1. rewrite ?map_map. reflexivity. Qed.

  Lemma gen_pass2_eq : forall nf arr batch,
      gen_pass2 R rO radd rmul N1 N2 w1 w2 Ninv1 Ninv2 env garbage nf arr batch =
      pass2 rO radd rmul N1 N2 w1 w2 Ninv1 Ninv2 env garbage nf arr batch.
  Proof. intros. unfold gen_pass2, pass2. rewrite ?map_map. reflexivity. Qed.

  Lemma gen_finish_eq : forall arr,
      gen_finish R rO radd rmul conj half rinv n wt arr = finish rO radd rmul conj half rinv n wt arr.
  Proof. intros. reflexivity. Qed.

  Lemma gen_reconstruct_single_eq : forall batches,
      gen_reconstruct_single R rO radd rmul conj half rinv N1 N2 w1 w2 Ninv1 Ninv2 n contrib wt env garbage batches =
      reconstruct_single rO radd rmul conj half rinv N1 N2 w1 w2 Ninv1 Ninv2 n contrib wt env garbage batches.
  Proof.
    intros. unfold gen_reconstruct_single, reconstruct_single, gen_init_arr. rewrite gen_finish_eq. f_equal.
    apply fold_left_ext_eq. intros. apply gen_pass1_single_eq.
  Qed.

  Lemma gen_reconstruct_two_eq : forall batches,
      gen_reconstruct_two R rO radd rmul conj half rinv N1 N2 w1 w2 Ninv1 Ninv2 n contrib pw wt env normf garbage batches =
      reconstruct_two rO radd rmul conj half rinv N1 N2 w1 w2 Ninv1 Ninv2 n contrib pw wt env normf garbage batches.
  Proof.
    intros. unfold gen_reconstruct_two, reconstruct_two, gen_init_arr, gen_init_power, gen_power_post.
    rewrite (fold_left_ext_eq _ _ _ _ gen_pass1_two_eq). cbv zeta. rewrite gen_finish_eq. f_equal.
    apply fold_left_ext_eq. intros. apply gen_pass2_eq.
  Qed.
End Passes.

Lemma gen_facts_eq : gen_facts = reconstruct_facts.
Proof. reflexivity. Qed.

(* ------------------------------------------------------------------ binary64 instance of the TRANSLATED passes (runs only):
   the translator's cross-test feeds it with the contributions of real runs, like f_single / f_two of the model *)
Definition gen_f_single (g : grid) (n : nat) (contrib : list (list (list cf))) (wt : list float)
           (env : list (list float)) (batches : list (list nat)) : list (list (list cf)) :=
  map (glst2 g)
    (gen_reconstruct_single cf cf0 cfadd cfmul cfconj cfhalf cfrinv (gN1 g) (gN2 g)
       (ftw (gN1 g) (gT1 g)) (ftw (gN2 g) (gT2 g)) (fNinv (gN1 g)) (fNinv (gN2 g)) n
       (fun j => sig2 (nth j contrib nil)) (fun j => cf_re (nth j wt 0%float)) (rsig2 env) cfgarbage batches).

Definition gen_f_two (nf : grid -> (nat -> nat -> cf) -> nat -> nat -> cf) (g : grid) (n : nat)
           (contrib : list (list (list cf))) (pw : list (list (list float))) (wt : list float)
           (env : list (list float)) (batches : list (list nat)) : list (list (list cf)) :=
  map (glst2 g)
    (gen_reconstruct_two cf cf0 cfadd cfmul cfconj cfhalf cfrinv (gN1 g) (gN2 g)
       (ftw (gN1 g) (gT1 g)) (ftw (gN2 g) (gT2 g)) (fNinv (gN1 g)) (fNinv (gN2 g)) n
       (fun j => sig2 (nth j contrib nil)) (fun j => rsig2 (nth j pw nil)) (fun j => cf_re (nth j wt 0%float))
       (rsig2 env) (nf g) cfgarbage batches).

(* ------------------------------------------------------------------ consequences for the TRANSLATED code *)
From Coq Require Import Permutation.
From QV.proof Require Import C04_Proofs_Main.

(* a value the override sets for a key is the value in force, whatever it is (an exact zero included) *)
Lemma gen_override_value_in_force : forall (K V : Type) (canon : dict K V -> dict K V) (init opt o : dict K V) (k : K) (v : V),
    canon o k = Some v -> gen_current_aberrations canon init opt (Some o) k = Some v.
Proof. intros. rewrite gen_current_aberrations_eq. cbn [option_map]. apply merge_override_wins. assumption. Qed.

Lemma gen_layer_priority : forall (K V : Type) (canon : dict K V -> dict K V) (init opt : dict K V) (ovr : option (dict K V)) (k : K),
    gen_current_aberrations canon init opt ovr k = layer_lookup init opt (option_map canon ovr) k.
Proof. intros. rewrite gen_current_aberrations_eq. apply merge_layers_priority. Qed.

(* the reconstruction as a function of what the translated merge returns: a layered object = a fresh object constructed
   with the effective values (no optimised layer, no override) *)
Lemma gen_effective_parameters : forall (K V Res : Type) (rec : dict K V -> V -> Res) (zero : V) (canon : dict K V -> dict K V),
    (forall d d' r, dict_eq d d' -> rec d r = rec d' r) ->
    forall (init : dict K V) (irot : option V) (opt : dict K V) (orot : option V) (ovr : option (dict K V)) (ovrrot : option V),
      rec (gen_current_aberrations canon init opt ovr) (gen_current_rotation ovrrot orot irot zero) =
      rec (gen_current_aberrations canon (gen_current_aberrations canon init opt ovr) d_empty None)
          (gen_current_rotation None None (Some (gen_current_rotation ovrrot orot irot zero)) zero).
Proof.
  intros K V Res rec zero canon Hext init irot opt orot ovr ovrrot.
  rewrite (gen_current_rotation_eq V None None). cbn [eff_rotation].
  apply Hext. intro k. rewrite (gen_current_aberrations_eq K V canon _ d_empty None). cbn [option_map merge_layers].
  symmetry. apply d_update_empty_r.
Qed.

(* batch invariance of the translated passes *)
Lemma gen_batch_invariant_single :
  forall (R : Type) (rO : R) (radd rmul : R -> R -> R) (conj : R -> R) (half : R) (rinv : R -> R)
         (N1 : nat) (w1 : Z -> R) (Ninv1 : R) (N2 : nat) (w2 : Z -> R) (Ninv2 : R)
         (n : nat) (contrib : nat -> img R) (wt : nat -> R) (env garbage : img R) (batches batches' : list (list nat)),
    Permutation (concat batches) (seq 0 n) -> Permutation (concat batches') (seq 0 n) ->
    gen_reconstruct_single R rO radd rmul conj half rinv N1 N2 w1 w2 Ninv1 Ninv2 n contrib wt env garbage batches =
    gen_reconstruct_single R rO radd rmul conj half rinv N1 N2 w1 w2 Ninv1 Ninv2 n contrib wt env garbage batches'.
Proof.
  intros. rewrite !gen_reconstruct_single_eq. apply C04_batch_invariant_single_pass_any_partition_main; assumption.
Qed.

Lemma gen_batch_invariant_two :
  forall (R : Type) (rO rI : R) (radd rmul rsub : R -> R -> R) (ropp : R -> R)
         (Rth : ring_theory rO rI radd rmul rsub ropp (@eq R)) (conj : R -> R) (Cok : conj_ok radd rmul conj) (half : R) (rinv : R -> R) (N1 : nat) (w1 : Z -> R) (Ninv1 : R) (N2 : nat) (w2 : Z -> R) (Ninv2 : R)
         (Rok1 : root_ok rO rI radd rmul conj N1 w1 Ninv1) (Rok2 : root_ok rO rI radd rmul conj N2 w2 Ninv2)
         (n : nat) (contrib pw : nat -> img R) (wt : nat -> R) (env : img R) (normf : img R -> img R) (garbage : img R)
         (b j : nat) (d : img R) (r1 r2 : nat),
    (forall P Q : img R, (forall k1 k2, k1 < N1 -> k2 < N2 -> P k1 k2 = Q k1 k2) ->
                         forall k1 k2, k1 < N1 -> k2 < N2 -> normf P k1 k2 = normf Q k1 k2) ->
    1 <= b -> j < n -> r1 < N1 -> r2 < N2 ->
    nth j (gen_reconstruct_two R rO radd rmul conj half rinv N1 N2 w1 w2 Ninv1 Ninv2 n contrib pw wt env normf garbage (batches_of n b)) d r1 r2 =
    nth j (gen_reconstruct_two R rO radd rmul conj half rinv N1 N2 w1 w2 Ninv1 Ninv2 n contrib pw wt env normf garbage [seq 0 n]) d r1 r2.
Proof.
  intros. rewrite !gen_reconstruct_two_eq.
  eapply (C04_batch_invariant_two_pass_main R rO rI radd rmul rsub ropp Rth conj Cok half rinv N1 w1 Ninv1 N2 w2 Ninv2 Rok1 Rok2); eassumption.
Qed.
