(* C02 — translator tie: the theorems that tie the integer / index / dispatch logic TRANSLATED on this run from
   the current source (GenC02.Gen_C02, written by harness/c02_tie.py) to the hand-written model
   coq/model/C02_Model.v.  ONLY statements closed by `exact` + their assumption reports + non-vacuity examples;
   the proofs are in C02_GenProofs.v (fixed script).  Compiled by the check on every run. *)
From QV.lib Require Import Prelude FinSum DFT DFT2 C02_TieLib.
From QV.model Require Import C02_Model.
From QV.proof Require Import C02_Proofs_Index C02_Proofs_Geom.
From GenC02 Require Import Gen_C02 C02_GenProofs.
From Coq Require Import QArith.
Local Close Scope Q_scope.
Local Open Scope Z_scope.

(* PtychographyDatasetBase._set_patch_indices (chunk loop over broadcast int tensors, int32 casts) computes the
   model's patch indices for EVERY scan, object size H x W < 2^31 pixels, ROI size, chunking *)
Theorem C02_patch_indices_tie :
  forall H W n m pos,
    0 < H -> 0 < W -> H * W < 2147483648 -> 0 <= n -> 0 <= m -> pos <> [] -> Forall pos_int32 pos ->
    gen_patch_indices H W n m pos = patch_indices_all H W n m pos /\ gen_last_positions pos = pos.
Proof. exact patch_indices_tie_full. Qed.
Print Assumptions C02_patch_indices_tie.

Example C02_nonvacuous_patch_indices_tie :
  let pos := [(5 # 2, 7 # 2); (1 # 1, 0 # 1)]%Q in
  (0 < 6 /\ 0 < 5 /\ 6 * 5 < 2147483648 /\ pos <> [] /\ Forall pos_int32 pos) /\
  gen_patch_indices 6 5 3 2 pos = [[[14; 13]; [19; 18]; [9; 8]]; [[5; 9]; [10; 14]; [0; 4]]].
Proof. exact nonvacuous_patch_indices_tie. Qed.

(* patch_indices_need_update *)
Theorem C02_need_update_tie :
  forall cached current, gen_need_update cached current = need_update cached current.
Proof. exact gen_need_update_eq_model. Qed.
Print Assumptions C02_need_update_tie.

(* PtychographyDatasetRaster.forward: cache refresh, batch gather, rounding / fractional split *)
Theorem C02_forward_tie :
  forall H W n m cached_pos cache pos batch,
    0 < H -> 0 < W -> H * W < 2147483648 -> 0 <= n -> 0 <= m -> pos <> [] -> Forall pos_int32 pos ->
    gen_forward H W n m cached_pos cache pos batch = forward_indices H W n m cached_pos cache pos batch.
Proof. exact gen_forward_eq_model. Qed.
Print Assumptions C02_forward_tie.

Theorem C02_frac_tie : forall q, gen_frac q = frac_part q.
Proof. exact gen_frac_eq_model. Qed.
Print Assumptions C02_frac_tie.

(* consequence, about the TRANSLATED functions only: whatever positions the cache was computed for, the indices
   forward() returns for a batch are the windows of the CURRENT rounded positions *)
Theorem C02_translated_forward_returns_current_windows :
  forall H W n m cached_pos pos batch,
    0 < H -> 0 < W -> H * W < 2147483648 -> 0 <= n -> 0 <= m ->
    cached_pos <> [] -> Forall pos_int32 cached_pos -> pos <> [] -> Forall pos_int32 pos ->
    Forall (fun b => 0 <= b < lenZ pos) batch ->
    fst (fst (gen_forward H W n m cached_pos (gen_patch_indices H W n m cached_pos) pos batch)) =
    map (fun b => let p := nth (Z.to_nat b) pos (0 # 1, 0 # 1)%Q in
                  patch_indices H W n m (round_half_even (fst p)) (round_half_even (snd p))) batch.
Proof. exact translated_forward_current. Qed.
Print Assumptions C02_translated_forward_returns_current_windows.

(* _obj_shape_crop_2d (integer tail), _obj_shape_full_2d, adjust_padding_power2 *)
Theorem C02_obj_shape_tie :
  forall F rshape pad,
    gen_obj_shape_crop F = Some (obj_shape_crop F) /\ gen_obj_shape_full rshape pad = Some (obj_shape_full rshape pad).
Proof. exact obj_shape_tie_full. Qed.
Print Assumptions C02_obj_shape_tie.

Theorem C02_adjust_pad_tie :
  forall level s0 s1 p0 p1, gen_adjust_pad level s0 s1 p0 p1 = adjust_pad level s0 s1 p0 p1.
Proof. exact gen_adjust_pad_eq_model. Qed.
Print Assumptions C02_adjust_pad_tie.

(* _set_targets: for each of the five loss types, the buffer the loss is compared against becomes a copy of the
   CURRENT array selected by the model's target_source — whatever the buffer held before; unknown types raise *)
Theorem C02_set_targets_tie :
  forall (A : Type) lt learn_descan has_optimizer (arrays : tsource -> A) (old : A),
    gen_set_targets lt learn_descan has_optimizer arrays old =
      Some (arrays (target_source lt (learn_descan && has_optimizer))) /\
    gen_set_targets_unknown learn_descan has_optimizer arrays old = None.
Proof. exact set_targets_tie_full. Qed.
Print Assumptions C02_set_targets_tie.

(* DetectorPixelated.forward: ortho FFT, |.|^2, INCOHERENT sum over the modes, then fftshift — the detector part
   of the model's forward_code, in every commutative ring with the root-of-unity structure of lib/DFT.v *)
Theorem C02_detector_tie :
  forall R (rO : R) radd rmul conj N1 w1 N2 w2 sN (exit_waves : list (img R)) k1 k2,
    gen_detector rO radd rmul conj N1 w1 N2 w2 sN exit_waves k1 k2 =
    fftshift2 N1 N2 (mode_sum rO radd (farfield_intensity rO radd rmul conj N1 w1 N2 w2 sN) exit_waves) k1 k2.
Proof. exact gen_detector_eq_model. Qed.
Print Assumptions C02_detector_tie.
