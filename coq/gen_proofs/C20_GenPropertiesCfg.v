(* C20 — Display normalisation, part 3: the path from a configuration (NormalizationConfig,
   preset name, dict) through the `CustomNormalization(...)` calls of visualization.py
   (_show_2d_array, _show_2d_combined) and the dispatch of CustomNormalization.__init__ to the
   interval / stretch objects, and the limits frozen by _set_limits — over the file GENERATED
   from the current sources (Gen20.Gen_Cfg; harness/translate_norm.py translate_config).
   ONLY theorem statements closed by `exact`, their assumption reports and non-vacuity examples;
   the proofs are in C20_GenProofsCfg.v (fixed script). *)
From Coq Require Import Reals String List.
From QV.lib Require Import C20_NpReal.
From QV.proof Require Import C20_RLemmas.
From Gen20 Require Import Gen_Norm C20_GenProofs C20_GenProofs2 Gen_Cfg C20_GenProofsCfg.
Import ListNotations.
Local Open Scope R_scope.

(* EVERY field of the configuration reaches the constructor argument of the same name, in
   _show_2d_array and in _show_2d_combined (cn_args_of_config is the field-by-field identity);
   the defaults of NormalizationConfig and of CustomNormalization.__init__ coincide *)
Theorem C20_config_reaches_constructor :
  (forall c, show_2d_array_args c = cn_args_of_config c /\
             show_2d_combined_args c = cn_args_of_config c) /\
  cn_args_of_config NormalizationConfig_default = CN_args_default.
Proof. exact (conj show_args_faithful config_defaults_agree). Qed.
Print Assumptions C20_config_reaches_constructor.

(* the interval object carries the configuration's own values, and __init__ raises exactly on
   the interval types it does not know *)
Theorem C20_init_interval :
  forall a,
    (forall io, CN_init_interval a = Some io ->
       match io with
       | IO_QuantileInterval lq uq =>
           a_interval_type a = "quantile"%string /\ lq = a_lower_quantile a /\ uq = a_upper_quantile a
       | IO_ManualInterval v1 v2 =>
           a_interval_type a = "manual"%string /\ v1 = a_vmin a /\ v2 = a_vmax a
       | IO_CenteredInterval vc hr =>
           a_interval_type a = "centered"%string /\ vc = a_vcenter a /\ hr = a_half_range a
       end) /\
    (known_interval (a_interval_type a) <-> exists io, CN_init_interval a = Some io).
Proof. exact init_interval_lemma. Qed.
Print Assumptions C20_init_interval.

(* the stretch object is one of the proved stretches and carries the configuration's own
   parameter (a power different from 1 selects the power law whatever stretch_type says) *)
Theorem C20_init_stretch :
  forall a so,
    CN_init_stretch a = Some so ->
    (exists s, cfg_of_obj so = Some s) /\
    match so with
    | SO_LinearStretch _ _ => a_stretch_type a = "linear"%string /\ a_power a = 1
    | SO_PowerLawStretch p => p = a_power a /\ (a_stretch_type a = "power"%string \/ a_power a <> 1)
    | SO_LogarithmicStretch x =>
        a_stretch_type a = "logarithmic"%string /\ x = a_logarithmic_index a /\ a_power a = 1
    | SO_InverseHyperbolicSineStretch x =>
        a_stretch_type a = "asinh"%string /\ x = a_asinh_linear_range a /\ a_power a = 1
    | SO_InverseLogarithmicStretch _ | SO_HyperbolicSineStretch _ => False
    end.
Proof. exact init_stretch_lemma. Qed.
Print Assumptions C20_init_stretch.

(* whatever configuration visualization.py is given: if CustomNormalization.__init__ succeeds
   (built = both dispatches return an object and the stretch constructor's check passes) then
   _show_2d_array and _show_2d_combined build the same objects, and the normalisation they
   apply — for whatever limits get frozen — maps into [0, 1], is non-decreasing for
   vmin <= vmax, and sends vmin < vmax to 0 and 1 *)
Theorem C20_constructed_normalisation :
  forall c io so,
    built (show_2d_array_args c) io so ->
    built (show_2d_combined_args c) io so /\
    exists s, cfg_domain s /\ (forall x, so_call so x = cfg_call s x) /\
      forall vmin vmax,
        (forall x, 0 <= so_call so (interval_map vmin vmax x) <= 1) /\
        (vmin <= vmax -> forall x y, x <= y ->
           so_call so (interval_map vmin vmax x) <= so_call so (interval_map vmin vmax y)) /\
        (vmin < vmax -> so_call so (interval_map vmin vmax vmin) = 0 /\
                        so_call so (interval_map vmin vmax vmax) = 1).
Proof. exact constructed_normalisation_lemma. Qed.
Print Assumptions C20_constructed_normalisation.

(* ALL named presets (whatever NORMALIZATION_PRESETS lists in the current source) and the
   default configuration are accepted by the constructor *)
Theorem C20_presets_constructible :
  Forall (fun p => preset_ok (snd p)) NORMALIZATION_PRESETS /\ preset_ok NormalizationConfig_default.
Proof. exact (conj presets_ok_lemma default_config_ok). Qed.
Print Assumptions C20_presets_constructible.

(* the state "vmin / vmax fixed by _set_limits": the interval is replaced by a ManualInterval
   carrying the computed limits, the attributes are those limits, and afterwards neither
   different data nor a second _set_limits changes them; boolean data freeze (0, 1) *)
Theorem C20_set_limits_frozen :
  (forall o q dmin dmax,
     CN_set_limits o q dmin dmax =
       IO_ManualInterval (Some (fst (io_get_limits o q dmin dmax)))
                         (Some (snd (io_get_limits o q dmin dmax))) /\
     CN_limits_attr o q dmin dmax = io_get_limits o q dmin dmax /\
     (forall q' dmin' dmax',
        io_get_limits (CN_set_limits o q dmin dmax) q' dmin' dmax' = io_get_limits o q dmin dmax /\
        CN_set_limits (CN_set_limits o q dmin dmax) q' dmin' dmax' = CN_set_limits o q dmin dmax)) /\
  (forall q dmin dmax, io_get_limits CN_set_limits_bool q dmin dmax = (0, 1)).
Proof. exact (conj set_limits_frozen set_limits_bool_lemma). Qed.
Print Assumptions C20_set_limits_frozen.

(* ---------------------------------------------------------------- non-vacuity *)
Example C20_nonvacuous_presets : (length NORMALIZATION_PRESETS >= 1)%nat.
Proof. unfold NORMALIZATION_PRESETS. simpl. apply le_n_S, Nat.le_0_l. Qed.

Example C20_nonvacuous_built :
  exists io so, built (show_2d_array_args NormalizationConfig_default) io so.
Proof. exact default_config_ok. Qed.
