(* Arithmetic tie, group "utils" — FIXED proof script, compiled at check time against the file
   GENERATED from the current quantem/core/utils/utils.py (build/<prop>/Gen_Arith.v, logical name
   GenArith.Gen_Arith):

     coqc -Q /verif/coq QV -Q <build>/<prop> GenArith -o <build>/<prop>/Arith_Utils_GenProofs.vo \
          coq/gen_proofs/Arith_Utils_GenProofs.v

   For every argument tuple of the stated domain the function TRANSLATED from the source equals
   the hand-written model function of coq/model/C09_Model.v.  The scripts do not look at the
   syntactic shape of the generated term: they case-split on every test that occurs (on either
   side), normalise the two spellings of the ceiling quotient, and close every leaf with lia
   (Prelude's zify hook turns / and mod into their Euclidean equations). *)
From QV.lib Require Import Prelude.
From QV.model Require Import C09_Model.
From GenArith Require Import Gen_Arith.
Local Open Scope Z_scope.

(* the model's exception enum, in the generated file's vocabulary *)
Definition gerr_of (e : C09_Model.err) : gerr :=
  match e with
  | ErrRuntime => GRuntimeError
  | ErrValue => GValueError
  | ErrZeroDiv => GZeroDivisionError
  end.

Definition res_of {A : Type} (r : C09_Model.err + A) : gerr + A :=
  match r with inl e => inl (gerr_of e) | inr v => inr v end.

(* domain: counts are non-negative when given (None = not given) *)
Definition opt_nonneg (o : option Z) : Prop :=
  match o with Some v => 0 <= v | None => True end.

(* ------------------------------------------------------------------ normalisation *)
(* the two usual spellings of ceil(a / b) for b > 0:  (a + b - 1) // b  and  -(-a // b) *)
Lemma ceil_neg_floor a b : 0 < b -> - ((- a) / b) = (a + b - 1) / b.
Proof.
  intros Hb.
  assert (H1 := Z.div_mod (- a) b ltac:(lia)).
  assert (H2 := Z.mod_pos_bound (- a) b Hb).
  apply Z.div_unique with (r := b - 1 - (- a) mod b); [left; lia|].
  nia.
Qed.

Ltac norm_ceil :=
  repeat match goal with
         | |- context [- ((- ?a) / ?b)] => rewrite (ceil_neg_floor a b) by lia
         | H : context [- ((- ?a) / ?b)] |- _ => rewrite (ceil_neg_floor a b) in H by lia
         end.

(* equality of numerals, lists, pairs, sums up to integer arithmetic *)
Ltac la :=
  first [ reflexivity | lia | congruence
        | (progress f_equal; la) ].

Ltac split_tests :=
  repeat match goal with
         | |- context [match ?o with Some _ => _ | None => _ end] => is_var o; destruct o
         | |- context [if ?c then _ else _] => destruct c eqn:?
         end.

Ltac leaf :=
  cbv zeta in *; norm_ceil;
  first [ la | (exfalso; lia) | (norm_ceil; repeat f_equal; lia) ].

(* ------------------------------------------------------------------ subdivide_batches *)
Lemma gen_subdivide_batches_eq_model :
  forall (n : Z) (nb mb : option Z),
    opt_nonneg nb -> opt_nonneg mb ->
    gen_subdivide_batches n nb mb = res_of (subdivide_batches n nb mb).
Proof.
  intros n nb mb Hnb Hmb.
  unfold gen_subdivide_batches, subdivide_batches, res_of, gerr_of, opt_nonneg in *.
  cbv zeta.
  destruct nb as [nb|]; destruct mb as [mb|]; try reflexivity.
  - (* num_batches given *)
    split_tests; leaf.
  - (* max_batch given: the batch count is the ceiling quotient *)
    destruct (Z.eq_dec mb 0) as [->|Hmb0].
    + split_tests; leaf.
    + assert (0 < mb) by lia.
      norm_ceil.
      split_tests; leaf.
Qed.

(* ------------------------------------------------------------------ generate_batches *)
(* the loop of the generator: consecutive half-open ranges from a running index *)
Lemma gen_generate_batches_loop_eq_model :
  forall (sizes : list Z) (idx : Z),
    gen_generate_batches_loop sizes idx = ranges_from idx sizes.
Proof.
  induction sizes as [|s r IH]; intros idx; [reflexivity|].
  cbn [gen_generate_batches_loop ranges_from]. cbv zeta.
  rewrite IH. la.
Qed.

Lemma gen_generate_batches_eq_model :
  forall (n : Z) (nb mb : option Z) (start : Z),
    opt_nonneg nb -> opt_nonneg mb ->
    gen_generate_batches n nb mb start = res_of (generate_batches n nb mb start).
Proof.
  intros n nb mb start Hnb Hmb.
  unfold gen_generate_batches, generate_batches.
  rewrite (gen_subdivide_batches_eq_model n nb mb Hnb Hmb).
  destruct (subdivide_batches n nb mb) as [e|sizes]; cbn [res_of]; [reflexivity|].
  cbv zeta. rewrite gen_generate_batches_loop_eq_model. la.
Qed.

(* consequence used by the callers that pass only max_batch (ptychography_base, imaging_utils):
   for n >= 1 and 1 <= b the translated function returns ceil(n/b) sizes, each in [1, b], that
   sum to n — read off the model's theorems is left to proof/C09_Proofs.v; here only the count *)
Lemma gen_subdivide_batches_count :
  forall n b, 0 < n -> 0 < b ->
    exists sizes, gen_subdivide_batches n None (Some b) = inr sizes /\
                  Z.of_nat (length sizes) = (n + b - 1) / b.
Proof.
  intros n b Hn Hb.
  rewrite gen_subdivide_batches_eq_model by (cbn; lia).
  unfold subdivide_batches, res_of.
  assert (Hq : 1 <= (n + b - 1) / b) by (apply Z.div_le_lower_bound; lia).
  assert (Hle : (n + b - 1) / b <= n).
  { apply Z.div_le_upper_bound; [lia|]. nia. }
  destruct (b =? 0) eqn:E1; [lia|].
  destruct (n <? (n + b - 1) / b) eqn:E2; [lia|].
  destruct ((n + b - 1) / b =? 0) eqn:E3; [lia|].
  eexists; split; [reflexivity|].
  rewrite app_length, !repeat_length.
  assert (H3 := Z.mod_pos_bound n ((n + b - 1) / b) ltac:(lia)).
  lia.
Qed.
