(* C04 source tie: the theorems that tie what harness/c04_tie.py TRANSLATED on this run from the current source of
   quantem/diffractive_imaging/direct_ptychography.py (GenC04.Gen_C04) to the hand-written models
   coq/model/C04_Model.v and coq/model/C04_Hyper_Model.v, and the property clauses restated about the translated code.
   ONLY statements closed by `exact` and their assumption reports. *)
From Coq Require Import List Bool String Ascii Arith ZArith Permutation.
From QV.lib Require Import Prelude Chunks FinSum DFT DFT2.
From QV.model Require Import C04_Model C04_Hyper_Model.
From GenC04 Require Import Gen_C04 C04_GenProofs.
Import ListNotations.
Local Open Scope string_scope.

(* HyperparameterState.current_aberrations: for every key type, every value type, every canonicalisation of the override and
   all layers, the translated body is the model's merge  initial (+) optimized (+) canon(override), key by key *)
Theorem C04_layer_merge_tie :
  forall (K V : Type) (canon : dict K V -> dict K V) (init opt : dict K V) (ovr : option (dict K V)) (k : K),
    gen_current_aberrations canon init opt ovr k = merge_layers init opt (option_map canon ovr) k.
Proof. exact gen_current_aberrations_eq. Qed.
Print Assumptions C04_layer_merge_tie.

(* hence: the value in force for a key is the override's if it sets the key, else the optimised one, else the
   construction value -- the values themselves are never looked at *)
Theorem C04_layer_priority_tie :
  forall (K V : Type) (canon : dict K V -> dict K V) (init opt : dict K V) (ovr : option (dict K V)) (k : K),
    gen_current_aberrations canon init opt ovr k = layer_lookup init opt (option_map canon ovr) k.
Proof. exact gen_layer_priority. Qed.
Print Assumptions C04_layer_priority_tie.

Theorem C04_override_value_in_force_tie :
  forall (K V : Type) (canon : dict K V -> dict K V) (init opt o : dict K V) (k : K) (v : V),
    canon o k = Some v -> gen_current_aberrations canon init opt (Some o) k = Some v.
Proof. exact gen_override_value_in_force. Qed.
Print Assumptions C04_override_value_in_force_tie.

(* HyperparameterState.current_rotation_angle: override, else optimised, else initial, else 0 *)
Theorem C04_rotation_priority_tie :
  forall (V : Type) (ovr opt init : option V) (zero : V),
    gen_current_rotation ovr opt init zero = eff_rotation ovr opt init zero.
Proof. exact gen_current_rotation_eq. Qed.
Print Assumptions C04_rotation_priority_tie.

(* a reconstruction that reads its aberration dictionary through lookups only is the function of the EFFECTIVE parameters:
   the layered object gives what a fresh object constructed with the effective values gives *)
Theorem C04_effective_parameters_tie :
  forall (K V Res : Type) (rec : dict K V -> V -> Res) (zero : V) (canon : dict K V -> dict K V),
    (forall d d' r, dict_eq d d' -> rec d r = rec d' r) ->
    forall (init : dict K V) (irot : option V) (opt : dict K V) (orot : option V) (ovr : option (dict K V)) (ovrrot : option V),
      rec (gen_current_aberrations canon init opt ovr) (gen_current_rotation ovrrot orot irot zero) =
      rec (gen_current_aberrations canon (gen_current_aberrations canon init opt ovr) d_empty None)
          (gen_current_rotation None None (Some (gen_current_rotation ovrrot orot irot zero)) zero).
Proof. exact gen_effective_parameters. Qed.
Print Assumptions C04_effective_parameters_tie.

(* _normalize_kernel_name: the alias table (as a set of entries) and the function *)
Theorem C04_kernel_names_tie :
  gen_kernel_aliases = kernel_aliases /\
  forall (lower : string -> string) (k : string), gen_normalize lower k = normalize_kernel lower k.
Proof. exact (conj gen_kernel_aliases_eq gen_normalize_eq). Qed.
Print Assumptions C04_kernel_names_tie.

(* the if-chains on the kernel name in _return_kernel_contributions and reconstruct: which formula serves a kernel, who returns
   a power, who gets the power accumulator / the norm / the parallax gradients *)
Theorem C04_kernel_dispatch_tie :
  forall c, In c canonical_kernels ->
    gen_contrib_dispatch c = (kernel_branch c, returns_power c, ssb_divides c) /\
    gen_alloc_power c = two_pass c /\
    (gen_alloc_power c = true -> gen_norm_defined c = true) /\
    gen_grad_defined c = kbranch_eqb (kernel_branch c) BrPrlx.
Proof. exact (fun c H => conj (gen_contrib_dispatch_eq c H) (gen_flags_eq c H)). Qed.
Print Assumptions C04_kernel_dispatch_tie.

(* _return_bf_context *)
Theorem C04_bf_context_tie :
  forall full sub : mask2,
    gen_ctx_mask full sub = sub /\ gen_ctx_pixels full sub = nonzero2 sub /\
    gen_ctx_num_bf full sub = ctx_n sub /\ gen_ctx_index_map full sub = index_map full sub.
Proof. exact gen_ctx_eq. Qed.
Print Assumptions C04_bf_context_tie.

(* reconstruct: the first pass, the power accumulation, its normalisation, the second pass and the final real part / weight,
   as translated from the loop bodies, are the model's skeleton -- for every ring-like structure and every schedule *)
Theorem C04_single_pass_tie :
  forall (R : Type) (rO : R) (radd rmul : R -> R -> R) (conj : R -> R) (half : R) (rinv : R -> R)
         (N1 N2 : nat) (w1 w2 : Z -> R) (Ninv1 Ninv2 : R) (n : nat) (contrib : nat -> img R) (wt : nat -> R)
         (env garbage : img R) (batches : list (list nat)),
    gen_reconstruct_single R rO radd rmul conj half rinv N1 N2 w1 w2 Ninv1 Ninv2 n contrib wt env garbage batches =
    reconstruct_single rO radd rmul conj half rinv N1 N2 w1 w2 Ninv1 Ninv2 n contrib wt env garbage batches.
Proof. exact gen_reconstruct_single_eq. Qed.
Print Assumptions C04_single_pass_tie.

Theorem C04_two_pass_tie :
  forall (R : Type) (rO : R) (radd rmul : R -> R -> R) (conj : R -> R) (half : R) (rinv : R -> R)
         (N1 N2 : nat) (w1 w2 : Z -> R) (Ninv1 Ninv2 : R) (n : nat) (contrib pw : nat -> img R) (wt : nat -> R)
         (env : img R) (normf : img R -> img R) (garbage : img R) (batches : list (list nat)),
    gen_reconstruct_two R rO radd rmul conj half rinv N1 N2 w1 w2 Ninv1 Ninv2 n contrib pw wt env normf garbage batches =
    reconstruct_two rO radd rmul conj half rinv N1 N2 w1 w2 Ninv1 Ninv2 n contrib pw wt env normf garbage batches.
Proof. exact gen_reconstruct_two_eq. Qed.
Print Assumptions C04_two_pass_tie.

(* structural facts of reconstruct the skeleton relies on (batcher arguments, default batch size, provenance of the kernel's
   input, of BF_weights and of the masks) *)
Theorem C04_reconstruct_facts_tie : gen_facts = reconstruct_facts.
Proof. exact gen_facts_eq. Qed.
Print Assumptions C04_reconstruct_facts_tie.

(* the batch-invariance clause about the TRANSLATED passes *)
Theorem C04_translated_single_pass_batch_invariant :
  forall (R : Type) (rO : R) (radd rmul : R -> R -> R) (conj : R -> R) (half : R) (rinv : R -> R)
         (N1 : nat) (w1 : Z -> R) (Ninv1 : R) (N2 : nat) (w2 : Z -> R) (Ninv2 : R)
         (n : nat) (contrib : nat -> img R) (wt : nat -> R) (env garbage : img R) (batches batches' : list (list nat)),
    Permutation (concat batches) (seq 0 n) -> Permutation (concat batches') (seq 0 n) ->
    gen_reconstruct_single R rO radd rmul conj half rinv N1 N2 w1 w2 Ninv1 Ninv2 n contrib wt env garbage batches =
    gen_reconstruct_single R rO radd rmul conj half rinv N1 N2 w1 w2 Ninv1 Ninv2 n contrib wt env garbage batches'.
Proof. exact gen_batch_invariant_single. Qed.
Print Assumptions C04_translated_single_pass_batch_invariant.

Theorem C04_translated_two_pass_batch_invariant :
  forall (R : Type) (rO rI : R) (radd rmul rsub : R -> R -> R) (ropp : R -> R)
         (Rth : ring_theory rO rI radd rmul rsub ropp (@eq R)) (conj : R -> R) (Cok : conj_ok radd rmul conj) (half : R) (rinv : R -> R) (N1 : nat) (w1 : Z -> R) (Ninv1 : R) (N2 : nat) (w2 : Z -> R) (Ninv2 : R)
         (Rok1 : root_ok rO rI radd rmul conj N1 w1 Ninv1) (Rok2 : root_ok rO rI radd rmul conj N2 w2 Ninv2)
         (n : nat) (contrib pw : nat -> img R) (wt : nat -> R) (env : img R) (normf : img R -> img R) (garbage : img R)
         (b j : nat) (d : img R) (r1 r2 : nat),
    (forall P Q : img R, (forall k1 k2, k1 < N1 -> k2 < N2 -> P k1 k2 = Q k1 k2) ->
                         forall k1 k2, k1 < N1 -> k2 < N2 -> normf P k1 k2 = normf Q k1 k2) ->
    1 <= b -> j < n -> r1 < N1 -> r2 < N2 ->
    nth j (gen_reconstruct_two R rO radd rmul conj half rinv N1 N2 w1 w2 Ninv1 Ninv2 n contrib pw wt env normf garbage (batches_of n b)) d r1 r2 =
    nth j (gen_reconstruct_two R rO radd rmul conj half rinv N1 N2 w1 w2 Ninv1 Ninv2 n contrib pw wt env normf garbage [seq 0 n]) d r1 r2.
Proof. exact gen_batch_invariant_two. Qed.
Print Assumptions C04_translated_two_pass_batch_invariant.

(* non-vacuity: a construction defocus of 150 overridden by an exact 0 is 0 in the translated merge; the rotation chain
   returns an overriding 0 over a non-zero optimised angle; names; dispatch *)
Example C04_tie_nonvacuous_zero_override :
  gen_current_aberrations (fun d => d) (of_alist [(0%nat, 150%Z); (1%nat, 7%Z)]) d_empty (Some (of_alist [(0%nat, 0%Z)])) 0%nat = Some 0%Z
  /\ gen_current_aberrations (fun d => d) (of_alist [(0%nat, 150%Z); (1%nat, 7%Z)]) d_empty (Some (of_alist [(0%nat, 0%Z)])) 1%nat = Some 7%Z
  /\ gen_current_rotation (Some 0%Z) (Some 5%Z) (Some 3%Z) 0%Z = 0%Z
  /\ gen_current_rotation None None None 0%Z = 0%Z.
Proof. repeat split; reflexivity. Qed.
Example C04_tie_nonvacuous_names :
  gen_normalize (fun s => s) "tcbf" = Some "prlx" /\ gen_normalize (fun s => s) "nope" = None /\
  gen_contrib_dispatch "mf" = (BrGamma, true, false) /\ gen_alloc_power "ssb" = false /\ In "obf" canonical_kernels.
Proof. repeat split; try reflexivity. cbn. tauto. Qed.
Example C04_tie_nonvacuous_context :
  gen_ctx_index_map [[true; true]; [false; true]] [[false; true]; [false; true]] = [1; 2]%nat.
Proof. reflexivity. Qed.
