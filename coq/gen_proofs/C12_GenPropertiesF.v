(* C12 — One aberration surface (round 3, part F): the naming tables, and what polar -> Cartesian -> polar does OUTSIDE the principal domain.
   Property theorems about the functions TRANSLATED on this run from the current sources
   (Gen12.Gen_Chi); ONLY statements closed by `exact`, assumption reports and non-vacuity examples;
   proofs in the fixed scripts C12_GenAlg.v.  Same vocabulary as C12_GenProperties.v; a file of its
   own so that the property files are checked in parallel. *)
From Coq Require Import Reals String List Bool.
From QV.lib Require Import C12_RealLib C12_Trig.
From Gen12 Require Import Gen_Chi C12_GenAlg C12_GenFit.
From QV.model Require C12_Model.
Import ListNotations.
Local Open Scope R_scope.

(* the symbol / alias tables read from complex_probe.py, the copies local to
   validators.validate_aberration_coefficients and the keys of ProbeBase.DEFAULT_PROBE_PARAMS on THIS
   run are (as sets) the tables the alias-handler model coq/model/C12_Model.v is written with *)
Theorem C12_alias_tables_tied :
  same_set polar_symbols C12_Model.polar_symbols = true /\
  same_pairs polar_aliases C12_Model.polar_aliases = true /\
  same_set validators_polar_symbols C12_Model.polar_symbols = true /\
  same_pairs validators_polar_aliases C12_Model.polar_aliases = true /\
  same_set default_probe_keys C12_Model.default_probe_keys = true.
Proof. exact tables_tied. Qed.
Print Assumptions C12_alias_tables_tied.

(* alias targets are polar symbols; every ABERRATION_PRESETS entry is a duplicate-free sub-list of
   the 25 labels; no table has duplicates *)
Theorem C12_tables_closed :
  forallb (fun kv => mem_s (snd kv) polar_symbols) polar_aliases = true /\
  forallb (fun pr => forallb (fun l => mem_s l all_labels) (snd pr) && nodup_s (snd pr)) presets = true /\
  nodup_s polar_symbols = true /\ nodup_s all_labels = true /\ nodup_s (map fst polar_aliases) = true /\
  nodup_s validators_polar_symbols = true /\ nodup_s (map fst validators_polar_aliases) = true /\
  nodup_s default_probe_keys = true.
Proof. exact tables_closed. Qed.
Print Assumptions C12_tables_closed.

(* polar -> Cartesian -> polar returns, for EVERY coefficient set (negative magnitudes, angles
   beyond the principal range, anything), a set that describes the IDENTICAL surface *)
Theorem C12_roundtrip_same_surface :
  forall (c : env) (alpha phi lambda : R),
    lambda <> 0 ->
    chi_polar (cartesian_to_polar (polar_to_cartesian c)) alpha phi lambda = chi_polar c alpha phi lambda.
Proof. exact chi_roundtrip_all. Qed.
Print Assumptions C12_roundtrip_same_surface.

(* ... and which set: magnitudes |C_nm|, angles the representative with m·phi in (-PI, PI] of the
   same direction (so the output always lies in the closure of the principal domain); the
   isotropic coefficients C10, C30, C50 are returned unchanged *)
Theorem C12_roundtrip_canonical_form :
  forall (c : env) (C p : string) (m : R),
    In (C, p, m) ang_triples ->
    let c' := cartesian_to_polar (polar_to_cartesian c) in
    c' C = Rabs (c C) /\
    - PI < m * c' p <= PI /\
    Rabs (c C) * cos (m * c' p) = c C * cos (m * c p) /\
    Rabs (c C) * sin (m * c' p) = c C * sin (m * c p).
Proof. exact roundtrip_general. Qed.
Print Assumptions C12_roundtrip_canonical_form.

Theorem C12_roundtrip_isotropic :
  forall (c : env) (s : string),
    In s iso_names -> cartesian_to_polar (polar_to_cartesian c) s = c s.
Proof. exact roundtrip_iso. Qed.
Print Assumptions C12_roundtrip_isotropic.

