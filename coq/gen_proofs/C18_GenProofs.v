(* C18 — FIXED proof script of the translator tie: the definitions gen_* that harness/translate_C18.py
   produced on THIS run from the current sources of origin_models.py / dataset_models.py /
   ptycho_utils.py (GenC18.Gen_C18) equal the hand-written model coq/model/C18_Model.v for ALL
   arguments.  The script does not depend on local names, on temporaries, or on the order of
   independent statements (the translator inlines every local); it depends on the operations the
   code performs on the data. *)
From Coq Require Import String.
From QV.lib Require Import Prelude Chunks C18_QTensor C18_GenLib.
From QV.model Require Import C18_Model.
From QV.proof Require Import C18_Proofs C18_Proofs_Ext C18_Proofs_Shift C18_Proofs_Plane.
From GenC18 Require Import Gen_C18.
From Coq Require Import QArith Qround Lqa.
Local Close Scope Q_scope.

(* ------------------------------------------------------------------ generic *)
Lemma pair_eta {A B : Type} (p : A * B) : (fst p, snd p) = p.
Proof. destruct p; reflexivity. Qed.

Lemma fold_left_pair_let {A B X : Type} (f : A -> X -> A) (g : B -> X -> B) (l : list X) (a : A) (b : B) :
  fold_left (fun st x => let '(u, v) := st in (f u x, g v x)) l (a, b) = (fold_left f l a, fold_left g l b).
Proof. revert a b. induction l as [|x l IH]; intros a b; cbn [fold_left]; [reflexivity | apply IH]. Qed.

Lemma fold_left_ext2 {A X : Type} (f g : A -> X -> A) (l : list X) (a : A) :
  (forall a x, f a x = g a x) -> fold_left f l a = fold_left g l a.
Proof. exact (fold_left_ext f g l a). Qed.

(* ------------------------------------------------------------------ SimpleBatcher.__iter__ *)
(* range(0, len, b) / train_order[i : i + b] are the consecutive chunks of the models *)
Theorem gen_batches_eq {A : Type} (b : nat) (l : list A) : 1 <= b -> gen_batches b l = chunks b l.
Proof. intros Hb. unfold gen_batches. apply range_step_chunks. exact Hb. Qed.

Theorem gen_batches_arange (n b : nat) : 1 <= b -> gen_batches b (seq 0 n) = simple_batcher n b.
Proof. intros Hb. unfold simple_batcher. apply gen_batches_eq. exact Hb. Qed.

(* ------------------------------------------------------------------ calculate_origin *)
Definition batch_of (mb : option nat) (n : nat) : nat := match mb with Some b => b | None => n end.

Theorem gen_calculate_origin_eq (mb : option nat) (H W : nat) (pats : list matrix) :
  gen_calculate_origin mb H W pats = calculate_origin (batch_of mb (length pats)) H W pats.
Proof.
  unfold gen_calculate_origin, calculate_origin, simple_batcher, batch_of.
  destruct mb as [b|]; cbv zeta; rewrite pair_eta, meshgrid_ij_arange; cbn [fst snd];
    apply fold_left_ext2; intros [c0 c1] idx; cbn [fst snd];
    unfold batch_col0, batch_col1; cbv zeta; rewrite !map_map; reflexivity.
Qed.

(* ------------------------------------------------------------------ _set_intensities_com *)
Theorem gen_com_vectorised_eq (H W : nat) (mask : option matrix) (I4 : list (list matrix)) :
  gen_com_vectorised H W mask I4 = com_vectorised H W mask I4.
Proof.
  rewrite com_vectorised_eq. unfold gen_com_vectorised.
  destruct mask as [m|]; rewrite meshgrid_ij_arange; cbn [fst snd];
    rewrite ?map_map_2d, !map2_map2_same; reflexivity.
Qed.

Theorem gen_com_looped_eq (Rn Cn H W : nat) (mask : option matrix) (I4 : list (list matrix)) :
  gen_com_looped Rn Cn H W mask I4 = com_looped Rn Cn H W mask I4.
Proof.
  unfold gen_com_looped, com_looped.
  destruct mask as [m|]; cbv zeta; rewrite meshgrid_ij_arange; cbn [fst snd]; unfold zeros2; f_equal;
    (symmetry; etransitivity; [symmetry; apply (fold_upd2_product _ Rn Cn 0%Q) |];
     apply fold_left_ext2; intros a [r c]; reflexivity).
Qed.

(* neither path writes through the caller's array: the step function of the history theorem *)
Theorem gen_com_step_eq (Rn Cn H W : nat) (I4 : list (list matrix)) (c : com_call) :
  gen_com_step Rn Cn H W I4 c = com_step Rn Cn H W I4 c.
Proof.
  destruct c as [[|] m]; cbn [gen_com_step com_step];
    rewrite ?gen_com_vectorised_eq, ?gen_com_looped_eq; reflexivity.
Qed.

Theorem gen_com_fit_chain_eq : gen_com_fit_chain = ["none"; "no_shift"]%string.
Proof. reflexivity. Qed.

(* ------------------------------------------------------------------ shift_origin_to *)
Lemma gen_shift_modarg0_eq H W oy ox cy cx y x :
  (gen_shift_modarg0 H W oy ox cy cx y x == Qn y + (oy - cy))%Q.
Proof. unfold gen_shift_modarg0. ring. Qed.
Lemma gen_shift_modarg1_eq H W oy ox cy cx y x :
  (gen_shift_modarg1 H W oy ox cy cx y x == Qn x + (ox - cx))%Q.
Proof. unfold gen_shift_modarg1. ring. Qed.
Lemma gen_shift_modden0_eq H W oy ox cy cx y x : (gen_shift_modden0 H W oy ox cy cx y x == Qn H)%Q.
Proof. unfold gen_shift_modden0, Qn. ring. Qed.
Lemma gen_shift_modden1_eq H W oy ox cy cx y x : (gen_shift_modden1 H W oy ox cy cx y x == Qn W)%Q.
Proof. unfold gen_shift_modden1, Qn. ring. Qed.
(* grid[..., 0] is the x (column) coordinate built from component 1 of the (y, x) grid, grid[..., 1] the
   y (row) coordinate built from component 0; each normalised with ITS OWN size *)
Lemma gen_shift_gridx_eq H W oy ox cy cx y x s0 s1 :
  (gen_shift_gridx H W oy ox cy cx y x s0 s1 == 2 * s1 / dn W - 1)%Q.
Proof. unfold gen_shift_gridx. rewrite ?dn_gen. unfold Qdiv. ring. Qed.
Lemma gen_shift_gridy_eq H W oy ox cy cx y x s0 s1 :
  (gen_shift_gridy H W oy ox cy cx y x s0 s1 == 2 * s0 / dn H - 1)%Q.
Proof. unfold gen_shift_gridy. rewrite ?dn_gen. unfold Qdiv. ring. Qed.

Theorem gen_shift_pattern_eq (H W : nat) (oy ox cy cx : Q) (I : matrix) :
  meq (gen_shift_pattern H W oy ox cy cx I) (shift_pattern_r H W oy ox cy cx I).
Proof.
  unfold gen_shift_pattern, grid_sample_bilinear_ac, shift_pattern_r, meq.
  apply Forall2_map_in. intros y _. apply Forall2_map_in. intros x _. cbv zeta. cbn [fst snd].
  apply bilinear_proper.
  - rewrite gen_shift_gridy_eq.
    rewrite (qmod_proper _ _ _ _ (gen_shift_modarg0_eq H W oy ox cy cx y x) (gen_shift_modden0_eq H W oy ox cy cx y x)).
    reflexivity.
  - rewrite gen_shift_gridx_eq.
    rewrite (qmod_proper _ _ _ _ (gen_shift_modarg1_eq H W oy ox cy cx y x) (gen_shift_modden1_eq H W oy ox cy cx y x)).
    reflexivity.
Qed.

Lemma meq_trans (a b c : matrix) : meq a b -> meq b c -> meq a c.
Proof.
  unfold meq. revert b c. induction a as [|x a IH]; intros b c Hab Hbc; inversion Hab; subst; inversion Hbc; subst; constructor.
  - match goal with H1 : Forall2 Qeq x ?y, H2 : Forall2 Qeq ?y ?z |- _ => revert H1 H2; clear; revert y z end.
    induction x as [|u x IHx]; intros y z H1 H2; inversion H1; subst; inversion H2; subst; constructor.
    + etransitivity; eassumption.
    + eapply IHx; eassumption.
  - eapply IH; eassumption.
Qed.

(* so the roll theorem speaks about the translated shift_origin_to *)
Theorem gen_shift_integer_is_roll (H W : nat) (oy ox cy cx : Q) (sy sx : Z) (I : matrix) :
  1 <= H -> 1 <= W -> wf_mat H W I ->
  (oy - cy == inject_Z sy)%Q -> (ox - cx == inject_Z sx)%Q ->
  meq (gen_shift_pattern H W oy ox cy cx I) (roll2 (- sy) (- sx) I).
Proof.
  intros HH HW Hwf Hy Hx. eapply meq_trans; [apply gen_shift_pattern_eq|].
  apply integer_shift_is_roll_all_shapes; assumption.
Qed.

(* the batched loop of shift_origin_to writes every pattern, each shifted by ITS OWN fitted origin, for every batch size *)
Theorem gen_shift_all_eq (mb : option nat) (H W : nat) (cy cx : Q) (org : list (Q * Q)) (pats : list matrix) :
  1 <= batch_of mb (length pats) ->
  gen_shift_all mb H W cy cx org pats
  = map (fun i => Some (gen_shift_pattern H W (fst (nth i org (0, 0)%Q)) (snd (nth i org (0, 0)%Q)) cy cx (nth i pats [])))
        (seq 0 (length pats)).
Proof.
  intros Hb. unfold gen_shift_all, simple_batcher.
  destruct mb as [b|]; cbn [batch_of] in Hb;
    exact (scatter_batches (fun i => Some (gen_shift_pattern H W (fst (nth i org (0, 0)%Q)) (snd (nth i org (0, 0)%Q)) cy cx (nth i pats [])))
                           _ (length pats) Hb).
Qed.

(* ------------------------------------------------------------------ fit_origin_background *)
Theorem gen_fit_constant_origin_eq (o0 o1 : list Q) : gen_fit_constant_origin o0 o1 = fit_constant_origin o0 o1.
Proof. reflexivity. Qed.

(* the matrix handed to eigh is the model's covariance of the points (position, origin component k):
   row component from column 0, column component from column 1 *)
Theorem gen_plane_cov_eq (pos : list (Q * Q)) (o0 o1 : list Q) :
  gen_plane_cov_r pos o0 o1 = plane_covariance (points_of pos o0) /\
  gen_plane_cov_c pos o0 o1 = plane_covariance (points_of pos o1).
Proof. split; reflexivity. Qed.

(* eigh sorts ascending: column 0 belongs to the smallest eigenvalue (eigh_min_contract) *)
Theorem gen_plane_eig_column_eq : gen_plane_eig_column = 0%Z.
Proof. reflexivity. Qed.

Theorem gen_plane_fitted_eq (pos : list (Q * Q)) (o0 o1 : list Q) (n0 n1 : P3) (x y : Q) :
  peq (gen_plane_fitted pos o0 o1 n0 n1 x y)
      (plane_fitted (points_of pos o0) n0 x y, plane_fitted (points_of pos o1) n1 x y).
Proof.
  unfold gen_plane_fitted, plane_fitted, row_matvec2, peq. cbv zeta. cbn [fst snd].
  split; unfold Qdiv; ring.
Qed.

(* ------------------------------------------------------------------ fit_origin *)
Theorem gen_fit_origin_constant_eq (g0 g1 : list (list Q)) :
  gen_fit_origin_constant g0 g1 = (fit_origin_constant g0, fit_origin_constant g1).
Proof. unfold gen_fit_origin_constant, fit_origin_constant. rewrite !map_map_2d. reflexivity. Qed.

Theorem gen_fit_origin_chain_eq :
  gen_fit_origin_chain
  = [("plane", "_plane"); ("parabola", "_parabola"); ("bezier_two", "_bezier_two"); ("constant", "<mean>")]%string.
Proof. reflexivity. Qed.

(* the families (= the columns of the least-squares design matrix: the coefficient of each parameter) *)
Theorem gen_plane_fn_eq p r c : (gen_plane_fn p r c == plane_fn p r c)%Q.
Proof. destruct p as [[mx my] b]. unfold gen_plane_fn, plane_fn. ring. Qed.

Theorem gen_parabola_fn_eq p r c : (gen_parabola_fn p r c == parabola_fn p r c)%Q.
Proof. destruct p as [[[[[c0 cx1] cx2] cy1] cy2] cxy]. unfold gen_parabola_fn, parabola_fn. cbv zeta. ring. Qed.

Theorem gen_bezier2_fn_eq p r c : (gen_bezier2_fn p r c == bezier2_fn p r c)%Q.
Proof.
  destruct p as [[[[c00 c01] c02] [[c10 c11] c12]] [[c20 c21] c22]].
  unfold gen_bezier2_fn, bezier2_fn. cbv zeta. ring.
Qed.

(* the residual sum of squares curve_fit minimises is the model's sse for the translated family *)
Lemma sse_ext {P : Type} (f g : P -> nat -> nat -> Q) Rn Cn data p :
  (forall r c, (f p r c == g p r c)%Q) -> (sse f Rn Cn data p == sse g Rn Cn data p)%Q.
Proof. intros E. unfold sse. apply dsum_ext. intros r c _ _. rewrite E. reflexivity. Qed.

(* a least-squares minimiser of the TRANSLATED plane family reproduces data lying on a plane *)
Theorem gen_plane_lsq_exact (Rn Cn : nat) (data : list (list Q)) (p0 p : Q * Q * Q) :
  (forall r c, r < Rn -> c < Cn -> (gen_plane_fn p0 r c == get data r c)%Q) ->
  (forall q, (sse gen_plane_fn Rn Cn data p <= sse gen_plane_fn Rn Cn data q)%Q) ->
  forall r c, r < Rn -> c < Cn -> (gen_plane_fn p r c == get data r c)%Q.
Proof.
  intros Hd Hm. exact (@lsq_fit_exact _ gen_plane_fn Rn Cn data p0 p Hd Hm).
Qed.

(* ------------------------------------------------------------------ the property clauses about gen_* *)
(* every batch size (and None): each entry of the translated calculate_origin is written and is the
   intensity-weighted mean (row, then column) of that pattern *)
Theorem gen_com_batched_is_weighted_mean (mb : option nat) (H W : nat) (pats : list matrix) (i : nat) (I : matrix) :
  1 <= batch_of mb (length pats) -> Forall (wf_mat H W) pats -> nth_error pats i = Some I ->
  exists q0 q1,
    nth_error (fst (gen_calculate_origin mb H W pats)) i = Some (Some q0) /\
    nth_error (snd (gen_calculate_origin mb H W pats)) i = Some (Some q1) /\
    peq (q0, q1) (wmean H W (get I)).
Proof.
  intros Hb Hwf Hi. rewrite gen_calculate_origin_eq.
  exact (com_batched_is_weighted_mean (batch_of mb (length pats)) H W pats i I Hb Hwf Hi).
Qed.

Theorem gen_com_batch_invariant (mb mb' : option nat) (H W : nat) (pats : list matrix) :
  1 <= batch_of mb (length pats) -> 1 <= batch_of mb' (length pats) ->
  gen_calculate_origin mb H W pats = gen_calculate_origin mb' H W pats.
Proof. intros Hb Hb'. rewrite !gen_calculate_origin_eq. apply com_batch_invariant; assumption. Qed.

Theorem gen_com_paths_agree (Rn Cn H W : nat) (mask : option matrix) (I4 : list (list matrix)) :
  wf_scan Rn Cn I4 -> gen_com_looped Rn Cn H W mask I4 = gen_com_vectorised H W mask I4.
Proof. intros Hwf. rewrite gen_com_looped_eq, gen_com_vectorised_eq. apply com_vectorised_eq_looped. exact Hwf. Qed.

Lemma com_history_ext {R : Type} (s1 s2 : list (list matrix) -> com_call -> R * list (list matrix)) I4 calls :
  (forall I c, s1 I c = s2 I c) -> com_history s1 I4 calls = com_history s2 I4 calls.
Proof.
  intros E. revert I4. induction calls as [|c cs IH]; intros I4; cbn [com_history]; [reflexivity|].
  rewrite E. destruct (s2 I4 c) as [r I4']. rewrite IH. reflexivity.
Qed.

Theorem gen_com_history_independent (Rn Cn H W : nat) (I4 : list (list matrix)) (calls : list com_call) :
  wf_scan Rn Cn I4 ->
  com_history (gen_com_step Rn Cn H W) I4 calls
  = map (fun c => gen_com_vectorised H W (call_mask c) I4) calls.
Proof.
  intros Hwf. rewrite (com_history_ext _ (com_step Rn Cn H W)) by (intros; apply gen_com_step_eq).
  rewrite (com_history_pure Rn Cn H W I4 calls Hwf).
  apply map_ext. intros c. symmetry. apply gen_com_vectorised_eq.
Qed.

(* the translated PCA plane fit, under the eigh contract for the TRANSLATED covariance matrix *)
Theorem gen_plane_fit_exact (A0 B0 D0 A1 B1 D1 : Q) (pos : list (Q * Q)) (o0 o1 : list Q) (l0 l1 : Q) (n0 n1 : P3) :
  on_plane A0 B0 D0 (points_of pos o0) -> on_plane A1 B1 D1 (points_of pos o1) ->
  noncollinear (points_of pos o0) -> noncollinear (points_of pos o1) ->
  eigh_min_contract (gen_plane_cov_r pos o0 o1) l0 n0 -> eigh_min_contract (gen_plane_cov_c pos o0 o1) l1 n1 ->
  forall p q, In p (points_of pos o0) -> In q (points_of pos o1) ->
    (fst (gen_plane_fitted pos o0 o1 n0 n1 (px p) (py p)) == pz p)%Q /\
    (snd (gen_plane_fitted pos o0 o1 n0 n1 (px q) (py q)) == pz q)%Q.
Proof.
  intros P0 P1 N0 N1 E0 E1 p q Hp Hq.
  destruct (gen_plane_cov_eq pos o0 o1) as [C0 C1]. rewrite C0 in E0. rewrite C1 in E1.
  destruct (gen_plane_fitted_eq pos o0 o1 n0 n1 (px p) (py p)) as [F0 _].
  destruct (gen_plane_fitted_eq pos o0 o1 n0 n1 (px q) (py q)) as [_ F1].
  cbn [fst snd] in F0, F1. split.
  - rewrite F0. exact (plane_fit_exact A0 B0 D0 _ l0 n0 P0 N0 E0 p Hp).
  - rewrite F1. exact (plane_fit_exact A1 B1 D1 _ l1 n1 P1 N1 E1 q Hq).
Qed.
