(* C09 — FIXED proof script of the glue tie: the function `gen_split` that harness/c09_glue_tie.py
   translated on THIS run from the source of SimpleBatcher.__init__ (GenC09.Gen_C09Glue) equals the
   hand-written model's split_of_ratio for every n, every binary64 ratio, both modes and every
   permutation handed over by the generator.  The script does not depend on local names, on
   re-assignments or on the order of independent statements of the source (the translator is in
   continuation-passing style); it depends on the operations the block performs. *)
From QV.lib Require Import Prelude FloatBits C09_GlueLib.
From QV.model Require Import C09_Model C09_Model_Ext.
From QV.proof Require Import C09_Proofs C09_Proofs_Ext.
From Coq Require Import Permutation.
From GenC09 Require Import Gen_C09Glue.
From Coq Require Import PrimFloat.

Lemma kz_pos z : (1 <= Z.max 1 z)%Z.
Proof. lia. Qed.

(* one finished path of the grid branch *)
Lemma grid_path (n : nat) (nv k : Z) (invert : bool) :
  (0 < nv)%Z ->
  (let S := filter (fun i : nat => (i mod Z.to_nat (Z.max 1 k) =? 0)%nat) (seq 0 n) in
   if (nv <? Z.of_nat (length S))%Z
   then (if invert
         then Some {| train := py_take nv S; val := py_setdiff_arange (seq 0 n) (py_take nv S) |}
         else Some {| train := py_setdiff_arange (seq 0 n) (py_take nv S); val := py_take nv S |})
   else (if invert
         then Some {| train := S; val := py_setdiff_arange (seq 0 n) S |}
         else Some {| train := py_setdiff_arange (seq 0 n) S; val := S |}))
  = Some (split_grid n (Z.to_nat nv) (kz k) invert).
Proof.
  intros Hnv. cbv zeta. rewrite py_take_pos by exact Hnv. rewrite to_nat_max1.
  unfold split_grid, stride, setdiff, py_setdiff_arange.
  set (S := filter (fun i : nat => (i mod kz k =? 0)%nat) (seq 0 n)).
  destruct (Z.ltb_spec nv (Z.of_nat (length S))) as [Hlt|Hge].
  - destruct invert; reflexivity.
  - rewrite (firstn_all2 (n := Z.to_nat nv) S) by lia. destruct invert; reflexivity.
Qed.

Ltac finish_path Hnv :=
  first
    [ reflexivity
    | (* random split *)
      rewrite (py_take_pos _ _ Hnv); reflexivity
    | (* grid split *)
      rewrite (py_every_seq _ _ (kz_pos _)); cbv iota beta;
      first [ apply (@grid_path _ _ _ false Hnv) | apply (@grid_path _ _ _ true Hnv) ] ].

Theorem gen_split_eq_model n r random perm :
  gen_split n r random perm = split_of_ratio n r random perm.
Proof.
  unfold gen_split, split_of_ratio. cbv zeta. rewrite ?seq_length.
  destruct (PrimFloat.ltb r 0 || PrimFloat.leb 1 r)%bool;
  match goal with |- context [py_round (PrimFloat.mul ?a ?b)] => destruct (py_round (PrimFloat.mul a b)) as [nv|] end;
  try reflexivity;
  (destruct (Z.ltb_spec 0 nv) as [Hnv|Hnv]; destruct (Z.leb_spec nv 0) as [Hq|Hq]; try lia; [|reflexivity]);
  (destruct random; [finish_path Hnv|]);
  match goal with |- context [PrimFloat.leb ?x ?h] => destruct (PrimFloat.leb x h) end;
  match goal with |- context [py_round (PrimFloat.div ?a ?b)] => destruct (py_round (PrimFloat.div a b)) as [k|] end;
  finish_path Hnv.
Qed.

(* so the partition theorem speaks about the translated source *)
Theorem gen_split_partition n ratio random perm s :
  Permutation perm (seq 0 n) -> gen_split n ratio random perm = Some s ->
  Permutation (train s ++ val s) (seq 0 n) /\ NoDup (train s ++ val s).
Proof.
  intros Hp H. rewrite gen_split_eq_model in H.
  exact (@split_partition n ratio random perm s Hp H).
Qed.
