(* C03 translator tie: the theorems that tie the functions TRANSLATED on this run from the source of
   quantem/core/datastructures/dataset.py (+ dataset2d/3d/4d/4dstem.py decorators) and
   quantem/core/utils/validators.py (GenC03.Gen_C03, written by harness/translate_C03.py) to the
   hand-written model coq/model/C03_Model.v.  ONLY statements closed by `exact`, their assumption
   reports and non-vacuity examples. *)
From Coq Require Import QArith String.
From QV.lib Require Import Prelude C03_Slice.
From QV.model Require Import C03_Model C03_PyLib.
From GenC03 Require Import Gen_C03 C03_GenProofs.
From Coq Require Import List.
Import ListNotations.
Local Close Scope Q_scope.
Local Open Scope list_scope.

(* Dataset.__getitem__, everything after `array_view = self.array[index]`: for every dimensionality,
   class, calibration and every index expression NumPy accepts (np_expand succeeds: at most one
   Ellipsis, not more items than axes), the translated source does not raise (advanced[-1],
   advanced[0], min(...) are applied to non-empty sequences) and hands to from_array exactly the
   class (registry lookup by ndim), origin, step-scaled sampling and units that the model's
   code_expand / code_kept_axes / scale_steps / registry compute *)
Theorem C03_getitem_bookkeeping_tie :
  forall (n out : nat) (cls : tag) (raw : list index) (o sa : list Q) (u : list string) (ex : list index),
    np_expand n raw = Ok ex -> 0 < length u ->
    gen_getitem_meta n out cls raw o sa u = Ok (model_getitem_meta n out cls raw o sa u).
Proof. exact gen_getitem_meta_eq. Qed.
Print Assumptions C03_getitem_bookkeeping_tie.

(* `if not isinstance(index, tuple): index = (index,)` *)
Theorem C03_getitem_bare_index_tie :
  forall (n out : nat) (cls : tag) (x : index) (o sa : list Q) (u : list string),
    gen_getitem_meta_bare n out cls x o sa u = gen_getitem_meta n out cls [x] o sa u.
Proof. exact gen_getitem_bare_eq. Qed.
Print Assumptions C03_getitem_bare_index_tie.

(* the model's getitem IS NumPy's indexing followed by the translated bookkeeping, for every state,
   dataset (with at least one unit entry: datasets are at least 1-D) and index expression *)
Theorem C03_getitem_tie :
  forall (s : state) (t : nat) (idx : list index),
    0 < length (get_str s (d_units (get_ds s t))) ->
    getitem_via_gen s t idx = getitem s t idx.
Proof. exact getitem_via_gen_eq. Qed.
Print Assumptions C03_getitem_tie.

(* the indexing clause of the property (calibration part) for the TRANSLATED source: for every array,
   every index expression NumPy accepts (np_index succeeds) and every calibration, the bookkeeping of
   Dataset.__getitem__ does not raise and returns, for each axis of NumPy's result in NumPy's order,
   origin and units of the source axis it runs along and its sampling times the slice step (negative
   steps included; the merged index-array axis has step 1), with the class found by ndim *)
Theorem C03_translated_getitem_numpy_layout :
  forall (sh : list nat) (fl : list Z) (idx : list index) (v : npres) (cls : tag) (o sa : list Q) (u : list string),
    np_index sh fl idx = Ok v -> 0 < length u ->
    exists o' sa' u',
      gen_getitem_meta (length sh) (length (np_shape v)) cls idx o sa u
      = Ok (if length (np_shape v) =? length sh then cls else registry (length (np_shape v)), (o', (sa', u'))) /\
      o' = map (fun a => nth (oax_src a) o 0%Q) (np_axes v) /\
      u' = map (fun a => nth (oax_src a) u ""%string) (np_axes v) /\
      length sa' = length (np_axes v) /\
      forall j d, j < length (np_axes v) ->
        (nth j sa' 0 == nth (oax_src (nth j (np_axes v) d)) sa 1 * inject_Z (oax_step (nth j (np_axes v) d)))%Q.
Proof. exact gen_getitem_numpy_layout. Qed.
Print Assumptions C03_translated_getitem_numpy_layout.

Example C03_tie_nonvacuous_layout :
  exists v, np_index [2; 3; 2] (map Z.of_nat (seq 0 12)) [IList [1; 0]%Z; ISlice None None (Some (-2)%Z); IInt 1] = Ok v
            /\ np_shape v = [2; 2] /\ map oax_src (np_axes v) = [0; 1] /\ map oax_step (np_axes v) = [1; -2]%Z.
Proof. eexists. split; [vm_compute; reflexivity|]. repeat split. Qed.

(* the register_dimension decorators found in dataset2d/3d/4d/4dstem.py give the model's registry *)
Theorem C03_registry_tie : forall k : nat, reg_lookup gen_registry k Generic = registry k.
Proof. exact gen_registry_eq. Qed.
Print Assumptions C03_registry_tie.

Theorem C03_normalize_axes_tie :
  forall (n : nat) (axes : axesarg), gen_normalize_axes n axes = norm_axes n (axes_list n axes).
Proof. exact gen_normalize_axes_eq. Qed.
Print Assumptions C03_normalize_axes_tie.

Theorem C03_validate_ndinfo_tie :
  forall (v : numarg) (n : nat), gen_validate_ndinfo v n = validate_ndinfo v n.
Proof. exact gen_validate_ndinfo_eq. Qed.
Print Assumptions C03_validate_ndinfo_tie.

Theorem C03_validate_units_tie :
  forall (v : unitsarg) (n : nat), gen_validate_units v n = validate_units v n.
Proof. exact gen_validate_units_eq. Qed.
Print Assumptions C03_validate_units_tie.

Theorem C03_setters_tie :
  gen_setters = [("origin", ("validate_ndinfo", "self._origin")); ("sampling", ("validate_ndinfo", "self._sampling"));
                 ("units", ("validate_units", "self._units"))]%string.
Proof. exact gen_setters_eq. Qed.
Print Assumptions C03_setters_tie.

(* pad / crop / bin / fourier_resample: the model's operation IS its own computation of the new
   array and calibration followed by the assignments read off the source (in place: private
   attributes of self / the array setter; copying: self.copy() then the property setters), for
   every state, dataset, argument and both variants *)
Theorem C03_pad_tail_tie :
  forall (s : state) (t : nat) (p : padspec) (ip : bool), pad_via gen_pad_tail s t p ip = pad s t p ip.
Proof. exact gen_pad_tail_eq. Qed.
Print Assumptions C03_pad_tail_tie.

Theorem C03_crop_tail_tie :
  forall (s : state) (t : nat) (w : list (Z * Z)) (axes : axesarg) (ip : bool),
    crop_via gen_crop_tail s t w axes ip = crop s t w axes ip.
Proof. exact gen_crop_tail_eq. Qed.
Print Assumptions C03_crop_tail_tie.

Theorem C03_bin_tail_tie :
  forall (divf : Z -> Z -> Z) (s : state) (t : nat) (fa : factorarg) (axes : axesarg) (mean ip : bool),
    bin_via divf gen_bin_tail s t fa axes mean ip = bin divf s t fa axes mean ip.
Proof. exact gen_bin_tail_eq. Qed.
Print Assumptions C03_bin_tail_tie.

Theorem C03_fourier_tail_tie :
  forall (FR : list Z -> list Z -> list nat -> list Z -> list Z) (s : state) (t : nat) (spec : frspec)
         (axes : axesarg) (ip : bool),
    fourier_via FR gen_fourier_tail s t spec axes ip = fourier FR s t spec axes ip.
Proof. exact gen_fourier_tail_eq. Qed.
Print Assumptions C03_fourier_tail_tie.

(* non-vacuity: ds[::2, 0, [1, 0]] on a 4-D dataset (index array next to an integer: the merged axis
   stays in place), ds[0, ::2, [1, 0]] (separated: it goes first), ds[[0, 1], ..., 0] *)
Example C03_tie_nonvacuous_adjacent :
  np_expand 4 [ISlice None None (Some 2%Z); IInt 0; IList [1; 0]%Z] <> Err IndexErr /\
  gen_getitem_meta 4 3 D4 [ISlice None None (Some 2%Z); IInt 0; IList [1; 0]%Z]
    [10; 20; 30; 40]%Q [1; 2; 3; 4]%Q ["a"; "b"; "c"; "d"]%string
  = Ok (D3, ([10; 30; 40]%Q, ([2; 3; 4]%Q, ["a"; "c"; "d"]%string))) /\
  gen_getitem_meta 4 3 D4 [IInt 0; ISlice None None (Some 2%Z); IList [1; 0]%Z]
    [10; 20; 30; 40]%Q [1; 2; 3; 4]%Q ["a"; "b"; "c"; "d"]%string
  = Ok (D3, ([30; 20; 40]%Q, ([3; 4; 4]%Q, ["c"; "b"; "d"]%string))).
Proof. split; [discriminate|split; vm_compute; reflexivity]. Qed.

Example C03_tie_nonvacuous_separated :
  gen_getitem_meta 3 2 D3 [IList [0; 1]%Z; IEll; IInt 0] [10; 20; 30]%Q [1; 2; 3]%Q ["a"; "b"; "c"]%string
  = Ok (D2, ([10; 20]%Q, ([1; 2]%Q, ["a"; "b"]%string))).
Proof. vm_compute. reflexivity. Qed.

Example C03_tie_nonvacuous_axes :
  gen_normalize_axes 3 (AxList [-1; 0]%Z) = Ok [2; 0]%Z /\ gen_normalize_axes 3 (AxInt 3) = Err IndexErr /\
  gen_validate_ndinfo (NList [1; 2]%Q) 3 = Err ValueErr /\ gen_validate_units (UStr "nm") 2 = Ok ["nm"; "nm"]%string.
Proof. repeat split; vm_compute; reflexivity. Qed.
