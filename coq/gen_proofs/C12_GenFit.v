(* C12 — FIXED proof script (parallax shifts and the polar-decomposition fit) over the GENERATED
   file build/C12/Gen_Chi.v.  Stdlib Reals only.

   shift_matrix   for coefficients {C10, C12, phi12} the lateral shift of the grid point with
                  unrotated frequency k0 is the row vector (lambda k0) · M,
                  M = R(theta)^T · A(C10, C12, phi12)        (A symmetric)
   fit_extracts   whatever (U, P) the polar decomposition of that M returns (contract: U
                  orthogonal, P symmetric positive semidefinite, U·P = M), the extraction
                  formulas of fit_aberrations_from_shifts give back theta, C10, C12, phi12 on
                  the identifiable domain |theta| < PI/2, 0 < C12 < |C10|, -PI/2 < phi12 <= PI/2
   svd_polar      _torch_polar computes such a pair from any SVD (contract: U, Vh orthogonal,
                  singular values >= 0, M = U diag(S) Vh) *)
From Coq Require Import Reals Lra String List Psatz Nsatz Bool.
From QV.lib Require Import C12_RealLib C12_Trig.
From Gen12 Require Import Gen_Chi.
Import ListNotations.
Open Scope R_scope.

Ltac eval_env3 := cbv beta iota zeta delta [env3 String.eqb Ascii.eqb Bool.eqb].

(* ------------------------------------------------------------------ the gradient for {C10, C12, phi12} *)
Lemma dchi_dk_env3 (C10 C12 p a f : R) :
  dchi_dk (env3 C10 C12 p) a f = 2 * PI * (a * (C10 + C12 * cos (2 * (f - p)))).
Proof. unfold dchi_dk. eval_env3. trig_norm. ring. Qed.

Lemma dchi_dphi_env3 (C10 C12 p a f : R) :
  dchi_dphi (env3 C10 C12 p) a f = 2 * PI * (- (a * C12 * sin (2 * (f - p)))).
Proof. unfold dchi_dphi. eval_env3. trig_norm. field. Qed.

(* the matrix that maps (lambda k0) to the shift, as a row-vector product *)
Definition shift_M (theta C10 C12 p : R) : mat2 := mmul (mT (rot theta)) (astig_matrix C10 C12 p).

Lemma rot_grid (theta kx0 ky0 : R) :
  rot_kx theta kx0 ky0 = cos theta * kx0 - sin theta * ky0 /\
  rot_ky theta kx0 ky0 = sin theta * kx0 + cos theta * ky0.
Proof. unfold rot_kx, rot_ky. rewrite ?cos_neg, ?sin_neg. split; ring. Qed.

Lemma shift_matrix (C10 C12 p theta lambda kx0 ky0 : R) :
  lateral_shift_x (env3 C10 C12 p) theta lambda kx0 ky0
    = (lambda * kx0) * m00 (shift_M theta C10 C12 p) + (lambda * ky0) * m10 (shift_M theta C10 C12 p) /\
  lateral_shift_y (env3 C10 C12 p) theta lambda kx0 ky0
    = (lambda * kx0) * m01 (shift_M theta C10 C12 p) + (lambda * ky0) * m11 (shift_M theta C10 C12 p).
Proof.
  unfold lateral_shift_x, lateral_shift_y, dchi_dx, dchi_dy.
  destruct (rot_grid theta kx0 ky0) as [Ex Ey].
  set (x := rot_kx theta kx0 ky0) in *. set (y := rot_ky theta kx0 ky0) in *.
  replace (polar_k x y) with (sqrt (x * x + y * y)) by (unfold polar_k; f_equal; ring).
  replace (polar_phi x y) with (atan2 y x) by reflexivity.
  destruct (polar_atan2 x y) as [Hc Hs].
  set (k := sqrt (x * x + y * y)) in *. set (f := atan2 y x) in *.
  rewrite dchi_dk_env3, dchi_dphi_env3.
  assert (Hc' : k * lambda * cos f = x * lambda) by (rewrite <- Hc; ring).
  assert (Hs' : k * lambda * sin f = y * lambda) by (rewrite <- Hs; ring).
  destruct (shift_algebra C10 C12 p (k * lambda) f (x * lambda) (y * lambda) Hc' Hs') as [A1 A2].
  pose proof PI_neq0 as Hpi.
  split.
  - transitivity (cos f * (k * lambda * (C10 + C12 * cos (2 * (f - p))))
                  - sin f * - (k * lambda * C12 * sin (2 * (f - p)))); [field; exact Hpi |].
    rewrite A1, Ex, Ey. unfold shift_M, mmul, mT, rot, astig_matrix; simpl. ring.
  - transitivity (sin f * (k * lambda * (C10 + C12 * cos (2 * (f - p))))
                  + cos f * - (k * lambda * C12 * sin (2 * (f - p)))); [field; exact Hpi |].
    rewrite A2, Ex, Ey. unfold shift_M, mmul, mT, rot, astig_matrix; simpl. ring.
Qed.

(* ------------------------------------------------------------------ _torch_polar from an SVD *)
Lemma torch_polar_is (U Vh : mat2) (s0 s1 : R) :
  torch_polar_u U s0 s1 Vh = mmul U Vh /\
  torch_polar_p U s0 s1 Vh = mmul (mmul (mT Vh) (mdiag s0 s1)) Vh.
Proof.
  unfold torch_polar_u, torch_polar_p, mmul, mT, mdiag; simpl.
  split; apply mat2_eq; simpl; ring.
Qed.

Lemma svd_polar (U Vh : mat2) (s0 s1 : R) (M : mat2) :
  orthogonal U -> orthogonal Vh -> orthogonal (mT Vh) -> 0 <= s0 -> 0 <= s1 ->
  M = mmul (mmul U (mdiag s0 s1)) Vh ->
  orthogonal (torch_polar_u U s0 s1 Vh) /\ psd (torch_polar_p U s0 s1 Vh) /\
  mmul (torch_polar_u U s0 s1 Vh) (torch_polar_p U s0 s1 Vh) = M.
Proof.
  intros. destruct (torch_polar_is U Vh s0 s1) as [-> ->]. now apply svd_gives_polar.
Qed.

(* ------------------------------------------------------------------ extraction formulas *)
(* a readable form of what fit_aberrations_from_shifts does with (U, P) *)
Definition rot0 (U : mat2) : R := - atan2 (m10 U) (m00 U).
Definition flip_test (U : mat2) : R := 2 * Rabs (rem (rot0 U + PI) (2 * PI) - PI).
Definition fit_rotation_spec (U : mat2) : R :=
  if Rlt_dec PI (flip_test U) then rem (rot0 U) (2 * PI) - PI else rot0 U.
Definition fit_matrix_spec (U P : mat2) : mat2 :=
  if Rlt_dec PI (flip_test U) then mopp P else P.
Definition fit_C10_spec (A : mat2) : R := (m00 A + m11 A) / 2.
Definition fit_C12a_spec (A : mat2) : R := (m00 A - m11 A) / 2.
Definition fit_C12b_spec (A : mat2) : R := (m10 A + m01 A) / 2.

(* equalities between two readings of the same formula: align the arguments of atan2 / sqrt by
   ring/field reasoning, then close by field (so re-associations, (a + c) / 2 vs 0.5 * (c + a) and
   renamed temporaries in the source do not matter) *)
Ltac align2 :=
  match goal with
  | |- ?L = ?R =>
    match L with context[atan2 ?y ?x] =>
      match R with context[atan2 ?y' ?x'] =>
        progress (try (replace y with y' by (first [ring | field]));
                  try (replace x with x' by (first [ring | field])))
      end end
  | |- ?L = ?R =>
    match L with context[sqrt ?y] =>
      match R with context[sqrt ?y'] => progress (replace y with y' by (first [ring | field])) end end
  end.
Ltac close_eq := try align2; first [ reflexivity | ring | field ].

Lemma fit_reads (U P : mat2) :
  fit_rotation_angle U P = fit_rotation_spec U /\
  fit_C10 U P = fit_C10_spec (fit_matrix_spec U P) /\
  fit_C12 U P = sqrt (fit_C12a_spec (fit_matrix_spec U P) * fit_C12a_spec (fit_matrix_spec U P)
                      + fit_C12b_spec (fit_matrix_spec U P) * fit_C12b_spec (fit_matrix_spec U P)) /\
  fit_phi12 U P = atan2 (fit_C12b_spec (fit_matrix_spec U P)) (fit_C12a_spec (fit_matrix_spec U P)) / 2.
Proof.
  unfold fit_rotation_angle, fit_C10, fit_C12, fit_phi12, fit_rotation_spec, fit_matrix_spec,
    fit_C10_spec, fit_C12a_spec, fit_C12b_spec, flip_test, rot0.
  destruct (Rlt_dec PI _) as [Hf | Hf]; unfold mopp; cbn [m00 m01 m10 m11];
    (split; [close_eq | split; [close_eq | split; [close_eq | close_eq]]]).
Qed.

(* the wrap-around test and the returned angle, for U = R(theta)^T and for U = -R(theta)^T *)
Lemma flip_pos (theta : R) :
  - (PI / 2) < theta < PI / 2 ->
  ~ PI < flip_test (mT (rot theta)) /\ rot0 (mT (rot theta)) = theta.
Proof.
  intros H. pose proof PI_RGT_0 as Hpi.
  assert (E : rot0 (mT (rot theta)) = theta).
  { unfold rot0, mT, rot; cbn [m00 m01 m10 m11]. rewrite atan2_sin_cos_neg by lra. ring. }
  split; [| exact E]. unfold flip_test. rewrite E.
  rewrite rem_small by lra. replace (theta + PI - PI) with theta by ring.
  now apply two_abs_le_PI.
Qed.

Lemma flip_neg (theta : R) :
  - (PI / 2) < theta < PI / 2 ->
  PI < flip_test (mopp (mT (rot theta))) /\
  rem (rot0 (mopp (mT (rot theta)))) (2 * PI) - PI = theta.
Proof.
  intros H. pose proof PI_RGT_0 as Hpi.
  unfold flip_test, rot0, mopp, mT, rot; cbn [m00 m01 m10 m11].
  replace (- - sin theta) with (sin theta) by ring.
  destruct (Rle_dec 0 theta) as [Hp | Hn].
  - rewrite atan2_opposite_nonneg by lra.
    replace (- (PI - theta) + PI) with theta by ring.
    rewrite (rem_small theta) by lra.
    rewrite (rem_neg (- (PI - theta))) by lra.
    split; [| ring]. apply two_abs_gt_PI. right. lra.
  - rewrite atan2_opposite_neg by lra.
    replace (- (- PI - theta) + PI) with (theta + 2 * PI) by ring.
    rewrite (rem_small (theta + 2 * PI)) by lra.
    rewrite (rem_small (- (- PI - theta))) by lra.
    split; [| ring]. apply two_abs_gt_PI. left. lra.
Qed.

Lemma mopp_mopp (a : mat2) : mopp (mopp a) = a.
Proof. destruct a; unfold mopp; simpl; f_equal; ring. Qed.

Lemma astig_read (C10 C12 p : R) :
  fit_C10_spec (astig_matrix C10 C12 p) = C10 /\
  fit_C12a_spec (astig_matrix C10 C12 p) = C12 * cos (2 * p) /\
  fit_C12b_spec (astig_matrix C10 C12 p) = C12 * sin (2 * p).
Proof. unfold fit_C10_spec, fit_C12a_spec, fit_C12b_spec, astig_matrix; simpl. split; [field | split; field]. Qed.

Lemma astig_definite (C10 C12 p : R) :
  0 <= C12 < Rabs C10 ->
  (0 < C10 -> posdef (astig_matrix C10 C12 p)) /\ (C10 < 0 -> posdef (mopp (astig_matrix C10 C12 p))).
Proof.
  intros [H0 H1]. destruct (astig_trace_det C10 C12 p) as [Ht Hd].
  assert (Hsq : 0 < C10 * C10 - C12 * C12).
  { unfold Rabs in H1. destruct (Rcase_abs C10); nra. }
  split; intros Hs; unfold posdef, symmetric.
  - rewrite Ht, Hd. split; [reflexivity | split; [lra | exact Hsq]].
  - unfold mtr, mdet, mopp, astig_matrix in *; simpl in *. split; [reflexivity | split; [lra | nra]].
Qed.

(* the fit returns the generating parameters *)
Lemma fit_extracts (theta C10 C12 p : R) (U P : mat2) :
  - (PI / 2) < theta < PI / 2 -> 0 < C12 < Rabs C10 -> - (PI / 2) < p <= PI / 2 ->
  orthogonal U -> psd P -> mmul U P = shift_M theta C10 C12 p ->
  fit_rotation_angle U P = theta /\ fit_C10 U P = C10 /\ fit_C12 U P = C12 /\ fit_phi12 U P = p.
Proof.
  intros Ht HC Hp HU HP HM. pose proof PI_RGT_0 as Hpi.
  destruct (fit_reads U P) as (-> & -> & -> & ->).
  destruct (astig_definite C10 C12 p) as [Dpos Dneg]; [lra |].
  destruct (rot_orthogonal theta) as [_ Hrot].
  destruct (astig_read C10 C12 p) as (R1 & R2 & R3).
  assert (Hfin : fit_rotation_spec U = theta /\ fit_matrix_spec U P = astig_matrix C10 C12 p).
  { unfold shift_M in HM.
    destruct (Rlt_dec 0 C10) as [Hs | Hs].
    - destruct (polar_unique U P _ _ HU HP Hrot (Dpos Hs) HM) as [-> ->].
      destruct (flip_pos theta Ht) as [Hn E].
      unfold fit_rotation_spec, fit_matrix_spec.
      destruct (Rlt_dec PI _) as [Hc | _]; [contradiction |]. split; [exact E | reflexivity].
    - assert (Hneg : C10 < 0).
      { destruct (Req_dec C10 0) as [-> | Hne]; [rewrite Rabs_R0 in HC; lra | lra]. }
      destruct (polar_unique_neg U P _ _ HU HP Hrot (Dneg Hneg) HM) as [-> ->].
      destruct (flip_neg theta Ht) as [Hy E].
      unfold fit_rotation_spec, fit_matrix_spec.
      destruct (Rlt_dec PI _) as [_ | Hc]; [| contradiction]. split; [exact E | apply mopp_mopp]. }
  destruct Hfin as [-> ->]. rewrite R1, R2, R3.
  split; [reflexivity | split; [reflexivity | split]].
  - apply sqrt_polar. lra.
  - rewrite atan2_polar by lra. field.
Qed.

(* the same through an SVD, as _torch_polar computes it *)
Lemma fit_extracts_svd (theta C10 C12 p : R) (Us Vh : mat2) (s0 s1 : R) :
  - (PI / 2) < theta < PI / 2 -> 0 < C12 < Rabs C10 -> - (PI / 2) < p <= PI / 2 ->
  orthogonal Us -> orthogonal Vh -> orthogonal (mT Vh) -> 0 <= s0 -> 0 <= s1 ->
  shift_M theta C10 C12 p = mmul (mmul Us (mdiag s0 s1)) Vh ->
  let U := torch_polar_u Us s0 s1 Vh in
  let P := torch_polar_p Us s0 s1 Vh in
  fit_rotation_angle U P = theta /\ fit_C10 U P = C10 /\ fit_C12 U P = C12 /\ fit_phi12 U P = p.
Proof.
  intros Ht HC Hp H1 H2 H3 H4 H5 HM U P.
  destruct (svd_polar Us Vh s0 s1 _ H1 H2 H3 H4 H5 HM) as (A & B & C).
  now apply (fit_extracts theta C10 C12 p).
Qed.

(* hypotheses of fit_extracts are satisfiable: theta = 0, C10 = 2, C12 = 1, phi12 = 0 *)
Lemma fit_extracts_nonvacuous :
  exists U P, orthogonal U /\ psd P /\ mmul U P = shift_M 0 2 1 0.
Proof.
  exists mI, (mk2 3 0 0 1).
  unfold orthogonal, psd, symmetric, mtr, mdet, shift_M, astig_matrix, mmul, mT, mI, rot; simpl.
  replace (2 * 0) with 0 by ring. rewrite cos_0, sin_0.
  split; [f_equal; ring | split; [split; [reflexivity | split; lra] | f_equal; ring]].
Qed.

(* ================================================================================================
   Round 3 additions: what the fit returns OUTSIDE the identifiable domain.
     fit_reproduces_matrix    for ANY polar pair (U proper rotation, P symmetric) the returned
                              (rotation, C10, C12, phi12) reproduce the fitted matrix U·P exactly
     fit_equivalent           hence for ANY rotation angle, ANY phi12, either sign of C10 and
                              0 <= C12 < |C10| the fitted set is an equivalent description of the
                              generating one (same shift matrix, fit_predicts_same_shifts: same
                              lateral shifts at every frequency)
     fit_extracts_weak        pure defocus (C12 = 0) allowed: rotation, C10, C12 returned exactly
     fit_large_angle(_neg)    PI/2 < |theta| <= PI: rotation theta -+ PI and -C10, C12 *)
From Coq Require Import ZArith.
Open Scope R_scope.
(* ------------------------------------------------------------------ periodicity of rem *)
Lemma cos_sin_period_Z (x : R) (z : Z) :
  cos (x + 2 * IZR z * PI) = cos x /\ sin (x + 2 * IZR z * PI) = sin x.
Proof.
  destruct (Z_le_gt_dec 0 z) as [Hz | Hz].
  - rewrite <- (Z2Nat.id z Hz), <- INR_IZR_INZ. split; [apply cos_period | apply sin_period].
  - assert (Hn : (0 <= - z)%Z) by lia.
    replace x with ((x + 2 * IZR z * PI) + 2 * INR (Z.to_nat (- z)) * PI) at 2 4.
    + split; [symmetry; apply cos_period | symmetry; apply sin_period].
    + rewrite INR_IZR_INZ, (Z2Nat.id _ Hn), opp_IZR. ring.
Qed.

Lemma cos_sin_rem (x : R) : cos (rem x (2 * PI)) = cos x /\ sin (rem x (2 * PI)) = sin x.
Proof.
  unfold rem.
  replace (x - 2 * PI * IZR (Int_part (x / (2 * PI)))) with (x + 2 * IZR (- Int_part (x / (2 * PI))) * PI)
    by (rewrite opp_IZR; ring).
  apply cos_sin_period_Z.
Qed.

(* a proper rotation is R(theta0)^T for theta0 = - atan2 (u10, u00) *)
Lemma proper_rotation_form (U : mat2) :
  orthogonal U -> mdet U = 1 ->
  U = mT (rot (rot0 U)).
Proof.
  destruct U as [a b c d]. unfold orthogonal, mdet, mmul, mT, mI, rot0, rot; cbn [m00 m01 m10 m11].
  intros HU Hd. injection HU as U1 U2 U3 U4.
  assert (Ed : d = a) by nsatz. assert (Eb : b = - c) by nsatz. subst d b.
  destruct (polar_atan2 a c) as [Hc Hs].
  assert (Hn : sqrt (a * a + c * c) = 1).
  { replace (a * a + c * c) with 1 by lra. apply sqrt_1. }
  rewrite Hn in Hc, Hs. rewrite cos_neg, sin_neg.
  apply mat2_eq; cbn [m00 m01 m10 m11]; lra.
Qed.

(* reading a symmetric matrix as (C10, C12, phi12) loses nothing *)
Lemma astig_of_symmetric (A : mat2) :
  symmetric A ->
  astig_matrix (fit_C10_spec A)
               (sqrt (fit_C12a_spec A * fit_C12a_spec A + fit_C12b_spec A * fit_C12b_spec A))
               (atan2 (fit_C12b_spec A) (fit_C12a_spec A) / 2) = A.
Proof.
  destruct A as [a b' b c]. unfold symmetric, astig_matrix, fit_C10_spec, fit_C12a_spec, fit_C12b_spec;
    cbn [m00 m01 m10 m11]. intros ->.
  set (x := (a - c) / 2). set (y := (b + b) / 2).
  replace (2 * (atan2 y x / 2)) with (atan2 y x) by field.
  destruct (polar_atan2 x y) as [Hc Hs]. rewrite Hc, Hs. subst x y.
  apply mat2_eq; cbn [m00 m01 m10 m11]; field.
Qed.

Lemma symmetric_mopp (A : mat2) : symmetric A -> symmetric (mopp A).
Proof. unfold symmetric, mopp; cbn [m00 m01 m10 m11]. intros ->. reflexivity. Qed.

Lemma mT_rot_shift_PI (t : R) : mT (rot (rem t (2 * PI) - PI)) = mopp (mT (rot t)).
Proof.
  destruct (cos_sin_rem t) as [Hc Hs].
  unfold mT, rot, mopp; cbn [m00 m01 m10 m11].
  unfold Rminus. rewrite cos_plus, sin_plus, cos_neg, sin_neg, cos_PI, sin_PI, Hc, Hs.
  apply mat2_eq; cbn [m00 m01 m10 m11]; ring.
Qed.

(* the parameters returned by the fit ALWAYS reproduce the fitted linear map, whenever its
   orthogonal polar factor is a proper rotation (no domain restriction on angles or signs) *)
Lemma fit_reproduces_matrix (U P : mat2) :
  orthogonal U -> mdet U = 1 -> symmetric P ->
  shift_M (fit_rotation_angle U P) (fit_C10 U P) (fit_C12 U P) (fit_phi12 U P) = mmul U P.
Proof.
  intros HU Hd HP. destruct (fit_reads U P) as (-> & -> & -> & ->).
  pose proof (proper_rotation_form U HU Hd) as EU.
  unfold shift_M, fit_rotation_spec, fit_matrix_spec.
  destruct (Rlt_dec PI (flip_test U)) as [Hf | Hf]; cbv iota.
  - rewrite astig_of_symmetric by now apply symmetric_mopp.
    rewrite mT_rot_shift_PI, <- EU. apply mmul_opp_opp.
  - rewrite astig_of_symmetric by exact HP. rewrite <- EU. reflexivity.
Qed.

Lemma mdet_mT_rot (t : R) : mdet (mT (rot t)) = 1 /\ mdet (mopp (mT (rot t))) = 1.
Proof.
  unfold mdet, mT, rot, mopp; cbn [m00 m01 m10 m11].
  pose proof (sin2_cos2 t) as H. unfold Rsqr in H. split; nra.
Qed.

(* ANY rotation angle, ANY astigmatism angle, either sign of C10, C12 = 0 allowed: the fitted set is
   an equivalent description (same shift matrix) of the generating one *)
Lemma fit_equivalent (theta C10 C12 p : R) (U P : mat2) :
  0 <= C12 < Rabs C10 ->
  orthogonal U -> psd P -> mmul U P = shift_M theta C10 C12 p ->
  shift_M (fit_rotation_angle U P) (fit_C10 U P) (fit_C12 U P) (fit_phi12 U P) = shift_M theta C10 C12 p.
Proof.
  intros HC HU HP HM. rewrite <- HM.
  destruct (astig_definite C10 C12 p HC) as [Dpos Dneg].
  destruct (rot_orthogonal theta) as [_ Hrot].
  destruct (mdet_mT_rot theta) as [D1 D2].
  apply fit_reproduces_matrix; [exact HU | | exact (proj1 HP)].
  unfold shift_M in HM.
  destruct (Rlt_dec 0 C10) as [Hs | Hs].
  - destruct (polar_unique U P _ _ HU HP Hrot (Dpos Hs) HM) as [-> _]. exact D1.
  - assert (Hneg : C10 < 0).
    { destruct (Req_dec C10 0) as [-> | Hne]; [rewrite Rabs_R0 in HC; lra | lra]. }
    destruct (polar_unique_neg U P _ _ HU HP Hrot (Dneg Hneg) HM) as [-> _]. exact D2.
Qed.

(* hence the shifts predicted from the fitted parameters are the shifts that were fitted *)
Lemma fit_predicts_same_shifts (theta C10 C12 p : R) (U P : mat2) (lambda kx0 ky0 : R) :
  0 <= C12 < Rabs C10 ->
  orthogonal U -> psd P -> mmul U P = shift_M theta C10 C12 p ->
  lateral_shift_x (env3 (fit_C10 U P) (fit_C12 U P) (fit_phi12 U P)) (fit_rotation_angle U P) lambda kx0 ky0
    = lateral_shift_x (env3 C10 C12 p) theta lambda kx0 ky0 /\
  lateral_shift_y (env3 (fit_C10 U P) (fit_C12 U P) (fit_phi12 U P)) (fit_rotation_angle U P) lambda kx0 ky0
    = lateral_shift_y (env3 C10 C12 p) theta lambda kx0 ky0.
Proof.
  intros HC HU HP HM.
  destruct (shift_matrix (fit_C10 U P) (fit_C12 U P) (fit_phi12 U P) (fit_rotation_angle U P) lambda kx0 ky0) as [-> ->].
  destruct (shift_matrix C10 C12 p theta lambda kx0 ky0) as [-> ->].
  rewrite (fit_equivalent theta C10 C12 p U P HC HU HP HM). split; reflexivity.
Qed.

(* pure defocus allowed (C12 = 0): rotation, C10 and C12 are still returned exactly *)
Lemma fit_extracts_weak (theta C10 C12 p : R) (U P : mat2) :
  - (PI / 2) < theta < PI / 2 -> 0 <= C12 < Rabs C10 ->
  orthogonal U -> psd P -> mmul U P = shift_M theta C10 C12 p ->
  fit_rotation_angle U P = theta /\ fit_C10 U P = C10 /\ fit_C12 U P = C12.
Proof.
  intros Ht HC HU HP HM. pose proof PI_RGT_0 as Hpi.
  destruct (fit_reads U P) as (-> & -> & -> & _).
  destruct (astig_definite C10 C12 p HC) as [Dpos Dneg].
  destruct (rot_orthogonal theta) as [_ Hrot].
  destruct (astig_read C10 C12 p) as (R1 & R2 & R3).
  assert (Hfin : fit_rotation_spec U = theta /\ fit_matrix_spec U P = astig_matrix C10 C12 p).
  { unfold shift_M in HM.
    destruct (Rlt_dec 0 C10) as [Hs | Hs].
    - destruct (polar_unique U P _ _ HU HP Hrot (Dpos Hs) HM) as [-> ->].
      destruct (flip_pos theta Ht) as [Hn E].
      unfold fit_rotation_spec, fit_matrix_spec.
      destruct (Rlt_dec PI _) as [Hc | _]; [contradiction |]. split; [exact E | reflexivity].
    - assert (Hneg : C10 < 0).
      { destruct (Req_dec C10 0) as [-> | Hne]; [rewrite Rabs_R0 in HC; lra | lra]. }
      destruct (polar_unique_neg U P _ _ HU HP Hrot (Dneg Hneg) HM) as [-> ->].
      destruct (flip_neg theta Ht) as [Hy E].
      unfold fit_rotation_spec, fit_matrix_spec.
      destruct (Rlt_dec PI _) as [_ | Hc]; [| contradiction]. split; [exact E | apply mopp_mopp]. }
  destruct Hfin as [-> ->]. rewrite R1, R2, R3.
  split; [reflexivity | split; [reflexivity |]].
  apply sqrt_polar. lra.
Qed.

(* outside |theta| < PI/2 the returned rotation is theta -+ PI and the coefficient matrix is negated:
   (C10, C12, phi12) -> (-C10, C12, phi12 +- PI/2); stated on the matrix *)
Lemma fit_large_angle (theta C10 C12 p : R) (U P : mat2) :
  PI / 2 < theta <= PI -> 0 <= C12 < Rabs C10 ->
  orthogonal U -> psd P -> mmul U P = shift_M theta C10 C12 p ->
  fit_rotation_angle U P = theta - PI /\ fit_C10 U P = - C10 /\ fit_C12 U P = C12.
Proof.
  intros Ht HC HU HP HM. pose proof PI_RGT_0 as Hpi.
  assert (HM' : mmul U P = shift_M (theta - PI) (- C10) C12 (p + PI / 2)).
  { rewrite HM. unfold shift_M, astig_matrix, mmul, mT, rot; cbn [m00 m01 m10 m11].
    replace (2 * (p + PI / 2)) with (2 * p + PI) by field.
    unfold Rminus. rewrite !cos_plus, !sin_plus, cos_neg, sin_neg, cos_PI, sin_PI.
    apply mat2_eq; cbn [m00 m01 m10 m11]; ring. }
  destruct (Rle_dec theta PI) as [Hle | Hgt]; [| lra].
  destruct (Req_dec theta PI) as [-> | Hne].
  - (* theta = PI: theta - PI = 0 *)
    apply (fit_extracts_weak (PI - PI) (- C10) C12 (p + PI / 2)); try assumption.
    + lra.
    + rewrite Rabs_Ropp. exact HC.
  - apply (fit_extracts_weak (theta - PI) (- C10) C12 (p + PI / 2)); try assumption.
    + lra.
    + rewrite Rabs_Ropp. exact HC.
Qed.

Lemma fit_large_angle_neg (theta C10 C12 p : R) (U P : mat2) :
  - PI <= theta < - (PI / 2) -> 0 <= C12 < Rabs C10 ->
  orthogonal U -> psd P -> mmul U P = shift_M theta C10 C12 p ->
  fit_rotation_angle U P = theta + PI /\ fit_C10 U P = - C10 /\ fit_C12 U P = C12.
Proof.
  intros Ht HC HU HP HM. pose proof PI_RGT_0 as Hpi.
  assert (HM' : mmul U P = shift_M (theta + PI) (- C10) C12 (p + PI / 2)).
  { rewrite HM. unfold shift_M, astig_matrix, mmul, mT, rot; cbn [m00 m01 m10 m11].
    replace (2 * (p + PI / 2)) with (2 * p + PI) by field.
    rewrite !cos_plus, !sin_plus, cos_PI, sin_PI.
    apply mat2_eq; cbn [m00 m01 m10 m11]; ring. }
  apply (fit_extracts_weak (theta + PI) (- C10) C12 (p + PI / 2)); try assumption.
  - lra.
  - rewrite Rabs_Ropp. exact HC.
Qed.

(* non-vacuity of fit_equivalent outside the identifiable domain: theta = PI, C10 = -2, C12 = 0 *)
Lemma fit_equivalent_nonvacuous :
  exists U P, orthogonal U /\ psd P /\ mmul U P = shift_M PI (-2) 0 0.
Proof.
  exists mI, (mk2 2 0 0 2).
  unfold orthogonal, psd, symmetric, mtr, mdet, shift_M, astig_matrix, mmul, mT, mI, rot; simpl.
  rewrite cos_PI, sin_PI.
  split; [f_equal; ring | split; [split; [reflexivity | split; lra] | f_equal; ring]].
Qed.
