(* C12 — One aberration surface across polar, Cartesian, gradient and fitted forms.
   Property theorems about the functions TRANSLATED on this run from the current
   complex_probe.py / direct_ptycho_utils.py / direct_ptychography.py (Gen12.Gen_Chi, regenerated
   by harness/translate_chi.py on every run).  ONLY theorem statements closed by `exact`, their
   assumption reports and non-vacuity examples; the proofs are the fixed scripts
   C12_GenAlg.v, C12_GenFit.v and lib/C12_RealLib.v, lib/C12_Trig.v.  The gradient theorems
   (Coquelicot) are in C12_GenPropertiesD.v, the shift-matrix / fit theorems in C12_GenPropertiesB.v and the
   round-3 theorems in C12_GenPropertiesE/F/G.v so that the files are checked in parallel.

   Vocabulary
     env = string -> R                 a coefficient dictionary; an absent name reads 0
     chi_polar c alpha phi lambda      aberration_surface
     dchi_dk, dchi_dphi c alpha phi    aberration_surface_polar_gradients (the two returned tensors)
     dchi_dx, dchi_dy                  aberration_surface_cartesian_gradients
     basis l alpha phi lambda          column `l` of aberration_surface_cartesian_basis
     polar_to_cartesian / cartesian_to_polar / merge_coefs      the conversions and the merge
     lateral_shift_x/y c theta lambda kx0 ky0   _return_lateral_shifts at the grid point whose
                                       unrotated spatial frequency is (kx0, ky0)
     torch_polar_u/p U s0 s1 Vh        _torch_polar as a function of the SVD factors
     fit_rotation_angle, fit_C10, fit_C12, fit_phi12 (U, P)     the dictionary returned by
                                       fit_aberrations_from_shifts as a function of the polar
                                       factors of the least-squares matrix *)
From Coq Require Import Reals String List.
From QV.lib Require Import C12_RealLib C12_Trig.
From Gen12 Require Import Gen_Chi C12_GenAlg.
Import ListNotations.
Local Open Scope R_scope.

(* the code's POLAR_SYMBOLS and ABERRATION_PRESETS["all"] are the 25 polar names and the 25
   Cartesian labels of orders 1..5 that the theorems below range over *)
Theorem C12_symbol_tables :
  (same_set polar_symbols my_symbols = true /\ length polar_symbols = 25%nat) /\
  (same_set all_labels my_labels = true /\ length all_labels = 25%nat).
Proof. exact (conj symbols_covered labels_covered). Qed.
Print Assumptions C12_symbol_tables.

(* polar form = Cartesian-basis expansion with the converted coefficients, all 25 at once *)
Theorem C12_polar_eq_cartesian :
  forall (c : env) (alpha phi lambda : R),
    lambda <> 0 ->
    chi_polar c alpha phi lambda
    = sum_over all_labels (fun l => basis l alpha phi lambda * polar_to_cartesian c l).
Proof. exact polar_eq_cartesian. Qed.
Print Assumptions C12_polar_eq_cartesian.

(* the Cartesian gradient is the polar one rotated by phi (that it is also lambda times the true
   Cartesian derivative is C12_grad_cartesian_directional in C12_GenPropertiesD.v) *)
Theorem C12_cartesian_grad_is_rotation :
  forall (c : env) (alpha phi : R),
    dchi_dx c alpha phi = cos phi * dchi_dk c alpha phi - sin phi * dchi_dphi c alpha phi /\
    dchi_dy c alpha phi = sin phi * dchi_dk c alpha phi + cos phi * dchi_dphi c alpha phi.
Proof. exact cartesian_grad_rotation. Qed.
Print Assumptions C12_cartesian_grad_is_rotation.

(* conversions: Cartesian -> polar -> Cartesian is the identity for EVERY Cartesian set *)
Theorem C12_cart_polar_roundtrip :
  forall (k : env) (l : string),
    In l all_labels -> polar_to_cartesian (cartesian_to_polar k) l = k l.
Proof. exact roundtrip_cart. Qed.
Print Assumptions C12_cart_polar_roundtrip.

(* polar -> Cartesian -> polar is the identity on the principal domain (magnitudes > 0,
   m·phi_nm in (-PI, PI]) *)
Theorem C12_polar_cart_roundtrip :
  forall (c : env) (s : string),
    polar_domain c -> In s polar_symbols -> cartesian_to_polar (polar_to_cartesian c) s = c s.
Proof. exact roundtrip_polar. Qed.
Print Assumptions C12_polar_cart_roundtrip.

Example C12_nonvacuous_polar_domain : exists c : env, polar_domain c.
Proof. exact polar_domain_nonvacuous. Qed.

(* any Cartesian set converted to polar describes the surface of its Cartesian expansion
   (no domain restriction), and merging fitted Cartesian deltas adds their expansion *)
Theorem C12_chi_of_cartesian :
  forall (k : env) (alpha phi lambda : R),
    lambda <> 0 ->
    chi_polar (cartesian_to_polar k) alpha phi lambda
    = sum_over all_labels (fun l => basis l alpha phi lambda * k l).
Proof. exact chi_of_cartesian. Qed.
Print Assumptions C12_chi_of_cartesian.

Theorem C12_merge_surface :
  forall (init delta : env) (alpha phi lambda : R),
    lambda <> 0 ->
    chi_polar (merge_coefs init delta) alpha phi lambda
    = chi_polar init alpha phi lambda
      + sum_over all_labels (fun l => basis l alpha phi lambda * delta l).
Proof. exact merge_surface. Qed.
Print Assumptions C12_merge_surface.
