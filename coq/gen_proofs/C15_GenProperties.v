(* C15 source tie: the theorems that tie the functions TRANSLATED on this run from the source of
   quantem.imaging.drift (DriftCorrection.preprocess, DriftCorrection.align_translation,
   DriftInterpolator.transform_rows / transform_coordinates) and quantem.core.utils.imaging_utils.bilinear_kde
   (GenC15.Gen_C15, written by harness/c15_tie.py) to the hand-written model coq/model/C15_Model.v, and the
   property clauses restated about the translated functions.  Exact rationals; the scan direction is the
   abstract pair (s, c) = (sin, cos)(-theta).  ONLY statements closed by `exact` and their assumption reports. *)
From QV.lib Require Import Prelude Chunks C15_TieLib.
From QV.model Require Import C15_Model.
From GenC15 Require Import Gen_C15 C15_GenProofs.
From Coq Require Import QArith Qround.
Local Open Scope Q_scope.

(* scan direction vectors: fast = (s, c), slow = (c, -s) *)
Theorem C15_scan_vectors_tie :
  forall s c : Q,
    (fst (gen_scan_fast s c) == fst (scan_fast s c) /\ snd (gen_scan_fast s c) == snd (scan_fast s c)) /\
    (fst (gen_scan_slow s c) == fst (scan_slow s c) /\ snd (gen_scan_slow s c) == snd (scan_slow s c)).
Proof. exact (fun s c => conj (gen_scan_fast_eq s c) (gen_scan_slow_eq s c)). Qed.
Print Assumptions C15_scan_vectors_tie.

(* canvas shape from the pad fraction: int(np.round(extent * (1 + pad) / 2) * 2) for rows and columns *)
Theorem C15_canvas_tie :
  forall (H W : nat) (pad : Q),
    gen_canvas_rows H W pad = canvas_dim H pad /\ gen_canvas_cols H W pad = canvas_dim W pad.
Proof. exact (fun H W pad => conj (gen_canvas_rows_eq H W pad) (gen_canvas_cols_eq H W pad)). Qed.
Print Assumptions C15_canvas_tie.

(* initial knot placement: every canvas, shape, knot count, direction, scan line and knot *)
Theorem C15_init_knot_tie :
  forall (rows cols : Z) (H W K : nat) (s c : Q) (r j : nat),
    fst (gen_init_knot rows cols H W K s c r j) == fst (init_knot rows cols H W K s c r j) /\
    snd (gen_init_knot rows cols H W K s c r j) == snd (init_knot rows cols H W K s c r j).
Proof. exact gen_init_knot_eq. Qed.
Print Assumptions C15_init_knot_tie.

(* self.u of the interpolator *)
Theorem C15_u_tie : forall (H W col : nat), gen_u H W col == u_param W col.
Proof. exact gen_u_eq. Qed.
Print Assumptions C15_u_tie.

(* transform_rows: 1 knot = extrapolation along the fast axis scaled by input_shape[1] - 1 for BOTH coordinates;
   2 knots = linear interpolant; 3 / 4 knots = quadratic / cubic interp1d on exactly 3 / 4 points — for
   ARBITRARY (also curved) knots of the scan line *)
Theorem C15_transform_rows_tie :
  forall (H W K : nat) (s c : Q) (kn : nat -> vec) (col : nat),
    (1 <= K <= 4)%nat ->
    exists w, gen_transform_rows H W K s c kn col = Some w /\
              fst w == transform_row_comp W K (fst (scan_fast s c)) (fun j => fst (kn j)) col /\
              snd w == transform_row_comp W K (snd (scan_fast s c)) (fun j => snd (kn j)) col.
Proof. exact gen_transform_rows_tie. Qed.
Print Assumptions C15_transform_rows_tie.

(* outside 1..4 knots the source leaves the interp1d oracle contract: the tie is silent there, explicitly *)
Theorem C15_transform_rows_outside_contract :
  forall (H W K : nat) (s c : Q) (kn : nat -> vec) (col : nat),
    (K = 0 \/ 5 <= K)%nat -> gen_transform_rows H W K s c kn col = None.
Proof. exact gen_transform_rows_outside. Qed.
Print Assumptions C15_transform_rows_outside_contract.

(* transform_coordinates: the vectorised one-knot call and the per-scan-line loop *)
Theorem C15_transform_coordinates_tie :
  forall (H W K : nat) (s c : Q) (kn : knots_t) (r col : nat),
    (1 <= K <= 4)%nat ->
    exists w, gen_transform_coordinates H W K s c kn r col = Some w /\
              fst w == fst (transform_coordinates W K s c kn r col) /\
              snd w == snd (transform_coordinates W K s c kn r col).
Proof. exact gen_transform_coordinates_tie. Qed.
Print Assumptions C15_transform_coordinates_tie.

(* the first clause of the property about the TRANSLATED SOURCE: the translated transform_coordinates applied
   to the knots the translated preprocess placed puts pixel (r, col) at the canvas centre plus the rotated
   offset from the image centre — every shape, canvas, direction and 1..4 knots *)
Theorem C15_source_coords_exact :
  forall (rows cols : Z) (H W K : nat) (s c : Q) (r col : nat),
    (1 <= K <= 4)%nat -> (r < H)%nat -> (col < W)%nat ->
    exists w, gen_transform_coordinates H W K s c (gen_init_knot rows cols H W K s c) r col = Some w /\
      fst w == (inject_Z rows - 1) / 2 + (qn col - (qn W - 1) / 2) * s + (qn r - (qn H - 1) / 2) * c /\
      snd w == (inject_Z cols - 1) / 2 + (qn col - (qn W - 1) / 2) * c + (qn r - (qn H - 1) / 2) * - s.
Proof. exact gen_coords_exact_tie. Qed.
Print Assumptions C15_source_coords_exact.

(* ... and straight scan lines described by 1, 2, 3 or 4 knots give identical coordinates, about the translated source *)
Theorem C15_source_knots_agree :
  forall (rows cols : Z) (H W K K' : nat) (s c : Q) (r col : nat),
    (1 <= K <= 4)%nat -> (1 <= K' <= 4)%nat -> (r < H)%nat -> (col < W)%nat ->
    exists w w',
      gen_transform_coordinates H W K s c (gen_init_knot rows cols H W K s c) r col = Some w /\
      gen_transform_coordinates H W K' s c (gen_init_knot rows cols H W K' s c) r col = Some w' /\
      fst w == fst w' /\ snd w == snd w'.
Proof. exact gen_knots_agree. Qed.
Print Assumptions C15_source_knots_agree.

(* the splat, sample by sample: floor / fractional weights, the four neighbours in the order of the source,
   wrap-around flat index *)
Theorem C15_splat_tie :
  forall (rows cols : Z) (p : vec),
    Forall2 (fun a b : Z * Q => fst a = fst b /\ snd a == snd b)
      (map (fun t : Z * Z * (vec -> Q) => (gen_index rows cols (fst (fst t)) (snd (fst t)) p, snd t p)) gen_taps)
      (splat rows cols p).
Proof. exact gen_taps_splat. Qed.
Print Assumptions C15_splat_tie.

(* the accumulation loop: every sample of every batch is splatted — the translated pix_count is the model's
   cell weight of the WHOLE point list, for max_batch_size None and every max_batch_size >= 1 *)
Theorem C15_pix_count_tie :
  forall (rows cols : Z) (mb : option nat) (pts : list vec) (k : Z),
    (forall b, mb = Some b -> (1 <= b)%nat) ->
    gen_pix_count rows cols mb pts k == cell_weight (contributions rows cols pts) k.
Proof. exact gen_pix_count_eq. Qed.
Print Assumptions C15_pix_count_tie.

(* the second clause about the translated source: the weight map (before the KDE) sums to the number of samples *)
Theorem C15_source_weight_map_total :
  forall (rows cols : Z) (mb : option nat) (pts : list vec),
    (0 < rows)%Z -> (0 < cols)%Z -> (forall b, mb = Some b -> (1 <= b)%nat) ->
    qsum (map (fun t => gen_pix_count rows cols mb pts (Z.of_nat t)) (seq 0 (Z.to_nat (rows * cols))))
    == qn (length pts).
Proof. exact gen_weight_map_total. Qed.
Print Assumptions C15_source_weight_map_total.

(* align_translation: measured shifts (image 0: zero) -> mean removed -> threshold on the last image -> knots *)
Theorem C15_align_knots_tie :
  forall (n : nat) (mis : option Q) (shifts : nat -> vec) (kn : nat -> knots_t) (i r j : nat),
    (i < n)%nat ->
    fst (gen_align_knots n mis shifts kn i r j) == fst (align_translation_knots n mis shifts kn i r j) /\
    snd (gen_align_knots n mis shifts kn i r j) == snd (align_translation_knots n mis shifts kn i r j).
Proof. exact gen_align_knots_eq. Qed.
Print Assumptions C15_align_knots_tie.

(* the third clause about the translated source: zero measured shifts move no knot *)
Theorem C15_source_translation_fixed_point :
  forall (n : nat) (mis : option Q) (shifts : nat -> vec) (kn : nat -> knots_t) (i r j : nat),
    (i < n)%nat ->
    (forall k, (1 <= k < n)%nat -> fst (shifts k) == 0 /\ snd (shifts k) == 0) ->
    fst (gen_align_knots n mis shifts kn i r j) == fst (kn i r j) /\
    snd (gen_align_knots n mis shifts kn i r j) == snd (kn i r j).
Proof. exact gen_translation_fixed_point. Qed.
Print Assumptions C15_source_translation_fixed_point.

(* ------------------------------------------------------------------ non-vacuity *)
(* 10 x 16 image at 90 degrees on the 12 x 20 canvas, 3 knots: last pixel of the first scan line; 1 knot agrees *)
Example C15_tie_nonvacuous_coords :
  gen_canvas_rows 10 16 (1 # 4) = 12%Z /\ gen_canvas_cols 10 16 (1 # 4) = 20%Z /\
  (exists w, gen_transform_coordinates 10 16 3 (-1) 0 (gen_init_knot 12 20 10 16 3 (-1) 0) 0 15 = Some w /\
             fst w == -2 /\ snd w == 5) /\
  (exists w, gen_transform_coordinates 10 16 1 (-1) 0 (gen_init_knot 12 20 10 16 1 (-1) 0) 0 15 = Some w /\
             fst w == -2 /\ snd w == 5).
Proof.
  split; [vm_compute; reflexivity|]. split; [vm_compute; reflexivity|].
  split; eexists; (split; [vm_compute; reflexivity|]); split; vm_compute; reflexivity.
Qed.

(* a point off the grid and one that wraps around the canvas edge, in batches of one sample *)
Example C15_tie_nonvacuous_splat :
  map (fun t => Qred (gen_pix_count 3 3 (Some 1%nat) [(1 # 2, 1 # 4); (5 # 2, -1 # 4)] (Z.of_nat t))) (seq 0 9)
  = [3 # 4; 1 # 8; 1 # 8;  3 # 8; 1 # 8; 0;  3 # 8; 0; 1 # 8]%Q.
Proof. vm_compute. reflexivity. Qed.

(* the hypothesis of the fixed-point theorem is needed: a (1/2, 1/2) shift of image 1 moves image 0 by -1/4,
   and a threshold above the shift of the LAST image puts it back *)
Example C15_tie_nonvacuous_align :
  fst (gen_align_knots 2 None (fun _ => (1 # 2, 1 # 2)) (fun _ _ _ => (5, 7)) 0%nat 0%nat 0%nat) == 19 # 4 /\
  fst (gen_align_knots 2 None (fun _ => (1 # 2, 1 # 2)) (fun _ _ _ => (5, 7)) 1%nat 0%nat 0%nat) == 21 # 4 /\
  fst (gen_align_knots 2 (Some 1) (fun _ => (1 # 2, 1 # 2)) (fun _ _ _ => (5, 7)) 1%nat 0%nat 0%nat) == 5.
Proof. repeat split; vm_compute; reflexivity. Qed.
