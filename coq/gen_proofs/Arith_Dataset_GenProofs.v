(* Arithmetic tie, group "dataset" — FIXED proof script, compiled at check time against the file
   GENERATED from the current quantem/core/datastructures/dataset.py (build/<prop>/Gen_Arith.v,
   logical name GenArith.Gen_Arith):

     coqc -Q /verif/coq QV -Q <build>/<prop> GenArith -o <build>/<prop>/Arith_Dataset_GenProofs.vo \
          coq/gen_proofs/Arith_Dataset_GenProofs.v

   For every argument tuple of the stated domain, the per-axis index arithmetic TRANSLATED from
   Dataset.pad / crop / bin / fourier_resample equals the corresponding hand-written definition of
   coq/model/C06_Model.v.  Two meanings are fixed here (they are NumPy / Python semantics, not
   quantem code, and are part of the trusted base):
     slice_bounds   what `x[slice(start, stop)]` selects on an axis of a given length
     slice_pad      `np.pad(x[slice], (before, after))` on an axis, as an index function
   The scripts case-split on every test occurring on either side and close the leaves with lia;
   they do not depend on how the source spells the arithmetic. *)
From QV.lib Require Import Prelude.
From QV.model Require Import C06_Model.
From Coq Require Import QArith Qcanon.
From GenArith Require Import Gen_Arith.
Local Close Scope Qc_scope.
Local Close Scope Q_scope.
Local Open Scope Z_scope.

(* ------------------------------------------------------------------ fixed meanings *)
(* Python `slice(start, stop).indices(len)` with step 1: None = from the start / to the end,
   negative values count from the end, everything is clipped to [0, len]; the selection is
   [start, max(start, stop)) *)
Definition slice_bounds (len : nat) (s : option Z * option Z) : nat * nat :=
  let l := Z.of_nat len in
  let st := match fst s with None => 0 | Some v => norm_idx l v end in
  let en := match snd s with None => l | Some v => norm_idx l v end in
  (Z.to_nat st, Z.to_nat (Z.max st en)).

(* np.pad(x[slice], (before, after), mode="constant") along one axis of length len *)
Definition slice_pad {R : Type} (rO : R) (len : nat) (sp : (option Z * option Z) * (Z * Z))
           (S : nat -> R) (i : nat) : R :=
  let se := slice_bounds len (fst sp) in
  let b := Z.to_nat (fst (snd sp)) in
  if ((b <=? i) && (i <? b + (snd se - fst se)))%nat then S (fst se + (i - b))%nat else rO.

Definition slice_pad_len (len : nat) (sp : (option Z * option Z) * (Z * Z)) : Z :=
  let se := slice_bounds len (fst sp) in
  fst (snd sp) + Z.of_nat (snd se - fst se) + snd (snd sp).

(* ------------------------------------------------------------------ tactics *)
Ltac la :=
  first [ reflexivity | lia | congruence | (progress f_equal; la) ].

Ltac leaf := first [ la | (exfalso; lia) ].

Ltac split1 :=
  match goal with
  | |- context [if ?c then _ else _] =>
      match c with
      | context [if _ then _ else _] => fail 1
      | _ => destruct c eqn:?
      end
  end.
Ltac split_tests := repeat (split1; cbn [fst snd] in * ).

(* parity of a natural number in a form lia understands *)
Lemma even_cases (k : nat) :
  (Nat.even k = true /\ exists j, k = (2 * j)%nat) \/ (Nat.even k = false /\ exists j, k = (2 * j + 1)%nat).
Proof.
  destruct (Nat.even k) eqn:E.
  - left. split; [reflexivity|]. apply Nat.even_spec in E. destruct E as [j Hj]. exists j. lia.
  - right. split; [reflexivity|].
    assert (Ho : Nat.odd k = true) by (rewrite <- Nat.negb_even, E; reflexivity).
    apply Nat.odd_spec in Ho. destruct Ho as [j Hj]. exists j. lia.
Qed.

Ltac parity k :=
  let j := fresh "j" in let Hj := fresh "Hj" in let E := fresh "E" in
  destruct (even_cases k) as [[E [j Hj]]|[E [j Hj]]]; rewrite ?E in *.

(* ------------------------------------------------------------------ _shift_center_index *)
Lemma gen_shift_center_index_eq_model :
  forall n, 0 <= n -> gen_shift_center_index n = Z.of_nat (shift_center_index (Z.to_nat n)).
Proof.
  intros n Hn. unfold gen_shift_center_index, shift_center_index. cbv zeta.
  parity (Z.to_nat n); split_tests; leaf.
Qed.

(* ------------------------------------------------------------------ Dataset.pad(output_shape) *)
Lemma gen_pad_widths_eq_model :
  forall n out, 0 <= n -> 0 <= out ->
    gen_pad_widths n out =
    (Z.of_nat (fst (pad_width_to (Z.to_nat n) (Z.to_nat out))),
     Z.of_nat (snd (pad_width_to (Z.to_nat n) (Z.to_nat out)))).
Proof.
  intros n out Hn Ho. unfold gen_pad_widths, pad_width_to. cbv zeta. cbn [fst snd].
  split_tests; f_equal; lia.
Qed.

(* ------------------------------------------------------------------ Dataset.crop *)
Lemma gen_crop_slice_eq_model :
  forall (len : nat) (before after : Z),
    slice_bounds len (gen_crop_slice true before after) = crop_bounds len (before, after) /\
    slice_bounds len (gen_crop_slice false before after) = (0%nat, len).
Proof.
  intros len b a.
  unfold gen_crop_slice, slice_bounds, crop_bounds, norm_idx. cbv zeta. cbn [fst snd].
  split; split_tests; leaf.
Qed.

(* ------------------------------------------------------------------ Dataset.bin *)
Lemma eff_len_Z n f :
  0 <= n -> 0 < f -> Z.of_nat (eff_len (Z.to_nat n) (Z.to_nat f)) = (n / f) * f.
Proof.
  intros Hn Hf. unfold eff_len.
  rewrite Nat2Z.inj_mul, Nat2Z.inj_div, !Z2Nat.id by lia. reflexivity.
Qed.

Lemma blocks_Z n f :
  0 <= n -> 0 < f -> Z.of_nat (Z.to_nat n / Z.to_nat f) = n / f.
Proof. intros Hn Hf. rewrite Nat2Z.inj_div, !Z2Nat.id by lia. reflexivity. Qed.

(* facts about the covered length q*f that lia cannot derive (products of two variables) *)
Ltac cut_facts n f :=
  let q := constr:(n / f) in
  assert (0 <= q) by (apply Z.div_pos; lia);
  assert (0 <= q * f) by (apply Z.mul_nonneg_nonneg; [apply Z.div_pos|]; lia);
  assert (q * f <= n) by (rewrite Z.mul_comm; apply Z.mul_div_le; lia);
  assert (n - n mod f = q * f) by (rewrite Z.mod_eq by lia; lia).

(* first loop of bin: the slice keeps [0, (n // f) * f) — the trailing remainder is dropped —
   and records that length; an unbinned axis is kept whole *)
Lemma gen_bin_cut_eq_model :
  forall n f, 0 <= n -> 0 < f ->
    match gen_bin_cut n true f with
    | inr (s, e) => slice_bounds (Z.to_nat n) s = (0%nat, eff_len (Z.to_nat n) (Z.to_nat f)) /\
                    e = Z.of_nat (eff_len (Z.to_nat n) (Z.to_nat f))
    | inl _ => False
    end /\
    match gen_bin_cut n false f with
    | inr (s, e) => slice_bounds (Z.to_nat n) s = (0%nat, Z.to_nat n) /\ e = n
    | inl _ => False
    end.
Proof.
  intros n f Hn Hf.
  assert (HE := eff_len_Z n f Hn Hf). cut_facts n f.
  unfold gen_bin_cut. cbv zeta.
  split; split_tests; try lia; cbv beta iota;
    (split; [| lia]);
    unfold slice_bounds, norm_idx; cbv zeta; cbn [fst snd]; split_tests; f_equal; lia.
Qed.

(* second loop of bin: the reshape dimensions are (n // f, f), the reduced axis is the second of
   the pair, the running axis advances by two (by one on an unbinned axis) *)
Lemma gen_bin_blocks_eq_model :
  forall n f ra, 0 <= n -> 0 < f ->
    gen_bin_blocks true f (Z.of_nat (eff_len (Z.to_nat n) (Z.to_nat f))) ra =
      inr ([Z.of_nat (Z.to_nat n / Z.to_nat f); f], [ra + 1], ra + 2) /\
    forall e, gen_bin_blocks false f e ra = inr ([e], [], ra + 1).
Proof.
  intros n f ra Hn Hf.
  rewrite eff_len_Z, blocks_Z by lia.
  unfold gen_bin_blocks. cbv zeta.
  split; [| intros e]; split_tests; rewrite ?Z.div_mul by lia; leaf.
Qed.

(* third loop of bin: calibration of a binned axis, rational arithmetic (floats as exact
   rationals, as in the model) *)
Lemma Q2Qc_eq_iff' (a b : Q) : (a == b)%Q -> Q2Qc a = Q2Qc b.
Proof. intros H. apply Qc_is_canon. simpl. rewrite !Qred_correct. exact H. Qed.

Lemma gen_bin_meta_eq_model :
  forall (f : Z) (s o : Q), 0 <= f ->
    Q2Qc (fst (gen_bin_meta f s o)) = bin_sampling (Z.to_nat f) (Q2Qc s) /\
    Q2Qc (snd (gen_bin_meta f s o)) = bin_origin (Z.to_nat f) (Q2Qc o) (Q2Qc s).
Proof.
  intros f s o Hf.
  unfold gen_bin_meta, bin_sampling, bin_origin, qc_of_nat, half. cbv zeta. cbn [fst snd].
  rewrite Z2Nat.id by lia.
  split; apply Qc_is_canon;
    repeat (progress (unfold Qcmult, Qcplus, Qcminus, Qcopp, Q2Qc; cbn [this]; rewrite ?Qred_correct));
    unfold Z.sub; rewrite ?inject_Z_plus, ?inject_Z_mult, ?inject_Z_opp; unfold inject_Z;
    ring.
Qed.

(* ------------------------------------------------------------------ fourier_resample *)
(* both branches of _shift_center_index are floor(n / 2) *)
Lemma sci_half k : shift_center_index k = (k / 2)%nat.
Proof. unfold shift_center_index. parity k; lia. Qed.

Lemma gen_sci_half n : 0 <= n -> gen_shift_center_index n = n / 2.
Proof.
  intros Hn. rewrite gen_shift_center_index_eq_model, sci_half by lia.
  rewrite Nat2Z.inj_div, Z2Nat.id by lia. reflexivity.
Qed.


Ltac conjs := repeat match goal with |- _ /\ _ => split end.

Ltac intro_lt := try match goal with |- (_ < _)%nat -> _ => intro end.

(* closed form of the translated indices (integer arithmetic only) *)
Lemma gen_resample_croppad_spec n m :
  0 < n -> 0 < m ->
  gen_resample_croppad n true m =
    (if m <? n then ((Some (n / 2 - m / 2), Some (n / 2 - m / 2 + m)), (0, 0))
     else if n <? m then ((None, None), (m / 2 - n / 2, m - n - (m / 2 - n / 2)))
     else ((None, None), (0, 0))) /\
  gen_resample_croppad n false m = ((None, None), (0, 0)).
Proof.
  intros Hn Hm. unfold gen_resample_croppad. cbv zeta.
  rewrite ?gen_sci_half by lia. unfold gen_shift_center_index.
  split; split_tests; leaf.
Qed.

Lemma norm_idx_id l v : 0 <= v <= l -> norm_idx l v = v.
Proof. intros H. unfold norm_idx. destruct (v <? 0) eqn:E; lia. Qed.

Lemma slice_bounds_some len a b :
  0 <= a <= b -> b <= Z.of_nat len -> slice_bounds len (Some a, Some b) = (Z.to_nat a, Z.to_nat b).
Proof.
  intros H1 H2. unfold slice_bounds. cbv zeta. cbn [fst snd].
  rewrite !norm_idx_id by lia. f_equal. lia.
Qed.

Lemma slice_bounds_none len : slice_bounds len (None, None) = (0%nat, len).
Proof. unfold slice_bounds. cbv zeta. cbn [fst snd]. f_equal; lia. Qed.

(* the centred crop / zero-pad of the shifted spectrum: slicing and padding with the TRANSLATED
   indices is the model's [croppad] (for every ring, spectrum and index); the result has the
   requested length; an axis that is not resampled is left alone *)
Lemma gen_resample_croppad_eq_model :
  forall (R : Type) (rO : R) (n m : Z) (S : nat -> R) (i : nat),
    0 < n -> 0 < m ->
    ((i < Z.to_nat m)%nat ->
       slice_pad rO (Z.to_nat n) (gen_resample_croppad n true m) S i = croppad rO (Z.to_nat n) (Z.to_nat m) S i) /\
    slice_pad_len (Z.to_nat n) (gen_resample_croppad n true m) = m /\
    0 <= fst (snd (gen_resample_croppad n true m)) /\ 0 <= snd (snd (gen_resample_croppad n true m)) /\
    ((i < Z.to_nat n)%nat -> slice_pad rO (Z.to_nat n) (gen_resample_croppad n false m) S i = S i) /\
    slice_pad_len (Z.to_nat n) (gen_resample_croppad n false m) = n.
Proof.
  intros R rO n m S i Hn Hm.
  destruct (gen_resample_croppad_spec n m Hn Hm) as [-> ->].
  unfold slice_pad, slice_pad_len, croppad. rewrite !sci_half. cbv zeta.
  destruct (m <? n) eqn:E1; [| destruct (n <? m) eqn:E2]; cbn [fst snd].
  - (* crop *)
    rewrite slice_bounds_some, slice_bounds_none by lia. cbn [fst snd].
    conjs; intro_lt; split_tests; try la; try (exfalso; lia).
  - (* pad *)
    rewrite slice_bounds_none. cbn [fst snd].
    conjs; intro_lt; split_tests; try la; try (exfalso; lia).
  - rewrite slice_bounds_none. cbn [fst snd].
    conjs; intro_lt; split_tests; try la; try (exfalso; lia).
Qed.
