(* C11 tie — FIXED proof script, compiled by the check on every run against the file
   build/C11/Gen_C11.v that harness/translate_C11.py has just generated from the CURRENT source of
   vector.py / validators.py.  Every lemma states that a generated definition equals the hand-written
   definition the model (coq/model/C11_Model.v) uses at that place, for ALL arguments.
   Proofs go through semantic steps (case analysis on every `if`, lia on the comparisons, induction on
   the nested lists), not through the syntax of the generated terms. *)
From QV.lib Require Import Prelude C11_Heap C11_TieLib.
From QV.model Require Import C11_Model.
From GenC11 Require Import Gen_C11.
From Coq Require Import QArith.
Local Close Scope Q_scope.
Local Open Scope Z_scope.

(* ------------------------------------------------------------------ tactics *)
Ltac break_if :=
  match goal with
  | |- context [if ?c then _ else _] => destruct c eqn:?
  end.
Ltac crush := repeat break_if; try reflexivity; try discriminate; try lia; try (exfalso; lia).

(* ------------------------------------------------------------------ library facts (independent of the generated file) *)
Lemma existsb_negb_forallb (A : Type) (f g : A -> bool) (l : list A) :
  (forall x, f x = negb (g x)) -> existsb f l = negb (forallb g l).
Proof.
  intros H. induction l as [|x l IH]; simpl; auto. rewrite H, IH. destruct (g x), (forallb g l); reflexivity.
Qed.

Lemma existsb_ext' (A : Type) (f g : A -> bool) (l : list A) : (forall x, f x = g x) -> existsb f l = existsb g l.
Proof. intros H. induction l as [|x l IH]; simpl; auto. rewrite H, IH. reflexivity. Qed.

Lemma forallb_ext' (A : Type) (f g : A -> bool) (l : list A) : (forall x, f x = g x) -> forallb f l = forallb g l.
Proof. intros H. induction l as [|x l IH]; simpl; auto. rewrite H, IH. reflexivity. Qed.

Lemma slice_list_spec n a b st :
  slice_list n a b st =
  match py_slice_indices a b st (Z.of_nat n) with inl _ => None | inr (s, e, t) => Some (py_arange s e t) end.
Proof.
  unfold slice_list, py_slice_indices, py_arange.
  destruct ((match st with Some z => z | None => 1 end) =? 0); reflexivity.
Qed.

Lemma py_slice_indices_err a b st len e : py_slice_indices a b st len = inl e -> e = EValue.
Proof. unfold py_slice_indices. destruct (_ =? 0); intros H; inversion H; reflexivity. Qed.

Lemma memz_In x l : memz x l = true <-> In x l.
Proof.
  unfold memz. rewrite existsb_exists. split.
  - intros [y [Hy He]]. apply Z.eqb_eq in He. subst. exact Hy.
  - intros H. exists x. split; [exact H | apply Z.eqb_refl].
Qed.

Lemma memz_zdedup x l : memz x (zdedup l) = memz x l.
Proof.
  apply eq_true_iff_eq. rewrite !memz_In.
  induction l as [|y l IH]; simpl; [tauto|].
  destruct (memz y l) eqn:E.
  - rewrite IH. apply memz_In in E. split; [auto|]. intros [->|H]; auto.
  - simpl. rewrite IH. tauto.
Qed.

Lemma zdedup_length_le l : (length (zdedup l) <= length l)%nat.
Proof. induction l as [|y l IH]; simpl; auto. destruct (memz y l); simpl; lia. Qed.

(* len(set(l)) == len(l)  <->  no duplicates *)
Lemma set_len_nodupb l : py_set_len l = zlength l <-> nodupb l = true.
Proof.
  unfold py_set_len, zlength. rewrite Nat2Z.inj_iff.
  induction l as [|y l IH]; simpl; [tauto|].
  destruct (memz y l) eqn:E; simpl.
  - pose proof (zdedup_length_le l). split; [lia | discriminate].
  - rewrite <- IH. split; lia.
Qed.

Lemma map_const (A B : Type) (c : B) (l : list A) : map (fun _ => c) l = repeat c (length l).
Proof. induction l; simpl; congruence. Qed.

Lemma pyidx_lt n i k : pyidx n i = Some k -> (k < n)%nat.
Proof.
  unfold pyidx, inb. repeat break_if; intros H; inversion H; subst; lia.
Qed.

Lemma fold_left_flat_map (A B S : Type) (f : S -> B -> S) (g : A -> list B) (l : list A) (s : S) :
  fold_left f (flat_map g l) s = fold_left (fun s x => fold_left f (g x) s) l s.
Proof. revert s. induction l as [|x l IH]; intros s; simpl; auto. rewrite fold_left_app. apply IH. Qed.

Lemma skipn_skipn' (A : Type) (x y : nat) (l : list A) : skipn x (skipn y l) = skipn (y + x) l.
Proof.
  revert l. induction y as [|y IH]; intros l; simpl; auto.
  destruct l; simpl; [destruct x; reflexivity | apply IH].
Qed.

Lemma py_slice_firstn (A : Type) (vals : list A) lo hi n :
  0 <= lo -> hi - lo = Z.of_nat n -> py_slice lo hi vals = firstn n (skipn (Z.to_nat lo) vals).
Proof. intros H0 H. unfold py_slice. rewrite H, Nat2Z.id. reflexivity. Qed.

Lemma index_of_None x l : index_of x l = None <-> ~ In x l.
Proof.
  induction l as [|y l IH]; simpl; [tauto|].
  destruct (Z.eqb_spec x y) as [->|Hne].
  - split; [discriminate | intros H; exfalso; apply H; auto].
  - destruct (index_of x l); simpl.
    + split; [discriminate|]. intros H. exfalso. apply H. right.
      destruct (in_dec Z.eq_dec x l) as [Hi|Hi]; [exact Hi|]. apply IH in Hi. discriminate.
    + split; auto. intros _ [H|H]; [congruence|]. destruct IH as [IH1 _]. apply (IH1 eq_refl). exact H.
Qed.

(* ------------------------------------------------------------------ 1. index normalisation *)
Definition opt_of {A : Type} (x : err + A) : option A := match x with inl _ => None | inr a => Some a end.

Ltac gi_checked gen :=
  intros n x; unfold gen; destruct x as [i | a b st | l]; cbn [res_checked sum_map];
  [ unfold inb; crush
  | rewrite slice_list_spec;
    destruct (py_slice_indices a b st (Z.of_nat n)) as [e | [[s e'] t]] eqn:E; cbn [sum_map];
    [ apply py_slice_indices_err in E; subst; reflexivity | reflexivity ]
  | rewrite existsb_negb_forallb with (g := inb n) by (intros y; unfold inb; lia);
    destruct (forallb (inb n) l); reflexivity ].

Lemma gen_gi_get_data_eq : forall n x, sum_map (map Z.to_nat) (gen_gi_get_data (Z.of_nat n) x) = res_checked n x.
Proof. gi_checked gen_gi_get_data. Qed.

Lemma gen_gi_set_data_eq : forall n x, sum_map (map Z.to_nat) (gen_gi_set_data (Z.of_nat n) x) = res_checked n x.
Proof. gi_checked gen_gi_set_data. Qed.

Lemma gen_gi_setitem_eq : forall n x, sum_map (map Z.to_nat) (gen_gi_setitem (Z.of_nat n) x) = res_checked n x.
Proof. gi_checked gen_gi_setitem. Qed.

(* __getitem__ resolves WITHOUT a bounds check; the only error is a zero slice step *)
Lemma gen_gi_getitem_eq : forall n x, opt_of (gen_gi_getitem (Z.of_nat n) x) = res_raw n x.
Proof.
  intros n x. unfold gen_gi_getitem. destruct x as [i | a b st | l]; cbn [res_raw opt_of]; try reflexivity.
  rewrite slice_list_spec. destruct (py_slice_indices a b st (Z.of_nat n)) as [e | [[s e'] t]]; reflexivity.
Qed.

Lemma gen_gi_getitem_err : forall n x e, gen_gi_getitem (Z.of_nat n) x = inl e -> e = EValue.
Proof.
  intros n x e. unfold gen_gi_getitem. destruct x as [i | a b st | l]; try discriminate.
  destruct (py_slice_indices a b st (Z.of_nat n)) as [e0 | [[s e'] t]] eqn:E; intros H; inversion H; subst.
  eapply py_slice_indices_err; eauto.
Qed.

(* ------------------------------------------------------------------ 2. cell guards (type, ndim, column count; in this order) *)
Definition v_isarr (h : list cell) (v : rval) : bool :=
  match v with VNot => false | VBad => true | VId id => match ncols_at h id with Some _ => true | None => false end end.
Definition v_ndim (nd : Z) (v : rval) : Z := match v with VBad => nd | _ => 2 end.
Definition v_shape1 (h : list cell) (s1 : Z) (v : rval) : Z :=
  match v with VId id => match ncols_at h id with Some k => Z.of_nat k | None => s1 end | _ => s1 end.
Definition cres_of_check (x : err + nat) : cres := match x with inl e => CRaise e | inr _ => COk end.

Ltac cell_guard g :=
  intros h nf v nd s0 s1 Hnd; unfold g, check_val;
  destruct v as [ | | id]; cbn [v_isarr v_ndim v_shape1 cres_of_check];
  [ crush | crush | destruct (ncols_at h id) as [k|]; cbn [cres_of_check]; crush ].

Lemma gen_cell_set_data_1_eq : forall h nf v nd s0 s1, nd <> 2 ->
  gen_cell_set_data_1 (v_isarr h v) (v_ndim nd v) s0 (v_shape1 h s1 v) (Z.of_nat nf) = cres_of_check (check_val h nf v).
Proof. cell_guard gen_cell_set_data_1. Qed.
Lemma gen_cell_set_data_2_eq : forall h nf v nd s0 s1, nd <> 2 ->
  gen_cell_set_data_2 (v_isarr h v) (v_ndim nd v) s0 (v_shape1 h s1 v) (Z.of_nat nf) = cres_of_check (check_val h nf v).
Proof. cell_guard gen_cell_set_data_2. Qed.
Lemma gen_cell_setitem_1_eq : forall h nf v nd s0 s1, nd <> 2 ->
  gen_cell_setitem_1 (v_isarr h v) (v_ndim nd v) s0 (v_shape1 h s1 v) (Z.of_nat nf) = cres_of_check (check_val h nf v).
Proof. cell_guard gen_cell_setitem_1. Qed.
Lemma gen_cell_setitem_2_eq : forall h nf v nd s0 s1, nd <> 2 ->
  gen_cell_setitem_2 (v_isarr h v) (v_ndim nd v) s0 (v_shape1 h s1 v) (Z.of_nat nf) = cres_of_check (check_val h nf v).
Proof. cell_guard gen_cell_setitem_2. Qed.
(* validate_vector_data (v.data = ..., from_data): the same three checks on every cell *)
Lemma gen_vdata_cell_eq : forall h nf v nd s0 s1, nd <> 2 ->
  gen_vdata_cell (v_isarr h v) (v_ndim nd v) s0 (v_shape1 h s1 v) (Z.of_nat nf) = cres_of_check (check_val h nf v).
Proof. cell_guard gen_vdata_cell. Qed.

(* ------------------------------------------------------------------ 3. index-count guards *)
Definition arity_model (idx : list ix) (sh : list nat) : cres :=
  if negb (Nat.eqb (length idx) (length sh)) then CRaise EValue else COk.

Ltac arity g := intros idx sh; unfold g, arity_model, zlength; crush.
Lemma gen_arity_get_data_eq : forall idx sh, gen_arity_get_data (zlength idx) (zlength sh) = arity_model idx sh.
Proof. arity gen_arity_get_data. Qed.
Lemma gen_arity_set_data_eq : forall idx sh, gen_arity_set_data (zlength idx) (zlength sh) = arity_model idx sh.
Proof. arity gen_arity_set_data. Qed.
Lemma gen_arity_setitem_eq : forall idx sh, gen_arity_setitem (zlength idx) (zlength sh) = arity_model idx sh.
Proof. arity gen_arity_setitem. Qed.

(* ------------------------------------------------------------------ 4. dispatch of __setitem__ / __getitem__ *)
Lemma py_prefix_zlength (A B : Type) (sh : list B) (l : list A) : py_prefix (zlength sh) l = firstn (length sh) l.
Proof. unfold py_prefix, zlength. rewrite Nat2Z.id. reflexivity. Qed.

Lemma gen_has_fancy_eq : forall sh idx, length idx = length sh -> gen_has_fancy sh idx = has_fancy idx.
Proof.
  intros sh idx Hlen. unfold gen_has_fancy, has_fancy. rewrite py_prefix_zlength, <- Hlen, firstn_all.
  apply existsb_ext'. intros [i | a b st | l]; try reflexivity. unfold zlength. crush.
Qed.

Definition return_np_model (d : nat) (idx : list ix) : bool :=
  (Nat.eqb (length idx) d && forallb is_int idx) || (Nat.ltb d (length idx) && forallb is_int (firstn d idx)).

Lemma gen_return_np_eq : forall sh idx, gen_return_np sh idx = return_np_model (length sh) idx.
Proof.
  intros sh idx. unfold gen_return_np, return_np_model. rewrite py_prefix_zlength.
  rewrite forallb_ext' with (g := is_int) by (intros [i | a b st | l]; reflexivity).
  unfold zlength.
  destruct (Nat.eqb_spec (length idx) (length sh)) as [He|Hne].
  - rewrite <- He, firstn_all. replace (length idx <? length idx)%nat with false by (symmetry; apply Nat.ltb_irrefl).
    cbn [andb orb]. rewrite orb_false_r. crush.
  - cbn [andb orb]. destruct (Nat.ltb_spec (length sh) (length idx)); cbn [andb]; crush.
Qed.

(* ------------------------------------------------------------------ 5. traversal order of the recursive helpers *)
Lemma gen_collect_arrays_eq : forall t, gen_collect_arrays t = pop_ids t.
Proof.
  unfold pop_ids. induction t as [c | l IH] using tree_ind'.
  - destruct c; reflexivity.
  - cbn [gen_collect_arrays leaves]. induction IH as [|x r Hx Hr IHr]; [reflexivity|].
    cbn [flat_map]. rewrite flat_map_app, Hx. f_equal. exact IHr.
Qed.

Lemma gen_field_collect_eq : forall k t, gen_field_collect k t = map (fun id => (id, k)) (pop_ids t).
Proof.
  unfold pop_ids. intros k. induction t as [c | l IH] using tree_ind'.
  - destruct c; reflexivity.
  - cbn [gen_field_collect leaves]. induction IH as [|x r Hx Hr IHr]; [reflexivity|].
    cbn [flat_map]. rewrite flat_map_app, map_app, Hx. f_equal. exact IHr.
Qed.

Lemma mapM_app (A B : Type) (f : A -> option B) (l1 l2 : list A) :
  mapM f (l1 ++ l2) = match mapM f l1 with
                      | Some a => match mapM f l2 with Some b => Some (a ++ b) | None => None end
                      | None => None
                      end.
Proof.
  induction l1 as [|x l1 IH]; simpl.
  - destruct (mapM f l2); reflexivity.
  - destruct (f x); [|reflexivity]. rewrite IH. destruct (mapM f l1); [|reflexivity]. destruct (mapM f l2); reflexivity.
Qed.

Definition cells_model (t : tree) : err + list nat :=
  match mapM (fun lf : leaf => lf) (leaves t) with Some ids => inr ids | None => inl EType end.

Lemma gen_flatten_cells_eq : forall t, gen_flatten_cells t = cells_model t.
Proof.
  unfold cells_model. induction t as [c | l IH] using tree_ind'.
  - destruct c; reflexivity.
  - cbn [gen_flatten_cells leaves]. induction IH as [|x r Hx Hr IHr]; [reflexivity|].
    cbn [flat_mapE flat_map]. rewrite mapM_app, Hx.
    destruct (mapM (fun lf : leaf => lf) (leaves x)); [|reflexivity].
    rewrite IHr. destruct (mapM (fun lf : leaf => lf) (flat_map leaves r)); reflexivity.
Qed.

(* what np.vstack / np.concatenate of the collected arrays / columns are, in the model's words *)
Lemma flat_rows_pop_ids h t :
  flat_rows h (leaves t) = flat_map (fun id => match nth_error h id with Some c => rows c | None => [] end) (pop_ids t).
Proof.
  unfold flat_rows, pop_ids. induction (leaves t) as [|[id|] r IH]; simpl; auto. rewrite IH. reflexivity.
Qed.

Lemma flat_field_pop_ids k h t :
  flat_field k h (leaves t) = flat_map (fun id => match nth_error h id with Some c => col k c | None => [] end) (pop_ids t).
Proof.
  unfold flat_field, pop_ids. induction (leaves t) as [|[id|] r IH]; simpl; auto. rewrite IH. reflexivity.
Qed.

(* ------------------------------------------------------------------ 6. set_flattened: split offsets *)
Lemma gen_fill_spec k : forall t vals c h, 0 <= c ->
  c <= snd (gen_fill (Z.of_nat k) t vals c h) /\
  fold_left (fill_leaf k) (leaves t) (h, skipn (Z.to_nat c) vals) =
  (fst (gen_fill (Z.of_nat k) t vals c h), skipn (Z.to_nat (snd (gen_fill (Z.of_nat k) t vals c h))) vals).
Proof.
  induction t as [lf | l IH] using tree_ind'; intros vals c h Hc.
  - destruct lf as [id|]; cbn [gen_fill leaves fold_left fst snd].
    + unfold fill_leaf, py_setcol, py_nrows, zlength.
      destruct (nth_error h id) as [cl|]; cbn [fst snd].
      * split; [lia|].
        erewrite py_slice_firstn with (n := length (rows cl)) by lia.
        rewrite skipn_skipn', ?Nat2Z.id. f_equal; try reflexivity; f_equal; lia.
      * split; [lia|]. f_equal; try reflexivity; f_equal; lia.
    + split; [lia | reflexivity].
  - cbn [gen_fill leaves]. rewrite fold_left_flat_map.
    cut (forall c h, 0 <= c ->
           c <= snd (fold_left (fun st sub => gen_fill (Z.of_nat k) sub vals (snd st) (fst st)) l (h, c)) /\
           fold_left (fun s x => fold_left (fill_leaf k) (leaves x) s) l (h, skipn (Z.to_nat c) vals) =
           (fst (fold_left (fun st sub => gen_fill (Z.of_nat k) sub vals (snd st) (fst st)) l (h, c)),
            skipn (Z.to_nat (snd (fold_left (fun st sub => gen_fill (Z.of_nat k) sub vals (snd st) (fst st)) l (h, c)))) vals)).
    { intros H. destruct (H c h Hc) as [H1 H2]. cbn [fst snd] in *. split; [exact H1 | exact H2]. }
    clear c h Hc. induction IH as [|x r Hx Hr IHr]; intros c h Hc.
    + cbn [fold_left fst snd]. split; [lia | reflexivity].
    + cbn [fold_left fst snd]. destruct (Hx vals c h Hc) as [H1 H2]. rewrite H2.
      destruct (gen_fill (Z.of_nat k) x vals c h) as [h1 c1] eqn:E. cbn [fst snd] in *.
      destruct (IHr c1 h1 ltac:(lia)) as [H3 H4]. split; [lia | exact H4].
Qed.

Lemma gen_fill_eq : forall k t vals h,
  fst (gen_fill (Z.of_nat k) t vals gen_set_flattened_start h) = fill k h (leaves t) vals.
Proof.
  intros k t vals h. unfold fill.
  destruct (gen_fill_spec k t vals 0 h ltac:(lia)) as [_ H].
  unfold gen_set_flattened_start. change (skipn (Z.to_nat 0) vals) with vals in H. rewrite H. reflexivity.
Qed.

(* ------------------------------------------------------------------ 7. slicing: take, result shape, nested_list *)
Fixpoint resolve_idx (sh : list nat) (dims : list (list Z)) : option (list (list nat)) :=
  match sh, dims with
  | n :: sh', js :: rest =>
      match mapM (pyidx n) js with
      | None => None
      | Some ks => match resolve_idx sh' rest with None => None | Some r => Some (ks :: r) end
      end
  | [], [] => Some []
  | _, _ => None
  end.

Lemma resolve_take_idx : forall sh dims idxs, resolve_take sh dims = inr idxs -> resolve_idx sh dims = Some idxs.
Proof.
  induction sh as [|n sh IH]; intros [|js rest] idxs H; cbn [resolve_take resolve_idx] in *; try discriminate.
  - inversion H. reflexivity.
  - destruct (mapM (pyidx n) js) as [ks|]; [|discriminate]. destruct ks as [|k0 ks]; [discriminate|].
    destruct (resolve_take sh rest) as [e|r] eqn:E; [discriminate|]. inversion H; subst.
    rewrite (IH _ _ E). reflexivity.
Qed.

Lemma gen_take_ok : forall sh dims idxs t,
  shaped sh t -> resolve_idx sh dims = Some idxs -> gen_take dims t = inr (take idxs t).
Proof.
  induction sh as [|n sh IH]; intros [|js rest] idxs t Hs H; cbn [resolve_idx] in H; try discriminate.
  - inversion H. reflexivity.
  - destruct (mapM (pyidx n) js) as [ks|] eqn:Ek; [|discriminate].
    destruct (resolve_idx sh rest) as [r|] eqn:Er; [|discriminate]. inversion H; subst idxs. clear H.
    destruct t as [c|l]; cbn [shaped] in Hs; [contradiction|]. destruct Hs as [Hlen Hall].
    cbn [gen_take take].
    assert (G : mapE (fun i => match py_getitem (Node l) i with inl e => inl e | inr sub => gen_take rest sub end) js
                = inr (map (fun i => take r (child (Node l) i)) ks)).
    { revert ks Ek. induction js as [|j js IHj]; intros ks Ek; cbn [mapM] in Ek.
      - inversion Ek. reflexivity.
      - destruct (pyidx n j) as [k|] eqn:Ej; [|discriminate].
        destruct (mapM (pyidx n) js) as [ks'|]; [|discriminate]. inversion Ek; subst ks.
        cbn [mapE map]. unfold py_getitem at 1. rewrite Hlen, Ej.
        pose proof (pyidx_lt _ _ _ Ej) as Hk.
        destruct (nth_error l k) as [sub|] eqn:En; [|apply nth_error_None in En; lia].
        assert (Hsub : shaped sh sub).
        { rewrite Forall_forall in Hall. apply Hall. eapply nth_error_In. exact En. }
        rewrite (IH rest r sub Hsub Er). rewrite (IHj ks' eq_refl).
        cbn [child]. erewrite nth_error_nth by exact En. reflexivity. }
    rewrite G. reflexivity.
Qed.

(* in the model's words: whenever the model's __getitem__ goes on to build the slice, the translated take
   returns exactly the model's `take`, and the new shape [len(i) for i in indices] is map length *)
Lemma gen_take_model : forall sh raw idxs t,
  shaped sh t -> resolve_take sh raw = inr idxs -> gen_take raw t = inr (take idxs t).
Proof. intros. eapply gen_take_ok; eauto. apply resolve_take_idx. assumption. Qed.

Lemma gen_nested_list_eq : forall sh x, gen_nested_list (map Z.of_nat sh) x = tfill sh x.
Proof.
  induction sh as [|n sh IH]; intros x; cbn [map gen_nested_list tfill]; [reflexivity|].
  rewrite IH, map_const. unfold py_range. rewrite map_length, seq_length, Nat2Z.id. reflexivity.
Qed.

(* ------------------------------------------------------------------ 8. add_fields / remove_fields / validate_fields *)
Definition add_guard_model (fields names : list Z) : cres :=
  if existsb (fun x => memz x fields) names then CRaise EValue
  else if negb (nodupb names) then CRaise EValue else COk.

Lemma gen_add_guard_eq : forall fields names, gen_add_guard fields names = add_guard_model fields names.
Proof.
  intros fields names. unfold gen_add_guard, add_guard_model.
  rewrite existsb_ext' with (g := fun x => memz x fields) by (intros x; destruct (memz x fields); reflexivity).
  pose proof (set_len_nodupb names) as Hs.
  destruct (nodupb names); cbn [negb];
    [ assert (py_set_len names = zlength names) by (apply Hs; reflexivity)
    | assert (py_set_len names <> zlength names) by (intros E; apply Hs in E; discriminate) ]; crush.
Qed.

Lemma gen_add_fields_eq : forall fields names, gen_add_fields fields names = fields ++ names.
Proof. reflexivity. Qed.

Lemma gen_add_units_eq : forall units names, gen_add_units units names = units ++ repeat 0 (length names).
Proof. intros. unfold gen_add_units, py_repeat, zlength. rewrite Nat2Z.id. reflexivity. Qed.

Definition validate_fields_model (isseq : bool) (names : list Z) : cres :=
  if isseq then (if nodupb names then COk else CRaise EValue) else CRaise EType.

Lemma gen_validate_fields_eq : forall isseq names, gen_validate_fields isseq names = validate_fields_model isseq names.
Proof.
  intros isseq names. unfold gen_validate_fields, validate_fields_model.
  pose proof (set_len_nodupb names) as Hs.
  destruct (nodupb names);
    [ assert (py_set_len names = zlength names) by (apply Hs; reflexivity)
    | assert (py_set_len names <> zlength names) by (intros E; apply Hs in E; discriminate) ]; crush.
Qed.

(* the dictionary {name: i} of unique names is index_of *)
Lemma last_index_NoDup x : forall l i acc, NoDup l ->
  last_index x l i acc = match index_of x l with Some k => Some (i + Z.of_nat k) | None => acc end.
Proof.
  induction l as [|y l IH]; intros i acc Hnd; cbn [last_index index_of]; [reflexivity|].
  inversion Hnd as [|y' l' Hnotin Hnd']; subst. rewrite (IH _ _ Hnd').
  destruct (Z.eqb_spec x y) as [->|Hne].
  - assert (E : index_of y l = None) by (apply index_of_None; exact Hnotin). rewrite E. f_equal. lia.
  - destruct (index_of x l) as [k|]; cbn [option_map]; [f_equal; lia | reflexivity].
Qed.

Lemma gen_remove_indices_eq : forall fields names, NoDup fields ->
  map Z.to_nat (gen_remove_indices fields names) = filter_map (fun x => index_of x fields) names.
Proof.
  intros fields names Hnd. unfold gen_remove_indices.
  induction names as [|x names IH]; cbn [flat_map filter_map map]; [reflexivity|].
  rewrite map_app, IH. unfold py_enum_dict_get. rewrite (last_index_NoDup x fields 0 None Hnd).
  destruct (index_of x fields) as [k|] eqn:E.
  - assert (Hm : memz x fields = true).
    { apply memz_In. destruct (in_dec Z.eq_dec x fields) as [H|H]; [exact H|]. apply index_of_None in H. congruence. }
    rewrite Hm. cbn [negb map app]. f_equal. lia.
  - assert (Hm : memz x fields = false).
    { apply index_of_None in E. destruct (memz x fields) eqn:M; [apply memz_In in M; contradiction | reflexivity]. }
    rewrite Hm. reflexivity.
Qed.

Lemma memz_map_of_nat i rm : memz (Z.of_nat i) (map Z.of_nat rm) = memb i rm.
Proof.
  unfold memz, memb. induction rm as [|y rm IH]; simpl; auto. rewrite IH. f_equal.
  destruct (Nat.eqb_spec i y), (Z.eqb_spec (Z.of_nat i) (Z.of_nat y)); try reflexivity; lia.
Qed.

Lemma gen_remove_keep_eq : forall fields rm,
  gen_remove_keep fields (map Z.of_nat rm) =
  map Z.of_nat (filter (fun i => negb (memb i rm)) (seq 0 (length fields))).
Proof.
  intros fields rm. unfold gen_remove_keep, py_range, zlength. rewrite Nat2Z.id.
  induction (seq 0 (length fields)) as [|i r IH]; cbn [map filter]; [reflexivity|].
  unfold py_sorted_set in *. rewrite memz_zdedup, memz_map_of_nat, IH.
  destruct (memb i rm); reflexivity.
Qed.

(* ------------------------------------------------------------------ 9. validate_vector_data: one list level per fixed dimension *)
Definition vdata_level_model (islist : bool) (len n : nat) : cres :=
  if islist then (if Nat.eqb len n then COk else CRaise EValue) else CRaise EType.

Lemma gen_vdata_level_eq : forall islist len n,
  gen_vdata_level islist (Z.of_nat len) (Z.of_nat n) = vdata_level_model islist len n.
Proof. intros. unfold gen_vdata_level, vdata_level_model. crush. Qed.

(* recursion into the next level exactly while more than one dimension is left *)
Lemma gen_vdata_recurse_eq : forall sh : list nat,
  gen_vdata_recurse (zlength sh) = match sh with _ :: _ :: _ => true | _ => false end.
Proof. intros [|a [|b r]]; unfold gen_vdata_recurse, zlength; cbn [length]; crush. Qed.

(* ------------------------------------------------------------------ 9b. single-cell test, multi-cell value guards *)
Lemma single_model (idxs : list (list Z)) :
  forallb (fun l => Nat.eqb (length l) 1) (map (map Z.to_nat) idxs) = forallb (fun i => zlength i =? 1) idxs.
Proof. induction idxs as [|i r IH]; simpl; auto. rewrite IH, map_length. unfold zlength. f_equal. lia. Qed.

Ltac single gen :=
  intros idxs; rewrite single_model; unfold gen;
  rewrite forallb_ext' with (g := fun i => zlength i =? 1) by (intros i; crush); crush.
Lemma gen_get_data_single_eq : forall idxs,
  gen_get_data_single idxs = forallb (fun l => Nat.eqb (length l) 1) (map (map Z.to_nat) idxs).
Proof. single gen_get_data_single. Qed.
Lemma gen_set_data_single_eq : forall idxs,
  gen_set_data_single idxs = forallb (fun l => Nat.eqb (length l) 1) (map (map Z.to_nat) idxs).
Proof. single gen_set_data_single. Qed.

Definition multi_guard_model (islist : bool) (nvals npaths : nat) : cres :=
  if islist then (if negb (Nat.eqb nvals npaths) then CRaise EValue else COk) else CRaise EType.
Lemma gen_set_data_multi_guard_eq : forall islist nv np,
  gen_set_data_multi_guard islist (Z.of_nat nv) (Z.of_nat np) = multi_guard_model islist nv np.
Proof. intros. unfold gen_set_data_multi_guard, multi_guard_model. crush. Qed.
Lemma gen_setitem_multi_guard_eq : forall islist nv np,
  gen_setitem_multi_guard islist (Z.of_nat nv) (Z.of_nat np) = multi_guard_model islist nv np.
Proof. intros. unfold gen_setitem_multi_guard, multi_guard_model. crush. Qed.

(* ------------------------------------------------------------------ 10. structural facts *)
Lemma gen_facts :
  gen_flatten_returns = [RetFreshEmpty; RetFreshStack] /\
  gen_field_flatten_returns = [RetFreshEmpty; RetFreshConcat] /\
  gen_copy_datasrc = SrcDeepcopy /\ gen_from_data_datasrc = SrcValidated /\ gen_getitem_datasrc = SrcTake /\
  gen_expand_scheme = SchemeMapRebuild /\ gen_prune_scheme = SchemeMapRebuild /\ gen_apply_scheme = SchemeEffect /\
  gen_get_data_order = TravNdindex /\ gen_set_data_order = TravNdindexEnumerate /\ gen_setitem_order = TravNdindexEnumerate.
Proof. repeat split; reflexivity. Qed.
