(* C15 — FIXED proof script of the source tie: the functions that harness/c15_tie.py translated on THIS run
   from the source of DriftCorrection.preprocess / align_translation, DriftInterpolator.transform_rows /
   transform_coordinates and bilinear_kde (GenC15.Gen_C15) equal the definitions of the hand-written model
   coq/model/C15_Model.v for ALL arguments.  The script does not depend on local names, re-assignments,
   the order of independent statements or the association / order of sums and products in the source: the
   translator inlines locals, and arithmetic goals are closed by ring / field after unfolding. *)
From QV.lib Require Import Prelude Chunks C15_TieLib.
From QV.model Require Import C15_Model.
From QV.proof Require Import C15_Proofs C15_Proofs_Ext.
From GenC15 Require Import Gen_C15.
From Coq Require Import QArith Qround Qfield Lqa.
Local Open Scope Q_scope.

(* every np_linspace of the generated terms is one of the model's three: centred on the image width,
   centred on the image height, or the unit interval *)
Ltac canon_linspace H W :=
  repeat match goal with
  | |- context [np_linspace ?a ?b ?n ?i] =>
      first [ rewrite (np_linspace_unit a b n i) by (unfold half_extent; field)
            | rewrite (np_linspace_centred a b W n i) by (unfold half_extent; field)
            | rewrite (np_linspace_centred a b H n i) by (unfold half_extent; field) ]
  end.

(* ------------------------------------------------------------------ preprocess *)
Theorem gen_scan_fast_eq s c : veqv (gen_scan_fast s c) (scan_fast s c).
Proof. unfold veqv, gen_scan_fast, scan_fast. cbn [fst snd]. split; ring. Qed.

Theorem gen_scan_slow_eq s c : veqv (gen_scan_slow s c) (scan_slow s c).
Proof. unfold veqv, gen_scan_slow, scan_slow. cbn [fst snd]. split; ring. Qed.

Ltac canvas_tac :=
  first [ apply py_int_round2 | apply py_int_round2' ]; field.

Theorem gen_canvas_rows_eq H W pad : gen_canvas_rows H W pad = canvas_dim H pad.
Proof. unfold gen_canvas_rows, canvas_dim. canvas_tac. Qed.

Theorem gen_canvas_cols_eq H W pad : gen_canvas_cols H W pad = canvas_dim W pad.
Proof. unfold gen_canvas_cols, canvas_dim. canvas_tac. Qed.

Theorem gen_init_knot_eq rows cols H W K s c r j :
  veqv (gen_init_knot rows cols H W K s c r j) (init_knot rows cols H W K s c r j).
Proof.
  unfold veqv, gen_init_knot, init_knot, canvas_centre, scan_fast, scan_slow. cbn [fst snd].
  split; canon_linspace H W; ring.
Qed.

(* ------------------------------------------------------------------ DriftInterpolator *)
Theorem gen_u_eq H W col : gen_u H W col == u_param W col.
Proof. unfold gen_u, u_param. canon_linspace H W. reflexivity. Qed.

(* interpolation on values that agree pointwise *)
Lemma lagrange_nodes_vals_ext nodes nodes' vals vals' K x x' :
  (forall j, nodes j == nodes' j) -> (forall j, vals j == vals' j) -> x == x' ->
  lagrange nodes vals K x == lagrange nodes' vals' K x'.
Proof.
  intros Hn Hv Hx. unfold lagrange.
  induction (seq 0 K) as [|j l IH]; cbn [fold_right]; [reflexivity|].
  rewrite IH. apply Qplus_comp; [|reflexivity]. rewrite (Hv j). apply Qmult_comp; [reflexivity|].
  unfold lagrange_weight. clear IH.
  induction (seq 0 K) as [|m l' IH']; cbn [fold_right]; [reflexivity|].
  destruct (Nat.eqb m j); [exact IH'|]. rewrite IH', Hx, (Hn m), (Hn j). reflexivity.
Qed.

Lemma unit_linspace_eq K j : np_linspace 0 1 K j == basis K j.
Proof. reflexivity. Qed.

Theorem gen_transform_rows_eq H W K s c (kn : nat -> vec) col :
  (1 <= K <= 4)%nat ->
  oveq (gen_transform_rows H W K s c kn col)
       ( transform_row_comp W K (fst (scan_fast s c)) (fun j => fst (kn j)) col,
         transform_row_comp W K (snd (scan_fast s c)) (fun j => snd (kn j)) col ).
Proof.
  intros HK. unfold gen_transform_rows.
  destruct K as [|[|[|[|[|K]]]]]; try lia;
    cbn [Nat.eqb interp1d opt_pair oveq transform_row_comp]; unfold veqv; cbn [fst snd];
    unfold gen_scan_fast, scan_fast, u_param, basis; cbn [fst snd].
  - (* 1 knot: extrapolation along the fast axis with input_shape[1] - 1 *)
    split; canon_linspace H W; ring.
  - (* 2 knots: the linear interpolant *)
    split; canon_linspace H W; unfold Qdiv; ring.
  - (* 3 knots: interpolating polynomial *)
    split; apply lagrange_nodes_vals_ext; intros; try reflexivity; canon_linspace H W; reflexivity.
  - (* 4 knots *)
    split; apply lagrange_nodes_vals_ext; intros; try reflexivity; canon_linspace H W; reflexivity.
Qed.

(* outside 1..4 knots the translated code is outside the interp1d contract (0 knots: scipy raises;
   5 or more: a genuine spline): the tie says nothing there, and says so *)
Theorem gen_transform_rows_outside H W K s c kn col :
  (K = 0 \/ 5 <= K)%nat -> gen_transform_rows H W K s c kn col = None.
Proof.
  intros HK. unfold gen_transform_rows.
  destruct K as [|[|[|[|[|K]]]]]; try lia; reflexivity.
Qed.

Theorem gen_transform_coordinates_eq H W K s c (kn : knots_t) r col :
  (1 <= K <= 4)%nat ->
  oveq (gen_transform_coordinates H W K s c kn r col) (transform_coordinates W K s c kn r col).
Proof.
  intros HK. unfold gen_transform_coordinates, transform_coordinates.
  repeat match goal with |- context [if ?b then _ else _] => destruct b end;
    exact (gen_transform_rows_eq H W K s c (kn r) col HK).
Qed.

(* composed: the coordinates the translated transform_coordinates computes from the knots the translated
   preprocess placed are the property's formula (canvas centre + rotated offset from the image centre) *)
Lemma oveq_trans o v w : oveq o v -> veqv v w -> oveq o w.
Proof.
  destruct o as [u|]; [|intros []]. cbn [oveq]. unfold veqv. intros [A B] [C D].
  split; etransitivity; eassumption.
Qed.

Theorem gen_coords_exact rows cols H W K s c r col :
  (1 <= K <= 4)%nat -> (r < H)%nat -> (col < W)%nat ->
  oveq (gen_transform_coordinates H W K s c (gen_init_knot rows cols H W K s c) r col)
       (expected_coordinate rows cols H W s c r col).
Proof.
  intros HK Hr Hc.
  eapply oveq_trans; [apply gen_transform_coordinates_eq; exact HK|].
  (* transform_coordinates respects pointwise-equal knots *)
  assert (E : veqv (transform_coordinates W K s c (gen_init_knot rows cols H W K s c) r col)
                   (transform_coordinates W K s c (init_knot rows cols H W K s c) r col)).
  { unfold veqv, transform_coordinates. cbn [fst snd].
    split; (apply transform_row_comp_ext; [exact HK|]); intros j _;
      [exact (proj1 (gen_init_knot_eq rows cols H W K s c r j)) | exact (proj2 (gen_init_knot_eq rows cols H W K s c r j))]. }
  destruct E as [E1 E2]. destruct (coords_exact rows cols H W K s c r col HK Hr Hc) as [C1 C2].
  unfold veqv. split; [rewrite E1; exact C1 | rewrite E2; exact C2].
Qed.

(* ------------------------------------------------------------------ bilinear_kde: the splat *)
(* sample by sample: the translated taps are the four entries of the model's splat, in order *)
Theorem gen_taps_splat rows cols p :
  Forall2 centry_eq
    (map (fun t : Z * Z * (vec -> Q) => (gen_index rows cols (fst (fst t)) (snd (fst t)) p, snd t p)) gen_taps)
    (splat rows cols p).
Proof.
  unfold gen_taps, splat, gen_index, np_floor_int. cbn [map fst snd].
  repeat (constructor; [unfold centry_eq; cbn [fst snd]; split; [apply ravel_wrap_flat; ring | ring]|]).
  constructor.
Qed.

Lemma kde_batches_some b pts : kde_batches (Some b) pts = chunks b pts.
Proof. reflexivity. Qed.

(* the translated accumulation loop = the model's batched cell weight, for every batch size *)
Theorem gen_pix_count_batched rows cols b pts k :
  gen_pix_count rows cols (Some b) pts k == cell_weight_batched rows cols (chunks b pts) k.
Proof.
  unfold gen_pix_count, cell_weight_batched. rewrite kde_accumulate_contributions, kde_batches_some.
  apply qsum_map_ext'. intros batch _. apply cell_weight_Forall2.
  unfold contributions. apply Forall2_flat_map. intros p. apply gen_taps_splat.
Qed.

(* hence: ALL samples are splatted — the translated pix_count is the model's cell weight of the whole
   point list, for max_batch_size None (one batch) and every max_batch_size >= 1 *)
Theorem gen_pix_count_eq rows cols mb pts k :
  (forall b, mb = Some b -> (1 <= b)%nat) ->
  gen_pix_count rows cols mb pts k == cell_weight (contributions rows cols pts) k.
Proof.
  intros Hb. destruct mb as [b|].
  - rewrite gen_pix_count_batched. apply cell_weight_batched_chunks. apply Hb. reflexivity.
  - destruct pts as [|p pts].
    + reflexivity.
    + change (gen_pix_count rows cols None (p :: pts) k)
        with (gen_pix_count rows cols (Some (length (p :: pts))) (p :: pts) k).
      rewrite gen_pix_count_batched. apply cell_weight_batched_chunks. cbn [length]. lia.
Qed.

(* ------------------------------------------------------------------ align_translation *)
Lemma measured_tail n shifts i :
  (i < n)%nat -> (if (Nat.leb 1 i && Nat.ltb i n)%bool then shifts i else ((0, 0) : vec)) = measured shifts i.
Proof.
  intros Hi. destruct i as [|i]; [reflexivity|]. cbn [measured Nat.leb andb].
  destruct (Nat.ltb_spec (S i) n); [reflexivity | lia].
Qed.

Lemma np_mean0_measured n shifts :
  veqv (np_mean0 n (fun i => if (Nat.leb 1 i && Nat.ltb i n)%bool then shifts i else ((0, 0) : vec)))
       (mean_shift n (measured shifts)).
Proof.
  unfold veqv, np_mean0, mean_shift. cbn [fst snd].
  split; (apply Qmult_comp; [|reflexivity]); apply qsum_map_ext'; intros i Hi; apply in_seq in Hi;
    rewrite measured_tail by lia; reflexivity.
Qed.

Lemma Qltb_comp a a' b b' : a == a' -> b == b' -> Qltb a b = Qltb a' b'.
Proof.
  intros Ea Eb. unfold Qltb. f_equal.
  destruct (Qle_bool b a) eqn:E1, (Qle_bool b' a') eqn:E2; try reflexivity.
  - apply Qle_bool_iff in E1. rewrite Ea, Eb in E1. apply Qle_bool_iff in E1. congruence.
  - apply Qle_bool_iff in E2. rewrite <- Ea, <- Eb in E2. apply Qle_bool_iff in E2. congruence.
Qed.

Theorem gen_applied_shift_eq n mis shifts i :
  (i < n)%nat -> veqv (gen_applied_shift n mis shifts i) (applied_shift n mis shifts i).
Proof.
  intros Hi. unfold gen_applied_shift, applied_shift. cbv zeta.
  destruct (np_mean0_measured n shifts) as [M1 M2].
  set (g := fun i0 : nat => if (Nat.leb 1 i0 && Nat.ltb i0 n)%bool then shifts i0 else ((0, 0) : vec)) in *.
  assert (D : forall i0, (i0 < n)%nat ->
            veqv (fst (g i0) - fst (np_mean0 n g), snd (g i0) - snd (np_mean0 n g))
                 (fst (measured shifts i0) - fst (mean_shift n (measured shifts)),
                  snd (measured shifts i0) - snd (mean_shift n (measured shifts)))).
  { intros i0 Hi0. unfold veqv. cbn [fst snd]. unfold g at 1 3. rewrite measured_tail by exact Hi0.
    rewrite M1, M2. split; reflexivity. }
  destruct mis as [t|]; [|apply D; exact Hi].
  destruct (Nat.eqb_spec i (n - 1)) as [E|NE]; cbn [andb].
  - subst i. unfold norm_lt.
    destruct (D (n - 1)%nat Hi) as [D1 D2]. cbn [fst snd] in D1, D2.
    cbn [fst snd].
    match goal with
    | |- veqv (if (_ && Qltb ?X ?T)%bool then _ else _) (if (_ && Qltb ?X' _)%bool then _ else _) =>
        replace (Qltb X T) with (Qltb X' T)
          by (symmetry; apply Qltb_comp; [apply Qplus_comp; apply Qmult_comp; first [exact D1 | exact D2] | reflexivity])
    end.
    destruct (Qltb 0 t); cbn [andb]; [|apply D; exact Hi].
    match goal with |- context [if ?b then _ else _] => destruct b end;
      [unfold veqv; split; reflexivity | apply D; exact Hi].
  - match goal with |- context [if ?b then _ else _] => destruct b end; apply D; exact Hi.
Qed.

Theorem gen_align_knots_eq n mis shifts (kn : nat -> knots_t) i r j :
  (i < n)%nat ->
  veqv (gen_align_knots n mis shifts kn i r j) (align_translation_knots n mis shifts kn i r j).
Proof.
  intros Hi. unfold gen_align_knots, align_translation_knots, vadd, veqv. cbn [fst snd].
  destruct (gen_applied_shift_eq n mis shifts i Hi) as [A1 A2]. rewrite A1, A2. split; reflexivity.
Qed.

(* so the fixed-point clause speaks about the translated source: zero measured shifts move no knot *)
Theorem gen_translation_fixed_point n mis shifts (kn : nat -> knots_t) i r j :
  (i < n)%nat ->
  (forall k, (1 <= k < n)%nat -> fst (shifts k) == 0 /\ snd (shifts k) == 0) ->
  veqv (gen_align_knots n mis shifts kn i r j) (kn i r j).
Proof.
  intros Hi Hz. destruct (gen_align_knots_eq n mis shifts kn i r j Hi) as [A1 A2].
  destruct (translation_fixed_point n mis shifts kn i r j Hi Hz) as [F1 F2].
  unfold veqv. split; [rewrite A1; exact F1 | rewrite A2; exact F2].
Qed.

(* ------------------------------------------------------------------ statements without the helper predicates *)
Lemma oveq_exists o v : oveq o v -> exists w, o = Some w /\ fst w == fst v /\ snd w == snd v.
Proof. destruct o as [w|]; [|intros []]. intros [A B]. exists w. repeat split; assumption. Qed.

Theorem gen_transform_coordinates_tie H W K s c (kn : knots_t) r col :
  (1 <= K <= 4)%nat ->
  exists w, gen_transform_coordinates H W K s c kn r col = Some w /\
            fst w == fst (transform_coordinates W K s c kn r col) /\
            snd w == snd (transform_coordinates W K s c kn r col).
Proof. intros HK. apply oveq_exists. apply gen_transform_coordinates_eq. exact HK. Qed.

Theorem gen_transform_rows_tie H W K s c (kn : nat -> vec) col :
  (1 <= K <= 4)%nat ->
  exists w, gen_transform_rows H W K s c kn col = Some w /\
            fst w == transform_row_comp W K (fst (scan_fast s c)) (fun j => fst (kn j)) col /\
            snd w == transform_row_comp W K (snd (scan_fast s c)) (fun j => snd (kn j)) col.
Proof. intros HK. apply (oveq_exists _ _ (gen_transform_rows_eq H W K s c kn col HK)). Qed.

Theorem gen_coords_exact_tie rows cols H W K s c r col :
  (1 <= K <= 4)%nat -> (r < H)%nat -> (col < W)%nat ->
  exists w, gen_transform_coordinates H W K s c (gen_init_knot rows cols H W K s c) r col = Some w /\
    fst w == (inject_Z rows - 1) / 2 + (qn col - (qn W - 1) / 2) * s + (qn r - (qn H - 1) / 2) * c /\
    snd w == (inject_Z cols - 1) / 2 + (qn col - (qn W - 1) / 2) * c + (qn r - (qn H - 1) / 2) * - s.
Proof.
  intros HK Hr Hc. exact (oveq_exists _ _ (gen_coords_exact rows cols H W K s c r col HK Hr Hc)).
Qed.

(* the weight map computed by the translated splat sums to the number of samples *)
Theorem gen_weight_map_total rows cols mb pts :
  (0 < rows)%Z -> (0 < cols)%Z -> (forall b, mb = Some b -> (1 <= b)%nat) ->
  qsum (map (fun t => gen_pix_count rows cols mb pts (Z.of_nat t)) (seq 0 (Z.to_nat (rows * cols))))
  == qn (length pts).
Proof.
  intros Hr Hc Hb. rewrite <- (weight_map_total rows cols pts Hr Hc). unfold weight_map.
  apply qsum_map_ext'. intros t _. apply gen_pix_count_eq. exact Hb.
Qed.

(* straight scan lines described by K or K' knots: the translated source gives identical coordinates *)
Theorem gen_knots_agree rows cols H W K K' s c r col :
  (1 <= K <= 4)%nat -> (1 <= K' <= 4)%nat -> (r < H)%nat -> (col < W)%nat ->
  exists w w',
    gen_transform_coordinates H W K s c (gen_init_knot rows cols H W K s c) r col = Some w /\
    gen_transform_coordinates H W K' s c (gen_init_knot rows cols H W K' s c) r col = Some w' /\
    fst w == fst w' /\ snd w == snd w'.
Proof.
  intros HK HK' Hr Hc.
  destruct (gen_coords_exact_tie rows cols H W K s c r col HK Hr Hc) as [w [E [A B]]].
  destruct (gen_coords_exact_tie rows cols H W K' s c r col HK' Hr Hc) as [w' [E' [A' B']]].
  exists w, w'. repeat split; try assumption; [rewrite A, A' | rewrite B, B']; reflexivity.
Qed.
