(* C20 — FIXED proof script, part 2 (round-3 extension), compiled at check time after
   C20_GenProofs.v against the file generated from the CURRENT source:

     coqc -Q /verif/coq QV -Q <build>/C20 Gen20 -o <build>/C20/C20_GenProofs2.vo C20_GenProofs2.v

   Contents
     A  every stretch over the WHOLE real line: monotone, F = F o clip01 for the clipping ones,
        identity for the two short-cut ones; the declared inverse composed with the stretch is
        clip01 on the whole line (hence the identity exactly on [0, 1])
     B  a general LinearStretch(slope, intercept): monotone iff the slope is not negative
     C  the constructor domains are tight: PowerLawStretch(0) has no inverse
     D  the FULL pipeline (interval map, stretch, masking) on extended values as ONE statement,
        with an order on the extended line (-inf <= x <= +inf, NaN incomparable)
     E  the pipeline with limits computed FROM THE DATA (min/max and centred intervals over R,
        data with NaN / inf entries, at least two distinct finite values) *)
From Coq Require Import Reals Lra List.
From QV.lib Require Import C20_NpReal.
From QV.model Require Import C20_Model.
From QV.proof Require Import C20_RLemmas C20_Proofs.
From Gen20 Require Import Gen_Norm C20_GenProofs.
Import ListNotations.
Local Open Scope R_scope.

(* ================================================================== A: stretches on the whole line *)
(* which stretch objects clip their argument: all but the two identity short-cuts
   (`LinearStretch()` and `PowerLawStretch(1.0)` return `values` untouched) *)
Definition cfg_clips (s : stretch_cfg) : Prop :=
  match s with
  | SLinearDefault => False
  | SPower p => p <> 1
  | _ => True
  end.

Lemma stretch_mono_line s : cfg_domain s -> forall x y, x <= y -> cfg_call s x <= cfg_call s y.
Proof. intros Hd. exact (so_mono _ (cfg_ok s Hd)). Qed.

Lemma cfg_call_clip s x : cfg_domain s -> cfg_clips s -> cfg_call s x = cfg_call s (clip01 x).
Proof.
  destruct s as [| p | a | a | a | a]; simpl; intros H Hc.
  - contradiction.
  - rewrite !power_spec. destruct (Req_EM_T p 1); [contradiction |].
    unfold c_power. now rewrite clip01_idem.
  - dom_pos H a. rewrite (log_spec a x), (log_spec a (clip01 x)) by assumption.
    unfold c_log. now rewrite clip01_idem.
  - dom_pos H a. rewrite (invlog_spec a x), (invlog_spec a (clip01 x)) by assumption.
    unfold c_invlog. now rewrite clip01_idem.
  - dom_pos H a. rewrite (asinh_spec a x), (asinh_spec a (clip01 x)) by assumption.
    unfold c_asinh. now rewrite clip01_idem.
  - dom_pos H a. rewrite (sinh_spec a x), (sinh_spec a (clip01 x)) by assumption.
    unfold c_sinh. now rewrite clip01_idem.
Qed.

Lemma cfg_call_noclip s x : ~ cfg_clips s -> cfg_call s x = x.
Proof.
  destruct s as [| p | a | a | a | a]; simpl; intros Hc; try (exfalso; apply Hc; exact I).
  - apply linear_default_id.
  - rewrite power_spec. destruct (Req_EM_T p 1); [reflexivity | contradiction].
Qed.

Lemma stretch_range_line s x : cfg_domain s -> cfg_clips s -> 0 <= cfg_call s x <= 1.
Proof.
  intros Hd Hc. rewrite (cfg_call_clip s x Hd Hc).
  apply stretch_ok_range; [now apply cfg_ok | apply clip01_range].
Qed.

Lemma stretch_saturates s x :
  cfg_domain s -> cfg_clips s ->
  (x <= 0 -> cfg_call s x = 0) /\ (1 <= x -> cfg_call s x = 1).
Proof.
  intros Hd Hc. rewrite (cfg_call_clip s x Hd Hc). split; intros Hx.
  - rewrite clip01_low by exact Hx. apply (so_0 _ (cfg_ok s Hd)).
  - rewrite clip01_high by exact Hx. apply (so_1 _ (cfg_ok s Hd)).
Qed.

(* the declared inverse of a clipping stretch clips as well *)
Lemma cfg_inverse_clip s y :
  cfg_domain s -> cfg_clips s -> cfg_inverse_call s y = cfg_inverse_call s (clip01 y).
Proof.
  destruct s as [| p | a | a | a | a]; simpl; intros H Hc.
  - contradiction.
  - dom_pos H p. unfold PowerLawStretch_inverse_call. rewrite !power_spec.
    destruct (Req_EM_T (1 / p) 1) as [E | _].
    + exfalso. apply Hc. apply (f_equal (fun t => t * p)) in E.
      replace (1 / p * p) with 1 in E by (field; lra). lra.
    + unfold c_power. now rewrite clip01_idem.
  - dom_pos H a. unfold LogarithmicStretch_inverse_call.
    rewrite (invlog_spec a y), (invlog_spec a (clip01 y)) by assumption.
    unfold c_invlog. now rewrite clip01_idem.
  - dom_pos H a. unfold InverseLogarithmicStretch_inverse_call.
    rewrite (log_spec a y), (log_spec a (clip01 y)) by assumption.
    unfold c_log. now rewrite clip01_idem.
  - dom_pos H a. unfold InverseHyperbolicSineStretch_inverse_call.
    assert (0 < 1 / arcsinh (1 / a)) by (apply inv_pos, arcsinh_pos; now apply inv_pos).
    rewrite (sinh_spec _ y), (sinh_spec _ (clip01 y)) by assumption.
    unfold c_sinh. now rewrite clip01_idem.
  - dom_pos H a. unfold HyperbolicSineStretch_inverse_call.
    assert (0 < 1 / sinh (1 / a)) by (apply inv_pos, sinh_pos; now apply inv_pos).
    rewrite (asinh_spec _ y), (asinh_spec _ (clip01 y)) by assumption.
    unfold c_asinh. now rewrite clip01_idem.
Qed.

(* inverse o stretch and stretch o inverse on the WHOLE line: clip01 for the clipping
   stretches, the identity for the two short-cuts *)
Lemma stretch_inverse_line s x :
  cfg_domain s ->
  (cfg_clips s ->
   cfg_inverse_call s (cfg_call s x) = clip01 x /\ cfg_call s (cfg_inverse_call s x) = clip01 x) /\
  (~ cfg_clips s ->
   cfg_inverse_call s (cfg_call s x) = x /\ cfg_call s (cfg_inverse_call s x) = x).
Proof.
  intros Hd. split; intros Hc.
  - pose proof (clip01_range x) as Hr.
    destruct (stretch_inverse_lemma s (clip01 x) Hd Hr) as [H1 H2]. split.
    + rewrite (cfg_call_clip s x Hd Hc). exact H1.
    + rewrite (cfg_inverse_clip s x Hd Hc). exact H2.
  - destruct s as [| p | a | a | a | a]; simpl in Hc; try (exfalso; apply Hc; exact I).
    + apply linear_default_inverse.
    + simpl. unfold PowerLawStretch_inverse_call. rewrite !power_spec.
      destruct (Req_EM_T p 1) as [E | NE]; [| exfalso; apply Hc; exact NE].
      subst p. destruct (Req_EM_T (1 / 1) 1) as [_ | n]; [split; reflexivity |].
      exfalso. apply n. field.
Qed.

Lemma whole_line_lemma s :
  cfg_domain s ->
  (forall x y, x <= y -> cfg_call s x <= cfg_call s y) /\
  (cfg_clips s ->
   forall x, 0 <= cfg_call s x <= 1 /\ cfg_call s x = cfg_call s (clip01 x) /\
             (x <= 0 -> cfg_call s x = 0) /\ (1 <= x -> cfg_call s x = 1) /\
             cfg_inverse_call s (cfg_call s x) = clip01 x /\
             cfg_call s (cfg_inverse_call s x) = clip01 x) /\
  (~ cfg_clips s ->
   forall x, cfg_call s x = x /\ cfg_inverse_call s x = x).
Proof.
  intros Hd. split; [now apply stretch_mono_line |]. split.
  - intros Hc x.
    destruct (stretch_saturates s x Hd Hc) as [S0 S1].
    destruct (proj1 (stretch_inverse_line s x Hd) Hc) as [I1 I2].
    repeat split; try assumption; try (apply stretch_range_line; assumption).
    now apply cfg_call_clip.
  - intros Hc x. split; [now apply cfg_call_noclip |].
    destruct (proj2 (stretch_inverse_line s x Hd) Hc) as [I1 _].
    rewrite (cfg_call_noclip s x Hc) in I1. exact I1.
Qed.

(* ================================================================== B: general LinearStretch *)
Lemma linear_general_mono slope intercept :
  0 <= slope -> forall x y, x <= y ->
  LinearStretch_call slope intercept x <= LinearStretch_call slope intercept y.
Proof.
  intros Hs x y Hxy. rewrite !linear_spec.
  assert (Hc : c_linear slope intercept x <= c_linear slope intercept y).
  { unfold c_linear. pose proof (clip01_mono x y Hxy). nra. }
  destruct (Req_EM_T slope 1); [destruct (Req_EM_T intercept 0) |]; assumption.
Qed.

Lemma linear_negative_slope_refuted :
  ~ (forall slope intercept x y, x <= y ->
       LinearStretch_call slope intercept x <= LinearStretch_call slope intercept y).
Proof.
  intros H. specialize (H (-1) 1 0 1 ltac:(lra)). rewrite !linear_spec in H.
  destruct (Req_EM_T (-1) 1); [lra |].
  unfold c_linear in H. rewrite clip01_0, clip01_1 in H. lra.
Qed.

(* ================================================================== C: the domains are tight *)
(* power = 0 is rejected by the constructor, and has to be: the stretch would be constant on
   (0, 1] and no function could undo it *)
Lemma power_zero_call x : 0 < x <= 1 -> PowerLawStretch_call 0 x = 1.
Proof.
  intros Hx. rewrite power_spec. destruct (Req_EM_T 0 1); [lra |].
  unfold c_power. rewrite clip01_id by lra. rewrite pw_pos by lra.
  unfold Rpower. rewrite Rmult_0_l. apply exp_0.
Qed.

Lemma power_zero_not_invertible :
  ~ PowerLawStretch_domain 0 /\
  ~ (exists g : R -> R, forall x, 0 <= x <= 1 -> g (PowerLawStretch_call 0 x) = x).
Proof.
  split.
  - cbv beta delta [PowerLawStretch_domain]. intros H. apply H. lra.
  - intros [g Hg].
    pose proof (Hg (1 / 2) ltac:(lra)) as H1. pose proof (Hg 1 ltac:(lra)) as H2.
    rewrite power_zero_call in H1 by lra. rewrite power_zero_call in H2 by lra. lra.
Qed.

(* ================================================================== D: the pipeline on extended values *)
(* order of the extended line; NaN is comparable with nothing *)
Definition x_le (v w : xval R) : Prop :=
  match v, w with
  | XNaN, _ => False
  | _, XNaN => False
  | NInf, _ => True
  | _, PInf => True
  | Fin a, Fin b => a <= b
  | _, _ => False
  end.

(* CustomNormalization.__call__ with frozen limits: interval map, stretch, masked_invalid *)
Definition pipeline (s : stretch_cfg) (vmin vmax : R) (v : xval R) : xval R :=
  x_norm Rcarrier (cfg_call s) vmin vmax v.

Lemma pipeline_fin s vmin vmax x : pipeline s vmin vmax (Fin x) = Fin (norm s vmin vmax x).
Proof. apply x_norm_R_fin. Qed.

Lemma pipeline_value s vmin vmax v :
  cfg_domain s -> vmin <= vmax -> v <> XNaN ->
  exists y, pipeline s vmin vmax v = Fin y /\ 0 <= y <= 1 /\
            match v with
            | Fin x => y = norm s vmin vmax x
            | PInf => y = 1
            | NInf => y = 0
            | XNaN => False
            end.
Proof.
  intros Hd Hv Hn.
  destruct (norm_extended_lemma s vmin vmax Hd Hv) as [HF [HP [HN _]]].
  destruct v as [x | | |].
  - exists (norm s vmin vmax x). split; [apply HF |]. split; [now apply norm_range_lemma | reflexivity].
  - contradiction.
  - exists 1. split; [exact HP |]. split; [lra | reflexivity].
  - exists 0. split; [exact HN |]. split; [lra | reflexivity].
Qed.

Lemma pipeline_extended_lemma s vmin vmax :
  cfg_domain s -> vmin <= vmax ->
  (* NaN in <-> NaN out <-> masked; everything else is a number in [0, 1] *)
  (forall v, (pipeline s vmin vmax v = XNaN <-> v = XNaN) /\
             (x_masked (pipeline s vmin vmax v) = true <-> v = XNaN) /\
             (v <> XNaN -> exists y, pipeline s vmin vmax v = Fin y /\ 0 <= y <= 1)) /\
  (* non-decreasing along the extended line *)
  (forall v w y z, x_le v w ->
     pipeline s vmin vmax v = Fin y -> pipeline s vmin vmax w = Fin z -> y <= z) /\
  (* finite data: the translated real-valued normalisation; infinities: the ends *)
  (forall x, pipeline s vmin vmax (Fin x) = Fin (norm s vmin vmax x)) /\
  pipeline s vmin vmax NInf = Fin 0 /\ pipeline s vmin vmax PInf = Fin 1 /\
  (* limits *)
  (vmin < vmax -> pipeline s vmin vmax (Fin vmin) = Fin 0 /\ pipeline s vmin vmax (Fin vmax) = Fin 1).
Proof.
  intros Hd Hv.
  destruct (norm_extended_lemma s vmin vmax Hd Hv) as [HF [HP [HN HM]]].
  split; [| split; [| split; [| split; [| split]]]].
  - intros v. split; [apply x_norm_nan_iff |]. split; [apply HM |].
    intros Hn. destruct (pipeline_value s vmin vmax v Hd Hv Hn) as [y [E [R _]]]. now exists y.
  - intros v w y z Hle Ey Ez.
    assert (Hnv : v <> XNaN) by (destruct v; simpl in Hle; congruence || (intros E; discriminate E) || tauto).
    assert (Hnw : w <> XNaN).
    { destruct w; try (intros E; discriminate E). destruct v; simpl in Hle; contradiction. }
    destruct (pipeline_value s vmin vmax v Hd Hv Hnv) as [y' [Ey' [Ry Sy]]].
    destruct (pipeline_value s vmin vmax w Hd Hv Hnw) as [z' [Ez' [Rz Sz]]].
    rewrite Ey in Ey'. rewrite Ez in Ez'. injection Ey' as <-. injection Ez' as <-.
    destruct v as [a | | |], w as [b | | |]; simpl in Hle; try contradiction; subst; try lra.
    now apply norm_monotone_lemma.
  - exact HF.
  - exact HN.
  - exact HP.
  - intros Hlt. destruct (norm_endpoints_lemma s vmin vmax Hd Hlt) as [E0 E1].
    unfold pipeline. rewrite !HF, E0, E1. split; reflexivity.
Qed.

(* ================================================================== E: limits from the data, over R *)
Lemma Rk_min a b : k_min Rcarrier a b = Rmin a b.
Proof. unfold k_min, Rmin; simpl. destruct (Rle_dec a b); reflexivity. Qed.

Lemma Rk_max a b : k_max Rcarrier a b = Rmax a b.
Proof. unfold k_max, Rmax; simpl. destruct (Rle_dec a b); reflexivity. Qed.

Lemma list_min_R l : forall x,
  (list_min Rcarrier x l = x \/ In (list_min Rcarrier x l) l) /\
  list_min Rcarrier x l <= x /\ (forall y, In y l -> list_min Rcarrier x l <= y).
Proof.
  unfold list_min. induction l as [| a l IH]; intros x; simpl.
  - repeat split; [now left | lra | intros y []].
  - destruct (IH (k_min Rcarrier x a)) as [H1 [H2 H3]]. rewrite Rk_min in *.
    assert (Hm : Rmin x a = x \/ Rmin x a = a) by (unfold Rmin; destruct (Rle_dec x a); auto).
    pose proof (Rmin_l x a). pose proof (Rmin_r x a).
    split; [| split].
    + destruct H1 as [E | I]; [| right; right; exact I].
      destruct Hm as [Ex | Ea]; [left; congruence | right; left; congruence].
    + lra.
    + intros y [-> | Hy]; [lra | now apply H3].
Qed.

Lemma list_max_R l : forall x,
  (list_max Rcarrier x l = x \/ In (list_max Rcarrier x l) l) /\
  x <= list_max Rcarrier x l /\ (forall y, In y l -> y <= list_max Rcarrier x l).
Proof.
  unfold list_max. induction l as [| a l IH]; intros x; simpl.
  - repeat split; [now left | lra | intros y []].
  - destruct (IH (k_max Rcarrier x a)) as [H1 [H2 H3]]. rewrite Rk_max in *.
    assert (Hm : Rmax x a = x \/ Rmax x a = a) by (unfold Rmax; destruct (Rle_dec x a); auto).
    pose proof (Rmax_l x a). pose proof (Rmax_r x a).
    split; [| split].
    + destruct H1 as [E | I]; [| right; right; exact I].
      destruct Hm as [Ex | Ea]; [left; congruence | right; left; congruence].
    + lra.
    + intros y [-> | Hy]; [lra | now apply H3].
Qed.

(* (np.min, np.max) of the finite entries: attained, bounding, strictly ordered as soon as two
   finite entries differ *)
Lemma data_minmax_R data :
  (exists a b, In (Fin a) data /\ In (Fin b) data /\ a <> b) ->
  exists dmin dmax,
    data_minmax Rcarrier data = Some (dmin, dmax) /\
    In (Fin dmin) data /\ In (Fin dmax) data /\ dmin < dmax /\
    (forall x, In (Fin x) data -> dmin <= x <= dmax).
Proof.
  intros [a [b [Ha [Hb Hne]]]].
  apply finite_of_In in Ha. apply finite_of_In in Hb.
  unfold data_minmax.
  assert (Hall : forall x, In (Fin x) data <-> In x (finite_of data))
    by (intros x; symmetry; apply finite_of_In).
  destruct (finite_of data) as [| x0 r] eqn:E; [destruct Ha |].
  exists (list_min Rcarrier x0 r), (list_max Rcarrier x0 r).
  destruct (list_min_R r x0) as [M1 [M2 M3]]. destruct (list_max_R r x0) as [X1 [X2 X3]].
  assert (Hb1 : forall x, In x (x0 :: r) -> list_min Rcarrier x0 r <= x <= list_max Rcarrier x0 r).
  { intros x [<- | Hx]; [lra | split; [now apply M3 | now apply X3]]. }
  split; [reflexivity |]. split; [| split; [| split]].
  - apply Hall. destruct M1 as [-> | I]; [now left | now right].
  - apply Hall. destruct X1 as [-> | I]; [now left | now right].
  - pose proof (Hb1 a Ha). pose proof (Hb1 b Hb). lra.
  - intros x Hx. apply Hb1. now apply Hall.
Qed.

(* the pipeline on a data set, as the oracle reads the property: every entry of `data` under
   limits (vmin, vmax) with vmin < vmax that are themselves entries of the data *)
Definition pipeline_on_data (s : stretch_cfg) (vmin vmax : R) (data : list (xval R)) : Prop :=
  (forall v, In v data ->
     (x_masked (pipeline s vmin vmax v) = true <-> v = XNaN) /\
     (v <> XNaN -> exists y, pipeline s vmin vmax v = Fin y /\ 0 <= y <= 1)) /\
  (forall v w y z, In v data -> In w data -> x_le v w ->
     pipeline s vmin vmax v = Fin y -> pipeline s vmin vmax w = Fin z -> y <= z) /\
  pipeline s vmin vmax (Fin vmin) = Fin 0 /\ pipeline s vmin vmax (Fin vmax) = Fin 1.

Lemma pipeline_on_data_of_limits s vmin vmax data :
  cfg_domain s -> vmin < vmax -> pipeline_on_data s vmin vmax data.
Proof.
  intros Hd Hlt.
  destruct (pipeline_extended_lemma s vmin vmax Hd (Rlt_le _ _ Hlt)) as [H1 [H2 [_ [_ [_ H6]]]]].
  split; [| split].
  - intros v _. destruct (H1 v) as [_ [Hm Hr]]. split; assumption.
  - intros v w y z _ _. apply H2.
  - exact (H6 Hlt).
Qed.

(* min/max interval (`ManualInterval()`, presets "minmax", "linear_minmax", "log_minmax") *)
Lemma pipeline_minmax_lemma s data :
  cfg_domain s ->
  (exists a b, In (Fin a) data /\ In (Fin b) data /\ a <> b) ->
  exists dmin dmax,
    data_minmax Rcarrier data = Some (dmin, dmax) /\
    let '(vmin, vmax) := ManualInterval_get_limits None None dmin dmax in
    vmin < vmax /\ In (Fin vmin) data /\ In (Fin vmax) data /\
    pipeline_on_data s vmin vmax data.
Proof.
  intros Hd H2.
  destruct (data_minmax_R data H2) as [dmin [dmax [E [I1 [I2 [Hlt Hb]]]]]].
  exists dmin, dmax. split; [exact E |].
  rewrite (proj1 (proj2 manual_limits_lemma) dmin dmax).
  split; [exact Hlt |]. split; [exact I1 |]. split; [exact I2 |].
  now apply pipeline_on_data_of_limits.
Qed.

(* centred interval with the half-range taken from the data (`CenteredInterval(vcenter)`,
   presets "linear_centered", "asinh_centered"): symmetric limits that cover the data *)
Lemma pipeline_centered_lemma s c data :
  cfg_domain s ->
  (exists a b, In (Fin a) data /\ In (Fin b) data /\ a <> b) ->
  exists dmin dmax,
    data_minmax Rcarrier data = Some (dmin, dmax) /\
    let '(vmin, vmax) := CenteredInterval_get_limits c None dmin dmax in
    vmin < vmax /\ vmin + vmax = 2 * c /\
    (forall x, In (Fin x) data -> vmin <= x <= vmax) /\
    (forall v, In v data ->
       (x_masked (pipeline s vmin vmax v) = true <-> v = XNaN) /\
       (v <> XNaN -> exists y, pipeline s vmin vmax v = Fin y /\ 0 <= y <= 1)) /\
    (forall v w y z, In v data -> In w data -> x_le v w ->
       pipeline s vmin vmax v = Fin y -> pipeline s vmin vmax w = Fin z -> y <= z) /\
    pipeline s vmin vmax (Fin vmin) = Fin 0 /\ pipeline s vmin vmax (Fin vmax) = Fin 1.
Proof.
  intros Hd H2.
  destruct (data_minmax_R data H2) as [dmin [dmax [E [I1 [I2 [Hlt Hb]]]]]].
  exists dmin, dmax. split; [exact E |].
  pose proof (proj2 centered_limits_lemma c dmin dmax (Rlt_le _ _ Hlt)) as HC.
  destruct (CenteredInterval_get_limits c None dmin dmax) as [vmin vmax].
  destruct HC as [C1 [C2 [C3 [C4 C5]]]]. specialize (C5 Hlt).
  destruct (pipeline_on_data_of_limits s vmin vmax data Hd C5) as [P1 [P2 [P3 P4]]].
  split; [exact C5 |]. split; [exact C1 |].
  split; [intros x Hx; specialize (Hb x Hx); lra |].
  split; [exact P1 |]. split; [exact P2 |]. split; [exact P3 | exact P4].
Qed.
