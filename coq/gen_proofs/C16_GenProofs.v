(* C16 translator tie — FIXED proof script, compiled by the check on every run against the file
   GenC16.Gen_C16 that harness/c16_tie.py has just written from the CURRENT source of
   quantem.diffractive_imaging (ptycho_utils.py, probe_models.py, ptychography_base.py, ptychography.py,
   detector_models.py, object_models.py).  It proves that the translated definitions are the hand-written
   model's definitions (coq/model/C16_Model.v, C16_Model_Kernel.v) for ALL inputs, and the property clauses
   directly about the translated definitions.  The goals are closed by unfolding + ring / reflexivity, so
   renamed locals, reordered independent statements and commuted products in the source do not matter; a
   changed sign, a swapped axis / shift component / frequency vector, a different shift (fftshift for
   ifftshift) or a changed index use makes a proof fail -> the check reports the tie broken. *)
From Coq Require Import ZArith List Lia Ring Arith.
From QV.lib Require Import FinSum DFT DFT2 C16_TieLib.
From QV.model Require Import C16_Model C16_Model_Kernel.
From QV.proof Require Import C16_Proofs C16_Proofs_Kernel C16_Proofs_Tie.
From GenC16 Require Import Gen_C16.
Import ListNotations.

(* ============================================================================ scatter / gather *)
Section GenScatterTie.
  Variable R : Type.
  Variables (rO rI : R) (radd rmul rsub : R -> R -> R) (ropp : R -> R).
  Variable Rth : ring_theory rO rI radd rmul rsub ropp (@eq R).
  Add Ring RringGenS : Rth.
  Set Default Proof Using "All".
  Infix "+" := radd.   Infix "*" := rmul.
  Notation scatter := (scatter rO radd).

  (* sum_patches_base is the model's scatter *)
  Lemma gen_sum_patches_base_eq idx vals n : gen_sum_patches_base rO radd rmul idx vals n = scatter idx vals n.
  Proof. unfold gen_sum_patches_base. apply (py_index_add_zeros_is_scatter R rO rI radd rmul rsub ropp Rth). Qed.

  (* sum_patches of complex patches (real and imaginary parts scattered separately on the SAME indices) is the
     model's scatter of the complex values *)
  Lemma gen_sum_patches_complex_eq ci idx re im n : length re = length im ->
    gen_sum_patches_complex rO radd rmul ci idx re im n = scatter idx (zipw (fun a b => a + ci * b) re im) n.
  Proof.
    intros Hl. unfold gen_sum_patches_complex. rewrite !gen_sum_patches_base_eq.
    symmetry. apply (scatter_linear R rO rI radd rmul rsub ropp Rth); exact Hl.
  Qed.

  (* _get_obj_patches (real and imaginary parts gathered separately with the SAME index tensor) is the model's gather *)
  Lemma gen_get_obj_patches_eq ci (re im : nat -> R) idx :
    gen_get_obj_patches rO radd rmul ci re im idx = gather (fun n => re n + ci * im n) idx.
  Proof.
    unfold gen_get_obj_patches, gather.
    exact (zipw_map_map R rO rI radd rmul rsub ropp Rth (fun a b => a + ci * b) re im idx).
  Qed.

  (* the adjoint clause, about the translated pair: <gather(obj), v> = <obj, sum_patches(v)> *)
  Lemma gen_scatter_adjoint_gather size ci (ore oim : nat -> R) idx (vre vim : list R) :
    Forall (fun i => (i < size)%nat) idx -> length vre = length vim ->
    ldot rO radd rmul (gen_get_obj_patches rO radd rmul ci ore oim idx) (zipw (fun a b => a + ci * b) vre vim)
    = adot rO radd rmul size (fun n => ore n + ci * oim n) (gen_sum_patches_complex rO radd rmul ci idx vre vim).
  Proof.
    intros Hidx Hl. rewrite gen_get_obj_patches_eq.
    rewrite (scatter_adjoint_gather Rth size _ idx _ Hidx).
    unfold adot. apply (sumn_ext Rth). intros n _. rewrite gen_sum_patches_complex_eq by exact Hl. reflexivity.
  Qed.
End GenScatterTie.

(* ============================================================================ kernels *)
Section GenKernelTie.
  Variable R : Type.
  Variables (rO rI : R) (radd rmul rsub : R -> R -> R) (ropp : R -> R).
  Variable Rth : ring_theory rO rI radd rmul rsub ropp (@eq R).
  Add Ring RringGenK : Rth.
  Variable conj : R -> R.
  Hypothesis Cok : conj_ok radd rmul conj.
  Variable P : Type.
  Variables (pO pI : P) (padd pmul psub : P -> P -> P) (popp : P -> P).
  Variable Pth : ring_theory pO pI padd pmul psub popp (@eq P).
  Add Ring PringGenK : Pth.
  Variable E : P -> R.
  Hypothesis E_add : forall a b, E (padd a b) = rmul (E a) (E b).
  Hypothesis E_zero : E pO = rI.
  Hypothesis E_conj : forall a, conj (E a) = E (popp a).
  Variable chalf : P.
  Variable fq : nat -> P -> nat -> P.
  Set Default Proof Using "All".

  Notation gen_ramp := (gen_ramp rI rmul pI chalf padd pmul popp E fq).
  Notation gen_ramp_factors := (gen_ramp_factors rI rmul pI chalf padd pmul popp E fq).
  Notation gen_kernel := (gen_kernel rI rmul pI chalf padd pmul popp E fq).
  Notation gen_kernel_factors := (gen_kernel_factors rI rmul pI chalf padd pmul popp E fq).
  Notation eprod_esum := (eprod_esum Rth Pth E_add E_zero).
  Notation eprod_unit := (eprod_unit Rth Pth E_add E_zero E_conj).

  (* fourier_translation_operator: rows get fftfreq(shape[-2], 1) and shift component 0, columns fftfreq(shape[-1], 1) and
     component 1, both with exponent -(k s) turns: the model's separable ramp *)
  Lemma gen_ramp_eq_model pos k1 k2 :
    gen_ramp pos k1 k2
    = ramp2 rmul (shift_ramp pmul popp E (fq 0%nat pI) (pos 0%nat)) (shift_ramp pmul popp E (fq 1%nat pI) (pos 1%nat)) k1 k2.
  Proof.
    unfold Gen_C16.gen_ramp. rewrite eprod_esum. unfold ramp2, shift_ramp, ramp_phase. rewrite <- E_add. f_equal.
    unfold Gen_C16.gen_ramp_factors. cbn [esum]. ring.
  Qed.

  Lemma gen_ramp_phase pos k1 k2 :
    esum pO padd (gen_ramp_factors pos k1 k2)
    = ramp2_phase padd pmul popp (fq 0%nat pI) (fq 1%nat pI) (pos 0%nat) (pos 1%nat) k1 k2.
  Proof. unfold Gen_C16.gen_ramp_factors, ramp2_phase, ramp_phase. cbn [esum]. ring. Qed.

  Lemma gen_ramp_unit pos k1 k2 : abs2 rmul conj (gen_ramp pos k1 k2) = rI.
  Proof. unfold Gen_C16.gen_ramp. apply eprod_unit. Qed.

  (* _compute_propagator_arrays: the model's coded kernel (product of exponentials, tilt factors guarded by theta != 0),
     rows with fftfreq(roi_shape[0], sampling[0]) and tilt component 0, columns with fftfreq(roi_shape[1], sampling[1])
     and tilt component 1 *)
  Lemma gen_kernel_eq_model lam bt tl samp dz k1 k2 :
    gen_kernel lam bt tl samp dz k1 k2
    = fresnel_kernel_code rmul padd pmul popp E chalf lam (bt 0%nat) (bt 1%nat) (tl 0%nat) (tl 1%nat)
        (fq 0%nat (samp 0%nat)) (fq 1%nat (samp 1%nat)) dz k1 k2.
  Proof.
    unfold Gen_C16.gen_kernel. rewrite eprod_esum. unfold Gen_C16.gen_kernel_factors, fresnel_kernel_code. cbv zeta.
    destruct (bt 0%nat), (bt 1%nat); cbn [esum]; rewrite <- ?E_add; f_equal; unfold fresnel_phase0, tilt_phase; ring.
  Qed.

  Lemma gen_kernel_phase lam tl samp dz k1 k2 :
    esum pO padd (gen_kernel_factors lam (fun _ => true) tl samp dz k1 k2)
    = fresnel_phase padd pmul popp chalf lam (tl 0%nat) (tl 1%nat) dz (fq 0%nat (samp 0%nat) k1) (fq 1%nat (samp 1%nat) k2).
  Proof. unfold Gen_C16.gen_kernel_factors, fresnel_phase, fresnel_phase0, tilt_phase. cbn [esum]. ring. Qed.

  (* unit modulus BY CONSTRUCTION: the returned array is a product of exponentials of purely imaginary arguments *)
  Lemma gen_kernel_unit lam bt tl samp dz k1 k2 : abs2 rmul conj (gen_kernel lam bt tl samp dz k1 k2) = rI.
  Proof. unfold Gen_C16.gen_kernel. apply eprod_unit. Qed.
End GenKernelTie.

(* ============================================================================ operators *)
Section GenOpsTie.
  Variable R : Type.
  Variables (rO rI : R) (radd rmul rsub : R -> R -> R) (ropp : R -> R).
  Variable Rth : ring_theory rO rI radd rmul rsub ropp (@eq R).
  Add Ring RringGenO : Rth.
  Variable conj : R -> R.
  Hypothesis Cok : conj_ok radd rmul conj.
  Variables (N1 : nat) (w1 : Z -> R) (Ninv1 : R) (N2 : nat) (w2 : Z -> R) (Ninv2 : R).
  Hypothesis Rok1 : root_ok rO rI radd rmul conj N1 w1 Ninv1.
  Hypothesis Rok2 : root_ok rO rI radd rmul conj N2 w2 Ninv2.
  Variables (rs rsi : R).
  Hypothesis Hrs : rmul rs (conj rs) = rmul Ninv1 Ninv2.
  Hypothesis Hrsi : rmul rs rsi = rI.
  Variables (ph isq : R -> R) (eps : R).
  Set Default Proof Using "All".

  Infix "*" := rmul.
  Notation img := (nat -> nat -> R).
  Notation eq2 := (eq2 R N1 N2).
  Notation G f := (f rO rI radd rmul rsub conj N1 w1 Ninv1 N2 w2 Ninv2 rs rsi ph isq eps) (only parsing).
  Notation ops f := (f R rO rI radd rmul rsub ropp Rth conj Cok N1 w1 Ninv1 N2 w2 Ninv2 Rok1 Rok2) (only parsing).
  Notation opsd f := (f R rO rI radd rmul rsub ropp Rth conj Cok N1 w1 Ninv1 N2 w2 Ninv2 Rok1 Rok2 rs rsi Hrs Hrsi)
    (only parsing).
  Notation fmul2_m := (fmul2_m rO radd rmul N1 w1 Ninv1 N2 w2 Ninv2).

  (* ifft2(fft2(x) * h): the Fourier multiplier of the model, for the three functions that are coded that way *)
  Lemma gen_fmul_shape (g : img -> img -> img) :
    (forall h x, g h x = idft2_m rO radd rmul N1 w1 Ninv1 N2 w2 Ninv2
                           (fun k1 k2 => dft2_m rO radd rmul N1 w1 N2 w2 x k1 k2 * h k1 k2)
                 \/ g h x = idft2_m rO radd rmul N1 w1 Ninv1 N2 w2 Ninv2
                           (fun k1 k2 => h k1 k2 * dft2_m rO radd rmul N1 w1 N2 w2 x k1 k2)) ->
    forall h x, eq2 (g h x) (fmul2_m h x).
  Proof.
    intros Hg h x n1 n2 H1 H2.
    rewrite (fmul2_m_eq Rth Cok Rok1 Rok2) by assumption. unfold fmul2.
    destruct (Hg h x) as [-> | ->]; rewrite (idft2_m_eq Rth Cok Rok1 Rok2) by assumption;
      apply (idft2_ext Rth Cok Rok1 Rok2); intros k1 k2 Hk1 Hk2;
      rewrite (dft2_m_eq Rth Cok Rok1 Rok2) by assumption; ring.
  Qed.

  Lemma gen_shift_expand_eq hr hc x :
    eq2 (G gen_shift_expand (ramp2 rmul hr hc) x) (fourier_shift rO radd rmul N1 w1 Ninv1 N2 w2 Ninv2 hr hc x).
  Proof. apply (gen_fmul_shape (G gen_shift_expand)). intros h y. unfold gen_shift_expand. first [left; reflexivity | right; reflexivity]. Qed.

  Lemma gen_propagate_base_eq p x : eq2 (G gen_propagate_base p x) (propagate rO radd rmul N1 w1 Ninv1 N2 w2 Ninv2 p x).
  Proof. apply (gen_fmul_shape (G gen_propagate_base)). intros h y. unfold gen_propagate_base. first [left; reflexivity | right; reflexivity]. Qed.

  Lemma gen_propagate_obj_eq p x : eq2 (G gen_propagate_obj p x) (propagate rO radd rmul N1 w1 Ninv1 N2 w2 Ninv2 p x).
  Proof. apply (gen_fmul_shape (G gen_propagate_obj)). intros h y. unfold gen_propagate_obj. first [left; reflexivity | right; reflexivity]. Qed.

  (* DetectorPixelated.forward / estimate_intensities: |fft2_ortho|^2 summed over the modes, fftshifted for the detector *)
  Lemma gen_detector_forward_eq psis :
    G gen_detector_forward psis = detector_forward rO radd rmul conj N1 w1 N2 w2 rs psis.
  Proof. reflexivity. Qed.

  Lemma gen_estimate_intensities_eq psis :
    G gen_estimate_intensities psis = estimate_intensities rO radd rmul conj N1 w1 N2 w2 rs psis.
  Proof. reflexivity. Qed.

  (* fourier_projection, one probe mode: the measured amplitudes are corner-centred with the INVERSE of the detector's shift *)
  Lemma gen_fproj_single_eq a psi :
    eq2 (G gen_fproj_single a psi) (fourier_projection rO radd rmul N1 w1 Ninv1 N2 w2 Ninv2 rs rsi ph a psi).
  Proof.
    unfold gen_fproj_single, fourier_projection. cbv zeta. apply (opsd idft2_ortho_ext).
    intros k1 k2 H1 H2. cbv beta. rewrite memo2_spec by assumption. ring.
  Qed.

  (* fourier_projection, several probe modes *)
  Lemma Forall2_map_same (A : Type) (f g : A -> img) (l : list A) :
    (forall x, eq2 (f x) (g x)) -> Forall2 eq2 (map f l) (map g l).
  Proof. intros H. induction l as [|x l IH]; cbn [map]; constructor; [apply H | exact IH]. Qed.

  Lemma gen_fproj_mixed_eq a psis :
    Forall2 eq2 (G gen_fproj_mixed a psis)
            (fourier_projection_mixed rO radd rmul conj N1 w1 Ninv1 N2 w2 Ninv2 rs rsi isq eps a psis).
  Proof.
    unfold gen_fproj_mixed, fourier_projection_mixed. cbv zeta. rewrite ?map_map.
    apply Forall2_map_same. intros x. apply (opsd idft2_ortho_ext).
    intros k1 k2 H1 H2. cbv beta. rewrite !memo2_spec by assumption. unfold est2. rewrite ?map_map. ring.
  Qed.

  Lemma gen_gradient_step_eq a psi :
    eq2 (G gen_gradient_step a psi) (gradient_step rO radd rmul rsub N1 w1 Ninv1 N2 w2 Ninv2 rs rsi ph a psi).
  Proof.
    intros i j Hi Hj. unfold gen_gradient_step, gradient_step. cbv zeta beta.
    rewrite (gen_fproj_single_eq a psi i j Hi Hj). reflexivity.
  Qed.

  (* ---- the property clauses, about the TRANSLATED definitions *)
  Variable amp : R -> Prop.
  Hypothesis amp_real : forall a, amp a -> conj a = a.
  Hypothesis ph_unit : forall z, abs2 rmul conj (ph z) = rI.
  Hypothesis ph_amp : forall a u, amp a -> abs2 rmul conj u = rI -> a * ph (a * u) = a * u.
  Notation opsp f := (f R rO rI radd rmul rsub ropp Rth conj Cok N1 w1 Ninv1 N2 w2 Ninv2 Rok1 Rok2 rs rsi Hrs Hrsi
                        ph amp amp_real ph_unit ph_amp) (only parsing).

  (* replacing the Fourier magnitudes by the measured amplitudes yields exactly the measured amplitudes ... *)
  Lemma gen_fproj_exact a psi : amp2 R N1 N2 amp a ->
    eq2 (G gen_detector_forward [G gen_fproj_single a psi]) (fun n1 n2 => a n1 n2 * a n1 n2).
  Proof.
    intros Ha n1 n2 H1 H2. rewrite gen_detector_forward_eq.
    rewrite (opsp detector_forward_ext1 _ _ (gen_fproj_single_eq a psi) n1 n2 H1 H2).
    apply (opsp fourier_projection_amp); assumption.
  Qed.

  (* ... and is idempotent *)
  Lemma gen_fproj_idem a psi : amp2 R N1 N2 amp a ->
    eq2 (G gen_fproj_single a (G gen_fproj_single a psi)) (G gen_fproj_single a psi).
  Proof.
    intros Ha n1 n2 H1 H2.
    rewrite (gen_fproj_single_eq a _ n1 n2 H1 H2).
    rewrite (opsp fourier_projection_ext a _ _ (gen_fproj_single_eq a psi) n1 n2 H1 H2).
    rewrite (opsp fourier_projection_idem a psi Ha n1 n2 H1 H2).
    symmetry. apply gen_fproj_single_eq; assumption.
  Qed.
End GenOpsTie.
