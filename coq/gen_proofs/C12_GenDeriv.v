(* C12 — FIXED proof script (gradients) over the GENERATED file build/C12/Gen_Chi.v.
   The analytic polar gradient returned by aberration_surface_polar_gradients is the true
   derivative (Coquelicot `is_derive`) of aberration_surface, for ALL 25 coefficients at once:
       d chi / d alpha = dchi_dk / lambda            d chi / d phi = alpha * dchi_dphi / lambda
   i.e. (dchi_dk, dchi_dphi) = lambda * (d/d alpha, (1/alpha) d/d phi) chi  — the wavelength
   times the gradient of the surface in polar angle coordinates. *)
From Coq Require Import Reals Lra String.
From Coquelicot Require Import Coquelicot.
From QV.lib Require Import C12_RealLib C12_Trig.
From Gen12 Require Import Gen_Chi.
Open Scope R_scope.

Lemma grad_alpha (c : env) (alpha phi lambda : R) :
  lambda <> 0 ->
  is_derive (fun a => chi_polar c a phi lambda) alpha (dchi_dk c alpha phi / lambda).
Proof.
  intros H. unfold chi_polar, dchi_dk.
  auto_derive.
  - repeat split; exact I.
  - trig_norm. field. exact H.
Qed.

Lemma grad_phi (c : env) (alpha phi lambda : R) :
  lambda <> 0 ->
  is_derive (fun p => chi_polar c alpha p lambda) phi (alpha * dchi_dphi c alpha phi / lambda).
Proof.
  intros H. unfold chi_polar, dchi_dphi.
  auto_derive.
  - repeat split; exact I.
  - trig_norm. field. exact H.
Qed.

(* the same two facts in the form "analytic gradient = wavelength x true gradient" *)
Lemma grad_is_lambda_times_derivative (c : env) (alpha phi lambda : R) :
  lambda <> 0 ->
  dchi_dk c alpha phi = lambda * Derive (fun a => chi_polar c a phi lambda) alpha /\
  alpha * dchi_dphi c alpha phi = lambda * Derive (fun p => chi_polar c alpha p lambda) phi.
Proof.
  intros H.
  pose proof (is_derive_unique _ _ _ (grad_alpha c alpha phi lambda H)) as E1.
  pose proof (is_derive_unique _ _ _ (grad_phi c alpha phi lambda H)) as E2.
  split.
  - transitivity (lambda * (dchi_dk c alpha phi / lambda)); [field; exact H |].
    f_equal. symmetry. exact E1.
  - transitivity (lambda * (alpha * dchi_dphi c alpha phi / lambda)); [field; exact H |].
    f_equal. symmetry. exact E2.
Qed.
