(* C12 — FIXED proof script (gradients) over the GENERATED file build/C12/Gen_Chi.v.
   The analytic polar gradient returned by aberration_surface_polar_gradients is the true
   derivative (Coquelicot `is_derive`) of aberration_surface, for ALL 25 coefficients at once:
       d chi / d alpha = dchi_dk / lambda            d chi / d phi = alpha * dchi_dphi / lambda
   i.e. (dchi_dk, dchi_dphi) = lambda * (d/d alpha, (1/alpha) d/d phi) chi  — the wavelength
   times the gradient of the surface in polar angle coordinates. *)
From Coq Require Import Reals Lra String.
From Coquelicot Require Import Coquelicot.
From QV.lib Require Import C12_RealLib C12_Trig.
From Gen12 Require Import Gen_Chi.
Open Scope R_scope.

Lemma grad_alpha (c : env) (alpha phi lambda : R) :
  lambda <> 0 ->
  is_derive (fun a => chi_polar c a phi lambda) alpha (dchi_dk c alpha phi / lambda).
Proof.
  intros H. unfold chi_polar, dchi_dk.
  auto_derive.
  - repeat split; exact I.
  - trig_norm. field. exact H.
Qed.

Lemma grad_phi (c : env) (alpha phi lambda : R) :
  lambda <> 0 ->
  is_derive (fun p => chi_polar c alpha p lambda) phi (alpha * dchi_dphi c alpha phi / lambda).
Proof.
  intros H. unfold chi_polar, dchi_dphi.
  auto_derive.
  - repeat split; exact I.
  - trig_norm. field. exact H.
Qed.

(* the same two facts in the form "analytic gradient = wavelength x true gradient" *)
Lemma grad_is_lambda_times_derivative (c : env) (alpha phi lambda : R) :
  lambda <> 0 ->
  dchi_dk c alpha phi = lambda * Derive (fun a => chi_polar c a phi lambda) alpha /\
  alpha * dchi_dphi c alpha phi = lambda * Derive (fun p => chi_polar c alpha p lambda) phi.
Proof.
  intros H.
  pose proof (is_derive_unique _ _ _ (grad_alpha c alpha phi lambda H)) as E1.
  pose proof (is_derive_unique _ _ _ (grad_phi c alpha phi lambda H)) as E2.
  split.
  - transitivity (lambda * (dchi_dk c alpha phi / lambda)); [field; exact H |].
    f_equal. symmetry. exact E1.
  - transitivity (lambda * (alpha * dchi_dphi c alpha phi / lambda)); [field; exact H |].
    f_equal. symmetry. exact E2.
Qed.

(* directional derivative along a straight line through Cartesian angle space
   (x, y) = alpha (cos phi, sin phi): d/dt chi(alpha + t da, phi + t dphi) — chain rule, used for
   the Cartesian gradient: (dchi_dx, dchi_dy) . (dx, dy) / lambda with
   da = cos phi dx + sin phi dy, alpha dphi = - sin phi dx + cos phi dy *)
Lemma grad_cartesian_directional (c : env) (alpha phi lambda dx dy : R) :
  lambda <> 0 -> alpha <> 0 ->
  let da := cos phi * dx + sin phi * dy in
  let dphi := (- sin phi * dx + cos phi * dy) / alpha in
  is_derive (fun t => chi_polar c (alpha + t * da) (phi + t * dphi) lambda) 0
            ((dchi_dx c alpha phi * dx + dchi_dy c alpha phi * dy) / lambda).
Proof.
  intros H Ha da dphi. unfold chi_polar, dchi_dx, dchi_dy, dchi_dk, dchi_dphi.
  auto_derive.
  - repeat split; exact I.
  - replace (alpha + 0 * da) with alpha by ring. replace (phi + 0 * dphi) with phi by ring.
    subst da dphi. trig_norm. field. split; assumption.
Qed.
