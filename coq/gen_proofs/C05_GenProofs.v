(* C05 source tie — FIXED proof script, compiled by the check on every run against the file
   GenC05.Gen_C05 that harness/c05_tie.py has just written from the current source of /repo.

   The scripts are concrete lists, so the interpreters of C05_Tie_Model reduce on them by computation
   to a composition of the effects; what remains is closed with the lemmas of C05_Proofs_Tie.  Nothing here
   mentions a local variable name, a statement position or the length of a script. *)
From QV.lib Require Import Prelude.
From QV.model Require Import C05_Model C05_Tie_Model.
From QV.proof Require Import C05_Proofs_Base C05_Proofs_Reconnect C05_Proofs_Tie.
From GenC05 Require Import Gen_C05.
From Coq Require Import String.

(* ------------------------------------------------------------------ reconnect_optimizer_to_parameters *)
(* evaluation of the interpreter on a concrete script, leaving the model's functions folded *)
Ltac run_script :=
  cbv [rexec rstep assoc find fst snd String.eqb Ascii.eqb Bool.eqb
       e_lists e_dicts e_sets e_groups e_lr e_state e_rebound e_removed e_done starts_with_guard];
  cbn [List.concat app]; rewrite ?app_nil_r.

Lemma gen_reconnect_eq_model :
  forall (V M R C SS : Type) (h : heap V M R SS) (m : mdl C),
    NoDup (mparams m) ->
    run_reconnect gen_reconnect_script h m = Some (reconnect_model false h m).
Proof.
  intros V M R C SS h m Hnd.
  unfold run_reconnect, reconnect_model, gen_reconnect_script.
  destruct (mopt m) as [o|]; [|reflexivity].
  destruct (ho h o) as [ob|]; [|reflexivity].
  destruct (mparams m) as [|p ps] eqn:Ep.
  - run_script. reflexivity.
  - run_script.
    rewrite !rekey_dict_eq by assumption.
    rewrite ?dict_update_rekey by assumption.
    reflexivity.
Qed.

(* ------------------------------------------------------------------ PtychographyBase.to *)
Fixpoint split_to (l : list ttok) : list ttok * list ttok :=
  match l with
  | TNoModel :: t => let '(a, b) := split_to t in (TNoModel :: a, b)
  | _ => ([], l)
  end.

Lemma gen_to_eq_model :
  forall (V M L R C SS : Type) (s : st V M L R C SS),
    List.length (models (rc s)) = 3 ->
    run_to false gen_to_script s = Some (to_dev false s).
Proof.
  intros V M L R C SS s Hl.
  (* the script is   <no model>* ; obj_model ; probe_model ; dset ; <no model>*   *)
  assert (E : exists pre post, gen_to_script = pre ++ [TModelTo 0; TModelTo 1; TModelTo 2] ++ post
                               /\ Forall (fun t => t = TNoModel) pre /\ Forall (fun t => t = TNoModel) post).
  { exists (fst (split_to gen_to_script)).
    exists (skipn 3 (snd (split_to gen_to_script))).
    vm_compute. repeat split; repeat constructor. }
  destruct E as (pre & post & -> & Hpre & Hpost).
  now apply run_to_three.
Qed.

Lemma gen_model_to_ok :
  forallb snd gen_model_to_reconnects = true /\
  In "ObjectBase"%string (map fst gen_model_to_reconnects) /\
  In "ProbeBase"%string (map fst gen_model_to_reconnects) /\
  In "PtychographyDatasetBase"%string (map fst gen_model_to_reconnects).
Proof. vm_compute. intuition. Qed.

(* ------------------------------------------------------------------ Ptychography.save *)
Ltac run_save_script :=
  cbv [run_save sexec sstep assoc find fst snd String.eqb Ascii.eqb Bool.eqb
       s_live s_dev s_vars s_meta s_skip s_file].

(* with the raw data: the file is the serialised state after the move to the CPU, nothing skipped, no
   metadata; the live object has been moved twice *)
Lemma gen_save_eq_model :
  forall (V M L R C SS : Type) (di : nat) (s : st V M L R C SS),
    run_save false true di gen_save_script s
    = Some (fst (save false Joint s), None, false, snd (save false Joint s)).
Proof.
  intros. unfold gen_save_script, save. run_save_script. reflexivity.
Qed.

(* without: the dataset is skipped and the file carries the learned dataset parameters as they are after the
   move (`reload_meta` of the model reads them there); the live object afterwards is the same *)
Lemma gen_save_meta_eq_model :
  forall (V M L R C SS : Type) (di : nat) (s : st V M L R C SS),
    run_save false false di gen_save_script s
    = Some (copy_st Joint (to_dev false s), Some (meta_of (to_dev false s) di), true, snd (save false Joint s)).
Proof.
  intros. unfold gen_save_script, save. run_save_script.
  rewrite ?meta_of_to_dev. reflexivity.
Qed.

(* ------------------------------------------------------------------ one iteration, _record_iter *)
Lemma gen_iter_eq_model :
  forall (V G M L R C SS : Type) (Rzero : R) forward opt_update sched_step (s : st V M L R C SS),
    run_iter (G := G) Rzero forward opt_update sched_step gen_record_script gen_iter_script s
    = Some (iterate Rzero forward opt_update sched_step s).
Proof.
  intros. unfold run_iter, iterate, gen_iter_script, gen_record_script.
  cbv [iexec istep i_st i_loss i_nval i_nsnap].
  destruct (forward _) as [loss grads].
  cbv [fold_left kstep hh rc models losses lrs].
  rewrite ?app_length, ?Nat.add_1_r, ?Nat.sub_0_r. cbn [List.length Nat.sub Nat.add].
  rewrite ?Nat.add_1_r, ?Nat.sub_0_r.
  reflexivity.
Qed.

(* ------------------------------------------------------------------ reset_recon, snapshot, appends *)
Lemma gen_reset_fields_eq : gen_reset_fields = model_reset_fields.
Proof. reflexivity. Qed.
Lemma gen_reset_calls_eq : gen_reset_calls = model_reset_calls.
Proof. reflexivity. Qed.
Lemma gen_reset_top_eq : gen_reset_top = model_reset_top.
Proof. reflexivity. Qed.
Lemma gen_iter_appends_eq : gen_iter_appends = model_iter_appends.
Proof. reflexivity. Qed.
Lemma gen_snapshot_eq : gen_snapshot = model_snapshot.
Proof. reflexivity. Qed.
Lemma gen_snapshot_owns : forallb (fun e => snd e) gen_snapshot = true.
Proof. reflexivity. Qed.

(* every history an iteration appends to is one reset_recon empties *)
Lemma gen_appends_are_reset : forall a, In a gen_iter_appends -> In a (map fst gen_reset_fields).
Proof.
  intros a H. vm_compute in H. vm_compute.
  repeat (destruct H as [<-|H]; [tauto|]). destruct H.
Qed.

(* reset_recon; n iterations: every history that is appended to unconditionally has length n again, whatever
   it was before (in particular the iteration count = len(_iter_losses), and the lr history) *)
Lemma gen_reset_then_iterate :
  forall (n : nat) (h : list (string * nat)) (x : string),
    In x ["_iter_losses"; "_iter_lrs"]%string -> assoc h x <> None ->
    assoc (hist_iter n gen_iter_appends (hist_reset gen_reset_fields h)) x = Some n.
Proof.
  intros n h x Hx Hh.
  assert (Ha : existsb (String.eqb x) gen_iter_appends = true)
    by (destruct Hx as [<-|[<-|[]]]; vm_compute; reflexivity).
  assert (Hr : existsb (fun f => String.eqb (fst f) x) gen_reset_fields = true)
    by (destruct Hx as [<-|[<-|[]]]; vm_compute; reflexivity).
  rewrite hist_iter_lookup, hist_reset_lookup.
  destruct (assoc h x) as [k|]; [|congruence].
  rewrite Ha, Hr. f_equal. lia.
Qed.

(* ------------------------------------------------------------------ the resume theorem, on the translated source *)
From QV.proof Require Import C05_Proofs_Hist.

Section SourceMachine.
  Variables V G M L R C SS : Type.
  Variable Rzero : R.
  Variable forward : list (list (option V) * C) -> L * list (list (option G)).
  Variable opt_update : opt_kind -> R -> V -> G -> option (pstate M) -> V * option (pstate M).
  Variable sched_init : SS -> R -> SS * R.
  Variable sched_step : SS -> nat -> L -> R -> SS * R.
  Notation st := (st V M L R C SS).

  (* n iterations of the loop body of reconstruct() as translated (None: an effect was undefined) *)
  Fixpoint gen_run (n : nat) (s : st) : option st :=
    match n with
    | 0 => Some s
    | S k => match run_iter Rzero forward opt_update sched_step gen_record_script gen_iter_script s with
             | Some s' => gen_run k s'
             | None => None
             end
    end.

  Lemma gen_run_eq n : forall s, gen_run n s = Some (run Rzero forward opt_update sched_step n s).
  Proof.
    induction n as [|n IH]; intro s; cbn [gen_run run]; [reflexivity|].
    rewrite gen_iter_eq_model. apply IH.
  Qed.

  (* [k translated iterations; translated save() with the data; from_file(path[, device]); m translated
     iterations] and the object that was saved, continued, report what k + m translated iterations report *)
  Lemma gen_resume_equiv (ops : list (op R C SS)) (spec : list (list V * C)) (dev : bool) (k m di : nat) :
    let s := run_ops Rzero forward opt_update sched_init sched_step false ops (init_st spec : st) in
    exists sk file live sres slive sref,
      gen_run k s = Some sk /\
      run_save false true di gen_save_script sk = Some (file, None, false, live) /\
      gen_run m (load false dev file) = Some sres /\ gen_run m live = Some slive /\
      gen_run (k + m) s = Some sref /\
      obs sres = obs sref /\ obs slive = obs sref.
  Proof.
    intro s.
    destruct (resume_equiv_reachable Rzero forward opt_update sched_init sched_step ops spec dev k m)
      as (H1 & H2 & _).
    fold s in H1, H2.
    do 6 eexists. rewrite !gen_run_eq, gen_save_eq_model.
    repeat split; try reflexivity; assumption.
  Qed.
End SourceMachine.
Arguments gen_run {V G M L R C SS} Rzero forward opt_update sched_step n s.
