(* C17 — FIXED proof script of the translator tie: the functions that harness/translate_C17.py
   translated on THIS run from the source of quantem/core/utils/imaging_utils.py
   (GenC17.Gen_C17) equal the hand-written model (model/C17_Model.v, C17_Model_Ext.v):
     _wrap_to_pi, _find_wrap, UnionFindPhase.__init__ / find_root_and_offset / union, _final_offsets
     (for every fuel), _build_edges (both mask cases, both wrap_around settings: pairs, mask filter,
     increments, sort key, sort), and the driver _unwrap_phase_2d_torch_reliability_sorting (for every
     fuel that suffices).  The script depends on the operations the code performs, not on local
     names, re-assignments or the order of independent statements (the translator is in
     continuation-passing style and the proofs start by `cbv zeta`). *)
From QV.lib Require Import Prelude.
From QV.model Require Import C17_Model C17_Model_Ext C17_Model_Tie.
From QV.proof Require Import C17_Proofs C17_Proofs_Unwrap C17_Proofs_Ext C17_Proofs_Tie.
From GenC17 Require Import Gen_C17.
From Coq Require Import QArith Qround Qabs.
Local Close Scope Q_scope.

(* ---------------------------------------------------------------- _wrap_to_pi, _find_wrap *)
Theorem gen_wrap_to_pi_eq (P x : Q) : (gen_wrap_to_pi P x == wrapP P x)%Q.
Proof.
  unfold gen_wrap_to_pi, wrapP, qmod.
  match goal with |- context [Qfloor ?a] =>
    replace (Qfloor a) with (wrapK P x)
      by (unfold wrapK; first [reflexivity | apply Qfloor_comp; apply Qdiv_comp; ring]) end.
  ring.
Qed.

Theorem gen_find_wrap_eq (P a b : Q) : gen_find_wrap P a b = find_wrap P a b.
Proof.
  unfold gen_find_wrap, find_wrap. cbv zeta.
  first [ reflexivity
        | repeat match goal with |- context [Qltb ?x ?y] => destruct (Qltb x y) end; reflexivity ].
Qed.

(* ---------------------------------------------------------------- UnionFindPhase *)
Theorem gen_uf_init_eq (n : nat) : gen_uf_init n = uf_init n.
Proof. reflexivity. Qed.

Lemma gen_find_loop_eq (fuel : nat) : forall st root total,
  gen_find_root_and_offset_loop1 fuel st root total
  = option_map (fun p => (snd p, fst p)) (find fuel st root total).
Proof.
  induction fuel as [|fuel IH]; intros st root total; [reflexivity|].
  cbn [gen_find_root_and_offset_loop1 find]. unfold rd_parent, rd_offset. cbv zeta.
  destruct (nth root (parent st) root =? root); cbn [negb]; [reflexivity | apply IH].
Qed.

Theorem gen_find_eq (fuel : nat) (st : uf) (x : nat) :
  gen_find_root_and_offset fuel st x = find fuel st x 0%Z.
Proof.
  unfold gen_find_root_and_offset. cbv zeta. rewrite gen_find_loop_eq.
  destruct (find fuel st x 0%Z) as [[r t]|]; reflexivity.
Qed.

Theorem gen_union_eq (fuel : nat) (st : uf) (x y : nat) (inc : Z) :
  gen_union fuel st x y inc = union fuel st x y inc.
Proof.
  unfold gen_union, union. rewrite !gen_find_eq.
  (* the two searches are pure: whichever the code runs first *)
  destruct (find fuel st x 0%Z) as [[rx ox]|]; destruct (find fuel st y 0%Z) as [[ry oy]|]; try reflexivity.
  cbv beta iota zeta.
  destruct (rx =? ry); [reflexivity|].
  unfold rd_rank, set_parent, set_offset, set_rank; cbn [parent rank offset].
  destruct (nth rx (rank st) 0 <? nth ry (rank st) 0); [reflexivity|].
  destruct (nth rx (rank st) 0 =? nth ry (rank st) 0); rewrite ?Nat.add_1_r; reflexivity.
Qed.

(* ---------------------------------------------------------------- _final_offsets *)
Lemma gen_fo_while_eq (fuel : nat) : forall st root total,
  gen_final_offsets_loop2 fuel st root total
  = option_map (fun p => (snd p, fst p)) (find fuel st root total).
Proof.
  induction fuel as [|fuel IH]; intros st root total; [reflexivity|].
  cbn [gen_final_offsets_loop2 find]. unfold rd_parent, rd_offset. cbv zeta.
  destruct (nth root (parent st) root =? root); cbn [negb]; [reflexivity | apply IH].
Qed.

Lemma gen_fo_for_eq (fuel : nat) (st : uf) : forall (k : nat) (done rest : list Z),
  gen_final_offsets_loop1 fuel (seq (length done) k) st (done ++ repeat 0%Z k ++ rest)
  = option_map (fun r => done ++ r ++ rest)
      (all_some (map (fun i => option_map snd (find fuel st i 0%Z)) (seq (length done) k))).
Proof.
  induction k as [|k IH]; intros done rest; [reflexivity|].
  cbn [seq repeat app map all_some gen_final_offsets_loop1]. cbv zeta. rewrite gen_fo_while_eq.
  destruct (find fuel st (length done) 0%Z) as [[r t]|]; cbn [option_map fst snd]; [|reflexivity].
  rewrite upd_app_mid.
  specialize (IH (done ++ [t]) rest). rewrite app_length in IH. cbn [length] in IH.
  rewrite Nat.add_1_r, <- app_assoc in IH. cbn [app] in IH. rewrite IH.
  destruct (all_some (map (fun i => option_map snd (find fuel st i 0%Z)) (seq (S (length done)) k)));
    cbn [option_map]; [|reflexivity].
  rewrite <- app_assoc. reflexivity.
Qed.

Theorem gen_final_offsets_eq (fuel : nat) (st : uf) :
  gen_final_offsets fuel st = final_offsets fuel st (length (parent st)).
Proof.
  unfold gen_final_offsets, final_offsets, t_zeros_Z. cbv zeta.
  pose proof (gen_fo_for_eq fuel st (length (parent st)) [] []) as E.
  cbn [length app] in E. rewrite app_nil_r in E. rewrite E.
  destruct (all_some (map (fun i => option_map snd (find fuel st i 0%Z)) (seq 0 (length (parent st)))));
    cbn [option_map]; rewrite ?app_nil_r; reflexivity.
Qed.

(* ---------------------------------------------------------------- _build_edges *)
(* what the code builds, in the code's terms: the pairs of the model's grid, sorted by
   rel[i1] + rel[i2], with the _find_wrap increments *)
Definition edges_spec (P : Q) (H W : nat) (phi rl : nat -> Q) (m : nat -> bool) (wrap : bool)
  : list nat * list nat * list Z :=
  let S := sort_by (pkey rl) (grid_pairs H W wrap m) in
  (map fst S, map snd S, map (pinc phi (gen_find_wrap P)) S).

Ltac flat_len := rewrite !t_flatten_length; cbn; lia.

Ltac edges_branch m rl phi P :=
  first [ rewrite !(cols_mask m rl phi (gen_find_wrap P)) by flat_len
        | rewrite !(cols_nomask rl phi (gen_find_wrap P)) by flat_len ];
  rewrite cat_cols_two; unfold erow_of; cbv beta iota;
  rewrite !gather_argsort; reflexivity.

Theorem gen_build_edges_mask_eq (P : Q) (H W : nat) (phi rl : nat -> Q) (m : nat -> bool) (wrap : bool) :
  gen_build_edges_mask P H W phi rl m wrap = edges_spec P H W phi rl m wrap.
Proof.
  unfold gen_build_edges_mask, edges_spec. rewrite grid_pairs_from_tensors.
  cbv beta iota zeta. destruct wrap; edges_branch m rl phi P.
Qed.

Theorem gen_build_edges_nomask_eq (P : Q) (H W : nat) (phi rl : nat -> Q) (wrap : bool) :
  gen_build_edges_nomask P H W phi rl wrap = edges_spec P H W phi rl (fun _ => true) wrap.
Proof.
  unfold gen_build_edges_nomask, edges_spec. rewrite grid_pairs_from_tensors, !pmask_true.
  cbv beta iota zeta. destruct wrap; edges_branch (fun _ : nat => true) rl phi P.
Qed.

(* ... and in the model's terms *)
Lemma edges_spec_model (P : Q) (H W : nat) (phi : nat -> Q) (rll : list Q) (m : nat -> bool) (wrap : bool) :
  let r := edges_spec P H W phi (fnq rll) m wrap in
  zip3 (fst (fst r)) (snd (fst r)) (snd r)
  = incs_of P phi (sort_by (edge_key rll) (grid_pairs H W wrap m)).
Proof.
  cbv zeta. unfold edges_spec. cbv zeta. cbn [fst snd]. rewrite zip3_maps.
  rewrite (sort_by_qeq (pkey (fnq rll)) (edge_key rll)) by (intros e; apply edge_key_qeq; reflexivity).
  unfold incs_of, pinc. apply map_ext. intros e. rewrite gen_find_wrap_eq. reflexivity.
Qed.

(* ---------------------------------------------------------------- the driver *)
Section DriverLoop.
  Variables (fuel : nat) (i1 i2 : list nat) (inc : list Z).
  Hypothesis (L2 : length i1 = length i2) (L3 : length i1 = length inc).

  Lemma gen_loop_mask_eq : forall k a st, a + k = length i1 ->
    gen_unwrap_mask_loop1 fuel (seq a k) st i1 i2 inc = run fuel st (skipn a (zip3 i1 i2 inc)).
  Proof.
    induction k as [|k IH]; intros a st Ha.
    - cbn [seq gen_unwrap_mask_loop1]. rewrite skipn_all2 by (rewrite zip3_length by assumption; lia). reflexivity.
    - cbn [seq gen_unwrap_mask_loop1]. rewrite gen_union_eq.
      rewrite (@skipn_nth_cons edge (0, 0, 0%Z) (zip3 i1 i2 inc) a) by (rewrite zip3_length by assumption; lia).
      rewrite zip3_nth by (assumption || lia). cbn [run]. unfold lget.
      destruct (union fuel st (nth a i1 0) (nth a i2 0) (nth a inc 0%Z)); [apply IH; lia | reflexivity].
  Qed.

  Lemma gen_loop_nomask_eq : forall k a st, a + k = length i1 ->
    gen_unwrap_nomask_loop1 fuel (seq a k) st i1 i2 inc = run fuel st (skipn a (zip3 i1 i2 inc)).
  Proof.
    induction k as [|k IH]; intros a st Ha.
    - cbn [seq gen_unwrap_nomask_loop1]. rewrite skipn_all2 by (rewrite zip3_length by assumption; lia). reflexivity.
    - cbn [seq gen_unwrap_nomask_loop1]. rewrite gen_union_eq.
      rewrite (@skipn_nth_cons edge (0, 0, 0%Z) (zip3 i1 i2 inc) a) by (rewrite zip3_length by assumption; lia).
      rewrite zip3_nth by (assumption || lia). cbn [run]. unfold lget.
      destruct (union fuel st (nth a i1 0) (nth a i2 0) (nth a inc 0%Z)); [apply IH; lia | reflexivity].
  Qed.
End DriverLoop.

(* everything after _build_edges: union-find over the returned columns, _final_offsets, assembly *)
Lemma driver_tail (fuel : nat) (P : Q) (H W : nat) (phi : nat -> Q) (rll : list Q) (m : nat -> bool) (wrap : bool)
      (loop : nat -> list nat -> uf -> list nat -> list nat -> list Z -> option uf) :
  (forall i1 i2 inc, length i1 = length i2 -> length i1 = length inc ->
     forall st, loop fuel (seq 0 (length i1)) st i1 i2 inc = run fuel st (zip3 i1 i2 inc)) ->
  length (grid_pairs H W wrap m) < fuel ->
  let r := edges_spec P H W phi (fnq rll) m wrap in
  match loop fuel (seq 0 (length (fst (fst r)))) (uf_init (H * W)) (fst (fst r)) (snd (fst r)) (snd r) with
  | None => None
  | Some st =>
    match final_offsets fuel st (length (parent st)) with
    | None => None
    | Some offs =>
      let out := map2 Qplus (t_list (H * W) phi) (qscale (2 * P)%Q offs) in
      Some (map (fun v => (v - meanQ out)%Q) out)
    end
  end = unwrap P (H * W) phi (sort_by (edge_key rll) (grid_pairs H W wrap m)).
Proof.
  intros Hloop Hfuel r.
  pose proof (edges_spec_model P H W phi rll m wrap) as Hes. cbv zeta in Hes. fold r in Hes.
  set (S := sort_by (edge_key rll) (grid_pairs H W wrap m)) in *.
  assert (HP : Permutation S (grid_pairs H W wrap m)) by apply sort_by_perm.
  assert (Hrange : inrange (H * W) (incs_of P phi S)).
  { apply incs_inrange. eapply perm_prange; [exact HP | apply grid_pairs_range]. }
  assert (Hlen : length (incs_of P phi S) < fuel).
  { unfold incs_of. rewrite map_length, (Permutation_length HP). exact Hfuel. }
  destruct (uf_offsets_any_fuel Hrange Hlen) as [Hany (offs & Hoffs & Hol)].
  assert (L2 : length (fst (fst r)) = length (snd (fst r))) by (unfold r, edges_spec; cbn [fst snd]; rewrite !map_length; reflexivity).
  assert (L3 : length (fst (fst r)) = length (snd r)) by (unfold r, edges_spec; cbn [fst snd]; rewrite !map_length; reflexivity).
  rewrite (Hloop _ _ _ L2 L3), Hes.
  unfold unwrap, unwrap_raw. rewrite Hoffs. rewrite Hoffs in Hany.
  destruct (run fuel (uf_init (H * W)) (incs_of P phi S)) as [st|] eqn:R; [|discriminate].
  rewrite (run_parent_length _ _ _ R). unfold uf_init at 1. cbn [parent]. rewrite seq_length, Hany.
  cbv zeta. rewrite (assemble_eq (2 * P)%Q phi offs Hol). reflexivity.
Qed.

Theorem gen_unwrap_mask_eq (fuel : nat) (P : Q) (H W : nat) (phi : nat -> Q) (m : nat -> bool) (wrap : bool)
        (rll : list Q) :
  length (grid_pairs H W wrap m) < fuel ->
  gen_unwrap_mask fuel P H W phi m wrap (fnq rll)
  = unwrap P (H * W) phi (sort_by (edge_key rll) (grid_pairs H W wrap m)).
Proof.
  intros Hfuel.
  rewrite <- (driver_tail fuel P H W phi rll m wrap gen_unwrap_mask_loop1
                (fun i1 i2 inc L2 L3 st => eq_trans (gen_loop_mask_eq fuel i1 i2 inc L2 L3 (length i1) 0 st eq_refl) eq_refl)
                Hfuel).
  unfold gen_unwrap_mask. rewrite gen_build_edges_mask_eq. cbv beta iota zeta. rewrite gen_uf_init_eq.
  destruct (edges_spec P H W phi (fnq rll) m wrap) as [[c1 c2] c3]. cbn [fst snd]. cbv beta iota zeta.
  destruct (gen_unwrap_mask_loop1 fuel (seq 0 (length c1)) (uf_init (H * W)) c1 c2 c3) as [st|]; [|reflexivity].
  rewrite gen_final_offsets_eq. reflexivity.
Qed.

Theorem gen_unwrap_nomask_eq (fuel : nat) (P : Q) (H W : nat) (phi : nat -> Q) (wrap : bool) (rll : list Q) :
  length (grid_pairs H W wrap (fun _ => true)) < fuel ->
  gen_unwrap_nomask fuel P H W phi wrap (fnq rll)
  = unwrap P (H * W) phi (sort_by (edge_key rll) (grid_pairs H W wrap (fun _ => true))).
Proof.
  intros Hfuel.
  rewrite <- (driver_tail fuel P H W phi rll (fun _ => true) wrap gen_unwrap_nomask_loop1
                (fun i1 i2 inc L2 L3 st => eq_trans (gen_loop_nomask_eq fuel i1 i2 inc L2 L3 (length i1) 0 st eq_refl) eq_refl)
                Hfuel).
  unfold gen_unwrap_nomask. rewrite gen_build_edges_nomask_eq. cbv beta iota zeta. rewrite gen_uf_init_eq.
  destruct (edges_spec P H W phi (fnq rll) (fun _ => true) wrap) as [[c1 c2] c3]. cbn [fst snd]. cbv beta iota zeta.
  destruct (gen_unwrap_nomask_loop1 fuel (seq 0 (length c1)) (uf_init (H * W)) c1 c2 c3) as [st|]; [|reflexivity].
  rewrite gen_final_offsets_eq. reflexivity.
Qed.

(* the code's own order: with rel = the model's reliability list this is the model's driver *)
Theorem gen_unwrap_is_unwrap_code (fuel : nat) (P : Q) (H W : nat) (phi : nat -> Q) (m : nat -> bool) (wrap : bool) :
  length (grid_pairs H W wrap m) < fuel ->
  gen_unwrap_mask fuel P H W phi m wrap (fnq (rel_list P H W phi)) = unwrap_code P H W wrap m phi.
Proof. intros Hf. rewrite (gen_unwrap_mask_eq fuel P H W phi m wrap (rel_list P H W phi) Hf). reflexivity. Qed.

(* ---------------------------------------------------------------- statements of C17_GenProperties.v *)
Lemma build_edges_tie_full :
  forall (P : Q) (H W : nat) (phi : nat -> Q) (rel : list Q) (mask : nat -> bool) (wrap : bool),
    triples_of (gen_build_edges_mask P H W phi (fnq rel) mask wrap)
    = ztriples (incs_of P phi (sort_by (edge_key rel) (grid_pairs H W wrap mask))) /\
    triples_of (gen_build_edges_nomask P H W phi (fnq rel) wrap)
    = ztriples (incs_of P phi (sort_by (edge_key rel) (grid_pairs H W wrap (fun _ => true)))).
Proof.
  intros P H W phi rel mask wrap. unfold triples_of.
  rewrite gen_build_edges_mask_eq, gen_build_edges_nomask_eq.
  rewrite (edges_spec_model P H W phi rel mask wrap), (edges_spec_model P H W phi rel (fun _ => true) wrap).
  split; reflexivity.
Qed.

Lemma translated_driver_correct_full :
  forall (fuel : nat) (P : Q) (H W : nat) (rel : list Q) (mask : nat -> bool) (wrap : bool)
         (phi phiw : nat -> Q) (K : nat -> Z),
    (0 < P)%Q -> length (grid_pairs H W wrap mask) < fuel ->
    (forall x y, In (x, y) (grid_pairs H W wrap mask) -> (Qabs (phi x - phi y) < P)%Q) ->
    (forall x, (phiw x == phi x - 2 * P * inject_Z (K x))%Q) ->
    (forall x y, In (x, y) (grid_pairs H W wrap mask) -> (Qabs (phiw x - phiw y) < 2 * P)%Q) ->
    exists (out : list Q) (c : nat -> Q),
      gen_unwrap_mask fuel P H W phiw mask wrap (fnq rel) = Some out /\ length out = H * W /\
      (forall x y, conn (prel (grid_pairs H W wrap mask)) x y -> (c x == c y)%Q) /\
      (forall x, x < H * W -> (nth x out 0%Q == phi x + c x)%Q).
Proof.
  intros fuel P H W rel mask wrap phi phiw K HP Hfuel H1 H2 H3.
  rewrite (gen_unwrap_mask_eq fuel P H W phiw mask wrap rel Hfuel).
  apply (@unwrap_correct_grid P H W wrap mask (sort_by (edge_key rel) (grid_pairs H W wrap mask)) phi phiw K);
    try assumption.
  apply sort_by_perm.
Qed.
