(* C13 — FIXED proof script of the index-arithmetic tie.  Compiled by the check on every run against the
   freshly generated build/C13/Gen_C13.v (harness/c13_tie.py reads the CURRENT source of imaging_utils.py):
   every gen_f translated from the source equals the definition coq/model/C13_Model.v transcribes by hand, for
   all arguments.  Proofs close by lia / ring / field after unfolding (no syntactic matching on the generated
   bodies beyond unfolding the gen_ constants), so renamed locals, reordered statements and re-associated sums in
   the source do not break them. *)
From QV.lib Require Import Prelude.
From QV.model Require Import C13_Model.
From QV.proof Require Import C13_Proofs C13_Proofs_Est C13_Proofs_Swap C13_Proofs_DC.
From GenC13 Require Import Gen_C13.
From Coq Require Import QArith Qround Qabs Psatz.
Local Close Scope Q_scope.

Local Notation "x ==q y" := (Qeq x y) (at level 70, no associativity).

(* ---------------------------------------------------------------- helpers *)
Lemma Qfloor_half (a : Z) x : x ==q (inject_Z a / 2)%Q -> Qfloor x = (a / 2)%Z.
Proof.
  intros E. rewrite (Qfloor_comp _ _ E). unfold Qdiv, Qmult, Qinv, inject_Z, Qfloor. cbn [Qnum Qden].
  rewrite Z.mul_1_r. reflexivity.
Qed.

Lemma Qceiling_half (a : Z) x : x ==q (inject_Z a / 2)%Q -> Qceiling x = ((a + 1) / 2)%Z.
Proof.
  intros E. unfold Qceiling.
  assert (E' : (- x ==q inject_Z (- a) / 2)%Q) by (rewrite E, inject_Z_opp; field).
  rewrite (Qfloor_half (- a) (- x) E'). lia.
Qed.

Lemma qmodz_nat x n : qmodz x (Z.of_nat n) = qmod x n.
Proof. reflexivity. Qed.

Lemma qN_inj n : qN n = inject_Z (Z.of_nat n).
Proof. reflexivity. Qed.

Lemma du_Z up : Z.of_nat (du up) = ((3 * Z.of_nat up + 1) / 2)%Z.
Proof. unfold du. lia. Qed.

Lemma three_half_l (u : Z) : ((3 # 2) * inject_Z u ==q inject_Z (3 * u) / 2)%Q.
Proof. rewrite inject_Z_mult. change (inject_Z 3) with 3%Q. field. Qed.

Lemma three_half_r (u : Z) : (inject_Z u * (3 # 2) ==q inject_Z (3 * u) / 2)%Q.
Proof. rewrite inject_Z_mult. change (inject_Z 3) with 3%Q. field. Qed.

(* the guarded / torch parabola, whatever way the source writes the quotient *)
Ltac parab_tie :=
  intros; unfold tparab; cbv zeta;
  repeat match goal with
         | |- context [Qeq_bool ?d ?z] =>
           let E := fresh "E" in
           destruct (Qeq_bool d z) eqn:E;
           [apply Qeq_bool_iff in E | apply Qeq_bool_neq in E]
         end;
  cbn [negb]; unfold inject_Z in *;
  try reflexivity;
  try (exfalso; match goal with H : ~ _ ==q _ |- _ => apply H; lra end);
  try (apply Qdiv_comp; ring).

(* ---------------------------------------------------------------- cross_correlation_shift *)
Lemma inds_eq n p (f : Z -> Z -> list Z) :
  (forall a b, f a b = map (fun d : Z => ((b + d) mod a)%Z) [-1; 0; 1]%Z) ->
  0 < n -> p < n -> f (Z.of_nat n) (Z.of_nat p) = map Z.of_nat [prv n p; p; nxt n p].
Proof.
  intros Hf Hn Hp. rewrite Hf. cbn [map]. unfold prv, nxt, wrapi.
  rewrite !Z2Nat.id by (apply Z.mod_pos_bound; lia).
  replace (Z.of_nat p + -1)%Z with (Z.of_nat p - 1)%Z by lia.
  rewrite Z.add_0_r, (Z.mod_small (Z.of_nat p)) by lia. reflexivity.
Qed.

Lemma gen_np_inds_eq_model n p : 0 < n -> p < n ->
  gen_np_inds (Z.of_nat n) (Z.of_nat p) = map Z.of_nat [prv n p; p; nxt n p] /\
  gen_np_inds_col (Z.of_nat n) (Z.of_nat p) = map Z.of_nat [prv n p; p; nxt n p].
Proof.
  intros Hn Hp. split; apply inds_eq; auto; intros a b; unfold gen_np_inds, gen_np_inds_col;
    cbn [map]; repeat f_equal; try lia.
Qed.

Lemma gen_np_parab_eq_model v0 v1 v2 :
  gen_np_parab v0 v1 v2 ==q tparab v0 v1 v2 /\ oeq (gparab v0 v1 v2) (Some (gen_np_parab v0 v1 v2)).
Proof.
  assert (H : gen_np_parab v0 v1 v2 ==q tparab v0 v1 v2) by (unfold gen_np_parab; parab_tie).
  split; [exact H|]. rewrite gparab_tparab. cbn [oeq]. symmetry. exact H.
Qed.

Lemma gen_np_wrap_eq_model n p dx :
  gen_np_wrap (Z.of_nat n) (Z.of_nat p) dx ==q qmod (qN p + dx) n /\
  gen_np_wrap_col (Z.of_nat n) (Z.of_nat p) dx ==q qmod (qN p + dx) n.
Proof.
  unfold gen_np_wrap, gen_np_wrap_col. rewrite !qmodz_nat.
  split; apply qmod_comp; unfold qN; ring.
Qed.

Lemma gen_np_offset_eq_model up x0 lx dxf : 0 < up ->
  gen_np_offset (Z.of_nat up) (Z.of_nat (np_win up)) x0 (Z.of_nat lx) dxf ==q np_offset up x0 lx dxf /\
  gen_np_offset_col (Z.of_nat up) (Z.of_nat (np_win up)) x0 (Z.of_nat lx) dxf ==q np_offset up x0 lx dxf.
Proof.
  intros Hup.
  assert (W2 : (Z.of_nat (np_win up) / 2 = Z.of_nat (du up))%Z) by (unfold np_win; lia).
  unfold gen_np_offset, gen_np_offset_col, np_offset. rewrite !W2, !qN_inj.
  split; unfold Qdiv; ring.
Qed.

Lemma gen_np_centre_eq_model n t : 0 < n ->
  gen_np_centre (Z.of_nat n) t ==q centre n t /\ gen_np_centre_col (Z.of_nat n) t ==q centre n t.
Proof.
  intros Hn. unfold gen_np_centre, gen_np_centre_col, centre. rewrite !qmodz_nat, !qN_inj.
  assert (H : ((1 # 2) * inject_Z (Z.of_nat n) ==q inject_Z (Z.of_nat n) / 2)%Q) by field.
  split.
  - match goal with |- (qmod ?a n - ?h ==q _)%Q =>
      assert (Ea : a ==q (t + inject_Z (Z.of_nat n) / 2)%Q) by (field);
      assert (Eh : h ==q (inject_Z (Z.of_nat n) / 2)%Q) by (field);
      rewrite (@qmod_comp _ _ n Ea), Eh; reflexivity end.
  - match goal with |- (qmod ?a n - ?h ==q _)%Q =>
      assert (Ea : a ==q (t + inject_Z (Z.of_nat n) / 2)%Q) by (field);
      assert (Eh : h ==q (inject_Z (Z.of_nat n) / 2)%Q) by (field);
      rewrite (@qmod_comp _ _ n Ea), Eh; reflexivity end.
Qed.

Lemma py_slice3 lx W : lx < W ->
  (py_slice_len (Z.of_nat lx - 1) (Z.of_nat lx + 2) (Z.of_nat W) =? 3)%Z = negb ((lx =? 0) || (W <=? lx + 1)).
Proof.
  intros H. unfold py_slice_len, py_clamp.
  destruct (Z.ltb_spec (Z.of_nat lx - 1) 0), (Z.ltb_spec (Z.of_nat lx + 2) 0),
    (Nat.eqb_spec lx 0), (Nat.leb_spec W (lx + 1)); cbn [orb negb];
    try (apply Z.eqb_eq; lia); try (apply Z.eqb_neq; lia); lia.
Qed.

Lemma patch_ok_eq (f : Z -> Z -> Z -> bool) lx ly W :
  (forall a b w, f a b w = ((py_slice_len (a - 1) (a + 2) w =? 3)%Z && (py_slice_len (b - 1) (b + 2) w =? 3)%Z)%bool) ->
  lx < W -> ly < W ->
  f (Z.of_nat lx) (Z.of_nat ly) (Z.of_nat W) = negb ((lx =? 0) || (W <=? lx + 1) || (ly =? 0) || (W <=? ly + 1)).
Proof.
  intros Hf Hx Hy. rewrite Hf, (py_slice3 lx W Hx), (py_slice3 ly W Hy).
  destruct (lx =? 0), (W <=? lx + 1), (ly =? 0), (W <=? ly + 1); reflexivity.
Qed.

(* the 3 x 3 patch test of both estimators is the model's border guard (win_refine) *)
Lemma gen_patch_ok_eq_model lx ly W : lx < W -> ly < W ->
  gen_np_patch_ok (Z.of_nat lx) (Z.of_nat ly) (Z.of_nat W) = negb ((lx =? 0) || (W <=? lx + 1) || (ly =? 0) || (W <=? ly + 1)) /\
  gen_t_patch_ok (Z.of_nat lx) (Z.of_nat ly) (Z.of_nat W) = negb ((lx =? 0) || (W <=? lx + 1) || (ly =? 0) || (W <=? ly + 1)).
Proof.
  intros Hx Hy. split; apply patch_ok_eq; auto; intros a b w; unfold gen_np_patch_ok, gen_t_patch_ok;
    repeat f_equal; lia.
Qed.

(* ---------------------------------------------------------------- dft_upsample *)
Lemma ceil_du up x : (x ==q (3 # 2) * inject_Z (Z.of_nat up))%Q -> Qceiling x = Z.of_nat (du up).
Proof. intros E. rewrite du_Z. apply Qceiling_half. rewrite E. apply three_half_l. Qed.

(* every ceil(1.5 up) of the generated text, however it is written, is the model's du *)
Ltac norm_ceil up := repeat match goal with |- context [Qceiling ?x] => rewrite (ceil_du up x) by ring end.

Lemma gen_du_eq_model up : gen_du (Z.of_nat up) = Z.of_nat (du up).
Proof. unfold gen_du. norm_ceil up. lia. Qed.

Lemma gen_np_window_eq_model up a :
  gen_np_row (Z.of_nat up) (Z.of_nat a) = np_row up a /\ gen_np_col (Z.of_nat up) (Z.of_nat a) = np_row up a /\
  gen_np_row_len (Z.of_nat up) = Z.of_nat (np_win up) /\ gen_np_col_len (Z.of_nat up) = Z.of_nat (np_win up).
Proof.
  unfold gen_np_row, gen_np_col, gen_np_row_len, gen_np_col_len, np_row, np_win.
  norm_ceil up. repeat split; lia.
Qed.

Lemma freq_Z n k : 0 < n ->
  (((Z.of_nat k + Z.of_nat n / 2) mod Z.of_nat n) - Z.of_nat n / 2)%Z = np_freq n k.
Proof. intros _. reflexivity. Qed.

Lemma gen_np_kphase_eq_model n up x0 a k : 0 < n -> 0 < up ->
  gen_np_kphase_row (Z.of_nat n) (Z.of_nat up) x0 (Z.of_nat a) (Z.of_nat k) ==q np_kern_phase n up x0 a k /\
  gen_np_kphase_col (Z.of_nat n) (Z.of_nat up) x0 (Z.of_nat a) (Z.of_nat k) ==q np_kern_phase n up x0 a k.
Proof.
  intros Hn Hup.
  assert (Nn : ~ inject_Z (Z.of_nat n) ==q 0%Q) by (apply (qN_neq0 Hn)).
  assert (Nu : ~ inject_Z (Z.of_nat up) ==q 0%Q) by (apply (qN_neq0 Hup)).
  unfold gen_np_kphase_row, gen_np_kphase_col, np_kern_phase. norm_ceil up. rewrite !qN_inj.
  fold (np_freq n k). unfold np_row. rewrite !inject_Z_plus, ?inject_Z_minus, ?inject_Z_opp.
  split; field; auto.
Qed.

(* ---------------------------------------------------------------- torch *)
Lemma gen_t_centre_eq_model n t : 0 < n ->
  gen_t_centre (Z.of_nat n) t ==q centre n t /\ gen_t_centre_col (Z.of_nat n) t ==q centre n t.
Proof.
  intros Hn. unfold gen_t_centre, gen_t_centre_col, centre. rewrite !qmodz_nat, !qN_inj.
  split.
  - match goal with |- (qmod ?a n - ?h ==q _)%Q =>
      assert (Ea : a ==q (t + inject_Z (Z.of_nat n) / 2)%Q) by (field);
      assert (Eh : h ==q (inject_Z (Z.of_nat n) / 2)%Q) by (field);
      rewrite (@qmod_comp _ _ n Ea), Eh; reflexivity end.
  - match goal with |- (qmod ?a n - ?h ==q _)%Q =>
      assert (Ea : a ==q (t + inject_Z (Z.of_nat n) / 2)%Q) by (field);
      assert (Eh : h ==q (inject_Z (Z.of_nat n) / 2)%Q) by (field);
      rewrite (@qmod_comp _ _ n Ea), Eh; reflexivity end.
Qed.

Lemma gen_t_unravel_eq_model i ncols :
  (gen_t_unravel_row (Z.of_nat i) (Z.of_nat ncols), gen_t_unravel_col (Z.of_nat i) (Z.of_nat ncols))
  = (Z.of_nat (i / ncols), Z.of_nat (i mod ncols)).
Proof. unfold gen_t_unravel_row, gen_t_unravel_col. f_equal; lia. Qed.

Lemma gen_t_inds_eq_model n p : 0 < n -> p < n ->
  gen_t_inds (Z.of_nat n) (Z.of_nat p) = map Z.of_nat [prv n p; p; nxt n p] /\
  gen_t_inds_col (Z.of_nat n) (Z.of_nat p) = map Z.of_nat [prv n p; p; nxt n p].
Proof.
  intros Hn Hp. split; apply inds_eq; auto; intros a b; unfold gen_t_inds, gen_t_inds_col;
    cbn [map]; repeat f_equal; try lia.
Qed.

Lemma gen_t_parab_eq_model v0 v1 v2 :
  gen_t_parab v0 v1 v2 ==q tparab v0 v1 v2 /\ gen_t_parab_col v0 v1 v2 ==q tparab v0 v1 v2.
Proof. split; [unfold gen_t_parab | unfold gen_t_parab_col]; parab_tie. Qed.

Lemma gen_t_half_eq_model p dx :
  gen_t_half (Z.of_nat p) dx ==q (inject_Z (round_he ((qN p + dx) * 2)) / 2)%Q /\
  gen_t_half_col (Z.of_nat p) dx ==q (inject_Z (round_he ((qN p + dx) * 2)) / 2)%Q.
Proof.
  unfold gen_t_half, gen_t_half_col. rewrite !qN_inj.
  split;
    first [ reflexivity
          | match goal with |- (inject_Z (round_he ?a) / _ ==q inject_Z (round_he ?b) / _)%Q =>
              assert (E : a ==q b) by ring; rewrite (@round_he_comp a b E); reflexivity end ].
Qed.

Lemma gen_t_upsamples_eq_model up : gen_t_upsamples (Z.of_nat up) = negb (up <=? 2).
Proof.
  unfold gen_t_upsamples.
  destruct (Nat.leb_spec up 2); cbn [negb];
    repeat match goal with |- context [(?a >? ?b)%Z] => rewrite (Z.gtb_ltb a b) end;
    repeat match goal with |- context [(?a >=? ?b)%Z] => rewrite (Z.geb_leb a b) end;
    first [apply Z.ltb_ge; lia | apply Z.ltb_lt; lia | apply Z.leb_le; lia | apply Z.leb_gt; lia].
Qed.

Lemma gen_t_round_eq_model up x :
  gen_t_round (Z.of_nat up) x ==q t_round up x /\ gen_t_round_col (Z.of_nat up) x ==q t_round up x.
Proof.
  unfold gen_t_round, gen_t_round_col, t_round. rewrite !qN_inj.
  split;
    first [ reflexivity
          | match goal with |- (inject_Z (round_he ?a) / _ ==q inject_Z (round_he ?b) / _)%Q =>
              assert (E : a ==q b) by ring; rewrite (@round_he_comp a b E); reflexivity end ].
Qed.

Lemma gen_t_win_eq_model up : gen_t_win (Z.of_nat up) = Z.of_nat (t_win up).
Proof. unfold gen_t_win, t_win. norm_ceil up. reflexivity. Qed.

Lemma gen_t_gs_eq_model up : gen_t_gs (Z.of_nat up) = Z.of_nat (t_gs up).
Proof.
  unfold gen_t_gs, t_gs.
  assert (C : forall x, (x ==q (3 # 2) * inject_Z (Z.of_nat up))%Q -> Qceiling x = Z.of_nat (du up)).
  { intros x E. rewrite du_Z. apply Qceiling_half. rewrite E. apply three_half_l. }
  match goal with |- Qfloor (inject_Z (Qceiling ?x) / _) = _ =>
    rewrite (C x) by ring end.
  match goal with |- Qfloor ?y = _ => rewrite (Qfloor_half (Z.of_nat (du up)) y (Qeq_refl y)) end. lia.
Qed.

Lemma gen_t_center_eq_model up xs : gen_t_center (Z.of_nat up) xs ==q t_center up xs.
Proof.
  pose proof (gen_t_gs_eq_model up) as G. unfold gen_t_gs in G.
  unfold gen_t_center, t_center. rewrite G, !qN_inj. ring.
Qed.

Lemma gen_t_wparab_eq_model v0 v1 v2 :
  (fst (gen_t_wparab v0 v1 v2) ==q v2 - v0)%Q /\ (snd (gen_t_wparab v0 v1 v2) ==q 4 * v1 - 2 * v2 - 2 * v0)%Q /\
  (fst (gen_t_wparab_col v0 v1 v2) ==q v2 - v0)%Q /\ (snd (gen_t_wparab_col v0 v1 v2) ==q 4 * v1 - 2 * v2 - 2 * v0)%Q.
Proof. unfold gen_t_wparab, gen_t_wparab_col. cbn [fst snd]. repeat split; ring. Qed.

Lemma gen_t_offset_eq_model up xs r d : 0 < up ->
  gen_t_offset (Z.of_nat up) xs (Z.of_nat r) d ==q t_offset up xs r d /\
  gen_t_offset_col (Z.of_nat up) xs (Z.of_nat r) d ==q t_offset up xs r d.
Proof.
  intros Hup. pose proof (gen_t_gs_eq_model up) as G. unfold gen_t_gs in G.
  unfold gen_t_offset, gen_t_offset_col, t_offset. rewrite !G, !qN_inj, inject_Z_minus.
  split; unfold Qdiv; ring.
Qed.

Lemma gen_t_kphase_eq_model n up ctr a k : 0 < n -> 0 < up ->
  gen_t_kphase_row (Z.of_nat n) (Z.of_nat up) ctr (Z.of_nat a) (Z.of_nat k) ==q t_kern_phase n up ctr a k /\
  gen_t_kphase_col (Z.of_nat n) (Z.of_nat up) ctr (Z.of_nat a) (Z.of_nat k) ==q t_kern_phase n up ctr a k.
Proof.
  intros Hn Hup.
  assert (Nn : ~ inject_Z (Z.of_nat n) ==q 0%Q) by (apply (qN_neq0 Hn)).
  assert (Nu : ~ inject_Z (Z.of_nat up) ==q 0%Q) by (apply (qN_neq0 Hup)).
  assert (F : Qfloor (inject_Z (Z.of_nat n) / inject_Z 2) = (Z.of_nat n / 2)%Z) by (apply (Qfloor_half (Z.of_nat n)); reflexivity).
  unfold gen_t_kphase_row, gen_t_kphase_col, t_kern_phase. rewrite ?F, !qN_inj.
  fold (np_freq n k).
  split; field; auto.
Qed.
