(* C19 — the translator tie: the functions GENERATED from the current quantem/core/config.py
   (build/C19/Gen_C19.v, harness/translate_C19.py) equal the hand-written model for all arguments.
   Re-proved by every run of the check. *)
From QV.lib Require Import Prelude.
From QV.model Require Import C19_Model C19_Model2 C19_PyLib.
From QV.proof Require Import C19_Proofs_Keys C19_Proofs_Update C19_Proofs_PyLib.
From Gen19 Require Import Gen_C19 C19_GenProofs.
From Coq Require Import String Ascii.

(* canonical_name: on a dict the model's canon; on a scalar (the TypeError branch) the name itself,
   on a str the substring rule the model's dkey uses *)
Theorem C19_tie_canonical_name :
  forall validate D A k,
    (forall d, gen_canonical_name validate D A k (Node d) = inr (canon k d)) /\
    (forall x, gen_canonical_name validate D A k (Leaf x) =
               inr (match x with
                    | JStr s => if contains k s then k else if contains (alt_name k) s then alt_name k else k
                    | _ => k end)).
Proof. intros. split; [exact (gen_canon_node validate D A k) | exact (gen_canon_leaf validate D A k)]. Qed.
Print Assumptions C19_tie_canonical_name.

(* check_key_val with ANY deprecations / aliases tables = the model's check_key_val_t (the key is never
   renamed); the module's tables are empty today, hence = check_key_val: the device gate *)
Theorem C19_tie_check_key_val :
  (forall validate D A k v,
     gen_check_key_val validate D A k v =
     match check_key_val_t validate D A k v with inl e => inl e | inr v' => inr (k, v') end) /\
  gen_deprecations = [] /\ gen_aliases = [] /\
  (forall validate k v,
     gen_check_key_val validate gen_deprecations gen_aliases k v =
     match check_key_val validate k v with inl e => inl e | inr v' => inr (k, v') end).
Proof.
  split; [exact gen_ckv_t|]. split; [reflexivity|]. split; [reflexivity|].
  intros validate k v. change gen_deprecations with (@nil (string * option string)).
  change gen_aliases with (@nil (string * list (jval * jval))).
  rewrite gen_ckv_base. unfold check_key_val. destruct (check_dev validate k v) as [|[|]]; reflexivity.
Qed.
Print Assumptions C19_tie_check_key_val.

(* update: all three priorities, any nesting (enough recursion depth), any `defaults` value; and the
   only values update stores into `old` are fresh dicts and values tested not to be mappings *)
Theorem C19_tie_update :
  (forall validate fuel prio new old dv,
     fits fuel new ->
     gen_update validate [] [] fuel old new (prio_str prio) (dv_cfg dv) = update_items validate prio new old dv) /\
  Forall (fun s => s <> StOther) gen_update_stores.
Proof.
  split; [exact gen_update_items|]. repeat constructor; discriminate.
Qed.
Print Assumptions C19_tie_update.

Theorem C19_tie_merge :
  forall validate fuel ds, Forall (fits fuel) ds ->
    gen_merge validate [] [] fuel ds =
    match merge validate ds with (m, None) => inr m | (_, Some e) => inl e end.
Proof. exact gen_merge_eq. Qed.
Print Assumptions C19_tie_merge.

(* update_defaults: the check loop rewrites new[key] in place (assign_all), the comparison mapping is the
   recursive merge of ALL stored defaults, the rewritten mapping is appended to the stack *)
Theorem C19_tie_update_defaults :
  forall validate fuel new config defaults,
    Forall (fits fuel) defaults ->
    (forall new', check_items validate new = inr new' -> fits fuel (assign_all new' new)) ->
    gen_update_defaults validate [] [] fuel new config defaults =
    match check_items validate new with
    | inl e => ((config, defaults), Some e)
    | inr new' =>
        let new2 := assign_all new' new in
        match merge validate defaults with
        | (_, Some e) => ((config, defaults), Some e)
        | (cur, None) =>
            let (c', e) := update_items validate PNewDefaults new2 config (Some (Node cur)) in
            ((c', defaults ++ [new2]), e)
        end
    end.
Proof. exact gen_update_defaults_eq. Qed.
Print Assumptions C19_tie_update_defaults.

(* refresh (with collect: the environment is not read, the yaml files are merged) *)
Theorem C19_tie_refresh :
  forall validate fuel yaml config defaults,
    Forall (fits fuel) defaults -> Forall (fits fuel) yaml ->
    (forall cy, merge validate yaml = (cy, None) -> fits fuel cy) ->
    gen_refresh validate [] [] fuel yaml config defaults =
    (let (s', e) := refresh validate yaml {| conf := config; dflts := defaults |} in (conf s', e)).
Proof. exact gen_refresh_eq. Qed.
Print Assumptions C19_tie_refresh.

(* get: dotted path, default handling, override_with *)
Theorem C19_tie_get :
  forall validate D A key dflt d ov,
    gen_get validate D A key dflt (Node d) ov = get_full key dflt (Some ov) d.
Proof. exact gen_get_eq. Qed.
Print Assumptions C19_tie_get.

(* set._assign: path descent and the record kept for __exit__ *)
Theorem C19_tie_assign :
  forall validate D A fuel rest k v d path record recs,
    (List.length (k :: rest) <= fuel)%nat ->
    match assign_path k rest v d with
    | inr (d', pc) =>
        gen_assign validate D A fuel (k :: rest) v d path record recs =
        ((d', if record then recs ++ [rec_of path pc] else recs), None)
    | inl e => snd (gen_assign validate D A fuel (k :: rest) v d path record recs) = Some e
    end.
Proof. exact gen_assign_eq. Qed.
Print Assumptions C19_tie_assign.

Example C19_nonvacuous_tie_update :
  fits 2 [("a"%string, Node [("b"%string, Leaf (JInt 1))])] /\
  gen_update validate_nogpu [] [] 2 [("a"%string, Node [("c"%string, Leaf (JInt 0))])]
    [("a"%string, Node [("b"%string, Leaf (JInt 1))])] "new" py_none =
  ([("a"%string, Node [("c"%string, Leaf (JInt 0)); ("b"%string, Leaf (JInt 1))])], None).
Proof. split; [cbv; lia | vm_compute; reflexivity]. Qed.

Example C19_nonvacuous_tie_update_defaults :
  let new := [("dtype-real"%string, Leaf (JStr "float64"))] in
  Forall (fits 3) [[("dtype_real"%string, Leaf (JStr "float32"))]] /\
  (forall new', check_items validate_nogpu new = inr new' -> fits 3 (assign_all new' new)).
Proof. cbv zeta. split; [repeat constructor; cbv; lia|]. intros new' E. vm_compute in E. inversion E; subst. cbv. lia. Qed.

(* set.__exit__ is translated too (cursor semantics) and cross-tested; on an example it undoes set._assign *)
Example C19_gen_exit_example :
  gen_exit validate_nogpu [] [] [("a"%string, Node [("b"%string, Leaf (JInt 2)); ("c"%string, Leaf (JInt 3))])]
    [("replace"%string, ["a"; "b"]%string, Leaf (JInt 1)); ("insert"%string, ["a"; "c"]%string, py_none)]
  = ([("a"%string, Node [("b"%string, Leaf (JInt 1))])], None).
Proof. vm_compute. reflexivity. Qed.
