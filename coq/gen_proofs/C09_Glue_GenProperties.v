(* C09 glue tie: the theorem that ties the train/validation split block TRANSLATED on this run from the
   source of quantem.diffractive_imaging.ptycho_utils.SimpleBatcher.__init__ (GenC09.Gen_C09Glue,
   written by harness/c09_glue_tie.py) to the hand-written model coq/model/C09_Model.v.
   ONLY statements closed by `exact` and their assumption reports. *)
From QV.lib Require Import Prelude FloatBits C09_GlueLib.
From QV.model Require Import C09_Model C09_Model_Ext.
From GenC09 Require Import Gen_C09Glue C09_Glue_GenProofs.
From Coq Require Import PrimFloat Permutation.

(* every n, every binary64 val_ratio (incl. out of range, nan, infinities), both modes, every
   permutation: the split computed by the translated source is the model's split (None = the
   constructor raises) *)
Theorem C09_glue_tie :
  forall (n : nat) (ratio : float) (random : bool) (perm : list nat),
    gen_split n ratio random perm = split_of_ratio n ratio random perm.
Proof. exact gen_split_eq_model. Qed.
Print Assumptions C09_glue_tie.

(* and therefore the partition theorem speaks about the translated source *)
Theorem C09_glue_partition :
  forall (n : nat) (ratio : float) (random : bool) (perm : list nat) (s : tvsplit),
    Permutation perm (seq 0 n) -> gen_split n ratio random perm = Some s ->
    Permutation (train s ++ val s) (seq 0 n) /\ NoDup (train s ++ val s).
Proof. exact gen_split_partition. Qed.
Print Assumptions C09_glue_partition.

Example C09_glue_nonvacuous :
  exists s, gen_split 10%nat 0x1.999999999999ap-3%float false [] = Some s /\ val s = [0; 5]%nat
            /\ gen_split 7%nat 0x1.3333333333333p-1%float false [] = Some {| train := [0; 2; 4; 6]%nat; val := [1; 3; 5]%nat |}.
Proof. eexists. repeat split; vm_compute; reflexivity. Qed.
