(* C01 / C14 source tie - FIXED proof script, compiled by the check on every run against the file
   build/<id>/Gen_C01Tie.v that harness/c01_tie.py has just translated from quantem/core/io/serialize.py.
   Every lemma states: what the CURRENT source says (the gen_ definitions) = what coq/model/C01_Model.v assumes.
   The proofs work by evaluating the translated terms, never by matching their syntax: reordering the
   operands of an and/or, the members of a type tuple, independent statements or renaming locals in the
   source leaves them valid; a reordered branch, a changed marker, a dropped filter or a skip list that is
   no longer passed on makes them fail (and the check reports the tie broken). *)
From QV.lib Require Import Prelude C01_TieLib.
From QV.model Require Import C01_Model.
From GenC01 Require Import Gen_C01Tie.
From Coq Require Import String Bool.
Local Open Scope string_scope.
Local Open Scope list_scope.

(* ---------------------------------------------------------------- tactics: evaluate closed atoms, rewrite open ones *)
Ltac eval_closed :=
  repeat match goal with
  | |- context[mem ?a (?x :: ?l)] =>
    let r := eval vm_compute in (mem a (x :: l)) in
    lazymatch r with true => change (mem a (x :: l)) with true | false => change (mem a (x :: l)) with false end
  | |- context[String.eqb ?a ?b] =>
    let r := eval vm_compute in (String.eqb a b) in
    lazymatch r with true => change (String.eqb a b) with true | false => change (String.eqb a b) with false end
  | |- context[contains ?a ?b] =>
    let r := eval vm_compute in (contains a b) in
    lazymatch r with true => change (contains a b) with true | false => change (contains a b) with false end
  end.
Ltac split_hyps :=
  repeat match goal with
  | H : (_ && _)%bool = true |- _ => apply andb_prop in H; destruct H
  | H : negb _ = true |- _ => apply negb_true_iff in H
  end.
Ltac in_lit := cbn [In]; repeat (first [left; reflexivity | right]).
Ltac simp_bool := cbn [orb andb negb].

Lemma fte_cons e r v i : first_true_e (e :: r) v i = if geval e v then i else first_true_e r v (S i).
Proof. reflexivity. Qed.
Lemma fte_nil v i : first_true_e [] v i = i.
Proof. reflexivity. Qed.
Lemma mem_app_obj T tys : String.eqb T "builtins.object" = false -> mem T (tys ++ ["builtins.object"]) = mem T tys.
Proof.
  intros E. unfold mem. rewrite existsb_app. cbn [existsb]. rewrite E. now rewrite !orb_false_r.
Qed.
Lemma hd_app_obj tys : contains "torch" (hd "" (tys ++ ["builtins.object"])) = contains "torch" (hd "" tys).
Proof. destruct tys; reflexivity. Qed.
Lemma is_inst_obj T m c l : String.eqb T (cls_name m c) = false ->
  is_inst T (VObj m c l) = mem T [T_auto; "builtins.object"].
Proof. intros E. unfold is_inst, mem. cbn [types_of app existsb]. now rewrite E. Qed.

Definition gen_dispatch (v : value) : nat := first_true_e gen_chain v 0.


Lemma fte_true e r v i : geval e v = true -> first_true_e (e :: r) v i = i.
Proof. intros E. cbn [first_true_e]. now rewrite E. Qed.
Lemma fte_false e r v i : geval e v = false -> first_true_e (e :: r) v i = first_true_e r v (S i).
Proof. intros E. cbn [first_true_e]. now rewrite E. Qed.

(* one test of the chain on a value whose type list is abstract: a small goal `geval e v = b` *)
Ltac blob_norm :=
  cbn [geval existsb]; unfold is_inst, module_str, exact_ty, types_of; cbv beta iota; cbn [has_attr];
  rewrite ?mem_app_obj by reflexivity; rewrite ?hd_app_obj.
(* name the open atoms (membership of a literal in an abstract type list, "torch" in an abstract module name) so that
   every later step works on variables *)
Ltac abs_atoms :=
  repeat match goal with
  | |- context[mem ?T ?l] => is_var l; let a := fresh "a" in set (a := mem T l) in *; clearbody a
  | |- context[contains ?s (hd "" ?l)] => is_var l; let a := fresh "a" in set (a := contains s (hd "" l)) in *; clearbody a
  | |- context[contains ?s ?m] => is_var m; let a := fresh "a" in set (a := contains s m) in *; clearbody a
  end.
Ltac rew_vars :=
  repeat match goal with
  | H : ?x = true |- _ => is_var x; rewrite H in *; clear H
  | H : ?x = false |- _ => is_var x; rewrite H in *; clear H
  end.
Ltac finish_guard :=
  simp_bool; rewrite ?orb_false_r, ?andb_false_r, ?orb_true_r, ?andb_true_r;
  first [ reflexivity | assumption
        | repeat match goal with x : bool |- _ => destruct x end;
          cbn [implb orb andb negb] in *; first [ reflexivity | discriminate | congruence ] ].
Ltac chain tac := repeat first [ rewrite fte_false by tac | rewrite fte_true by tac ]; rewrite ?fte_nil.

Lemma dispatch_scalar_np : forall dt n, mem dt np_dtypes = true -> gen_dispatch (VNpScalar dt n) = dispatch (VNpScalar dt n).
Proof.
  intros dt n H. apply mem_np_dtypes_cases in H. cbn [In] in H.
  repeat (destruct H as [H|H]; [subst dt; vm_compute; reflexivity|]). destruct H.
Qed.

Lemma none_of_spec names tys : none_of names tys = true -> forall T, In T names -> mem T tys = false.
Proof.
  unfold none_of. intros H T Hin. rewrite forallb_forall in H. apply negb_true_iff. now apply H.
Qed.

Theorem gen_dispatch_eq : forall v, tys_ok v = true -> gen_dispatch v = dispatch v.
Proof.
  intros v H.
  destruct v as [| | | | | |dt n| |k tys meta h|c nm lv| | | | | |m c l|tys h|]; try (vm_compute; reflexivity).
  - apply dispatch_scalar_np. exact H.
  - (* torch.save payloads *)
    destruct k; cbn [tys_ok] in H; unfold T_tensor, T_optimizer, T_module in H; split_hyps;
      unfold gen_dispatch, gen_chain;
      chain ltac:(blob_norm; eval_closed; abs_atoms; rew_vars; finish_guard); reflexivity.
  - (* loggers *)
    cbn [tys_ok] in H. apply orb_prop in H. destruct H as [H|H]; apply String.eqb_eq in H; subst c; vm_compute; reflexivity.
  - (* AutoSerialize objects *)
    cbn [tys_ok] in H. split_hyps.
    assert (Hx : forall T, In T guard_types -> String.eqb T (cls_name m c) = false).
    { intros T HT. match goal with H : forallb _ guard_types = true |- _ => rewrite forallb_forall in H; specialize (H T HT) end.
      now apply negb_true_iff. }
    unfold gen_dispatch, gen_chain.
    chain ltac:(cbn [geval existsb];
                repeat match goal with |- context[is_inst ?T (VObj m c l)] => rewrite (is_inst_obj T m c l) by (apply Hx; in_lit) end;
                unfold module_str; cbn [has_attr]; unfold T_auto; eval_closed; abs_atoms; rew_vars; finish_guard).
    reflexivity.
  - (* dill fallback values *)
    cbn [tys_ok] in H. split_hyps.
    match goal with H : none_of _ _ = true |- _ => pose proof (none_of_spec _ _ H) as Hn end.
    unfold gen_dispatch, gen_chain.
    chain ltac:(blob_norm; unfold T_auto; eval_closed;
                repeat match goal with |- context[mem ?T tys] => rewrite (Hn T) by in_lit end;
                abs_atoms; rew_vars; finish_guard).
    reflexivity.
Qed.

(* ---------------------------------------------------------------- _is_numeric_scalar = the model's num_cat *)
Definition scalar_types : list string :=
  ["builtins.int"; "builtins.float"; "builtins.bool"; "numpy.integer"; "numpy.floating"; "numpy.bool"].
Definition tys_ok_num (v : value) : bool :=
  tys_ok v && match v with VBlob _ tys _ _ => none_of scalar_types tys | _ => true end.
Definition is_num (v : value) : bool := match num_cat v with Some _ => true | None => false end.

Theorem gen_is_numeric_eq : forall v, tys_ok_num v = true -> geval gen_is_numeric v = is_num v.
Proof.
  intros v H. unfold tys_ok_num in H. apply andb_prop in H. destruct H as [H Hs].
  destruct v as [| | | | | |dt n| |k tys meta h|c nm lv| | | | | |m c l|tys h|]; try (vm_compute; reflexivity).
  - cbn [tys_ok] in H. apply mem_np_dtypes_cases in H. cbn [In] in H.
    repeat (destruct H as [H|H]; [subst dt; vm_compute; reflexivity|]). destruct H.
  - pose proof (none_of_spec _ _ Hs) as Hn. unfold gen_is_numeric, is_num. cbn [num_cat].
    blob_norm; eval_closed.
    repeat match goal with |- context[mem ?T tys] => rewrite (Hn T) by in_lit end.
    abs_atoms; finish_guard.
  - cbn [tys_ok] in H. apply orb_prop in H. destruct H as [H|H]; apply String.eqb_eq in H; subst c; vm_compute; reflexivity.
  - cbn [tys_ok] in H. split_hyps.
    assert (Hx : forall T, In T guard_types -> String.eqb T (cls_name m c) = false).
    { intros T HT. match goal with H : forallb _ guard_types = true |- _ => rewrite forallb_forall in H; specialize (H T HT) end.
      now apply negb_true_iff. }
    unfold gen_is_numeric, is_num. cbn [num_cat geval existsb].
    repeat match goal with |- context[is_inst ?T (VObj m c l)] => rewrite (is_inst_obj T m c l) by (apply Hx; in_lit) end.
    unfold T_auto; eval_closed; finish_guard.
  - cbn [tys_ok] in H. split_hyps.
    match goal with H : none_of _ _ = true |- _ => pose proof (none_of_spec _ _ H) as Hn end.
    unfold gen_is_numeric, is_num. cbn [num_cat].
    blob_norm; eval_closed.
    repeat match goal with |- context[mem ?T tys] => rewrite (Hn T) by in_lit end.
    abs_atoms; finish_guard.
Qed.

(* ---------------------------------------------------------------- branch bodies of _serialize_value *)
(* per branch: constant keys written to the sub-group attrs (conditional ones included), keys written to the parent
   group attrs, _write_bytes payload name, helper called, skip lists passed on *)
Definition model_branches : list (list string * list string * string * string * bool) :=
  [ (marker_of BTensor :: ["_tensor_shape"; "_tensor_dtype"; "_tensor_device"; "_tensor_requires_grad"], [], payload_of BTensor, "", false);
    ([marker_of BOptimizer; "class_name"], [], payload_of BOptimizer, "", false);
    ([marker_of BScheduler; "class_name"], [], payload_of BScheduler, "", false);
    (["_torch_logger"; "class_name"; "log_dir"; "comment"; "max_queue"; "flush_secs"; "filename_suffix"], [], "", "", false);
    (["_python_logger"; "class_name"; "logger_name"; "logger_level"], [], "", "", false);
    ([marker_of BModule], [], payload_of BModule, "", false);
    ([], [], "", "_write_ndarray", false);
    ([], ["<name>"], "", "", false);
    ([], ["<name>"], "", "", false);
    ([], ["<name>"; "<f'{name}.is_path'>"], "", "", false);
    ([], [], "", "_recursive_save", true);              (* encode_fields with the SAME sn st *)
    ([], [], "", "_serialize_container", true);         (* encode_seq / encode_dict with encode_value sn st *)
    (["_container_type"], [], "", "_serialize_container", true);
    (["_numpy_rng"; "_rng_state"; "_rng_type"; "_bit_generator_type"], [], "", "", false);
    (["_torch_rng_skipped"; "_rng_type"], [], "", "", false) ].

Theorem gen_branches_eq : gen_branches = model_branches /\ gen_fallback_is_dill = true /\ gen_set_marker_last = true
                          /\ List.length gen_chain = List.length guards.
Proof. repeat split; vm_compute; reflexivity. Qed.

(* ... and the model's encode_value writes exactly those keys: attrs of the sub-group a value gets under name "k" *)
Definition sub_attr_keys (v : value) : list string :=
  match n_groups (encode_value [] [] v "k" empty_group) with
  | [(_, Group a _ _)] => keys a
  | _ => []
  end.
Definition branch_keys (i : nat) : list string :=
  match nth i gen_branches ([], [], "", "", false) with (ks, _, _, _, _) => ks end.
Definition branch_payload (i : nat) : string :=
  match nth i gen_branches ([], [], "", "", false) with (_, _, p, _, _) => p end.
Definition sub_array_keys (v : value) : list string :=
  match n_groups (encode_value [] [] v "k" empty_group) with
  | [(_, Group _ r _)] => keys r
  | _ => []
  end.

Theorem gen_branch_keys_model :
  (forall tys h, sub_attr_keys (VBlob BTensor tys [] h) = [hd "" (branch_keys 0)] /\ sub_array_keys (VBlob BTensor tys [] h) = [branch_payload 0]) /\
  (forall tys h, sub_attr_keys (VBlob BOptimizer tys [] h) = [hd "" (branch_keys 1)] /\ sub_array_keys (VBlob BOptimizer tys [] h) = [branch_payload 1]) /\
  (forall tys h, sub_attr_keys (VBlob BScheduler tys [] h) = [hd "" (branch_keys 2)] /\ sub_array_keys (VBlob BScheduler tys [] h) = [branch_payload 2]) /\
  (forall d q f s, sub_attr_keys (VTbWriter d q f s) = filter (fun k => negb (String.eqb k "comment")) (branch_keys 3)) /\
  (forall c n lv, sub_attr_keys (VLogger c n lv) = branch_keys 4) /\
  (forall tys h, sub_attr_keys (VBlob BModule tys [] h) = [hd "" (branch_keys 5)] /\ sub_array_keys (VBlob BModule tys [] h) = [branch_payload 5]) /\
  (forall bg st, sub_attr_keys (VRng bg st) = branch_keys 13) /\
  (forall l, lookup (hd "" (branch_keys 12)) (match n_groups (encode_value [] [] (VSet l) "k" empty_group) with
                                               | [(_, Group a _ _)] => a | _ => [] end) = Some (JStr "set")).
Proof.
  repeat split; intros; try reflexivity.
  (* the set branch: _container_type = "set" wins over the "list" written by _serialize_container *)
  cbn [encode_value g_tensor g_optimizer g_scheduler g_torch_logger g_py_logger g_module g_ndarray g_pyscalar g_dtype_item
       g_path g_autoserialize g_list_tuple_dict g_set with_group empty_group lookup n_groups app].
  change (hd "" (branch_keys 12)) with "_container_type".
  generalize (encode_seq (encode_value [] []) "list" l empty_group). intros g.
  destruct g as [a r s]. cbn [set_attr]. clear. induction a as [|[k0 x] a IH]; cbn [set_key lookup].
  - reflexivity.
  - destruct (String.eqb "_container_type" k0) eqn:E; cbn [lookup]; rewrite E; [reflexivity | exact IH].
Qed.

(* ---------------------------------------------------------------- _serialize_container *)
Definition fast_cond_eval (c : list catom) (l : list value) : bool :=
  forallb (fun a => match a with
                    | CLenPos => negb (Nat.eqb (List.length l) 0)
                    | CAllNumeric => match all_numeric l with Some _ => true | None => false end
                    end) c.

Lemma gen_fast_cond_eq : forall l, fast_cond_eval gen_cont_fast_cond l = match numeric_seq l with Some _ => true | None => false end.
Proof.
  intros l. unfold fast_cond_eval, gen_cont_fast_cond, numeric_seq. cbn [forallb].
  destruct l as [|x r]; [cbn; rewrite ?andb_false_r; reflexivity|].
  cbn [List.length Nat.eqb negb]. destruct (all_numeric (x :: r)); reflexivity.
Qed.

(* the list/tuple and dict halves of _serialize_container rebuilt from the translated constants *)
Definition gen_encode_seq (enc : value -> string -> node -> node) (ctype : string) (l : list value) (sub : node) : node :=
  let g1 := set_attr "_container_type" (JStr ctype) sub in
  match gen_cont_fast_marker with
  | (ekey, eval_, aname) =>
    if fast_cond_eval gen_cont_fast_cond l then
      match numeric_seq l with
      | Some (r, ns) => create_array aname (write_ndarray (mkArr (rcat_name r) [Z.of_nat (List.length ns)] (ANums ns)))
                                     (set_attr ekey (JStr eval_) g1)
      | None => g1
      end
    else fold_items enc l 0 g1
  end.
Definition gen_encode_dict (enc : value -> string -> node -> node) (l : list (string * value)) (sub : node) : node :=
  fold_entries enc l (set_attr "_container_type" (JStr gen_cont_dict_marker) sub).

Theorem gen_container_encode_eq :
  (forall enc ct l sub, gen_encode_seq enc ct l sub = encode_seq enc ct l sub) /\
  (forall enc l sub, gen_encode_dict enc l sub = encode_dict enc l sub) /\
  gen_cont_seq_types = ["builtins.list"; "builtins.tuple"] /\ gen_cont_dict_types = ["builtins.dict"] /\
  (gen_cont_item_key_is_str_index, gen_cont_dict_key_is_str) = (true, true).
Proof.
  split; [|split; [|repeat split]]; try reflexivity.
  intros enc ct l sub. unfold gen_encode_seq, encode_seq. cbv beta iota delta [gen_cont_fast_marker].
  rewrite gen_fast_cond_eq. destruct (numeric_seq l) as [[r ns]|]; reflexivity.
Qed.

(* ---------------------------------------------------------------- the decoders' marker chains *)
Theorem gen_decoder_chains_eq :
  (forall dobj dcont sub, cont_sub dobj dcont sub = interp_cont gen_dec_chain_seq dobj dcont sub) /\
  (forall dobj dcont sub, cont_sub dobj dcont sub = interp_cont gen_dec_chain_set dobj dcont sub) /\
  (forall dobj dcont sub, cont_sub dobj dcont sub = interp_cont gen_dec_chain_dict dobj dcont sub) /\
  (forall st dobj dcont sub, obj_sub st dobj dcont sub = interp_obj gen_load_chain st dobj dcont sub) /\
  gen_load_nested_class_test = true.
Proof. repeat split; intros; reflexivity. Qed.

Definition ctype_is (ct : string) (i : nat) : bool := mem ct (nth i gen_dec_ctypes []).
Theorem gen_decoder_ctypes_eq :
  (forall ct, ctype_is ct 0 || ctype_is ct 1 = String.eqb ct "list" || String.eqb ct "tuple" || String.eqb ct "set") /\
  (forall ct, ctype_is ct 2 = String.eqb ct "dict") /\ List.length gen_dec_ctypes = 3 /\
  gen_dec_seq_fast = ("_sequence_encoding", "ndarray", "values") /\ gen_dec_set_fast = gen_dec_seq_fast /\
  gen_cont_fast_marker = gen_dec_seq_fast /\ gen_dec_len_idiom_copies = 2.
Proof.
  repeat split; try reflexivity; intros ct; unfold ctype_is, gen_dec_ctypes; cbn [nth mem existsb];
    repeat match goal with |- context[String.eqb ct ?s] => destruct (String.eqb ct s) end; reflexivity.
Qed.

(* ---------------------------------------------------------------- metadata filters *)
Theorem gen_meta_filters_eq :
  (forall k, seval gen_dec_dict_meta k = dict_meta_attr k) /\ (forall k, seval gen_load_attr_meta k = obj_meta_attr k).
Proof.
  split; intros k; unfold gen_dec_dict_meta, gen_load_attr_meta, dict_meta_attr, obj_meta_attr; cbn [seval mem existsb];
    repeat match goal with |- context[String.eqb k ?s] => destruct (String.eqb k s) end;
    repeat match goal with |- context[ends_with k ?s] => destruct (ends_with k s) end; reflexivity.
Qed.

(* ---------------------------------------------------------------- skip lists: condition, threading, recorded keys *)
Theorem gen_skip_cond_eq : forall sn st name v, sk_eval gen_save_skip_cond sn st name v = skipped sn st name v.
Proof.
  intros. unfold gen_save_skip_cond, skipped. cbn [sk_eval].
  destruct (mem name sn), (inst_any v st); reflexivity.
Qed.

(* what the model does with the skip lists, as flags (left: the source, right: the model's definition they mirror):
     _recursive_save -> _serialize_value            : passed on          (fold_fields (encode_value sn st))
     _serialize_container -> _serialize_value       : passed on          (encode_seq / encode_dict get encode_value sn st)
     _deserialize_container -> _recursive_load      : NOT passed         (decode_container uses decode_obj [] [])
     _recursive_load -> nested _recursive_load      : passed on          (obj_sub st (decode_obj sn st))
     _recursive_load -> _deserialize_container      : no skip argument   (decode_container takes none)
     name filter in the attrs / arrays / groups loop: all three          (mem k sn in fa, fr, map_groups)
     arrays loop: exact-type filter                 : present            (mem (exact_ty v) st)
     final `for name in skip_names: if hasattr: delattr` : present       (filter ... (fa ++ fr ++ fgv))
     load(): names merged by union, root call passes both lists; save(): metadata written after _recursive_save *)
Definition model_threading := (true, true, true, false, true, false, [true; true; true], true, true, true, true, true).
Theorem gen_threading_eq :
  (gen_save_threads_skip, gen_cont_item_threads_skip, gen_cont_dict_threads_skip, gen_dec_load_threads_skip,
   gen_load_nested_threads_skip, gen_load_container_gets_skip, gen_load_name_filters, gen_load_array_exact_type_filter,
   gen_load_final_delattr, gen_load_names_merge_is_union, gen_load_root_call_threads, gen_skipmeta_after_save)
  = model_threading.
Proof. reflexivity. Qed.

(* every `continue` of the scalar-attribute loop and of the arrays loop of _recursive_load, by kind, in source order.
   The model (decode_obj): fa drops a key iff obj_meta_attr k || mem k sn (the attrs-field whitelist never fires on a
   file written from the declared fields) and has NO type test - load_type_skipped is false on every SAttr value;
   fr drops iff mem k sn, then iff mem (exact_ty v) st. *)
Definition model_attr_loop_filters : list string := ["meta"; "name"; "attrs-fields"].
Definition model_array_loop_filters : list string := ["name"; "exact-type"].
Theorem gen_load_loop_filters_eq :
  gen_load_attr_loop_filters = model_attr_loop_filters /\ gen_load_array_loop_filters = model_array_loop_filters /\
  (forall st v, sclass_of v = SAttr -> load_type_skipped st v = false).
Proof.
  split; [reflexivity|split; [reflexivity|]]. intros st v Hc. unfold load_type_skipped. rewrite Hc. reflexivity.
Qed.

(* the model side of the same facts, stated on the model's own functions *)
Theorem model_threading_facts :
  (forall sn st m c fields name g,
      encode_value sn st (VObj m c fields) name g = with_group name (encode_fields sn st (encode_value sn st) m c fields) g) /\
  (forall sn st l name g,
      encode_value sn st (VList l) name g = with_group name (encode_seq (encode_value sn st) "list" l) g) /\
  (forall sn st l name g,
      encode_value sn st (VDict l) name g = with_group name (encode_dict (encode_value sn st) l) g) /\
  (forall usn ust root, has_key "_autoserialize" (n_attrs root) = true ->
      load_file usn ust root =
      decode_obj (usn ++ jstrs (lookup (nth 0 gen_skipkeys_read "") (n_attrs root)))
                 (ust ++ filter (fun t => negb (mem t ust)) (jstrs (lookup (nth 1 gen_skipkeys_read "") (n_attrs root)))) root) /\
  (forall sn st v, n_attrs (save_file sn st v) =
      set_key (nth 1 (map fst gen_skipkeys_written) "") (JList (map JStr st))
              (set_key (nth 0 (map fst gen_skipkeys_written) "") (JList (map JStr sn)) (n_attrs (encode_root sn st v)))).
Proof.
  repeat split; intros; try reflexivity.
  - unfold load_file. rewrite H. reflexivity.
  - unfold save_file. destruct (encode_root sn st v); reflexivity.
Qed.

Theorem gen_metadata_eq :
  gen_save_meta_key = "_autoserialize" /\
  (forall m c, match autoserialize_meta m c with JDict d => map fst d | _ => [] end = map fst gen_save_meta_fields) /\
  gen_save_meta_fields = [("version", "1"); ("class_module", "obj.__class__.__module__"); ("class_name", "obj.__class__.__qualname__")] /\
  map fst gen_skipkeys_written = gen_skipkeys_read /\
  gen_skipkeys_read = ["_autoserialize_skip_names"; "_autoserialize_skip_types"] /\
  gen_save_root_call = "self._recursive_save(self, root, skip_names, skip_types, compressors)".
Proof. repeat split; reflexivity. Qed.
