(* C01 / C14 source tie: the theorems that tie what harness/c01_tie.py TRANSLATED ON THIS RUN from the source of
   quantem/core/io/serialize.py (GenC01.Gen_C01Tie) to the hand-written model coq/model/C01_Model.v.
   ONLY statements closed by `exact` and their assumption reports. *)
From QV.lib Require Import Prelude C01_TieLib.
From QV.model Require Import C01_Model.
From GenC01 Require Import Gen_C01Tie C01_Tie_GenProofs.
From Coq Require Import String.
Local Open Scope string_scope.
Local Open Scope list_scope.

(* the if/elif chain of _serialize_value, test by test in source order and with the fixed meaning of isinstance /
   hasattr (C01_TieLib.geval), selects for EVERY value whose recorded types agree with its kind (tys_ok) the branch the
   model's `dispatch` selects - hence encode_value follows the chain of the current source *)
Theorem C01_tie_dispatch_chain :
  forall v, tys_ok v = true -> first_true_e gen_chain v 0 = dispatch v.
Proof. exact gen_dispatch_eq. Qed.
Print Assumptions C01_tie_dispatch_chain.

(* per branch: marker keys, payload names, helper called, skip lists passed on; the fallback pickles; the set branch
   writes its marker last; as many tests as the model has guards *)
Theorem C01_tie_branch_bodies :
  gen_branches = model_branches /\ gen_fallback_is_dill = true /\ gen_set_marker_last = true
  /\ List.length gen_chain = List.length guards.
Proof. exact gen_branches_eq. Qed.
Print Assumptions C01_tie_branch_bodies.

(* the model's encode_value writes exactly the marker keys / payload arrays the source's branches write *)
Theorem C01_tie_branch_keys_model :
  (forall tys h, sub_attr_keys (VBlob BTensor tys [] h) = [hd "" (branch_keys 0)] /\ sub_array_keys (VBlob BTensor tys [] h) = [branch_payload 0]) /\
  (forall tys h, sub_attr_keys (VBlob BOptimizer tys [] h) = [hd "" (branch_keys 1)] /\ sub_array_keys (VBlob BOptimizer tys [] h) = [branch_payload 1]) /\
  (forall tys h, sub_attr_keys (VBlob BScheduler tys [] h) = [hd "" (branch_keys 2)] /\ sub_array_keys (VBlob BScheduler tys [] h) = [branch_payload 2]) /\
  (forall d q f s, sub_attr_keys (VTbWriter d q f s) = filter (fun k => negb (String.eqb k "comment")) (branch_keys 3)) /\
  (forall c n lv, sub_attr_keys (VLogger c n lv) = branch_keys 4) /\
  (forall tys h, sub_attr_keys (VBlob BModule tys [] h) = [hd "" (branch_keys 5)] /\ sub_array_keys (VBlob BModule tys [] h) = [branch_payload 5]) /\
  (forall bg st, sub_attr_keys (VRng bg st) = branch_keys 13) /\
  (forall l, lookup (hd "" (branch_keys 12)) (match n_groups (encode_value [] [] (VSet l) "k" empty_group) with
                                               | [(_, Group a _ _)] => a | _ => [] end) = Some (JStr "set")).
Proof. exact gen_branch_keys_model. Qed.
Print Assumptions C01_tie_branch_keys_model.

(* _is_numeric_scalar (exclusion tuple, inclusion tuple) decides exactly the model's num_cat *)
Theorem C01_tie_is_numeric_scalar :
  forall v, tys_ok_num v = true -> geval gen_is_numeric v = is_num v.
Proof. exact gen_is_numeric_eq. Qed.
Print Assumptions C01_tie_is_numeric_scalar.

(* _serialize_container: the two halves rebuilt from the translated constants (container-type markers, fast-path
   condition, fast-path marker / array name) ARE the model's encode_seq / encode_dict, for every input *)
Theorem C01_tie_serialize_container :
  (forall enc ct l sub, gen_encode_seq enc ct l sub = encode_seq enc ct l sub) /\
  (forall enc l sub, gen_encode_dict enc l sub = encode_dict enc l sub) /\
  gen_cont_seq_types = ["builtins.list"; "builtins.tuple"] /\ gen_cont_dict_types = ["builtins.dict"] /\
  (gen_cont_item_key_is_str_index, gen_cont_dict_key_is_str) = (true, true).
Proof. exact gen_container_encode_eq. Qed.
Print Assumptions C01_tie_serialize_container.

(* _deserialize_container (its list/tuple, set and dict copies) and _recursive_load: the marker chains of the source,
   interpreted with one fixed decoder per marker, ARE the model's cont_sub / obj_sub, for every store *)
Theorem C01_tie_decoder_chains :
  (forall dobj dcont sub, cont_sub dobj dcont sub = interp_cont gen_dec_chain_seq dobj dcont sub) /\
  (forall dobj dcont sub, cont_sub dobj dcont sub = interp_cont gen_dec_chain_set dobj dcont sub) /\
  (forall dobj dcont sub, cont_sub dobj dcont sub = interp_cont gen_dec_chain_dict dobj dcont sub) /\
  (forall st dobj dcont sub, obj_sub st dobj dcont sub = interp_obj gen_load_chain st dobj dcont sub) /\
  gen_load_nested_class_test = true.
Proof. exact gen_decoder_chains_eq. Qed.
Print Assumptions C01_tie_decoder_chains.

Theorem C01_tie_decoder_ctypes :
  (forall ct, ctype_is ct 0 || ctype_is ct 1 = String.eqb ct "list" || String.eqb ct "tuple" || String.eqb ct "set") /\
  (forall ct, ctype_is ct 2 = String.eqb ct "dict") /\ List.length gen_dec_ctypes = 3 /\
  gen_dec_seq_fast = ("_sequence_encoding", "ndarray", "values") /\ gen_dec_set_fast = gen_dec_seq_fast /\
  gen_cont_fast_marker = gen_dec_seq_fast /\ gen_dec_len_idiom_copies = 2.
Proof. exact gen_decoder_ctypes_eq. Qed.
Print Assumptions C01_tie_decoder_ctypes.

(* the metadata keys the loaders filter out = the model's dict_meta_attr / obj_meta_attr, for every key *)
Theorem C01_tie_metadata_filters :
  (forall k, seval gen_dec_dict_meta k = dict_meta_attr k) /\ (forall k, seval gen_load_attr_meta k = obj_meta_attr k).
Proof. exact gen_meta_filters_eq. Qed.
Print Assumptions C01_tie_metadata_filters.

(* C14: the skip condition of _recursive_save = the model's `skipped`, for all lists, names and values *)
Theorem C14_tie_skip_condition :
  forall sn st name v, sk_eval gen_save_skip_cond sn st name v = skipped sn st name v.
Proof. exact gen_skip_cond_eq. Qed.
Print Assumptions C14_tie_skip_condition.

(* C14: where the skip lists are passed on and where they are not, the name / exact-type filters of the three loops,
   the final delattr loop, the merge in load() - as the model has them *)
Theorem C14_tie_skip_threading :
  (gen_save_threads_skip, gen_cont_item_threads_skip, gen_cont_dict_threads_skip, gen_dec_load_threads_skip,
   gen_load_nested_threads_skip, gen_load_container_gets_skip, gen_load_name_filters, gen_load_array_exact_type_filter,
   gen_load_final_delattr, gen_load_names_merge_is_union, gen_load_root_call_threads, gen_skipmeta_after_save)
  = model_threading.
Proof. exact gen_threading_eq. Qed.
Print Assumptions C14_tie_skip_threading.

(* C14: the filters of the scalar-attribute loop and of the arrays loop of _recursive_load are exactly the model's:
   scalars are dropped by metadata key / name / declared field only - never by type (the stored scalar is the NORMALISED
   value: a type test there would not be the save-time instance test) -, arrays by name and exact type *)
Theorem C14_tie_load_loop_filters :
  gen_load_attr_loop_filters = model_attr_loop_filters /\ gen_load_array_loop_filters = model_array_loop_filters /\
  (forall st v, sclass_of v = SAttr -> load_type_skipped st v = false).
Proof. exact gen_load_loop_filters_eq. Qed.
Print Assumptions C14_tie_load_loop_filters.

Theorem C14_tie_model_threading :
  (forall sn st m c fields name g,
      encode_value sn st (VObj m c fields) name g = with_group name (encode_fields sn st (encode_value sn st) m c fields) g) /\
  (forall sn st l name g,
      encode_value sn st (VList l) name g = with_group name (encode_seq (encode_value sn st) "list" l) g) /\
  (forall sn st l name g,
      encode_value sn st (VDict l) name g = with_group name (encode_dict (encode_value sn st) l) g) /\
  (forall usn ust root, has_key "_autoserialize" (n_attrs root) = true ->
      load_file usn ust root =
      decode_obj (usn ++ jstrs (lookup (nth 0 gen_skipkeys_read "") (n_attrs root)))
                 (ust ++ filter (fun t => negb (mem t ust)) (jstrs (lookup (nth 1 gen_skipkeys_read "") (n_attrs root)))) root) /\
  (forall sn st v, n_attrs (save_file sn st v) =
      set_key (nth 1 (map fst gen_skipkeys_written) "") (JList (map JStr st))
              (set_key (nth 0 (map fst gen_skipkeys_written) "") (JList (map JStr sn)) (n_attrs (encode_root sn st v)))).
Proof. exact model_threading_facts. Qed.
Print Assumptions C14_tie_model_threading.

(* class-identity metadata of _recursive_save and the recorded skip-list keys of save() / load() *)
Theorem C01_tie_metadata_keys :
  gen_save_meta_key = "_autoserialize" /\
  (forall m c, match autoserialize_meta m c with JDict d => map fst d | _ => [] end = map fst gen_save_meta_fields) /\
  gen_save_meta_fields = [("version", "1"); ("class_module", "obj.__class__.__module__"); ("class_name", "obj.__class__.__qualname__")] /\
  map fst gen_skipkeys_written = gen_skipkeys_read /\
  gen_skipkeys_read = ["_autoserialize_skip_names"; "_autoserialize_skip_types"] /\
  gen_save_root_call = "self._recursive_save(self, root, skip_names, skip_types, compressors)".
Proof. exact gen_metadata_eq. Qed.
Print Assumptions C01_tie_metadata_keys.

(* non-vacuity: tys_ok holds for the model's example graph members, and the chain decides them as the model does *)
Example C01_tie_nonvacuous :
  forallb (fun kv => tys_ok (snd kv) && tys_ok_num (snd kv)) ex_fields_common = true /\
  map (fun kv => first_true_e gen_chain (snd kv) 0) ex_fields_common = map (fun kv => dispatch (snd kv)) ex_fields_common /\
  tys_ok ex_graph = true /\ first_true_e gen_chain ex_graph 0 = 10.
Proof. repeat split; vm_compute; reflexivity. Qed.
