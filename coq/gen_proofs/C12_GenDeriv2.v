(* C12 — FIXED proof script (Cartesian gradient as a directional derivative) over the GENERATED file
   build/C12/Gen_Chi.v; separate from C12_GenDeriv.v only so that both compile in parallel. *)
From Coq Require Import Reals Lra String.
From Coquelicot Require Import Coquelicot.
From QV.lib Require Import C12_RealLib C12_Trig.
From Gen12 Require Import Gen_Chi.
Open Scope R_scope.

(* derivative at t = 0 along the curve t -> (alpha + t da, phi + t dphi) whose tangent in the
   Cartesian angle plane (x, y) = alpha (cos phi, sin phi) is (dx, dy): (dchi_dx, dchi_dy) . (dx, dy) / lambda with
   da = cos phi dx + sin phi dy, alpha dphi = - sin phi dx + cos phi dy *)
Lemma grad_cartesian_directional (c : env) (alpha phi lambda dx dy : R) :
  lambda <> 0 -> alpha <> 0 ->
  let da := cos phi * dx + sin phi * dy in
  let dphi := (- sin phi * dx + cos phi * dy) / alpha in
  is_derive (fun t => chi_polar c (alpha + t * da) (phi + t * dphi) lambda) 0
            ((dchi_dx c alpha phi * dx + dchi_dy c alpha phi * dy) / lambda).
Proof.
  intros H Ha da dphi. unfold chi_polar, dchi_dx, dchi_dy, dchi_dk, dchi_dphi.
  auto_derive.
  - repeat split; exact I.
  - replace (alpha + 0 * da) with alpha by ring. replace (phi + 0 * dphi) with phi by ring.
    subst da dphi. trig_norm. field. split; assumption.
Qed.
