(* C17 translator tie: the theorems that tie the functions TRANSLATED on this run from the source of
   quantem/core/utils/imaging_utils.py (GenC17.Gen_C17, written by harness/translate_C17.py) to
   the hand-written model coq/model/C17_Model.v / C17_Model_Ext.v, about which the property
   theorems (coq/props/C17_Properties.v) are proved.
   ONLY statements closed by `exact`, their assumption reports, and non-vacuity examples. *)
From QV.lib Require Import Prelude.
From QV.model Require Import C17_Model C17_Model_Ext C17_Model_Tie.
From QV.proof Require Import C17_Proofs C17_Proofs_Unwrap C17_Proofs_Tie.
From GenC17 Require Import Gen_C17 C17_GenProofs.
From Coq Require Import QArith Qround Qabs.
Local Close Scope Q_scope.

(* _wrap_to_pi and _find_wrap as written (math.pi = P, any P; a % b = a - b*floor(a/b)) are the
   model's wrapP (as rationals) and find_wrap *)
Theorem C17_wrap_tie :
  forall P x a b : Q,
    (gen_wrap_to_pi P x == wrapP P x)%Q /\ gen_find_wrap P a b = find_wrap P a b.
Proof. intros P x a b. split; [exact (gen_wrap_to_pi_eq P x) | exact (gen_find_wrap_eq P a b)]. Qed.
Print Assumptions C17_wrap_tie.

(* UnionFindPhase: the initial arrays; find_root_and_offset (the while loop as fuelled recursion: for
   EVERY fuel, None = fuel exhausted, exactly when the model's find is None); union (which root is
   attached to which by rank, the offset ox - oy - inc and its sign, the rank update);
   _final_offsets (for-loop over the pixels, inner while-loop, store at the pixel's index) *)
Theorem C17_union_find_tie :
  forall (fuel n : nat) (st : uf) (x y : nat) (inc : Z),
    gen_uf_init n = uf_init n /\
    gen_find_root_and_offset fuel st x = find fuel st x 0%Z /\
    gen_union fuel st x y inc = union fuel st x y inc /\
    gen_final_offsets fuel st = final_offsets fuel st (length (parent st)).
Proof.
  intros fuel n st x y inc.
  exact (conj (gen_uf_init_eq n) (conj (gen_find_eq fuel st x) (conj (gen_union_eq fuel st x y inc)
        (gen_final_offsets_eq fuel st)))).
Qed.
Print Assumptions C17_union_find_tie.

(* _build_edges as written (arange.reshape, roll / slices, flatten, the mask filter requiring both
   pixels, _find_wrap on the gathered phases, rel[i1] + rel[i2], cat, argsort, gather), for every
   grid shape, both wrap_around settings, with and without a mask: the returned columns, read as a
   list of (i1, i2, inc), are the model's increments of the model's grid pairs in the model's sorted
   order (keys rel[i1] + rel[i2]) *)
Theorem C17_build_edges_tie :
  forall (P : Q) (H W : nat) (phi : nat -> Q) (rel : list Q) (mask : nat -> bool) (wrap : bool),
    triples_of (gen_build_edges_mask P H W phi (fnq rel) mask wrap)
    = ztriples (incs_of P phi (sort_by (edge_key rel) (grid_pairs H W wrap mask))) /\
    triples_of (gen_build_edges_nomask P H W phi (fnq rel) wrap)
    = ztriples (incs_of P phi (sort_by (edge_key rel) (grid_pairs H W wrap (fun _ => true)))).
Proof. exact build_edges_tie_full. Qed.
Print Assumptions C17_build_edges_tie.

(* the driver as written (edges -> UnionFindPhase(N) -> union over the edges in order -> _final_offsets
   -> phi.flatten() + 2*pi*incs indexed by the flat pixel index -> minus the mean), for EVERY fuel that
   suffices (more than the number of grid edges; the while-loops of the code have no bound: by
   C17_fuel_suffices they terminate within that many iterations): it is the model's `unwrap` on the
   model's sorted grid edges; with rel = the model's reliabilities it is `unwrap_code`, the
   function C17_unwrap_code_correct / _congruent / _smooth_unchanged speak about *)
Theorem C17_driver_tie :
  forall (fuel : nat) (P : Q) (H W : nat) (phi : nat -> Q) (rel : list Q) (mask : nat -> bool) (wrap : bool),
    (length (grid_pairs H W wrap mask) < fuel ->
     gen_unwrap_mask fuel P H W phi mask wrap (fnq rel)
     = unwrap P (H * W) phi (sort_by (edge_key rel) (grid_pairs H W wrap mask))) /\
    (length (grid_pairs H W wrap (fun _ => true)) < fuel ->
     gen_unwrap_nomask fuel P H W phi wrap (fnq rel)
     = unwrap P (H * W) phi (sort_by (edge_key rel) (grid_pairs H W wrap (fun _ => true)))) /\
    (length (grid_pairs H W wrap mask) < fuel ->
     gen_unwrap_mask fuel P H W phi mask wrap (fnq (rel_list P H W phi)) = unwrap_code P H W wrap mask phi).
Proof.
  intros fuel P H W phi rel mask wrap.
  exact (conj (gen_unwrap_mask_eq fuel P H W phi mask wrap rel)
        (conj (gen_unwrap_nomask_eq fuel P H W phi wrap rel)
              (gen_unwrap_is_unwrap_code fuel P H W phi mask wrap))).
Qed.
Print Assumptions C17_driver_tie.

(* hence the main theorem speaks about the translated source: for every grid, mask, wrap_around
   setting, every reliability oracle and every smooth field, the translated driver returns the field
   plus one constant per connected component of the mask *)
Theorem C17_translated_driver_correct :
  forall (fuel : nat) (P : Q) (H W : nat) (rel : list Q) (mask : nat -> bool) (wrap : bool)
         (phi phiw : nat -> Q) (K : nat -> Z),
    (0 < P)%Q -> length (grid_pairs H W wrap mask) < fuel ->
    (forall x y, In (x, y) (grid_pairs H W wrap mask) -> (Qabs (phi x - phi y) < P)%Q) ->
    (forall x, (phiw x == phi x - 2 * P * inject_Z (K x))%Q) ->
    (forall x y, In (x, y) (grid_pairs H W wrap mask) -> (Qabs (phiw x - phiw y) < 2 * P)%Q) ->
    exists (out : list Q) (c : nat -> Q),
      gen_unwrap_mask fuel P H W phiw mask wrap (fnq rel) = Some out /\ length out = H * W /\
      (forall x y, conn (prel (grid_pairs H W wrap mask)) x y -> (c x == c y)%Q) /\
      (forall x, x < H * W -> (nth x out 0%Q == phi x + c x)%Q).
Proof. exact translated_driver_correct_full. Qed.
Print Assumptions C17_translated_driver_correct.

(* ---------------------------------------------------------------- non-vacuity *)
(* the translated code runs: 3 x 3 bounded grid of C17_nonvacuous_code_order (P = 3, wrapped ramp,
   reliabilities 27 / 0 / 27 per row): the edges come out in the sorted order with their increments
   and the translated driver returns the ramp minus its mean *)
Example C17_tie_nonvacuous :
  let phi := phase_of 1 [0; 2; -2;  1; 3; -1;  2; -2; 0]%Z in
  let rel := [27; 27; 27; 0; 0; 0; 27; 27; 27]%Q in
  triples_of (gen_build_edges_nomask 3 3 3 phi (fnq rel) false)
  = [(3, 4, 0); (4, 5, -1); (0, 3, 0); (1, 4, 0); (2, 5, 0); (3, 6, 0); (4, 7, -1); (5, 8, 0);
     (0, 1, 0); (1, 2, -1); (6, 7, -1); (7, 8, 0)]%Z /\
  option_map (map Qred) (gen_unwrap_nomask 13 3 3 3 phi false (fnq rel))
  = Some [-3; -1; 1; -2; 0; 2; -1; 1; 3]%Q /\
  gen_unwrap_nomask 1 3 3 3 phi false (fnq rel) = None /\
  length (grid_pairs 3 3 false (fun _ => true)) = 12 /\
  Qred (gen_wrap_to_pi 3 (11 # 2)) = (-1 # 2)%Q /\ gen_find_wrap 3 (-2) 2 = 1%Z.
Proof. cbv zeta. repeat split; vm_compute; reflexivity. Qed.
