(* C13 — the index-arithmetic tie as property theorems (compiled by the check on every run against the freshly
   generated Gen_C13.v).  gen_* are translated from the CURRENT source of quantem/core/utils/imaging_utils.py by
   harness/c13_tie.py; the right-hand sides are the definitions of coq/model/C13_Model.v that the theorems of
   coq/props/C13_Properties.v speak about.  Integers of the source are read as Z, the model's nat arguments are
   injected (Z.of_nat). *)
From QV.lib Require Import Prelude.
From QV.model Require Import C13_Model.
From QV.proof Require Import C13_Proofs C13_Proofs_DC.
From GenC13 Require Import Gen_C13 C13_GenProofs.
From Coq Require Import QArith Qround.
Local Close Scope Q_scope.

(* cross_correlation_shift: wrap-around neighbour indices (rows and columns), the guarded parabola, the wrapped
   refined peak (x0 + dx) % n, the upsampled offset x0 + (peak - W // 2)/up + dxf/up with W = 2 du + 1, the centring
   (t + 0.5 n) % n - 0.5 n, and the 3 x 3 patch test = the model's border guard *)
Theorem C13_numpy_index_arithmetic_tie :
  forall (n p up lx ly W : nat) (v0 v1 v2 dx x0 dxf t : Q),
    0 < n -> p < n -> 0 < up -> lx < W -> ly < W ->
    (gen_np_inds (Z.of_nat n) (Z.of_nat p) = map Z.of_nat [prv n p; p; nxt n p] /\
     gen_np_inds_col (Z.of_nat n) (Z.of_nat p) = map Z.of_nat [prv n p; p; nxt n p]) /\
    (gen_np_parab v0 v1 v2 == tparab v0 v1 v2 /\ oeq (gparab v0 v1 v2) (Some (gen_np_parab v0 v1 v2)))%Q /\
    (gen_np_wrap (Z.of_nat n) (Z.of_nat p) dx == qmod (qN p + dx) n /\
     gen_np_wrap_col (Z.of_nat n) (Z.of_nat p) dx == qmod (qN p + dx) n)%Q /\
    (gen_np_offset (Z.of_nat up) (Z.of_nat (np_win up)) x0 (Z.of_nat lx) dxf == np_offset up x0 lx dxf /\
     gen_np_offset_col (Z.of_nat up) (Z.of_nat (np_win up)) x0 (Z.of_nat lx) dxf == np_offset up x0 lx dxf)%Q /\
    (gen_np_centre (Z.of_nat n) t == centre n t /\ gen_np_centre_col (Z.of_nat n) t == centre n t)%Q /\
    gen_np_patch_ok (Z.of_nat lx) (Z.of_nat ly) (Z.of_nat W)
    = negb ((lx =? 0) || (W <=? lx + 1) || (ly =? 0) || (W <=? ly + 1)).
Proof.
  intros n p up lx ly W v0 v1 v2 dx x0 dxf t Hn Hp Hup Hx Hy.
  split; [exact (gen_np_inds_eq_model n p Hn Hp)|].
  split; [exact (gen_np_parab_eq_model v0 v1 v2)|].
  split; [exact (gen_np_wrap_eq_model n p dx)|].
  split; [exact (gen_np_offset_eq_model up x0 lx dxf Hup)|].
  split; [exact (gen_np_centre_eq_model n t Hn)|].
  exact (proj1 (gen_patch_ok_eq_model lx ly W Hx Hy)).
Qed.
Print Assumptions C13_numpy_index_arithmetic_tie.

(* dft_upsample: du = ceil(1.5 up), the window row/col = arange(-du, du + 1) (2 du + 1 samples, sample a at a - du),
   and the exponent of both kernels = the model's np_kern_phase (frequency vector ifftshift(arange n) - n // 2) *)
Theorem C13_numpy_upsample_geometry_tie :
  forall (n up a k : nat) (x0 : Q),
    0 < n -> 0 < up ->
    gen_du (Z.of_nat up) = Z.of_nat (du up) /\
    (gen_np_row (Z.of_nat up) (Z.of_nat a) = np_row up a /\ gen_np_col (Z.of_nat up) (Z.of_nat a) = np_row up a /\
     gen_np_row_len (Z.of_nat up) = Z.of_nat (np_win up) /\ gen_np_col_len (Z.of_nat up) = Z.of_nat (np_win up)) /\
    (gen_np_kphase_row (Z.of_nat n) (Z.of_nat up) x0 (Z.of_nat a) (Z.of_nat k) == np_kern_phase n up x0 a k /\
     gen_np_kphase_col (Z.of_nat n) (Z.of_nat up) x0 (Z.of_nat a) (Z.of_nat k) == np_kern_phase n up x0 a k)%Q.
Proof.
  intros n up a k x0 Hn Hup.
  split; [exact (gen_du_eq_model up)|].
  split; [exact (gen_np_window_eq_model up a)|].
  exact (gen_np_kphase_eq_model n up x0 a k Hn Hup).
Qed.
Print Assumptions C13_numpy_upsample_geometry_tie.

(* cross_correlation_shift_torch / align_images_fourier_torch: centring ((t + n/2) % n) - n/2, unravelling of the flat
   argmax, wrap-around neighbours, the guarded parabola, rounding to the half-pixel grid, and the threshold
   upsample_factor > 2 of the upsampled branch *)
Theorem C13_torch_index_arithmetic_tie :
  forall (n p i ncols up : nat) (v0 v1 v2 dx t : Q),
    0 < n -> p < n ->
    (gen_t_centre (Z.of_nat n) t == centre n t /\ gen_t_centre_col (Z.of_nat n) t == centre n t)%Q /\
    (gen_t_unravel_row (Z.of_nat i) (Z.of_nat ncols), gen_t_unravel_col (Z.of_nat i) (Z.of_nat ncols))
    = (Z.of_nat (i / ncols), Z.of_nat (i mod ncols)) /\
    (gen_t_inds (Z.of_nat n) (Z.of_nat p) = map Z.of_nat [prv n p; p; nxt n p] /\
     gen_t_inds_col (Z.of_nat n) (Z.of_nat p) = map Z.of_nat [prv n p; p; nxt n p]) /\
    (gen_t_parab v0 v1 v2 == tparab v0 v1 v2 /\ gen_t_parab_col v0 v1 v2 == tparab v0 v1 v2)%Q /\
    (gen_t_half (Z.of_nat p) dx == inject_Z (round_he ((qN p + dx) * 2)) / 2 /\
     gen_t_half_col (Z.of_nat p) dx == inject_Z (round_he ((qN p + dx) * 2)) / 2)%Q /\
    gen_t_upsamples (Z.of_nat up) = negb (up <=? 2).
Proof.
  intros n p i ncols up v0 v1 v2 dx t Hn Hp.
  split; [exact (gen_t_centre_eq_model n t Hn)|].
  split; [exact (gen_t_unravel_eq_model i ncols)|].
  split; [exact (gen_t_inds_eq_model n p Hn Hp)|].
  split; [exact (gen_t_parab_eq_model v0 v1 v2)|].
  split; [exact (gen_t_half_eq_model p dx)|].
  exact (gen_t_upsamples_eq_model up).
Qed.
Print Assumptions C13_torch_index_arithmetic_tie.

(* upsampled_correlation_torch / dftUpsample_torch: rounding to the upsampled grid, globalShift = floor(ceil(1.5 up)/2),
   upsampleCenter = globalShift - up * xyShift, window of ceil(1.5 up) samples, numerator and denominator of the
   (unguarded) window parabola, the 3 x 3 patch test, the final offset, and the exponent of both kernels *)
Theorem C13_torch_upsample_geometry_tie :
  forall (n up a k r lx ly W : nat) (x xs d ctr v0 v1 v2 : Q),
    0 < n -> 0 < up -> lx < W -> ly < W ->
    (gen_t_round (Z.of_nat up) x == t_round up x /\ gen_t_round_col (Z.of_nat up) x == t_round up x)%Q /\
    gen_t_gs (Z.of_nat up) = Z.of_nat (t_gs up) /\
    (gen_t_center (Z.of_nat up) xs == t_center up xs)%Q /\
    gen_t_win (Z.of_nat up) = Z.of_nat (t_win up) /\
    (fst (gen_t_wparab v0 v1 v2) == v2 - v0 /\ snd (gen_t_wparab v0 v1 v2) == 4 * v1 - 2 * v2 - 2 * v0 /\
     fst (gen_t_wparab_col v0 v1 v2) == v2 - v0 /\ snd (gen_t_wparab_col v0 v1 v2) == 4 * v1 - 2 * v2 - 2 * v0)%Q /\
    gen_t_patch_ok (Z.of_nat lx) (Z.of_nat ly) (Z.of_nat W)
    = negb ((lx =? 0) || (W <=? lx + 1) || (ly =? 0) || (W <=? ly + 1)) /\
    (gen_t_offset (Z.of_nat up) xs (Z.of_nat r) d == t_offset up xs r d /\
     gen_t_offset_col (Z.of_nat up) xs (Z.of_nat r) d == t_offset up xs r d)%Q /\
    (gen_t_kphase_row (Z.of_nat n) (Z.of_nat up) ctr (Z.of_nat a) (Z.of_nat k) == t_kern_phase n up ctr a k /\
     gen_t_kphase_col (Z.of_nat n) (Z.of_nat up) ctr (Z.of_nat a) (Z.of_nat k) == t_kern_phase n up ctr a k)%Q.
Proof.
  intros n up a k r lx ly W x xs d ctr v0 v1 v2 Hn Hup Hx Hy.
  split; [exact (gen_t_round_eq_model up x)|].
  split; [exact (gen_t_gs_eq_model up)|].
  split; [exact (gen_t_center_eq_model up xs)|].
  split; [exact (gen_t_win_eq_model up)|].
  split; [exact (gen_t_wparab_eq_model v0 v1 v2)|].
  split; [exact (proj2 (gen_patch_ok_eq_model lx ly W Hx Hy))|].
  split; [exact (gen_t_offset_eq_model up xs r d Hup)|].
  exact (gen_t_kphase_eq_model n up ctr a k Hn Hup).
Qed.
Print Assumptions C13_torch_upsample_geometry_tie.
