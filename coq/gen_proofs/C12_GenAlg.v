(* C12 — FIXED proof script (algebraic part) over the GENERATED file build/C12/Gen_Chi.v.
   Compiled at check time with `-Q <build dir> Gen12`; a proof that stops going through means the
   current source no longer satisfies the property (broken obligation).  Stdlib Reals only. *)
From Coq Require Import Reals Lra String List Psatz Nsatz Bool.
From QV.lib Require Import C12_RealLib C12_Trig.
From Gen12 Require Import Gen_Chi.
From QV.model Require C12_Model.
Import ListNotations.
Open Scope R_scope.

(* evaluate the label tables (string comparisons only; real arithmetic is left untouched) *)
Ltac eval_tables :=
  cbv beta iota zeta delta [sum_over fold_right all_labels basis polar_to_cartesian cartesian_to_polar
       merge_coefs env3 String.eqb Ascii.eqb Bool.eqb andb].

(* trig_norm (lib/C12_Trig.v) pushes angle differences through cos/sin, so that cos(m·phi),
   cos(m·phi_nm) become ring atoms *)

Ltac split_in H := cbv [In all_labels polar_symbols] in H; repeat (destruct H as [<- | H]); [.. | contradiction].

(* ------------------------------------------------------------------ polar = Cartesian expansion *)
Lemma polar_eq_cartesian (c : env) (alpha phi lambda : R) :
  lambda <> 0 ->
  chi_polar c alpha phi lambda
  = sum_over all_labels (fun l => basis l alpha phi lambda * polar_to_cartesian c l).
Proof. intros H. unfold chi_polar. eval_tables. trig_norm. field. exact H. Qed.

(* ------------------------------------------------------------------ Cartesian gradient *)
Lemma cartesian_grad_rotation (c : env) (alpha phi : R) :
  dchi_dx c alpha phi = cos phi * dchi_dk c alpha phi - sin phi * dchi_dphi c alpha phi /\
  dchi_dy c alpha phi = sin phi * dchi_dk c alpha phi + cos phi * dchi_dphi c alpha phi.
Proof. unfold dchi_dx, dchi_dy. split; ring. Qed.

(* ------------------------------------------------------------------ conversions *)
(* cartesian -> polar -> cartesian is the identity for EVERY Cartesian coefficient set *)
Ltac cpc_case :=
  eval_tables;
  try reflexivity;
  repeat match goal with
         | |- context[?m * (atan2 ?y ?x / ?m)] => replace (m * (atan2 y x / m)) with (atan2 y x) by field
         end;
  match goal with
  | |- sqrt ?r * cos (atan2 ?y ?x) = _ =>
      replace r with (x * x + y * y) by ring; apply (proj1 (polar_atan2 x y))
  | |- sqrt ?r * sin (atan2 ?y ?x) = _ =>
      replace r with (x * x + y * y) by ring; apply (proj2 (polar_atan2 x y))
  end.

Lemma roundtrip_cart (k : env) (l : string) :
  In l all_labels -> polar_to_cartesian (cartesian_to_polar k) l = k l.
Proof. intros H. split_in H; cpc_case. Qed.

(* the (magnitude, angle, multiplicity) structure of the 25 polar symbols *)
Definition iso_names : list string := ["C10"; "C30"; "C50"]%string.
Definition ang_triples : list (string * string * R) :=
  [("C12", "phi12", 2); ("C21", "phi21", 1); ("C23", "phi23", 3); ("C32", "phi32", 2);
   ("C34", "phi34", 4); ("C41", "phi41", 1); ("C43", "phi43", 3); ("C45", "phi45", 5);
   ("C52", "phi52", 2); ("C54", "phi54", 4); ("C56", "phi56", 6)]%string.
Definition my_symbols : list string :=
  iso_names ++ flat_map (fun t => [fst (fst t); snd (fst t)]) ang_triples.
Definition my_labels : list string :=
  iso_names ++ flat_map (fun t => [fst (fst t) ++ "_a"; fst (fst t) ++ "_b"]%string) ang_triples.
Definition same_set (a b : list string) : bool :=
  forallb (fun s => existsb (String.eqb s) b) a && forallb (fun s => existsb (String.eqb s) a) b.

(* the code's POLAR_SYMBOLS and ABERRATION_PRESETS["all"] are exactly these 25 + 25 names *)
Lemma symbols_covered : same_set polar_symbols my_symbols = true /\ length polar_symbols = 25%nat.
Proof. split; vm_compute; reflexivity. Qed.
Lemma labels_covered : same_set all_labels my_labels = true /\ length all_labels = 25%nat.
Proof. split; vm_compute; reflexivity. Qed.

(* principal domain: positive magnitudes, m·phi in (-PI, PI] *)
Definition polar_domain (c : env) : Prop :=
  forall C p m, In (C, p, m) ang_triples -> 0 < c C /\ - PI < m * c p <= PI.

Ltac pcp_case :=
  eval_tables;
  try reflexivity;
  match goal with
  | |- atan2 (?C * sin ?t) (?C * cos ?t) / ?m = _ => rewrite (atan2_polar C t) by lra; field
  | |- sqrt ?r = ?c ?nm =>
      match r with
      | context[cos ?t] =>
          replace r with ((c nm * cos t) * (c nm * cos t) + (c nm * sin t) * (c nm * sin t)) by ring;
          apply sqrt_polar; lra
      end
  end.

Lemma roundtrip_polar (c : env) (s : string) :
  polar_domain c -> In s polar_symbols -> cartesian_to_polar (polar_to_cartesian c) s = c s.
Proof.
  intros D H.
  assert (Hall : Forall (fun t => 0 < c (fst (fst t)) /\ - PI < snd t * c (snd (fst t)) <= PI) ang_triples).
  { apply Forall_forall. intros [[C p] m] Hin. apply D. exact Hin. }
  cbv [ang_triples] in Hall.
  repeat match goal with
         | H : Forall _ (_ :: _) |- _ => apply Forall_cons_iff in H; destruct H as [[? [? ?]] H]
         end.
  cbn [fst snd] in *.
  split_in H; pcp_case.
Qed.

(* ------------------------------------------------------------------ merged coefficients *)
(* any Cartesian coefficient set, converted to polar, has the surface of its Cartesian expansion *)
Lemma chi_of_cartesian (k : env) (alpha phi lambda : R) :
  lambda <> 0 ->
  chi_polar (cartesian_to_polar k) alpha phi lambda
  = sum_over all_labels (fun l => basis l alpha phi lambda * k l).
Proof.
  intros H. rewrite polar_eq_cartesian by exact H. apply sum_over_ext.
  intros l Hl. now rewrite roundtrip_cart.
Qed.

(* merge_aberration_coefficients: the merged polar set describes surface(init) + fitted delta *)
Lemma merge_surface (init delta : env) (alpha phi lambda : R) :
  lambda <> 0 ->
  chi_polar (merge_coefs init delta) alpha phi lambda
  = chi_polar init alpha phi lambda
    + sum_over all_labels (fun l => basis l alpha phi lambda * delta l).
Proof.
  intros H. unfold merge_coefs. rewrite chi_of_cartesian by exact H.
  rewrite (polar_eq_cartesian init) by exact H. rewrite <- sum_over_plus.
  apply sum_over_ext. intros l _. ring.
Qed.

(* the principal domain is inhabited: all magnitudes 1, all angles 0 *)
Lemma polar_domain_nonvacuous : exists c : env, polar_domain c.
Proof.
  exists (fun s => if String.prefix "phi" s then 0 else 1).
  intros C p m Hin. pose proof PI_RGT_0 as Hpi.
  cbv [ang_triples In] in Hin.
  repeat (destruct Hin as [Hin | Hin]; [injection Hin as <- <- <-; cbn [String.prefix]; cbv [Ascii.ascii_dec Ascii.ascii_rec Ascii.ascii_rect Bool.bool_dec bool_rec bool_rect sumbool_rec sumbool_rect eq_ind_r eq_ind eq_sym f_equal]; split; lra |]).
  contradiction.
Qed.

(* ================================================================================================
   Round 3 additions.  (1) What polar -> Cartesian -> polar does OUTSIDE the principal domain: for
   EVERY coefficient set the result describes the identical surface (chi_roundtrip_all), its
   magnitudes are |C_nm|, its angles the representatives with m*phi in (-PI, PI] of the same
   direction (roundtrip_general); isotropic terms are untouched.  (2) The symbol / alias / preset
   tables read from the sources on this run are the tables of the alias-handler model. *)
(* ------------------------------------------------------------------ equivalence OUTSIDE the principal domain *)
Definition roundtrip (c : env) : env := cartesian_to_polar (polar_to_cartesian c).

Lemma chi_roundtrip_all (c : env) (alpha phi lambda : R) :
  lambda <> 0 ->
  chi_polar (roundtrip c) alpha phi lambda = chi_polar c alpha phi lambda.
Proof.
  intros H. unfold roundtrip. rewrite chi_of_cartesian by exact H.
  symmetry. apply polar_eq_cartesian. exact H.
Qed.

Lemma atan2_range (y x : R) : - PI < atan2 y x <= PI.
Proof.
  pose proof PI_RGT_0 as Hpi. pose proof (atan_bound (y / x)) as [Hlo Hhi].
  unfold atan2.
  destruct (Rlt_dec 0 x) as [Hx | Hx]; [lra |].
  destruct (Rlt_dec x 0) as [Hx' | Hx'].
  - destruct (Rle_dec 0 y) as [Hy | Hy].
    + assert (Hq : y / x <= 0).
      { unfold Rdiv. assert (/ x < 0) by now apply Rinv_lt_0_compat. nra. }
      assert (atan (y / x) <= 0).
      { destruct Hq as [Hq | Hq]; [left; rewrite <- atan_0; now apply atan_increasing | rewrite Hq, atan_0; lra]. }
      lra.
    + assert (Hq : 0 < y / x).
      { unfold Rdiv. assert (/ x < 0) by now apply Rinv_lt_0_compat. nra. }
      assert (0 < atan (y / x)) by (rewrite <- atan_0; now apply atan_increasing).
      lra.
  - destruct (Rlt_dec 0 y); [lra |]. destruct (Rlt_dec y 0); lra.
Qed.

Lemma sqrt_polar_abs (C t : R) : sqrt ((C * cos t) * (C * cos t) + (C * sin t) * (C * sin t)) = Rabs C.
Proof.
  replace (C * cos t * (C * cos t) + C * sin t * (C * sin t)) with (C²).
  - apply sqrt_Rsqr_abs.
  - pose proof (sin2_cos2 t) as H. unfold Rsqr in *.
    replace (C * cos t * (C * cos t) + C * sin t * (C * sin t))
      with (C * C * (sin t * sin t + cos t * cos t)) by ring.
    rewrite H. ring.
Qed.

Ltac split_tr H := cbv [In ang_triples] in H; repeat (destruct H as [H | H]; [injection H as <- <- <- | ]); [.. | contradiction].

Ltac fold_m :=
  repeat match goal with
         | |- context[?m * (atan2 ?y ?x / ?m)] => replace (m * (atan2 y x / m)) with (atan2 y x) by field
         end.

Lemma roundtrip_general (c : env) (C p : string) (m : R) :
  In (C, p, m) ang_triples ->
  roundtrip c C = Rabs (c C) /\
  - PI < m * roundtrip c p <= PI /\
  Rabs (c C) * cos (m * roundtrip c p) = c C * cos (m * c p) /\
  Rabs (c C) * sin (m * roundtrip c p) = c C * sin (m * c p).
Proof.
  intros H. unfold roundtrip.
  split_tr H; eval_tables; fold_m;
    (split; [ match goal with |- sqrt ?r = Rabs (?c ?nm) =>
                match r with context[cos ?t] =>
                  replace r with ((c nm * cos t) * (c nm * cos t) + (c nm * sin t) * (c nm * sin t)) by ring;
                  apply sqrt_polar_abs end end
            | split; [ apply atan2_range | ] ]).
  all: match goal with
       | |- Rabs (?c ?nm) * cos (atan2 ?y ?x) = _ /\ _ =>
         rewrite <- (sqrt_polar_abs (c nm) ltac:(match x with _ * cos ?t => exact t end));
         match goal with |- sqrt ?r * _ = _ /\ _ => replace r with (x * x + y * y) by ring end;
         exact (polar_atan2 x y)
       end.
Qed.

Lemma roundtrip_iso (c : env) (s : string) : In s iso_names -> roundtrip c s = c s.
Proof.
  intros H. unfold roundtrip. cbv [In iso_names] in H.
  repeat (destruct H as [<- | H]); [.. | contradiction]; eval_tables; reflexivity.
Qed.

(* ------------------------------------------------------------------ tables *)
(* complex_probe.POLAR_SYMBOLS / POLAR_ALIASES, the copies local to
   validators.validate_aberration_coefficients and the keys of ProbeBase.DEFAULT_PROBE_PARAMS, as
   read from the sources on this run, are the tables of coq/model/C12_Model.v *)
Definition same_pairs (a b : list (string * string)) : bool :=
  let inb (p : string * string) (l : list (string * string)) :=
    existsb (fun q => String.eqb (fst p) (fst q) && String.eqb (snd p) (snd q)) l in
  forallb (fun p => inb p b) a && forallb (fun p => inb p a) b.

(* compared as sets (a re-ordering of a table in the source is harmless); tables_closed below adds
   that none of them has duplicates *)
Lemma tables_tied :
  same_set polar_symbols C12_Model.polar_symbols = true /\
  same_pairs polar_aliases C12_Model.polar_aliases = true /\
  same_set validators_polar_symbols C12_Model.polar_symbols = true /\
  same_pairs validators_polar_aliases C12_Model.polar_aliases = true /\
  same_set default_probe_keys C12_Model.default_probe_keys = true.
Proof. repeat split; vm_compute; reflexivity. Qed.

(* every alias target is a polar symbol; every preset of ABERRATION_PRESETS is a duplicate-free
   sub-list of the 25 labels of preset "all" *)
Definition mem_s (s : string) (l : list string) : bool := existsb (String.eqb s) l.
Fixpoint nodup_s (l : list string) : bool :=
  match l with [] => true | x :: t => negb (mem_s x t) && nodup_s t end.
Lemma tables_closed :
  forallb (fun kv => mem_s (snd kv) polar_symbols) polar_aliases = true /\
  forallb (fun pr => forallb (fun l => mem_s l all_labels) (snd pr) && nodup_s (snd pr)) presets = true /\
  nodup_s polar_symbols = true /\ nodup_s all_labels = true /\ nodup_s (map fst polar_aliases) = true /\
  nodup_s validators_polar_symbols = true /\ nodup_s (map fst validators_polar_aliases) = true /\
  nodup_s default_probe_keys = true.
Proof. repeat split; vm_compute; reflexivity. Qed.
