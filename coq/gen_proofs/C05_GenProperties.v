(* C05 source tie: the theorems that tie the effect scripts TRANSLATED on this run from the current source of
   OptimizerMixin.reconnect_optimizer_to_parameters, PtychographyBase.to (+ the model classes' `to`),
   Ptychography.save / .reconstruct / ._record_iter / .reset_recon, PtychographyBase.reset_recon /
   ._store_current_iter_snapshot  (GenC05.Gen_C05, written by harness/c05_tie.py)  to the hand-written model
   coq/model/C05_Model.v.  ONLY statements closed by `exact` and their assumption reports. *)
From QV.lib Require Import Prelude.
From QV.model Require Import C05_Model C05_Tie_Model.
From GenC05 Require Import Gen_C05 C05_GenProofs.
From Coq Require Import String.

(* reconnect_optimizer_to_parameters, statement by statement (snapshot of the old state / parameter list /
   group settings BEFORE param_groups is cleared, one new group over the current parameters, state re-keyed
   through zip(old parameters, current parameters) — by PARAMETER, not by position in the state dict —,
   settings restored, scheduler pointed at the optimiser again), computes the model's reconnect_model for
   every heap and every model with distinct parameters (None would be: the Python raises) *)
Theorem C05_reconnect_tie :
  forall (V M R C SS : Type) (h : heap V M R SS) (m : mdl C),
    NoDup (mparams m) ->
    run_reconnect gen_reconnect_script h m = Some (reconnect_model false h m).
Proof. exact gen_reconnect_eq_model. Qed.
Print Assumptions C05_reconnect_tie.

(* PtychographyBase.to moves object, probe and dataset model in the model's order, each move reconnects
   (the `to` of every model class calls reconnect_optimizer_to_parameters after moving the module), and that
   is the model's to_dev *)
Theorem C05_to_tie :
  forall (V M L R C SS : Type) (s : st V M L R C SS),
    List.length (models (rc s)) = 3 ->
    run_to false gen_to_script s = Some (to_dev false s).
Proof. exact gen_to_eq_model. Qed.
Print Assumptions C05_to_tie.

Theorem C05_model_to_reconnects :
  forallb snd gen_model_to_reconnects = true /\
  In "ObjectBase"%string (map fst gen_model_to_reconnects) /\
  In "ProbeBase"%string (map fst gen_model_to_reconnects) /\
  In "PtychographyDatasetBase"%string (map fst gen_model_to_reconnects).
Proof. exact gen_model_to_ok. Qed.
Print Assumptions C05_model_to_reconnects.

(* Ptychography.save(save_raw_data=True): device remembered, to("cpu"), serialise, back to the remembered
   device, in this order = the model's save: the file is the state after the first move, the live object has
   been moved twice, no temporary metadata is left on it *)
Theorem C05_save_tie :
  forall (V M L R C SS : Type) (di : nat) (s : st V M L R C SS),
    run_save false true di gen_save_script s
    = Some (fst (save false Joint s), None, false, snd (save false Joint s)).
Proof. exact gen_save_eq_model. Qed.
Print Assumptions C05_save_tie.

(* … and save_raw_data=False: the dataset is skipped, the file carries the learned dataset parameters (the
   values reload_meta of the model attaches), the temporary attribute is removed from the live object *)
Theorem C05_save_meta_tie :
  forall (V M L R C SS : Type) (di : nat) (s : st V M L R C SS),
    run_save false false di gen_save_script s
    = Some (copy_st Joint (to_dev false s), Some (meta_of (to_dev false s) di), true, snd (save false Joint s)).
Proof. exact gen_save_meta_eq_model. Qed.
Print Assumptions C05_save_meta_tie.

(* the body of the iteration loop of reconstruct(): batch step (forward, backward, optimiser step), then
   _record_iter (loss appended first, learning rates as they are BEFORE the scheduler step, a new key
   back-filled for num_iters - 1 iterations), then the scheduler step; validation losses and snapshots do not
   touch the modelled state: it is the model's `iterate`, for all numerical kernels *)
Theorem C05_iteration_tie :
  forall (V G M L R C SS : Type) (Rzero : R)
         (forward : list (list (option V) * C) -> L * list (list (option G)))
         (opt_update : opt_kind -> R -> V -> G -> option (pstate M) -> V * option (pstate M))
         (sched_step : SS -> nat -> L -> R -> SS * R) (s : st V M L R C SS),
    run_iter Rzero forward opt_update sched_step gen_record_script gen_iter_script s
    = Some (iterate Rzero forward opt_update sched_step s).
Proof. exact gen_iter_eq_model. Qed.
Print Assumptions C05_iteration_tie.

(* the attribute lists: what reset_recon empties / calls, what Ptychography.reset_recon does on top, which
   histories an iteration appends to, what a snapshot holds (every array an owned copy) *)
Theorem C05_reset_tie :
  gen_reset_fields = model_reset_fields /\ gen_reset_calls = model_reset_calls /\ gen_reset_top = model_reset_top.
Proof. exact (conj gen_reset_fields_eq (conj gen_reset_calls_eq gen_reset_top_eq)). Qed.
Print Assumptions C05_reset_tie.

Theorem C05_histories_tie :
  gen_iter_appends = model_iter_appends /\ (forall a, In a gen_iter_appends -> In a (map fst gen_reset_fields)).
Proof. exact (conj gen_iter_appends_eq gen_appends_are_reset). Qed.
Print Assumptions C05_histories_tie.

Theorem C05_snapshot_tie :
  gen_snapshot = model_snapshot /\ forallb (fun e => snd e) gen_snapshot = true.
Proof. exact (conj gen_snapshot_eq gen_snapshot_owns). Qed.
Print Assumptions C05_snapshot_tie.

(* reset_recon, then n iterations: the iteration count (= len(_iter_losses)) and the length of the lr
   histories are n again, whatever the histories held before *)
Theorem C05_reset_then_iterate :
  forall (n : nat) (h : list (string * nat)) (x : string),
    In x ["_iter_losses"; "_iter_lrs"]%string -> assoc h x <> None ->
    assoc (hist_iter n gen_iter_appends (hist_reset gen_reset_fields h)) x = Some n.
Proof. exact gen_reset_then_iterate. Qed.
Print Assumptions C05_reset_then_iterate.

(* and therefore the resume theorem speaks about the translated source: k translated iterations, the
   translated save() with the data, from_file(path[, device]), m translated iterations — and the saved object
   continued — report what k + m translated iterations report, from every reachable state *)
Theorem C05_source_resume_equiv :
  forall (V G M L R C SS : Type) (Rzero : R)
         (forward : list (list (option V) * C) -> L * list (list (option G)))
         (opt_update : opt_kind -> R -> V -> G -> option (pstate M) -> V * option (pstate M))
         (sched_init : SS -> R -> SS * R) (sched_step : SS -> nat -> L -> R -> SS * R)
         (ops : list (op R C SS)) (spec : list (list V * C)) (dev : bool) (k m di : nat),
    let s := run_ops Rzero forward opt_update sched_init sched_step false ops (init_st spec : st V M L R C SS) in
    exists sk file live sres slive sref,
      gen_run Rzero forward opt_update sched_step k s = Some sk /\
      run_save false true di gen_save_script sk = Some (file, None, false, live) /\
      gen_run Rzero forward opt_update sched_step m (load false dev file) = Some sres /\
      gen_run Rzero forward opt_update sched_step m live = Some slive /\
      gen_run Rzero forward opt_update sched_step (k + m) s = Some sref /\
      obs sres = obs sref /\ obs slive = obs sref.
Proof. exact gen_resume_equiv. Qed.
Print Assumptions C05_source_resume_equiv.

(* non-vacuity: the reconnect script on a concrete optimiser whose state dict has the single key `parameter 1`
   (the learned-tilt situation): the state stays with parameter 1 (positional re-keying would move it to 0) *)
Example C05_tie_nonvacuous_reconnect :
  let h : heap Z nat Z unit :=
    {| hp := fun j => if j <? 4 then Some 0%Z else None;
       ho := fun j => if Nat.eqb j 4 then Some {| okind := Adam; oparams := [0; 1];
                                                  ostate := [(1, {| ps_steps := 3; ps_mom := 2 |})]; olr := 7%Z |} else None;
       hs := fun _ => None; hnext := 5 |} in
  let m : mdl Z := {| mparams := [2; 3]; mopt := Some 4; msched := None; mcons := 0%Z |} in
  option_map (fun r => option_map (fun ob => (oparams ob, map fst (ostate ob), olr ob)) (ho (fst r) 4))
             (run_reconnect gen_reconnect_script h m)
  = Some (Some ([2; 3], [3], 7%Z)).
Proof. vm_compute. reflexivity. Qed.

Example C05_tie_nonvacuous_hist :
  assoc (hist_iter 4 gen_iter_appends (hist_reset gen_reset_fields
          [("_iter_losses", 9); ("_iter_lrs", 9); ("_snapshots", 2)]%string)) "_iter_losses"%string = Some 4.
Proof. vm_compute. reflexivity. Qed.
