(* C12 — One aberration surface: EQUIVALENT coefficient sets (round 3).  Property theorems about the
   functions translated on this run from the current complex_probe.py / direct_ptychography.py
   (Gen12.Gen_Chi).  ONLY statements closed by `exact` and their assumption reports; proofs in the
   fixed scripts C12_GenEquiv.v (which builds on C12_GenAlg.v and C12_GenDeriv.v).
   Companion of C12_GenProperties.v (same vocabulary). *)
From Coq Require Import Reals String.
From Coquelicot Require Import Coquelicot.
From QV.lib Require Import C12_RealLib.
From Gen12 Require Import Gen_Chi C12_GenEquiv.
Local Open Scope R_scope.

(* two coefficient sets that describe the same surface have the same analytic gradients *)
Theorem C12_same_surface_same_gradients :
  forall (c c' : env),
    (forall alpha phi lambda, lambda <> 0 -> chi_polar c' alpha phi lambda = chi_polar c alpha phi lambda) ->
    forall alpha phi,
      dchi_dk c' alpha phi = dchi_dk c alpha phi /\ dchi_dphi c' alpha phi = dchi_dphi c alpha phi.
Proof. exact same_surface_same_gradients. Qed.
Print Assumptions C12_same_surface_same_gradients.

(* the set returned by polar -> Cartesian -> polar has, for EVERY input set, the polar and
   Cartesian gradients of the original ... *)
Theorem C12_roundtrip_same_gradients :
  forall (c : env) (alpha phi : R),
    let c' := cartesian_to_polar (polar_to_cartesian c) in
    dchi_dk c' alpha phi = dchi_dk c alpha phi /\
    dchi_dphi c' alpha phi = dchi_dphi c alpha phi /\
    dchi_dx c' alpha phi = dchi_dx c alpha phi /\
    dchi_dy c' alpha phi = dchi_dy c alpha phi.
Proof. exact gradients_roundtrip. Qed.
Print Assumptions C12_roundtrip_same_gradients.

(* ... and predicts the same parallax shifts at every rotation and frequency *)
Theorem C12_roundtrip_same_shifts :
  forall (c : env) (theta lambda kx0 ky0 : R),
    let c' := cartesian_to_polar (polar_to_cartesian c) in
    lateral_shift_x c' theta lambda kx0 ky0 = lateral_shift_x c theta lambda kx0 ky0 /\
    lateral_shift_y c' theta lambda kx0 ky0 = lateral_shift_y c theta lambda kx0 ky0.
Proof. exact shifts_roundtrip. Qed.
Print Assumptions C12_roundtrip_same_shifts.
