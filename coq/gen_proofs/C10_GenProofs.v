(* C10 — FIXED proof script of the translator tie: the functions that harness/translate_C10.py translated
   on THIS run from the source of
     ObjectConstraints.apply_hard_constraints (ptychography and tomography),
     ProbeConstraints._probe_orthogonalization_constraint, ProbePixelated._apply_weights
   (GenC10.Gen_C10Tie) equal the hand-written model coq/model/C10_Model.v for all arguments.
   The script does not depend on local names, on re-assignments or on the order of independent
   statements of the source (SSA / let form, unfolded by `cbv zeta`), and pixel expressions are compared
   up to the ring laws of Q (`qcong`), so `a * b` against `b * a` or a re-associated sum do not matter. *)
From QV.lib Require Import Prelude C10_Cplx C10_TieLib.
From QV.model Require Import C10_Model.
From QV.proof Require Import C10_Proofs C10_Proofs_TieLib.
From GenC10 Require Import Gen_C10Tie.
From Coq Require Import QArith Qcanon Lqa Sorted Permutation.
Local Close Scope Q_scope.

(* ================================================================ objects *)
Local Open Scope Q_scope.

Lemma gen_is_wave_spec ty : gen_is_wave ty = true <-> is_wave ty.
Proof.
  unfold is_wave. destruct ty; vm_compute; split; intros H;
    try reflexivity; try discriminate; try (left; reflexivity); try (right; reflexivity);
    destruct H as [H|H]; discriminate H.
Qed.

(* unfold the tensor vocabulary and the model down to maps over the object *)
Ltac lay_out :=
  cbv beta iota zeta delta
      [realize t_bin t_map red_obj red_mask t_any t_select is_some opt_val ty_eqb andb orb negb
       hard_polar hard_potential use_mask map_mask polar_pixel potential_pixel baseline_offset
       tomo_hard tomo_pixel tie_if];
  rewrite ?map_id, ?mapmap_id;
  unfold polar;
  try change (fun p : Q * Q => snd p) with (@snd Q Q);
  try change (fun p : Q * Q => fst p) with (@fst Q Q).

Ltac pixelwise :=
  first
    [ apply teq_refl
    | apply weq_refl
    | (rewrite ?map_map; apply Forall2_map_same; intro;
       rewrite ?combine_map_r, ?map_map; apply Forall2_map_same; intro;
       cbv beta; cbn [fst snd]; first [split; cbn [fst snd]; qcong | qcong]) ].

Lemma join2 {T : Type} (a b : bool) (f : T -> T) (X : T) :
  (if a then (if b then f X else X) else X) = (if (a && b)%bool then f X else X).
Proof. destruct a, b; reflexivity. Qed.

(* complex / pure_phase: the object before the slice-tying step is hard_polar entry for entry, and the
   tying step (an opaque map here: the mean over slices of a COMPLEX tensor) is applied exactly when the
   model's tie_if applies it; no smoothing filter entered (gaussian_sigma = q_lowpass = q_highpass = None) *)
Theorem gen_wave_eq_model :
  forall filt wtie ty cfg mask obj, gen_is_wave ty = true ->
    exists pre, weq pre (hard_polar ty cfg mask obj) /\
      gen_wave filt wtie ty cfg false false false mask obj
      = if (Nat.ltb 1 (length obj) && identical_slices cfg)%bool then wtie pre else pre.
Proof.
  intros filt wtie ty cfg mask obj Hty. unfold gen_wave. cbv zeta. rewrite join2.
  eexists; split; [|reflexivity].
  destruct ty; try (vm_compute in Hty; discriminate Hty); clear Hty;
    destruct mask as [ms|]; destruct (apply_fov_mask cfg) eqn:Eafm;
    lay_out; rewrite ?Eafm; lay_out; pixelwise.
Qed.

Lemma tie_join (a b : bool) (X : list (list Q)) :
  (if a then (if b then tie_slices X else X) else X) = (if (a && b)%bool then tie_slices X else X).
Proof. destruct a, b; reflexivity. Qed.

Lemma tie_if_compat (c : bool) X Y : teq X Y ->
  teq (if c then tie_slices X else X) (if c then tie_slices Y else Y).
Proof. intros H. destruct c; [apply tie_slices_compat|]; exact H. Qed.

(* potential: the whole pipeline (baseline, positivity, mask, tying) is hard_potential entry for entry,
   for a FOV mask of the slice's shape *)
Theorem gen_pot_eq_model :
  forall filt ty cfg mask obj, mask_fits mask obj ->
    teq (gen_pot filt ty cfg false false false mask obj) (hard_potential cfg mask obj).
Proof.
  intros filt ty cfg mask obj Hfit. unfold gen_pot. cbv zeta.
  (* the baseline offset first: the code tests `background.any()`, the model the selected entries *)
  assert (Hoff : forall ms, mask = Some ms ->
            (if existsb (fun m => qltb m ((1 # 2) * list_max ms)) ms
             then qmean (concat (map (fun sl => map (@snd Q Q)
                                   (filter (fun mx => qltb (fst mx) ((1 # 2) * list_max ms)) (combine ms sl))) obj))
             else list_min (concat obj))
            = match concat (map (fun sl => map snd (filter (fun mx : Q * Q => qltb (fst mx) ((1 # 2) * list_max ms)) (combine ms sl))) obj) with
              | [] => list_min (concat obj)
              | _ => qmean (concat (map (fun sl => map snd (filter (fun mx : Q * Q => qltb (fst mx) ((1 # 2) * list_max ms)) (combine ms sl))) obj))
              end).
  { intros ms E. subst mask. cbn [mask_fits] in Hfit.
    destruct obj as [|sl0 obj0]; [cbn; destruct (existsb _ ms); reflexivity|].
    pose proof (select_nil_iff (fun m => qltb m ((1 # 2) * list_max ms)) (fun x : Q => x) ms (sl0 :: obj0) Hfit
                               ltac:(discriminate)) as K.
    change (fun mx : Q * Q => (fun x : Q => x) (snd mx)) with (fun mx : Q * Q => snd mx) in K.
    change (map (fun mx : Q * Q => snd mx)) with (map (@snd Q Q)) in K.
    destruct (existsb _ ms) eqn:Eany.
    - destruct (concat _) eqn:Ec; [|reflexivity]. exfalso. destruct K as [K _]. discriminate (K eq_refl).
    - destruct K as [_ K]. rewrite (K eq_refl). reflexivity. }
  rewrite tie_join.
  destruct mask as [ms|];
    [specialize (Hoff ms eq_refl); cbv beta in Hoff | clear Hoff];
    destruct (fix_baseline cfg) eqn:Efb; destruct (positivity cfg) eqn:Epos; destruct (apply_fov_mask cfg) eqn:Eafm;
    lay_out; rewrite ?Efb, ?Epos, ?Eafm, ?map_length; lay_out;
    try (change (map (fun mx : Q * Q => snd mx)) with (map (@snd Q Q)));
    try rewrite Hoff;
    apply tie_if_compat; pixelwise.
Qed.

(* tomography: positivity clamp, then shrinkage on the clamped value *)
Theorem gen_tomo_eq_model :
  forall pos shrink obj, teq (gen_tomo pos shrink [obj]) [tomo_hard pos shrink obj].
Proof.
  intros pos shrink obj. unfold gen_tomo. cbv zeta.
  destruct pos; destruct shrink as [s|]; lay_out; cbn [map];
    (constructor; [|constructor]);
    first [apply Forall2_Qeq_refl | apply Forall2_map_same; intro; cbv beta; qcong].
Qed.

Local Close Scope Q_scope.

(* ================================================================ probes *)
Local Open Scope Qc_scope.

(* the orthogonalisation as written (normalised residuals e_j, projection subtracted from the RUNNING
   residual, clamp_min(1e-12), restore by the input norms, descending argsort) is the model's
   orthogonalize_c with eps^2 = 1e-24, for every stack *)
Theorem gen_orth_eq_model : forall ps, gen_orth ps = orthogonalize_c eps2_code ps.
Proof.
  intros ps. unfold gen_orth. cbv zeta.
  rewrite idx_complex, idx_argsort.
  change (Q2Qc (1 # 1000000000000)) with eps_code.
  rewrite outer_loop_eq, eps_code_sq, restore_eq.
  reflexivity.
Qed.

(* the two scalings of _apply_weights on a stack of plain modes, U any norm-preserving map (the
   orthonormal FFT): mode intensities, squared overall factors and directions of the result *)
Theorem gen_weights_eq_model : forall U mean w pa,
  (forall v, norm2 (U v) = norm2 v) ->
  map sv_int (gen_weights U mean w pa) = apply_weights mean w (map norm2 pa) /\
  map fst (gen_weights U mean w pa) = weight_scales mean w (map norm2 pa) /\
  (length w = length pa -> map snd (gen_weights U mean w pa) = pa).
Proof.
  intros U mean w pa HU. unfold gen_weights. cbv zeta. unfold rs_sqrt.
  rewrite ?map_map.
  (* total intensity seen through the FFT = sum of the mode intensities *)
  assert (E1 : qcsum (map (fun x => sv_int (sv_map U (sv_of x))) pa) = qcsum (map norm2 pa)).
  { f_equal. apply map_ext. intro v. unfold sv_int, sv_map, sv_of. cbn [fst snd]. rewrite HU. ring. }
  rewrite ?E1. clear E1.
  set (k := mean / qcsum (map norm2 pa)).
  (* intensities after the first scaling *)
  assert (E2 : map (fun x => sv_int (sv_mul (sv_of x) k)) pa = map (fun v => norm2 v * k) pa).
  { apply map_ext. intro v. unfold sv_int, sv_mul, sv_of. cbn [fst snd]. ring. }
  rewrite ?E2. clear E2.
  unfold apply_weights, weight_scales. cbv zeta. fold k. rewrite ?map_map.
  set (T := qcsum (map (fun v => norm2 v * k) pa)).
  rewrite ?map_id, ?map2_map_l, ?combine_map_r, ?map_map.
  assert (E3 : forall v, sv_int (sv_mul (sv_of v) k) = norm2 v * k).
  { intro v. unfold sv_int, sv_mul, sv_of. cbn [fst snd]. ring. }
  repeat split.
  - rewrite map_map2, map2_map2_self. apply map_ext. intros [a v]. cbn [fst snd]. rewrite E3.
    unfold sv_int, sv_mul, sv_of. cbn [fst snd]. unfold Qcdiv. ring.
  - rewrite map_map2, map2_map2_self. apply map_ext. intros [a v]. cbn [fst snd]. rewrite E3.
    unfold sv_mul, sv_of. cbn [fst snd]. unfold Qcdiv. ring.
  - intros Hl. rewrite map_map2, map2_map2_self.
    rewrite <- (map_snd_combine w pa Hl) at 2. apply map_ext. intros [a v]. reflexivity.
Qed.

Local Close Scope Qc_scope.

(* ================================================================ the property clauses about the
   TRANSLATED source (corollaries of the ties and of the model's theorems) *)
Local Open Scope Q_scope.

Lemma teq_Forall (P : Q -> Prop) a b :
  (forall x y, x == y -> P y -> P x) -> teq a b -> Forall (Forall P) b -> Forall (Forall P) a.
Proof.
  intros HP H. induction H as [|x y a b Hxy Hab IH]; intros Hb; [constructor|].
  inversion Hb as [|? ? Hy Hb']; subst. constructor; [|apply IH; exact Hb'].
  clear - HP Hxy Hy. induction Hxy as [|u v x y Huv Hxy IH]; [constructor|].
  inversion Hy as [|? ? Hv Hy']; subst. constructor; [exact (HP u v Huv Hv) | apply IH; exact Hy'].
Qed.

Lemma weq_Forall (P : polar -> Prop) a b :
  (forall x y, peq x y -> P y -> P x) -> weq a b -> Forall (Forall P) b -> Forall (Forall P) a.
Proof.
  intros HP H. induction H as [|x y a b Hxy Hab IH]; intros Hb; [constructor|].
  inversion Hb as [|? ? Hy Hb']; subst. constructor; [|apply IH; exact Hb'].
  clear - HP Hxy Hy. induction Hxy as [|u v x y Huv Hxy IH]; [constructor|].
  inversion Hy as [|? ? Hv Hy']; subst. constructor; [exact (HP u v Huv Hv) | apply IH; exact Hy'].
Qed.

Lemma peq_amp01 (x y : polar) : peq x y -> 0 <= fst y <= 1 -> 0 <= fst x <= 1.
Proof. intros [E _] [H1 H2]. split; rewrite E; assumption. Qed.
Lemma peq_amp1 (x y : polar) : peq x y -> fst y == 1 -> fst x == 1.
Proof. intros [E _] H. rewrite E. exact H. Qed.
Lemma qeq_nonneg (x y : Q) : x == y -> 0 <= y -> 0 <= x.
Proof. intros E H. rewrite E. exact H. Qed.

(* complex: amplitude in [0,1]; pure phase: amplitude exactly 1 — of the translated function, before
   the (amplitude-agnostic) slice-tying step *)
Theorem gen_wave_amplitudes :
  forall filt wtie cfg mask obj, mask_in_01 mask ->
    (exists pre, Forall (Forall (fun p : polar => 0 <= fst p <= 1)) pre /\
       gen_wave filt wtie Complex cfg false false false mask obj
       = if (Nat.ltb 1 (length obj) && identical_slices cfg)%bool then wtie pre else pre) /\
    (exists pre, Forall (Forall (fun p : polar => fst p == 1)) pre /\
       gen_wave filt wtie PurePhase cfg false false false mask obj
       = if (Nat.ltb 1 (length obj) && identical_slices cfg)%bool then wtie pre else pre).
Proof.
  intros filt wtie cfg mask obj Hm. split.
  - destruct (gen_wave_eq_model filt wtie Complex cfg mask obj eq_refl) as [pre [Hw He]].
    exists pre. split; [|exact He].
    apply (weq_Forall _ _ _ peq_amp01 Hw). apply complex_amp_le_1. exact Hm.
  - destruct (gen_wave_eq_model filt wtie PurePhase cfg mask obj eq_refl) as [pre [Hw He]].
    exists pre. split; [|exact He].
    apply (weq_Forall _ _ _ peq_amp1 Hw). apply pure_phase_amp_eq_1.
Qed.

Theorem gen_pot_nonneg :
  forall filt ty cfg mask obj, positivity cfg = true -> mask_in_01 mask -> mask_fits mask obj ->
    Forall (Forall (fun x => 0 <= x)) (gen_pot filt ty cfg false false false mask obj).
Proof.
  intros filt ty cfg mask obj Hp Hm Hf.
  apply (teq_Forall _ _ _ qeq_nonneg (gen_pot_eq_model filt ty cfg mask obj Hf)).
  apply potential_nonneg; assumption.
Qed.

Theorem gen_tomo_nonneg :
  forall pos shrink obj, (pos = true \/ shrink <> None) ->
    Forall (Forall (fun x => 0 <= x)) (gen_tomo pos shrink [obj]).
Proof.
  intros pos shrink obj H.
  apply (teq_Forall _ _ _ qeq_nonneg (gen_tomo_eq_model pos shrink obj)).
  constructor; [|constructor]. apply tomo_nonneg. exact H.
Qed.
Local Close Scope Q_scope.

Local Open Scope Qc_scope.
Theorem gen_orth_clauses : forall n ps,
  allN n ps -> lin_indep n ps -> Forall (fun u => eps2_code <= norm2 u) (gs ps) ->
  (forall i j mi mj, i <> j ->
     nth_error (gen_orth ps) i = Some mi -> nth_error (gen_orth ps) j = Some mj ->
     dot (snd mi) (snd mj) = c0 /\ mode_gram2 mi mj = 0) /\
  Permutation (map mode_intensity (gen_orth ps)) (map norm2 ps) /\
  StronglySorted (fun a b => mode_intensity b <= mode_intensity a) (gen_orth ps).
Proof. intros n ps. rewrite gen_orth_eq_model. apply gsc_property_clauses. Qed.

Theorem gen_orth_sorted_any : forall ps,
  StronglySorted (fun a b => mode_intensity b <= mode_intensity a) (gen_orth ps).
Proof. intros ps. rewrite gen_orth_eq_model. apply gsc_sorted_desc. Qed.

Theorem gen_weights_total_and_ratio : forall U mean raw pa,
  (forall v, norm2 (U v) = norm2 v) ->
  length raw = length pa -> 0 < mean -> qcsum raw <> 0 -> Forall (fun p => 0 < norm2 p) pa ->
  let out := map sv_int (gen_weights U mean (norm_weights raw) pa) in
  qcsum out = mean /\ map (fun x => x / qcsum out) out = map (fun w => w / qcsum raw) raw.
Proof.
  intros U mean raw pa HU Hl Hm Hr Hp. cbv zeta.
  destruct (gen_weights_eq_model U mean (norm_weights raw) pa HU) as [E _]. rewrite E.
  assert (Hl' : length raw = length (map norm2 pa)) by (rewrite map_length; exact Hl).
  assert (Hp' : Forall (fun x => 0 < x) (map norm2 pa)).
  { clear - Hp. induction Hp; cbn [map]; constructor; assumption. }
  split; [apply weights_total | apply weights_ratio]; assumption.
Qed.
Local Close Scope Qc_scope.

(* ================================================================ ProbeConstraints.apply_hard_constraints *)
(* orthogonalisation first (under orthogonalize_probe), then the common centring shift (under center_probe) *)
Theorem gen_probe_hard_steps : forall (T : Type) (orth center : T -> T) (k_orth k_center : bool) (p : T),
  gen_probe_hard orth center k_orth k_center p
  = (if k_center then center else fun x => x) ((if k_orth then orth else fun x => x) p).
Proof. intros T orth center a b p. unfold gen_probe_hard. cbv zeta. destruct a, b; reflexivity. Qed.
