(* C02 — FIXED proof script compiled by the check on every run against build/C02/Gen_C02.v (the functions
   translated by harness/c02_tie.py from the CURRENT source): each translated function equals the hand-written
   model definition of coq/model/C02_Model.v, for all arguments.  The proofs do not depend on local names, on the
   order of independent statements or on the order of the operands of + and * (the translator sorts them; the
   tactics below normalise what is left). *)
From QV.lib Require Import Prelude FinSum DFT DFT2 C02_TieLib.
From QV.model Require Import C02_Model.
From QV.proof Require Import C02_Proofs_Index C02_Proofs_Geom.
From GenC02 Require Import Gen_C02.
From Coq Require Import QArith.
Local Close Scope Q_scope.
Local Open Scope Z_scope.

(* equality of integer expressions up to commutativity of + and *, through mod and / *)
Ltac zeq :=
  solve [ reflexivity | lia
        | match goal with
          | |- ?a + ?b = ?c + ?d => first [ f_equal; zeq | rewrite (Z.add_comm a b); f_equal; zeq ]
          | |- ?a * ?b = ?c * ?d => first [ f_equal; zeq | rewrite (Z.mul_comm a b); f_equal; zeq ]
          | |- ?a mod ?b = ?c mod ?d => f_equal; zeq
          | |- ?a / ?b = ?c / ?d => f_equal; zeq
          end ].

(* positions whose nearest pixel fits a 32-bit integer (.type(torch.int32) of the rounded position) *)
Definition pos_int32 (p : Q * Q) : Prop :=
  - 2147483648 <= round_half_even (fst p) < 2147483648 /\ - 2147483648 <= round_half_even (snd p) < 2147483648.

Lemma flat_index_int32 H W x y :
  0 < H -> 0 < W -> H * W < 2147483648 ->
  0 <= x < H -> 0 <= y < W -> - 2147483648 <= x * W + y < 2147483648 /\ - 2147483648 <= y + x * W < 2147483648
  /\ - 2147483648 <= W * x + y < 2147483648 /\ - 2147483648 <= y + W * x < 2147483648.
Proof. intros. assert (x * W <= (H - 1) * W) by (apply Z.mul_le_mono_nonneg_r; lia). nia. Qed.

(* ------------------------------------------------------------------ _set_patch_indices *)
Lemma gen_patch_indices_eq_model H W n m pos :
  0 < H -> 0 < W -> H * W < 2147483648 -> 0 <= n -> 0 <= m -> pos <> [] -> Forall pos_int32 pos ->
  gen_patch_indices H W n m pos = patch_indices_all H W n m pos.
Proof.
  intros HH HW HHW Hn Hm Hne Hb.
  assert (HL : 1 <= lenZ pos) by (unfold lenZ; destruct pos; [congruence | cbn [length]; lia]).
  unfold gen_patch_indices, patch_indices_all.
  rewrite <- (tabZ_nth_map q00 pos (fun p => patch_indices H W n m (fst (round_pos p)) (snd (round_pos p)))).
  apply cat_chunks.
  - lia.
  - lia.
  - intros i Hi. unfold py_slice_len. lia.
  - intros i p Hi Hp Hip.
    rewrite patch_indices_tab by lia.
    repeat match goal with |- context [nthZ q00 pos ?k] =>
      lazymatch k with (i + p) => fail | _ => replace k with (i + p) by lia end end.
    set (P := nthZ q00 pos (i + p)).
    assert (HP : pos_int32 P).
    { unfold P, nthZ. rewrite Forall_forall in Hb. apply Hb. apply nth_In. unfold lenZ in Hip. lia. }
    destruct HP as [HPr HPc].
    apply tabZ_ext. intros a Ha. apply tabZ_ext. intros b Hbb.
    unfold patch_index, py_fftfreq_int, round_pos. unfold nthZ. cbn [fst snd].
    rewrite !fftfreq_list_nth by lia.
    rewrite (wrap32_id (round_half_even (fst P))) by exact HPr.
    rewrite (wrap32_id (round_half_even (snd P))) by exact HPc.
    rewrite wrap32_id.
    + zeq.
    + match goal with |- context [?x mod H] =>
        match goal with |- context [?y mod W] =>
          pose proof (Z.mod_pos_bound x H HH) as Bx; pose proof (Z.mod_pos_bound y W HW) as By;
          pose proof (@flat_index_int32 H W (x mod H) (y mod W) HH HW HHW Bx By) as [B1 [B2 [B3 B4]]]
        end end.
      first [ exact B1 | exact B2 | exact B3 | exact B4 ].
Qed.

Lemma gen_last_positions_eq pos : gen_last_positions pos = pos.
Proof. reflexivity. Qed.

(* ------------------------------------------------------------------ patch_indices_need_update, forward *)
Lemma gen_need_update_eq_model cached current : gen_need_update cached current = need_update cached current.
Proof. reflexivity. Qed.

Lemma gen_frac_eq_model q : gen_frac q = frac_part q.
Proof. reflexivity. Qed.

Lemma gen_forward_eq_model H W n m cached_pos cache pos batch :
  0 < H -> 0 < W -> H * W < 2147483648 -> 0 <= n -> 0 <= m -> pos <> [] -> Forall pos_int32 pos ->
  gen_forward H W n m cached_pos cache pos batch = forward_indices H W n m cached_pos cache pos batch.
Proof.
  intros. unfold gen_forward, forward_indices.
  rewrite gen_need_update_eq_model, gen_patch_indices_eq_model by assumption.
  unfold py_take. rewrite map_map. reflexivity.
Qed.

(* ------------------------------------------------------------------ object shape, padding *)
Lemma gen_obj_shape_crop_eq_model F : gen_obj_shape_crop F = Some (obj_shape_crop F).
Proof. unfold gen_obj_shape_crop, obj_shape_crop. cbv zeta. f_equal. zeq. Qed.

Lemma gen_obj_shape_full_eq_model r p : gen_obj_shape_full r p = Some (obj_shape_full r p).
Proof. unfold gen_obj_shape_full, obj_shape_full. cbv zeta. f_equal. lia. Qed.

(* every argument of `mod D` that is ring-equal to b is replaced by b (so that a + b / b + a, re-associated sums and
   renamed locals give the same atoms) *)
Ltac canon_mod D b :=
  repeat match goal with
         | |- context [?a mod D] =>
             lazymatch a with b => fail | _ => replace a with b by ring end
         end.

Ltac split_tests :=
  repeat match goal with
         | |- context [?x =? 0] => destruct (Z.eqb_spec x 0); cbn [negb andb orb]
         end.

Lemma gen_adjust_pad_eq_model level s0 s1 p0 p1 :
  gen_adjust_pad level s0 s1 p0 p1 = adjust_pad level s0 s1 p0 p1.
Proof.
  unfold gen_adjust_pad, adjust_pad, adjust_pad_axis. cbv zeta.
  set (D := 2 ^ level).
  canon_mod D (s0 + 2 * p0). canon_mod D (s1 + 2 * p1).
  destruct (Z.eqb_spec ((s0 + 2 * p0) mod D) 0) as [E0|E0];
    destruct (Z.eqb_spec ((s1 + 2 * p1) mod D) 0) as [E1|E1]; cbn [negb andb orb];
    canon_mod D (s0 + 2 * p0); canon_mod D (s1 + 2 * p1);
    canon_mod D (s0 + 2 * (p0 + (D - (s0 + 2 * p0) mod D) / 2));
    canon_mod D (s1 + 2 * (p1 + (D - (s1 + 2 * p1) mod D) / 2));
    split_tests; try reflexivity; try congruence; try (f_equal; f_equal; lia).
Qed.

(* ------------------------------------------------------------------ _set_targets *)
Lemma gen_set_targets_eq_model A lt learn opt (arrays : tsource -> A) old :
  gen_set_targets lt learn opt arrays old = Some (arrays (target_source lt (learn && opt))).
Proof. destruct lt, learn, opt; reflexivity. Qed.

Lemma gen_set_targets_unknown_raises A learn opt (arrays : tsource -> A) old :
  gen_set_targets_unknown learn opt arrays old = None.
Proof. destruct learn, opt; reflexivity. Qed.

(* ------------------------------------------------------------------ detector *)
Lemma gen_detector_eq_model R (rO : R) radd rmul conj N1 w1 N2 w2 sN (exit_waves : list (img R)) k1 k2 :
  gen_detector rO radd rmul conj N1 w1 N2 w2 sN exit_waves k1 k2 =
  fftshift2 N1 N2 (mode_sum rO radd (farfield_intensity rO radd rmul conj N1 w1 N2 w2 sN) exit_waves) k1 k2.
Proof.
  unfold gen_detector, py_fftshift2, fftshift2, roll2, py_sum0, mode_sum.
  rewrite !map_map. reflexivity.
Qed.

(* ------------------------------------------------------------------ statements restated in C02_GenProperties.v *)
Lemma patch_indices_tie_full H W n m pos :
  0 < H -> 0 < W -> H * W < 2147483648 -> 0 <= n -> 0 <= m -> pos <> [] -> Forall pos_int32 pos ->
  gen_patch_indices H W n m pos = patch_indices_all H W n m pos /\ gen_last_positions pos = pos.
Proof. intros. split; [apply gen_patch_indices_eq_model; assumption | apply gen_last_positions_eq]. Qed.

Lemma translated_forward_current H W n m cached_pos pos batch :
  0 < H -> 0 < W -> H * W < 2147483648 -> 0 <= n -> 0 <= m ->
  cached_pos <> [] -> Forall pos_int32 cached_pos -> pos <> [] -> Forall pos_int32 pos ->
  Forall (fun b => 0 <= b < lenZ pos) batch ->
  fst (fst (gen_forward H W n m cached_pos (gen_patch_indices H W n m cached_pos) pos batch)) =
  map (fun b => let p := nth (Z.to_nat b) pos (0 # 1, 0 # 1)%Q in
                patch_indices H W n m (round_half_even (fst p)) (round_half_even (snd p))) batch.
Proof.
  intros. rewrite gen_forward_eq_model by assumption.
  apply forward_indices_correct; [apply gen_patch_indices_eq_model; assumption | assumption].
Qed.

Lemma obj_shape_tie_full F rshape pad :
  gen_obj_shape_crop F = Some (obj_shape_crop F) /\ gen_obj_shape_full rshape pad = Some (obj_shape_full rshape pad).
Proof. split; [apply gen_obj_shape_crop_eq_model | apply gen_obj_shape_full_eq_model]. Qed.

Lemma set_targets_tie_full (A : Type) lt learn_descan has_optimizer (arrays : tsource -> A) (old : A) :
  gen_set_targets lt learn_descan has_optimizer arrays old =
    Some (arrays (target_source lt (learn_descan && has_optimizer))) /\
  gen_set_targets_unknown learn_descan has_optimizer arrays old = None.
Proof. split; [apply gen_set_targets_eq_model | apply gen_set_targets_unknown_raises]. Qed.

Lemma nonvacuous_patch_indices_tie :
  let pos := [(5 # 2, 7 # 2); (1 # 1, 0 # 1)]%Q in
  (0 < 6 /\ 0 < 5 /\ 6 * 5 < 2147483648 /\ pos <> [] /\ Forall pos_int32 pos) /\
  gen_patch_indices 6 5 3 2 pos = [[[14; 13]; [19; 18]; [9; 8]]; [[5; 9]; [10; 14]; [0; 4]]].
Proof.
  split; [|vm_compute; reflexivity].
  repeat split; try lia; try discriminate.
  repeat constructor; vm_compute; try reflexivity; intros E; discriminate E.
Qed.
