(* C19 — FIXED proof script over the file GENERATED on every run by harness/translate_C19.py from the
   current /repo/src/quantem/core/config.py (build/C19/Gen_C19.v): the translated functions equal the
   hand-written definitions of coq/model/C19_Model.v / C19_Model2.v for all arguments.
   Compiled by the check itself (not in _CoqProject). *)
From QV.lib Require Import Prelude.
From QV.model Require Import C19_Model C19_Model2 C19_PyLib.
From QV.proof Require Import C19_Proofs_Keys C19_Proofs_Update C19_Proofs_PyLib.
From Gen19 Require Import Gen_C19.
From Coq Require Import String Ascii.

Ltac brk0 :=
  repeat (match goal with
          | |- context [match ?x with _ => _ end] => is_var x; destruct x
          | |- context [if ?b then _ else _] => destruct b eqn:?
          | |- context [match ?x with _ => _ end] => destruct x eqn:?
          end; cbn in *; try congruence); try reflexivity; try congruence.

Section G.
Variable validate : cfg -> err + string.
Variables (D : depr_t) (A : alias_t).

Lemma gen_canon_node k d : gen_canonical_name validate D A k (Node d) = inr (canon k d).
Proof.
  unfold gen_canonical_name, canon, alt_name. cbn [py_in err_in].
  destruct (mem k d); [reflexivity|]. fold under dash.
  destruct (has under k); destruct (mem _ d); reflexivity.
Qed.

(* on a scalar: substring test on a str, the name itself otherwise *)
Lemma gen_canon_leaf k x :
  gen_canonical_name validate D A k (Leaf x) =
  inr (match x with
       | JStr s => if contains k s then k else if contains (alt_name k) s then alt_name k else k
       | _ => k end).
Proof.
  unfold gen_canonical_name, alt_name. destruct x; cbn; try reflexivity.
  fold under dash. destruct (contains k s); [reflexivity|].
  destruct (has under k); destruct (contains _ s); reflexivity.
Qed.

Lemma gen_dkey dv k :
  (if cfg_truthy (dv_cfg dv) then gen_canonical_name validate D A k (dv_cfg dv) else inr k) = inr (dkey dv k).
Proof.
  destruct dv as [[x|l]|]; cbn [dv_cfg].
  - rewrite gen_canon_leaf. unfold dkey, dv_truthy, cfg_truthy. destruct x; cbn; try reflexivity; brk0.
  - rewrite gen_canon_node. unfold dkey, dv_truthy, cfg_truthy. destruct l; reflexivity.
  - reflexivity.
Qed.

Lemma gen_ckv_t k v :
  gen_check_key_val validate D A k v =
  match check_key_val_t validate D A k v with inl e => inl e | inr v' => inr (k, v') end.
Proof.
  unfold gen_check_key_val, check_key_val_t, depr_check, alias_val, amem, a_getitem, check_key_val, check_dev.
  destruct (alookup k D) as [[s|]|]; cbn [os_truthy]; try reflexivity.
  - destruct (String.eqb s ""); cbn [negb]; try reflexivity.
    destruct (alookup k A) as [tbl|]; cbn zeta.
    + destruct v as [x|l]; cbn [vt_in vt_getitem].
      * destruct (vlookup x tbl); rewrite ?cpu_gate_spec; brk0.
      * reflexivity.
    + rewrite ?cpu_gate_spec; brk0.
  - destruct (alookup k A) as [tbl|]; cbn zeta.
    + destruct v as [x|l]; cbn [vt_in vt_getitem].
      * destruct (vlookup x tbl); rewrite ?cpu_gate_spec; brk0.
      * reflexivity.
    + rewrite ?cpu_gate_spec; brk0.
Qed.
End G.

Ltac nomatch x :=
  lazymatch x with
  | context [match ?y with _ => _ end] => fail
  | _ => idtac
  end.
Ltac brk :=
  repeat (match goal with
          | |- context [match ?x with _ => _ end] => is_var x; destruct x
          | |- context [match ?x with _ => _ end] => nomatch x; destruct x eqn:?
          end; cbn in *; unfold mem, d_getitem in *; try congruence); try reflexivity; try congruence.
Section G2.
Variable validate : cfg -> err + string.

Lemma gen_ckv_base k v :
  gen_check_key_val validate [] [] k v =
  match check_dev validate k v with inl e => inl e | inr None => inr (k, v) | inr (Some s) => inr (k, Leaf (JStr s)) end.
Proof.
  rewrite gen_ckv_t. unfold check_key_val_t, depr_check, alias_val, check_key_val; cbn.
  destruct (check_dev validate k v) as [|[|]]; reflexivity.
Qed.

Lemma gen_dsub dv k' :
  (if cfg_truthy (dv_cfg dv) then py_get (dv_cfg dv) (dkey dv k') else inr py_none) =
  match dsub dv k' with inl e => inl e | inr dv' => inr (dv_cfg dv') end.
Proof.
  unfold dsub. destruct dv as [[x|l]|]; cbn [dv_cfg]; try reflexivity.
  - unfold dv_truthy, cfg_truthy. destruct (py_truthy x); reflexivity.
  - unfold dv_truthy, cfg_truthy. destruct l; reflexivity.
Qed.

Lemma gen_update_eq : forall fuel prio nl old dv c, c = dv_cfg dv -> (cfg_depth (Node nl) <= fuel)%nat ->
  gen_update validate [] [] fuel old nl (prio_str prio) c = update_cfg validate prio (Node nl) old dv.
Proof.
  induction fuel as [|f IH]; intros prio nl old dv c -> Hd.
  { pose proof (cfg_depth_node_pos nl). lia. }
  cbn [gen_update update_cfg]. revert old.
  induction nl as [|[k v] rest IHl]; intros old; [reflexivity|].
  specialize (IHl (cfg_depth_tail _ _ _ _ Hd)).
  pose proof (cfg_depth_head _ _ _ _ Hd) as Hv.
  match type of IHl with forall o, ?L ?r o = ?G ?r o ?d => set (LOOP := L) in *; set (GO := G) in * end.
  clearbody LOOP GO.
  rewrite gen_ckv_base.
  destruct (check_dev validate k v) as [e|[s|]] eqn:Hc; [reflexivity| |].
  - rewrite gen_canon_node, gen_dkey. 
    unfold leaf_step, dmatch. generalize (dkey dv (canon k old)) as dk. generalize (canon k old) as k'. intros k' dk.
    clear IH Hd Hv Hc.
    destruct prio; cbn [prio_str]; unfold mem, d_getitem; destruct (lookup k' old) as [ov|] eqn:L.
    all: try (destruct dv as [[x|l]|]); cbn; brk; try apply IHl.
  - destruct v as [x|vl].
    + rewrite gen_canon_node, gen_dkey.
      unfold leaf_step, dmatch. generalize (dkey dv (canon k old)) as dk. generalize (canon k old) as k'. intros k' dk.
      clear IH Hd Hv Hc.
      destruct prio; cbn [prio_str]; unfold mem, d_getitem; destruct (lookup k' old) as [ov|] eqn:L.
      all: try (destruct dv as [[y|l]|]); cbn; brk; try apply IHl.
    + rewrite gen_canon_node, gen_dkey. set (k' := canon k old).
      unfold subdict, mem, d_getitem.
      destruct (lookup k' old) as [[y|ol]|] eqn:L.
      all: assert (HvN : (cfg_depth (Node vl) <= f)%nat) by exact Hv.
      all: try (destruct y); cbn [orM bindM notM negb is_none is_mapping as_dict].
      all: rewrite ?lookup_assign_same; cbn [bindM as_dict].
      all: rewrite gen_dsub; destruct (dsub dv k') as [e|dv'];
        [ rewrite ?(assign_same _ _ _ L); reflexivity |].
      all: rewrite (IH prio vl _ dv' _ eq_refl HvN).
      all: destruct (update_cfg validate prio (Node vl) _ dv') as [sub' [e|]].
      all: rewrite ?assign_assign; try reflexivity; apply IHl.
Qed.

Definition fits (fuel : nat) (d : items) : Prop := (cfg_depth (Node d) <= fuel)%nat.

Lemma gen_update_items fuel prio new old dv :
  fits fuel new ->
  gen_update validate [] [] fuel old new (prio_str prio) (dv_cfg dv) = update_items validate prio new old dv.
Proof. intros H. exact (gen_update_eq fuel prio new old dv _ eq_refl H). Qed.

Lemma gen_merge_eq fuel ds : Forall (fits fuel) ds ->
  gen_merge validate [] [] fuel ds = match merge validate ds with (m, None) => inr m | (_, Some e) => inl e end.
Proof.
  intros H. unfold gen_merge, merge. cbn zeta. generalize (@nil (string * cfg)).
  induction H as [|d r Hd Hr IH]; intros acc; [reflexivity|].
  cbn [merge_from]. change "new"%string with (prio_str PNew). change py_none with (dv_cfg None).
  rewrite (gen_update_items fuel PNew d acc None Hd).
  destruct (update_items validate PNew d acc None) as [m [e|]]; [reflexivity | apply IH].
Qed.

Lemma gen_collect_eq fuel yaml : Forall (fits fuel) yaml ->
  gen_collect validate [] [] fuel yaml = match merge validate yaml with (m, None) => inr m | (_, Some e) => inl e end.
Proof. exact (gen_merge_eq fuel yaml). Qed.

Lemma gen_refresh_eq fuel yaml config defaults :
  Forall (fits fuel) defaults -> Forall (fits fuel) yaml ->
  (forall cy, merge validate yaml = (cy, None) -> fits fuel cy) ->
  gen_refresh validate [] [] fuel yaml config defaults =
  (let (s', e) := refresh validate yaml {| conf := config; dflts := defaults |} in (conf s', e)).
Proof.
  intros Hd Hy Hcy.
  transitivity (match merge_from validate [] defaults with
                | (c1, Some e) => (c1, Some e)
                | (c1, None) => match merge validate yaml with
                                | (_, Some e) => (c1, Some e)
                                | (cy, None) => update_items validate PNew cy c1 None
                                end
                end).
  2:{ unfold refresh. cbn [dflts conf]. destruct (merge_from validate [] defaults) as [c1 [e|]]; [reflexivity|].
      destruct (merge validate yaml) as [cy [e|]]; [reflexivity|].
      destruct (update_items validate PNew cy c1 None); reflexivity. }
  unfold gen_refresh. cbn zeta. generalize (@nil (string * cfg)).
  induction Hd as [|d r Hd1 Hr IH]; intros acc.
  - cbn [merge_from]. rewrite (gen_collect_eq fuel yaml Hy).
    destruct (merge validate yaml) as [cy [e|]] eqn:M; [reflexivity|].
    change "new"%string with (prio_str PNew). change py_none with (dv_cfg None).
    rewrite (gen_update_items fuel PNew cy acc None (Hcy cy eq_refl)).
    destruct (update_items validate PNew cy acc None) as [c2 [e|]]; reflexivity.
  - cbn [merge_from]. change "new"%string with (prio_str PNew). change py_none with (dv_cfg None).
    rewrite (gen_update_items fuel PNew d acc None Hd1).
    destruct (update_items validate PNew d acc None) as [m [e|]]; [reflexivity | apply IH].
Qed.

(* new[key] = nval for every checked entry, in order *)
Definition assign_all (l acc : items) : items := fold_left (fun a kv => assign (fst kv) (snd kv) a) l acc.

Lemma gen_update_defaults_eq fuel new config defaults :
  Forall (fits fuel) defaults ->
  (forall new', check_items validate new = inr new' -> fits fuel (assign_all new' new)) ->
  gen_update_defaults validate [] [] fuel new config defaults =
  match check_items validate new with
  | inl e => ((config, defaults), Some e)
  | inr new' =>
      let new2 := assign_all new' new in
      match merge validate defaults with
      | (_, Some e) => ((config, defaults), Some e)
      | (cur, None) =>
          let (c', e) := update_items validate PNewDefaults new2 config (Some (Node cur)) in
          ((c', defaults ++ [new2]), e)
      end
  end.
Proof.
  intros Hd Hn. unfold gen_update_defaults.
  set (TAIL := fun new2 : items =>
      match merge validate defaults with
      | (_, Some e) => ((config, defaults), Some e)
      | (cur, None) =>
          let (c', e) := update_items validate PNewDefaults new2 config (Some (Node cur)) in
          ((c', defaults ++ [new2]), e)
      end).
  match goal with |- ?L new new = _ => set (LOOP := L) end.
  assert (G : forall l acc,
    (forall l', check_items validate l = inr l' -> fits fuel (assign_all l' acc)) ->
    LOOP l acc = match check_items validate l with
                 | inl e => ((config, defaults), Some e) | inr l' => TAIL (assign_all l' acc) end).
  2:{ rewrite (G new new Hn). destruct (check_items validate new); reflexivity. }
  induction l as [|[k v] r IH]; intros acc Hf.
  - unfold LOOP, TAIL. cbn [check_items assign_all fold_left]. rewrite (gen_merge_eq fuel defaults Hd).
    destruct (merge validate defaults) as [cur [e|]]; [reflexivity|].
    change "new-defaults"%string with (prio_str PNewDefaults).
    rewrite (gen_update_eq fuel PNewDefaults acc config (Some (Node cur)) (Node cur) eq_refl (Hf [] eq_refl)).
    unfold update_items.
    destruct (update_cfg validate PNewDefaults (Node acc) config (Some (Node cur))) as [c' [e|]]; reflexivity.
  - unfold LOOP at 1. cbn [check_items]. rewrite gen_ckv_base. unfold check_key_val. fold LOOP.
    destruct (check_dev validate k v) as [e|[s|]] eqn:C; [reflexivity| |].
    + rewrite (IH (assign k (Leaf (JStr s)) acc)).
      * destruct (check_items validate r); reflexivity.
      * intros l' E. specialize (Hf ((k, Leaf (JStr s)) :: l')). cbn [check_items] in Hf. unfold check_key_val in Hf.
        rewrite C, E in Hf. exact (Hf eq_refl).
    + rewrite (IH (assign k v acc)).
      * destruct (check_items validate r); reflexivity.
      * intros l' E. specialize (Hf ((k, v) :: l')). cbn [check_items] in Hf. unfold check_key_val in Hf.
        rewrite C, E in Hf. exact (Hf eq_refl).
Qed.

Lemma gen_get_eq (D : depr_t) (A : alias_t) key dflt d ov :
  gen_get validate D A key dflt (Node d) ov = get_full key dflt (Some ov) d.
Proof.
  unfold gen_get, get_full, C19_Model.get, path_of, py_split_dot.
  destruct (is_none ov); cbn [negb]; [|reflexivity]. cbn zeta.
  generalize (let (h, t) := split_dot key in h :: t) as p. generalize (Node d) as c. clear.
  intros c p. revert c. induction p as [|k r IH]; intros c.
  - reflexivity.
  - destruct c as [x|l].
    + rewrite gen_canon_leaf. cbn. destruct dflt; reflexivity.
    + rewrite gen_canon_node. cbn [py_getitem get_path]. destruct (lookup (canon k l) l) as [c'|].
      * apply IH.
      * cbn. destruct dflt; reflexivity.
Qed.

Definition rec_of (path : list string) (pc : crec) : rec_t :=
  match pc with
  | (p, Some x) => ("replace"%string, path ++ p, x)
  | (p, None) => ("insert"%string, path ++ p, py_none)
  end.

Lemma gen_assign_eq (D : depr_t) (A : alias_t) : forall fuel rest k v d path record recs,
  (List.length (k :: rest) <= fuel)%nat ->
  match assign_path k rest v d with
  | inr (d', pc) =>
      gen_assign validate D A fuel (k :: rest) v d path record recs =
      ((d', if record then recs ++ [rec_of path pc] else recs), None)
  | inl e => snd (gen_assign validate D A fuel (k :: rest) v d path record recs) = Some e
  end.
Proof.
  induction fuel as [|f IH]; intros rest k v d path record recs Hl; [cbn in Hl; lia|].
  cbn [gen_assign bindM]. rewrite gen_canon_node. set (k' := canon k d).
  destruct rest as [|k2 rest'].
  - cbn [assign_path List.length Nat.eqb]. fold k'. unfold mem, d_getitem, rec_of.
    destruct record; destruct (lookup k' d); reflexivity.
  - cbn [assign_path List.length Nat.eqb tl]. fold k'. unfold mem, d_getitem.
    assert (Hl' : (List.length (k2 :: rest') <= f)%nat) by (cbn in *; lia).
    destruct (lookup k' d) as [[x|sub]|] eqn:L; cbn [negb bindM as_dict].
    + reflexivity.
    + specialize (IH rest' k2 v sub (path ++ [k']) record recs Hl').
      destruct (assign_path k2 rest' v sub) as [e|[sub' [p o]]].
      * destruct (gen_assign validate D A f (k2 :: rest') v sub (path ++ [k']) record recs) as [[r rc] oe].
        cbn [snd] in IH. subst oe. reflexivity.
      * rewrite IH. unfold rec_of. destruct record; destruct o; rewrite <- ?app_assoc; reflexivity.
    + assert (E : forall rc, match assign_path k2 rest' v [] with
        | inr (sub', _) => gen_assign validate D A f (k2 :: rest') v [] (path ++ [k']) false rc = ((sub', rc), None)
        | inl e => snd (gen_assign validate D A f (k2 :: rest') v [] (path ++ [k']) false rc) = Some e end).
      { intros rc. specialize (IH rest' k2 v [] (path ++ [k']) false rc Hl').
        destruct (assign_path k2 rest' v []) as [e|[sub' pc]]; exact IH. }
      destruct record; rewrite lookup_assign_same; cbn [bindM as_dict].
      all: match goal with |- context [gen_assign _ _ _ _ _ _ [] _ false ?rc] => specialize (E rc) end.
      all: destruct (assign_path k2 rest' v []) as [e|[sub' pc]].
      all: try (destruct (gen_assign validate D A f (k2 :: rest') v [] (path ++ [k']) false _) as [[r rc'] oe];
                cbn [snd] in E; subst oe; reflexivity).
      all: rewrite E, assign_assign; reflexivity.
Qed.
End G2.
