(* C07 — FIXED proof script of the tie between what harness/translate_C07_full.py reads from the CURRENT source of
   radon.py (GenC07.C07_GenFull, regenerated on every run) and the hand-written model (model/C07_Model.v, proved equal to
   the scikit-image transcription in props/C07_Properties.v): get_fourier_filter_torch (guard, index vector, spatial
   kernel, the window of every filter name), radon_torch (disc mask, crop, sampling grid, summed axis, default theta) and
   iradon_torch (back-projection term, circle mask, scaling, FFT pipeline sizes, default theta) — for ALL arguments.
   The tactics accept the source as it is and harmless rewrites (renamed locals, reordered independent statements,
   re-associated sums); any change of meaning makes a lemma fail, which the check reports as a broken tie.
   Fixed meanings of the torch calls: lib/C07_TorchSem.v. *)
From QV.lib Require Import Prelude C07_TorchSem.
From QV.model Require Import C07_Model C07_Model_Ext.
From QV.proof Require Import C07_Proofs C07_Proofs_Iradon C07_Proofs_Ext.
From Coq Require Import QArith Qround Lqa.
From GenC07 Require Import C07_Gen C07_GenFull.
Local Open Scope Z_scope.

(* ---------------------------------------------------------------- generic closing tactics *)
(* a == b where the two sides differ at most by integer sub-terms that lia identifies / a ring identity *)
Ltac zcong := solve [ reflexivity | lia | repeat (first [reflexivity | lia | progress f_equal]) ].
Ltac qclose :=
  first [ reflexivity
        | ring
        | match goal with |- (?a == ?b)%Q => let E := fresh in assert (E : a = b) by zcong; rewrite E; reflexivity end ].

(* ================================================================= get_fourier_filter_torch *)
Lemma gen_filter_raises_eq size : gen_filter_raises size = negb (Z.even size).
Proof.
  unfold gen_filter_raises. rewrite Zeven_mod. unfold Zeq_bool.
  destruct (size mod 2 ?= 0) eqn:E; destruct (size mod 2 =? 0) eqn:F; try reflexivity;
    try (apply Z.compare_eq_iff in E; lia); try (apply Z.eqb_eq in F; rewrite F in E; discriminate E).
Qed.

Lemma neg_inv_sq x : ((Qmake (-1) 1) / (x ^ 2) == - (1 / x ^ 2))%Q.
Proof. unfold Qdiv. ring. Qed.

Lemma gen_filter_kernel_eq size : Forall2 pair_eq (gen_filter_kernel size) (port_ramp_kernel size).
Proof.
  unfold gen_filter_kernel, port_ramp_kernel, ramp_kernel.
  apply Forall2_map_zrange. intros k Hk. unfold pair_eq.
  pose proof (Zmod_odd k) as Hodd.
  destruct (k =? 0) eqn:E0; destruct (Z.odd k) eqn:E1;
    repeat match goal with |- context [if ?b then _ else _] => destruct b eqn:? end;
    cbn [fst snd]; try (split; reflexivity); try lia.
  all: split; try reflexivity.
  all: try (rewrite neg_inv_sq).
  all: unfold port_filter_n.
  all: qclose.
Qed.

Lemma gen_filter_eq (sinpi cospi sincpi : Q -> Q) (rampF : list (Q * Q) -> Z -> Q)
  (Hsin : forall a b, (a == b)%Q -> (sinpi a == sinpi b)%Q)
  (Hcos : forall a b, (a == b)%Q -> (cospi a == cospi b)%Q)
  (Hsinc : forall a b, (a == b)%Q -> (sincpi a == sincpi b)%Q)
  (Hramp : rampF_proper rampF) nm size k :
  0 <= k < size ->
  (gen_filter sinpi cospi sincpi rampF nm size k == port_filter sinpi cospi sincpi rampF repaired nm size k)%Q.
Proof.
  intros Hk.
  assert (HR : (rampF (gen_filter_kernel size) k == rampF (port_ramp_kernel size) k)%Q)
    by (apply Hramp, gen_filter_kernel_eq).
  (* window arguments: equal up to ==, through the fixed meanings of linspace / the torch windows *)
  destruct nm; unfold gen_filter, gen_filter_Ramp, gen_filter_SheppLogan, gen_filter_Cosine, gen_filter_Hamming,
    gen_filter_Hann, gen_filter_NoFilter, port_filter, port_window;
    repeat match goal with |- context [if ?b then _ else _] => destruct b eqn:? end; try lia;
    rewrite ?HR; try reflexivity; try ring.
  all: try (apply Qmult_comp; [reflexivity|]).
  all: unfold t_hamming, t_hann; try (apply Qplus_comp; [reflexivity|]); try (apply Qopp_comp); try (apply Qmult_comp; [reflexivity|]).
  all: repeat first
      [ apply Hsin | apply Hcos | apply Hsinc
      | rewrite t_linspace_unit
      | progress (unfold t_hamming, t_hann, t_window_arg, torch_window_arg, port_cosine_coef, repaired, linspace_coef;
                  cbn [v_cosine_fixed]) ];
    qclose.
Qed.

Lemma gen_filter_shapes_ok nm size :
  2 <= size -> Z.even size = true ->
  Forall (fun p => fst p = snd p) (gen_filter_shapes nm size) /\ gen_filter_len nm size = size.
Proof.
  intros Hs He. pose proof (even_half size He) as Hh.
  split; [|destruct nm; reflexivity].
  destruct nm; unfold gen_filter_shapes; repeat constructor; cbn [fst snd];
    rewrite ?app_length, ?torch_arange_length; cbn [Z.ltb Z.compare Z.opp]; lia.
Qed.

(* the filter read from the source IS scikit-image's (via the model: C07_filter_eq_skimage) *)
Lemma gen_filter_eq_sk (sinpi cospi sincpi : Q -> Q) (rampF : list (Q * Q) -> Z -> Q) :
  (forall a b, (a == b)%Q -> (sinpi a == sinpi b)%Q) ->
  (forall a b, (a == b)%Q -> (cospi a == cospi b)%Q) ->
  (forall a b, (a == b)%Q -> (sincpi a == sincpi b)%Q) ->
  (forall a, (cospi (a - 1) == - cospi a)%Q) ->
  rampF_proper rampF ->
  forall nm size k, 2 <= size -> Z.even size = true -> 0 <= k < size ->
    gen_filter_raises size = false /\
    (gen_filter sinpi cospi sincpi rampF nm size k == sk_filter sinpi cospi sincpi rampF nm size k)%Q.
Proof.
  intros H1 H2 H3 H4 H5 nm size k Hs He Hk. split.
  - rewrite gen_filter_raises_eq, He. reflexivity.
  - rewrite (gen_filter_eq sinpi cospi sincpi rampF H1 H2 H3 H5 nm size k Hk).
    apply filter_eq; assumption.
Qed.


(* ================================================================================ radon_torch *)
Lemma gen_radon_mask_eq H W r k :
  gen_radon_mask H W r k = in_disc_rect H W r k /\ gen_radon_mask H H r k = in_disc H r k.
Proof.
  unfold gen_radon_mask, in_disc_rect, in_disc. rewrite Z.min_id.
  split; first [reflexivity | apply eq_true_iff_eq; rewrite !Z.leb_le; nia].
Qed.

Lemma gen_radon_crop_eq :
  (forall e, gen_radon_crop_start e = port_crop_start e) /\
  (forall e m, 0 <= e -> gen_radon_crop_len e m = (if 0 <? e then m else m + e)) /\
  (forall H W, gen_radon_excess H W = (H - Z.min H W, W - Z.min H W)).
Proof.
  unfold gen_radon_crop_start, gen_radon_crop_len, gen_radon_excess, port_crop_start.
  repeat split; intros;
    repeat match goal with |- context [if ?b then _ else _] => destruct b eqn:? end;
    first [reflexivity | lia | (f_equal; lia)].
Qed.

Lemma iz_pred_neq0 n : 2 <= n -> ~ (iz n - 1 == 0)%Q.
Proof.
  intros Hn E. assert (iz n == iz 1)%Q as E1 by (rewrite <- (Qplus_0_l (iz 1)), <- E; unfold iz; ring).
  apply iz_eq in E1. lia.
Qed.

Lemma gen_radon_point_eq c s n r k :
  2 <= n ->
  (fst (gen_radon_point c s n r k) == fst (port_point repaired c s n r k))%Q /\
  (snd (gen_radon_point c s n r k) == snd (port_point repaired c s n r k))%Q.
Proof.
  intros Hn. pose proof (iz_pred_neq0 n Hn) as Hd.
  unfold gen_radon_point, port_point, port_grid, port_coords_rot, port_rot, repaired, unnormalize_ac.
  cbn [v_rot_fixed fst snd].
  split; first [reflexivity | (field; exact Hd) | (rewrite ?iz_add, ?iz_sub, ?iz_mul; field; exact Hd)].
Qed.

Definition gen_radon (sample : sampler) (img : image) (n : Z) (c s : Q) (k : Z) : Q :=
  sumQ (fun r => let p := gen_radon_point c s n r k in
                 sample n (fun r' k' => if gen_radon_mask n n r' k' then img r' k' else 0%Q) (fst p) (snd p))
       (zrange n).

Lemma gen_radon_eq_port sample img n c s k :
  sampler_proper sample -> 2 <= n ->
  (gen_radon sample img n c s k == port_radon repaired sample img n c s k)%Q.
Proof.
  intros [Hpt Himg] Hn. unfold gen_radon, port_radon. apply sumQ_ext. intros r _. cbn zeta.
  destruct (gen_radon_point_eq c s n r k Hn) as [E1 E2].
  rewrite (Hpt n _ _ _ _ _ E1 E2). apply Himg. intros r' k'. unfold disc_mask.
  destruct (gen_radon_mask_eq n n r' k') as [_ ->]. reflexivity.
Qed.


(* ================================================================================ iradon_torch *)
(* one back-projection term: both sides are built around ONE detector coordinate; identify them (ring), then the
   floor / clamp / weights / validity mask are the same expressions *)
Ltac bp_term :=
  cbv zeta;
  match goal with |- (?L == ?R)%Q =>
    match L with context [Qfloor ?Tg] => match R with context [Qfloor ?Tm] =>
      let ET := fresh "ET" in let EF := fresh "EF" in let tg := fresh "tg" in let tm := fresh "tm" in
      assert (ET : (Tg == Tm)%Q) by (rewrite ?iz_sub, ?iz_add; ring);
      set (tg := Tg) in *; set (tm := Tm) in *;
      assert (EF : Qfloor tg = Qfloor tm) by (apply Qfloor_comp; exact ET);
      clearbody tg tm; rewrite ?EF;
      repeat match goal with |- context [iz (?a - ?b)] =>
        let H := fresh "Hz" in pose proof (iz_sub a b) as H; set (iz (a - b)) in * end;
      change (iz 1) with 1%Q in *; change (iz 2) with 2%Q in *;
      repeat match goal with |- context [Qle_bool ?a ?b] =>
        let H := fresh "Hb" in destruct (Qle_bool a b) eqn:H; [apply Qle_bool_iff in H | apply Qle_bool_false in H] end;
      cbn [andb];
      first [ ring [ET] | exfalso; lra ]
    end end end.

Lemma gen_bp_term_eq N0 out fp c s row col :
  1 <= N0 ->
  (gen_bp_term_circle N0 out fp c s row col
   == port_interp repaired (port_det_size repaired N0 true) fp (port_t out c s row col))%Q /\
  (gen_bp_term_nocircle N0 out fp c s row col
   == port_interp repaired (port_det_size repaired N0 false) fp (port_t out c s row col))%Q.
Proof.
  intros HN.
  split; unfold gen_bp_term_circle, gen_bp_term_nocircle, port_interp, port_t0, port_t, port_det_size, repaired, diagonal;
    cbn [v_interp_mask v_circle_pad andb]; bp_term.
Qed.

Lemma gen_bp_outside_eq out row col :
  gen_bp_outside_circle out row col = outside_circle out row col /\ gen_bp_outside_nocircle out row col = false.
Proof.
  unfold gen_bp_outside_circle, gen_bp_outside_nocircle, outside_circle. cbv zeta.
  split; first [reflexivity | apply eq_true_iff_eq; rewrite !Z.ltb_lt; nia].
Qed.

Lemma gen_bp_scale_eq pi A :
  (gen_bp_scale_circle pi A == pi / (2 * iz A))%Q /\ (gen_bp_scale_nocircle pi A == pi / (2 * iz A))%Q.
Proof.
  unfold gen_bp_scale_circle, gen_bp_scale_nocircle.
  split; first [reflexivity | (rewrite ?iz_mul; change (iz 2) with 2%Q; unfold Qdiv; ring) |
                (destruct (Qeq_dec (iz A) 0) as [E|E]; [rewrite ?iz_mul, ?E; reflexivity | rewrite ?iz_mul; change (iz 2) with 2%Q; field; exact E])].
Qed.

Lemma gen_bp_shapes_eq B out N0 :
  1 <= N0 ->
  gen_bp_shape_circle B out = [B; out; out] /\ gen_bp_shape_nocircle B out = [B; out; out] /\
  gen_bp_fp_len_circle N0 = port_det_size repaired N0 true /\
  gen_bp_fp_len_nocircle N0 = port_det_size repaired N0 false /\
  gen_bp_pipe_circle N0 = (port_det_size repaired N0 true, padded_size (port_det_size repaired N0 true),
                           padded_size (port_det_size repaired N0 true) - port_det_size repaired N0 true) /\
  gen_bp_pipe_nocircle N0 = (port_det_size repaired N0 false, padded_size (port_det_size repaired N0 false),
                             padded_size (port_det_size repaired N0 false) - port_det_size repaired N0 false).
Proof.
  intros HN. pose proof (diagonal_ge N0 HN) as Hdg. pose proof (diagonal_margin N0 HN) as [Hm1 Hm2].
  pose proof (padded_size_spec (diagonal N0)) as Hp. pose proof (padded_size_spec N0) as Hq.
  unfold gen_bp_shape_circle, gen_bp_shape_nocircle, gen_bp_fp_len_circle, gen_bp_fp_len_nocircle, gen_bp_pipe_circle,
    gen_bp_pipe_nocircle, port_det_size, repaired, padded_size, diagonal in *; cbn [v_circle_pad andb].
  set (d := Z.sqrt_up (2 * N0 * N0)) in *.
  set (p := Z.max 64 (2 ^ Z.log2_up (2 * d))) in *. set (q := Z.max 64 (2 ^ Z.log2_up (2 * N0))) in *.
  repeat split; first [reflexivity | lia | (repeat f_equal; lia)].
Qed.

Lemma gen_bp_default_theta_eq A i :
  (gen_bp_default_theta A i == port_default_theta repaired A i)%Q /\ gen_bp_default_theta_len A = A.
Proof.
  unfold gen_bp_default_theta, gen_bp_default_theta_len, port_default_theta, repaired, t_linspace, linspace_coef.
  cbn [v_theta_fixed]. split; [|first [reflexivity | lia]].
  replace (A + 1 - 1) with A by lia. unfold Qdiv. ring.
Qed.

(* the whole reconstruction, assembled from the pieces read from the source (the FFT filtering itself being the
   circular convolution `circ_filter` with the kernel of the filter of the size read from the source) *)
Definition gen_iradon (hker : Z -> Z -> Q) (pi : Q) (out A N0 : Z) (circle : bool) (ang : Z -> Q * Q)
  (sino : Z -> Z -> Q) (row col : Z) : Q :=
  let '(Sd, Pd, _) := if circle then gen_bp_pipe_circle N0 else gen_bp_pipe_nocircle N0 in
  let pb := if circle then gen_pad_before N0 else 0 in
  let term := if circle then gen_bp_term_circle else gen_bp_term_nocircle in
  let acc := sumQ (fun i => term N0 out (circ_filter hker Pd Sd (pad_col pb N0 (sino i))) (fst (ang i)) (snd (ang i)) row col)
                  (zrange A) in
  ((if (if circle then gen_bp_outside_circle else gen_bp_outside_nocircle) out row col then 0 else acc)
   * (if circle then gen_bp_scale_circle else gen_bp_scale_nocircle) pi A)%Q.

Lemma gen_iradon_eq_port hker pi out A N0 circle ang sino row col :
  1 <= N0 ->
  (gen_iradon hker pi out A N0 circle ang sino row col
   == port_iradon_out hker pi repaired out A N0 circle ang sino row col)%Q.
Proof.
  intros HN. unfold gen_iradon, port_iradon_out.
  destruct (gen_bp_shapes_eq 0 out N0 HN) as (_ & _ & _ & _ & Ec & En).
  destruct (gen_bp_outside_eq out row col) as [Eo1 Eo2].
  destruct (gen_bp_scale_eq pi A) as [Es1 Es2].
  assert (Epb : gen_pad_before N0 = port_pad_before repaired N0 true).
  { pose proof (diagonal_ge N0 HN) as Hdg. pose proof (diagonal_margin N0 HN) as [Hm1 Hm2].
    unfold gen_pad_before, port_pad_before, repaired, diagonal in *; cbn [v_circle_pad andb].
    first [reflexivity | set (d := Z.sqrt_up (2 * N0 * N0)) in *; lia]. }
  destruct circle; [rewrite Ec, Eo1, Es1, Epb | rewrite En, Eo2, Es2]; cbv zeta; cbn [andb].
  - destruct (outside_circle out row col); [ring|].
    apply Qmult_comp; [|reflexivity]. apply sumQ_ext. intros i _.
    exact (proj1 (gen_bp_term_eq N0 out _ (fst (ang i)) (snd (ang i)) row col HN)).
  - replace (port_pad_before repaired N0 false) with 0 by reflexivity.
    apply Qmult_comp; [|reflexivity]. apply sumQ_ext. intros i _.
    exact (proj2 (gen_bp_term_eq N0 out _ (fst (ang i)) (snd (ang i)) row col HN)).
Qed.


(* ======================================================================================= the tie *)
(* --- get_fourier_filter_torch *)
Theorem C07_src_filter_guard_tie :
  forall size : Z, gen_filter_raises size = negb (Z.even size).
Proof. exact gen_filter_raises_eq. Qed.
Print Assumptions C07_src_filter_guard_tie.

(* zeros / f[0] = 0.25 / f[1::2] = -1 / (pi n)^2 with n = cat(arange, arange): entry by entry the model's kernel *)
Theorem C07_src_filter_kernel_tie :
  forall size : Z, Forall2 pair_eq (gen_filter_kernel size) (port_ramp_kernel size).
Proof. exact gen_filter_kernel_eq. Qed.
Print Assumptions C07_src_filter_kernel_tie.

(* every filter name, every size, every index: the value the source computes is the model's *)
Theorem C07_src_filter_tie :
  forall (sinpi cospi sincpi : Q -> Q) (rampF : list (Q * Q) -> Z -> Q),
    (forall a b, (a == b)%Q -> (sinpi a == sinpi b)%Q) ->
    (forall a b, (a == b)%Q -> (cospi a == cospi b)%Q) ->
    (forall a b, (a == b)%Q -> (sincpi a == sincpi b)%Q) ->
    rampF_proper rampF ->
  forall (nm : fname) (size k : Z), 0 <= k < size ->
    (gen_filter sinpi cospi sincpi rampF nm size k == port_filter sinpi cospi sincpi rampF repaired nm size k)%Q.
Proof. exact gen_filter_eq. Qed.
Print Assumptions C07_src_filter_tie.

(* the in-place operations are well shaped (f[1::2] = ..., fourier_filter[1:] *= ..., fourier_filter *= ...) *)
Theorem C07_src_filter_shapes_tie :
  forall (nm : fname) (size : Z), 2 <= size -> Z.even size = true ->
    Forall (fun p => fst p = snd p) (gen_filter_shapes nm size) /\ gen_filter_len nm size = size.
Proof. exact gen_filter_shapes_ok. Qed.
Print Assumptions C07_src_filter_shapes_tie.

(* hence the filter of the CURRENT source is scikit-image's _get_fourier_filter, for every name, even size, index *)
Theorem C07_src_filter_eq_skimage :
  forall (sinpi cospi sincpi : Q -> Q) (rampF : list (Q * Q) -> Z -> Q),
    (forall a b, (a == b)%Q -> (sinpi a == sinpi b)%Q) ->
    (forall a b, (a == b)%Q -> (cospi a == cospi b)%Q) ->
    (forall a b, (a == b)%Q -> (sincpi a == sincpi b)%Q) ->
    (forall a, (cospi (a - 1) == - cospi a)%Q) ->
    rampF_proper rampF ->
  forall (nm : fname) (size k : Z), 2 <= size -> Z.even size = true -> 0 <= k < size ->
    gen_filter_raises size = false /\
    (gen_filter sinpi cospi sincpi rampF nm size k == sk_filter sinpi cospi sincpi rampF nm size k)%Q.
Proof. exact gen_filter_eq_sk. Qed.
Print Assumptions C07_src_filter_eq_skimage.

(* --- radon_torch *)
Theorem C07_src_radon_mask_crop_tie :
  (forall H W r k : Z, gen_radon_mask H W r k = in_disc_rect H W r k /\ gen_radon_mask H H r k = in_disc H r k) /\
  (forall e : Z, gen_radon_crop_start e = port_crop_start e) /\
  (forall e m : Z, 0 <= e -> gen_radon_crop_len e m = (if 0 <? e then m else m + e)) /\
  (forall H W : Z, gen_radon_excess H W = (H - Z.min H W, W - Z.min H W)).
Proof. exact (conj gen_radon_mask_eq gen_radon_crop_eq). Qed.
Print Assumptions C07_src_radon_mask_crop_tie.

(* centre N//2, coords = (k - c, r - c), rot = [[cos, sin], [-sin, cos]], coords @ rot^T + c, 2 p/(N-1) - 1,
   grid_sample(align_corners=True): the sample point of every (row, detector column) is the model's; the ROWS are summed;
   the result is [B, A, N]; theta=None is 0, 1, ..., 179 *)
Theorem C07_src_radon_grid_tie :
  (forall (c s : Q) (n r k : Z), 2 <= n ->
     (fst (gen_radon_point c s n r k) == fst (port_point repaired c s n r k))%Q /\
     (snd (gen_radon_point c s n r k) == snd (port_point repaired c s n r k))%Q) /\
  gen_radon_sums_rows = true /\
  (forall B A N : Z, gen_radon_out_shape B A N = [B; A; N]) /\
  gen_radon_default_theta_len = 180 /\ (forall i : Z, gen_radon_default_theta i = i).
Proof.
  exact (conj gen_radon_point_eq (conj eq_refl (conj (fun B A N => eq_refl) (conj eq_refl (fun i => eq_refl))))).
Qed.
Print Assumptions C07_src_radon_grid_tie.

(* hence the sinogram assembled from what the source says is scikit-image's radon of the disc-masked image *)
Theorem C07_src_radon_eq_skimage :
  forall (sample : sampler), sampler_proper sample ->
  forall (img : image) (n : Z) (c s : Q) (k : Z), 2 <= n ->
    gen_radon_sums_rows = true /\
    (gen_radon sample img n c s k == sk_radon sample (disc_mask n img) n c s k)%Q.
Proof.
  exact (fun sample Hp img n c s k Hn =>
           conj eq_refl (Qeq_trans _ _ _ (gen_radon_eq_port sample img n c s k Hp Hn)
                                   (radon_eq_skimage sample Hp img n c s k Hn))).
Qed.
Print Assumptions C07_src_radon_eq_skimage.

(* --- iradon_torch *)
(* t = x cos - y sin with (y, x) = meshgrid(arange(out) - out//2) "ij", t + S//2, floor, clamp(0, S-2), t0 + 1, weights,
   gather, validity mask: one term of the loop is the model's interpolation on the (padded) detector, circle or not *)
Theorem C07_src_backproj_term_tie :
  forall (N0 out : Z) (fp : Z -> Q) (c s : Q) (row col : Z), 1 <= N0 ->
    (gen_bp_term_circle N0 out fp c s row col
     == port_interp repaired (port_det_size repaired N0 true) fp (port_t out c s row col))%Q /\
    (gen_bp_term_nocircle N0 out fp c s row col
     == port_interp repaired (port_det_size repaired N0 false) fp (port_t out c s row col))%Q.
Proof. exact gen_bp_term_eq. Qed.
Print Assumptions C07_src_backproj_term_tie.

(* circle mask, pi / (2 A), result shape, the length of the filtered projections ([:, :, :N]), the sizes in the FFT
   pipeline real(ifft(fft(pad(x, (0, P - S)), dim=2) * filter(P), dim=2))[:, :, :S], default theta *)
Theorem C07_src_backproj_assembly_tie :
  (forall out row col : Z,
     gen_bp_outside_circle out row col = outside_circle out row col /\ gen_bp_outside_nocircle out row col = false) /\
  (forall (pi : Q) (A : Z),
     (gen_bp_scale_circle pi A == pi / (2 * iz A))%Q /\ (gen_bp_scale_nocircle pi A == pi / (2 * iz A))%Q) /\
  (forall B out N0 : Z, 1 <= N0 ->
     gen_bp_shape_circle B out = [B; out; out] /\ gen_bp_shape_nocircle B out = [B; out; out] /\
     gen_bp_fp_len_circle N0 = port_det_size repaired N0 true /\
     gen_bp_fp_len_nocircle N0 = port_det_size repaired N0 false /\
     gen_bp_pipe_circle N0 = (port_det_size repaired N0 true, padded_size (port_det_size repaired N0 true),
                              padded_size (port_det_size repaired N0 true) - port_det_size repaired N0 true) /\
     gen_bp_pipe_nocircle N0 = (port_det_size repaired N0 false, padded_size (port_det_size repaired N0 false),
                                padded_size (port_det_size repaired N0 false) - port_det_size repaired N0 false)) /\
  (forall A i : Z,
     (gen_bp_default_theta A i == port_default_theta repaired A i)%Q /\ gen_bp_default_theta_len A = A).
Proof. exact (conj gen_bp_outside_eq (conj gen_bp_scale_eq (conj gen_bp_shapes_eq gen_bp_default_theta_eq))). Qed.
Print Assumptions C07_src_backproj_assembly_tie.

(* hence the reconstruction assembled from what the source says is scikit-image's iradon: every output size, N >= 2
   (and N = 1 in circle mode), every A, angle list, sinogram, filter kernel, pixel *)
Theorem C07_src_iradon_eq_skimage :
  forall (hker : Z -> Z -> Q) (pi : Q) (out A N0 : Z) (circle : bool) (ang : Z -> Q * Q)
         (sino : Z -> Z -> Q) (row col : Z),
    (2 <= N0 \/ (N0 = 1 /\ circle = true)) ->
    (gen_iradon hker pi out A N0 circle ang sino row col == sk_iradon_out hker pi out A N0 circle ang sino row col)%Q.
Proof.
  exact (fun hker pi out A N0 circle ang sino row col HN =>
           Qeq_trans _ _ _
             (gen_iradon_eq_port hker pi out A N0 circle ang sino row col
                (match HN with or_introl H => Z.le_trans 1 2 N0 (Zle_bool_imp_le 1 2 eq_refl) H
                             | or_intror (conj H _) => eq_ind_r (fun n => 1 <= n) (Z.le_refl 1) H end))
             (iradon_out_eq hker pi out A N0 circle ang sino row col HN)).
Qed.
Print Assumptions C07_src_iradon_eq_skimage.

(* ================================================================================== non-vacuity *)
(* the premises on sinpi / cospi / sincpi / rampF are satisfiable by non-constant functions, and the generated filter
   has a non-trivial value on a concrete input *)
Definition ex_cospi (a : Q) : Q := if Z.even (Qfloor a) then 1%Q else (-1)%Q.
Definition ex_rampF (l : list (Q * Q)) (k : Z) : Q := (fst (nth 0 l (0, 0)) + snd (nth 1 l (0, 0)))%Q.
Example C07_nonvacuous_src_filter :
  (forall a b, (a == b)%Q -> (ex_cospi a == ex_cospi b)%Q) /\ rampF_proper ex_rampF /\
  (gen_filter ex_cospi ex_cospi ex_cospi ex_rampF Hamming 8 3 == (-3 # 50))%Q /\
  gen_filter_raises 7 = true /\ gen_filter_raises 8 = false.
Proof.
  split; [|split; [|split; [|split]]].
  - intros a b H. unfold ex_cospi. rewrite (Qfloor_comp _ _ H). reflexivity.
  - intros l l' k H. unfold ex_rampF.
    destruct H as [|p q l1 l1' [Hp1 Hp2] H]; [reflexivity|]. cbn [nth].
    destruct H as [|p2 q2 l2 l2' [Hq1 Hq2] H]; cbn [nth fst snd]; [rewrite Hp1; reflexivity|].
    rewrite Hp1, Hq2. reflexivity.
  - vm_compute. reflexivity.
  - reflexivity.
  - reflexivity.
Qed.

Example C07_nonvacuous_src_geometry :
  (fst (gen_radon_point (3 # 5) (4 # 5) 6 1 2) == 4 # 5)%Q /\ gen_radon_mask 6 6 0 0 = false /\ gen_radon_mask 6 6 1 2 = true /\
  (gen_bp_term_nocircle 4 4 (fun j => inject_Z (j * j)) 1 0 2 1 == 1)%Q /\
  (gen_bp_term_nocircle 4 4 (fun j => inject_Z (j * j)) 1 0 2 7 == 0)%Q /\
  gen_bp_outside_circle 8 0 0 = true /\ gen_bp_pipe_circle 22 = (32, 64, 32) /\ gen_bp_fp_len_circle 8 = 12.
Proof. repeat split; vm_compute; reflexivity. Qed.
