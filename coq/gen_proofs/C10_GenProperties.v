(* C10 translator tie: the theorems that tie the functions TRANSLATED on this run from the source of
     quantem.diffractive_imaging.object_models.ObjectConstraints.apply_hard_constraints   (gen_is_wave, gen_wave, gen_pot)
     quantem.tomography.object_models.ObjectConstraints.apply_hard_constraints            (gen_tomo)
     quantem.diffractive_imaging.probe_models.ProbeConstraints._probe_orthogonalization_constraint (gen_orth)
     quantem.diffractive_imaging.probe_models.ProbePixelated._apply_weights               (gen_weights)
     quantem.diffractive_imaging.probe_models.ProbeConstraints.apply_hard_constraints     (gen_probe_hard)
   (GenC10.Gen_C10Tie, written by harness/translate_C10.py) to the hand-written model coq/model/C10_Model.v,
   and the clauses of the property restated about the translated functions.
   ONLY statements closed by `exact` and their assumption reports.
   teq / weq: entrywise equality of laid-out tensors in the equality of Q (coq/lib/C10_TieLib.v). *)
From QV.lib Require Import Prelude C10_Cplx C10_TieLib.
From QV.model Require Import C10_Model.
From GenC10 Require Import Gen_C10Tie C10_GenProofs.
From Coq Require Import QArith Qcanon Sorted Permutation.
Local Close Scope Q_scope.

Local Open Scope Q_scope.

(* the dispatch of apply_hard_constraints: the amplitude/phase branch is taken exactly for the complex
   and pure-phase object types *)
Theorem C10_tie_dispatch : forall ty, gen_is_wave ty = true <-> is_wave ty.
Proof. exact gen_is_wave_spec. Qed.
Print Assumptions C10_tie_dispatch.

(* complex / pure_phase branch, every configuration flag, mask given or not, no smoothing filter set:
   which of amplitude clamp / unit amplitude / mask on the amplitude / mean-phase removal / mask on the
   phase is applied, in which order and under which flags = hard_polar; the slice-tying step comes last
   and is applied exactly under `num_slices > 1 and identical_slices` (wtie: the mean over slices of
   the complex tensor, filt: the smoothing filters — opaque) *)
Theorem C10_tie_wave :
  forall filt wtie ty cfg mask obj, gen_is_wave ty = true ->
    exists pre, weq pre (hard_polar ty cfg mask obj) /\
      gen_wave filt wtie ty cfg false false false mask obj
      = if (Nat.ltb 1 (length obj) && identical_slices cfg)%bool then wtie pre else pre.
Proof. exact gen_wave_eq_model. Qed.
Print Assumptions C10_tie_wave.

(* potential branch: baseline offset (mask / no mask / empty background; factor), subtraction, positivity
   clamp AFTER the subtraction, mask, slice tying last = hard_potential (FOV mask of the slice's shape) *)
Theorem C10_tie_potential :
  forall filt ty cfg mask obj, mask_fits mask obj ->
    teq (gen_pot filt ty cfg false false false mask obj) (hard_potential cfg mask obj).
Proof. exact gen_pot_eq_model. Qed.
Print Assumptions C10_tie_potential.

(* tomography: positivity clamp, then shrinkage max(obj2 - s, 0) on the CLAMPED value *)
Theorem C10_tie_tomography :
  forall pos shrink obj, teq (gen_tomo pos shrink [obj]) [tomo_hard pos shrink obj].
Proof. exact gen_tomo_eq_model. Qed.
Print Assumptions C10_tie_tomography.

Local Close Scope Q_scope.
Local Open Scope Qc_scope.

(* Gram-Schmidt as written: projection onto the normalised earlier residuals subtracted from the
   RUNNING residual, clamp_min(1e-12) on the norm, normalise and restore by the input norm, stable
   descending sort by intensity = orthogonalize_c with eps^2 = 1e-24, for EVERY stack (Leibniz) *)
Theorem C10_tie_orthogonalization : forall ps, gen_orth ps = orthogonalize_c eps2_code ps.
Proof. exact gen_orth_eq_model. Qed.
Print Assumptions C10_tie_orthogonalization.

(* _apply_weights: intensities, squared overall factors and directions after the two scalings *)
Theorem C10_tie_weights : forall U mean w pa,
  (forall v, norm2 (U v) = norm2 v) ->
  map sv_int (gen_weights U mean w pa) = apply_weights mean w (map norm2 pa) /\
  map fst (gen_weights U mean w pa) = weight_scales mean w (map norm2 pa) /\
  (length w = length pa -> map snd (gen_weights U mean w pa) = pa).
Proof. exact gen_weights_eq_model. Qed.
Print Assumptions C10_tie_weights.

Local Close Scope Qc_scope.

(* ProbeConstraints.apply_hard_constraints: orthogonalisation first (under orthogonalize_probe), then the
   ONE centring map (under center_probe) — the order C10_common_isometry_preserves relies on *)
Theorem C10_tie_probe_hard_steps : forall (T : Type) (orth center : T -> T) (k_orth k_center : bool) (p : T),
  gen_probe_hard orth center k_orth k_center p
  = (if k_center then center else fun x => x) ((if k_orth then orth else fun x => x) p).
Proof. exact gen_probe_hard_steps. Qed.
Print Assumptions C10_tie_probe_hard_steps.

(* ---------------------------------------------------------------- the clauses about the translated source *)
Local Open Scope Q_scope.

Theorem C10_gen_wave_amplitudes :
  forall filt wtie cfg mask obj, mask_in_01 mask ->
    (exists pre, Forall (Forall (fun p : polar => 0 <= fst p <= 1)) pre /\
       gen_wave filt wtie Complex cfg false false false mask obj
       = if (Nat.ltb 1 (length obj) && identical_slices cfg)%bool then wtie pre else pre) /\
    (exists pre, Forall (Forall (fun p : polar => fst p == 1)) pre /\
       gen_wave filt wtie PurePhase cfg false false false mask obj
       = if (Nat.ltb 1 (length obj) && identical_slices cfg)%bool then wtie pre else pre).
Proof. exact gen_wave_amplitudes. Qed.
Print Assumptions C10_gen_wave_amplitudes.

Theorem C10_gen_potential_nonneg :
  forall filt ty cfg mask obj, positivity cfg = true -> mask_in_01 mask -> mask_fits mask obj ->
    Forall (Forall (fun x => 0 <= x)) (gen_pot filt ty cfg false false false mask obj).
Proof. exact gen_pot_nonneg. Qed.
Print Assumptions C10_gen_potential_nonneg.

Theorem C10_gen_tomo_nonneg :
  forall pos shrink obj, (pos = true \/ shrink <> None) ->
    Forall (Forall (fun x => 0 <= x)) (gen_tomo pos shrink [obj]).
Proof. exact gen_tomo_nonneg. Qed.
Print Assumptions C10_gen_tomo_nonneg.

Local Close Scope Q_scope.
Local Open Scope Qc_scope.

Theorem C10_gen_orth_clauses : forall n ps,
  allN n ps -> lin_indep n ps -> Forall (fun u => eps2_code <= norm2 u) (gs ps) ->
  (forall i j mi mj, i <> j ->
     nth_error (gen_orth ps) i = Some mi -> nth_error (gen_orth ps) j = Some mj ->
     dot (snd mi) (snd mj) = c0 /\ mode_gram2 mi mj = 0) /\
  Permutation (map mode_intensity (gen_orth ps)) (map norm2 ps) /\
  StronglySorted (fun a b => mode_intensity b <= mode_intensity a) (gen_orth ps).
Proof. exact gen_orth_clauses. Qed.
Print Assumptions C10_gen_orth_clauses.

Theorem C10_gen_weights_total_and_ratio : forall U mean raw pa,
  (forall v, norm2 (U v) = norm2 v) ->
  length raw = length pa -> 0 < mean -> qcsum raw <> 0 -> Forall (fun p => 0 < norm2 p) pa ->
  let out := map sv_int (gen_weights U mean (norm_weights raw) pa) in
  qcsum out = mean /\ map (fun x => x / qcsum out) out = map (fun w => w / qcsum raw) raw.
Proof. exact gen_weights_total_and_ratio. Qed.
Print Assumptions C10_gen_weights_total_and_ratio.

Local Close Scope Qc_scope.

(* ---------------------------------------------------------------- non-vacuity: the translated functions run *)
Local Open Scope Q_scope.
Definition tie_cfg (tie msk : bool) : ocfg :=
  {| positivity := true; fix_baseline := true; baseline_factor := 1 # 2; identical_slices := tie;
     apply_fov_mask := msk |}.

(* the examples of coq/props/C10_Properties.v, computed by the TRANSLATED functions *)
Example C10_tie_nonvacuous_wave :
  gen_is_wave PurePhase = true /\ gen_is_wave Potential = false /\
  gen_wave (fun _ x => x) (fun x => x) PurePhase (tie_cfg false true) false false false (Some [1 # 2; 1]) [[(3, 1); (1 # 3, -2)]]
  = [[(1, (1 - (1 + -2) / 2) * (1 # 2)); (1, (-2 - (1 + -2) / 2) * 1)]] /\
  map (map (fun p : polar => Qred (fst p)))
      (gen_wave (fun _ x => x) (fun x => x) Complex (tie_cfg false true) false false false (Some [1 # 2; 1]) [[(3, 1); (1 # 3, -2)]])
  = [[1 # 2; 1 # 3]].
Proof. repeat split; vm_compute; reflexivity. Qed.

Example C10_tie_nonvacuous_potential :
  mask_fits (Some [1 # 4; 1]) [[-3; 2]; [1; -5]] /\
  map (map Qred) (gen_pot (fun _ x => x) Potential (tie_cfg true true) false false false (Some [1 # 4; 1]) [[-3; 2]; [1; -5]])
  = [[3 # 16; 5 # 4]; [3 # 16; 5 # 4]].
Proof. split; [repeat constructor | vm_compute; reflexivity]. Qed.

Example C10_tie_nonvacuous_tomo :
  map (map Qred) (gen_tomo true (Some (1 # 4)) [[-1; 1 # 8; 1]]) = [[0; 0; 3 # 4]].
Proof. vm_compute. reflexivity. Qed.
Local Close Scope Q_scope.

Local Open Scope Qc_scope.
Example C10_tie_nonvacuous_orth :
  map (fun m => this (sv_int m)) (gen_orth [[c1; c0]; [(1, 1); (Q2Qc 2, 0)]]) = [6; 1]%Q.
Proof. vm_compute. reflexivity. Qed.

Example C10_tie_nonvacuous_weights :
  map (fun m => this (sv_int m))
      (gen_weights (fun v => v) (Q2Qc 100) (norm_weights [Q2Qc 3; 0; 1]) [[(Q2Qc 2, 1)]; [(1, 1); (0, 1)]; [(0, Q2Qc 3)]])
  = [75; 0; 25]%Q.
Proof. vm_compute. reflexivity. Qed.
Local Close Scope Qc_scope.
