(* C16 translator tie: the theorems that tie the definitions TRANSLATED on this run from the source of
   quantem.diffractive_imaging (GenC16.Gen_C16, written by harness/c16_tie.py) to the hand-written model
   coq/model/C16_Model.v / C16_Model_Kernel.v, and the property clauses about the translated definitions.
   ONLY statements closed by `exact` and their assumption reports (each theorem is the conjunction of the closed
   statements of one family: one Print Assumptions per family keeps the per-run cost low).

   Setting as in props/C16_Properties.v: R an arbitrary commutative ring with conjugation and per-axis roots of unity
   (hypotheses shown satisfiable there: C16_nonvacuous_setting, C16_nonvacuous_character); P a commutative ring of phases
   (turns) with a character E : P -> R; fq a d k stands for fftfreq(size of grid axis a, spacing d)[k] (ANY family of
   grids); pos c / samp a / tl a / bt a are the shift components, the sampling, the tangents of the tilt angles and the
   tests `theta != 0`; ci stands for the imaginary unit (any ring element).  Each statement carries the whole hypothesis
   bundle of its section, used or not. *)
From Coq Require Import ZArith List Lia Ring Arith.
From QV.lib Require Import FinSum DFT DFT2 DFT_Inst C16_TieLib.
From QV.model Require Import C16_Model C16_Model_Kernel.
From QV.proof Require Import C16_Proofs C16_Proofs_Kernel C16_Proofs_Kernel_Inst C16_Proofs_Tie.
From GenC16 Require Import Gen_C16 C16_GenProofs.
Import ListNotations.

(* fourier_translation_operator as coded (i) IS the model's separable ramp: rows <- fftfreq(shape[-2], 1) and shift component 0,
   columns <- fftfreq(shape[-1], 1) and component 1, exponent -(k s) turns for both; (ii) the phases of its factors add up to the
   model's exponent (the one the check compares with the angle of the array); (iii) it has unit modulus BY CONSTRUCTION: what the
   function returns is a product of exponentials of purely imaginary arguments *)
Theorem C16_tie_ramp :
  (forall (R : Type) (rO rI : R) (radd rmul rsub : R -> R -> R) (ropp : R -> R),
   ring_theory rO rI radd rmul rsub ropp eq ->
   forall conj : R -> R,
   conj_ok radd rmul conj ->
   forall (P : Type) (pO pI : P) (padd pmul psub : P -> P -> P) (popp : P -> P),
   ring_theory pO pI padd pmul psub popp eq ->
   forall E : P -> R,
   (forall a b : P, E (padd a b) = rmul (E a) (E b)) ->
   E pO = rI ->
   (forall a : P, conj (E a) = E (popp a)) ->
   forall (chalf : P) (fq : nat -> P -> nat -> P) (pos : nat -> P) (k1 k2 : nat),
   gen_ramp rI rmul pI chalf padd pmul popp E fq pos k1 k2 =
   ramp2 rmul (shift_ramp pmul popp E (fq 0 pI) (pos 0)) (shift_ramp pmul popp E (fq 1 pI) (pos 1)) k1 k2) /\
  (forall (R : Type) (rO rI : R) (radd rmul rsub : R -> R -> R) (ropp : R -> R),
   ring_theory rO rI radd rmul rsub ropp eq ->
   forall conj : R -> R,
   conj_ok radd rmul conj ->
   forall (P : Type) (pO pI : P) (padd pmul psub : P -> P -> P) (popp : P -> P),
   ring_theory pO pI padd pmul psub popp eq ->
   forall E : P -> R,
   (forall a b : P, E (padd a b) = rmul (E a) (E b)) ->
   E pO = rI ->
   (forall a : P, conj (E a) = E (popp a)) ->
   forall (chalf : P) (fq : nat -> P -> nat -> P) (pos : nat -> P) (k1 k2 : nat),
   esum pO padd (gen_ramp_factors rI rmul pI chalf padd pmul popp E fq pos k1 k2) =
   ramp2_phase padd pmul popp (fq 0 pI) (fq 1 pI) (pos 0) (pos 1) k1 k2) /\
  (forall (R : Type) (rO rI : R) (radd rmul rsub : R -> R -> R) (ropp : R -> R),
   ring_theory rO rI radd rmul rsub ropp eq ->
   forall conj : R -> R,
   conj_ok radd rmul conj ->
   forall (P : Type) (pO pI : P) (padd pmul psub : P -> P -> P) (popp : P -> P),
   ring_theory pO pI padd pmul psub popp eq ->
   forall E : P -> R,
   (forall a b : P, E (padd a b) = rmul (E a) (E b)) ->
   E pO = rI ->
   (forall a : P, conj (E a) = E (popp a)) ->
   forall (chalf : P) (fq : nat -> P -> nat -> P) (pos : nat -> P) (k1 k2 : nat),
   abs2 rmul conj (gen_ramp rI rmul pI chalf padd pmul popp E fq pos k1 k2) = rI).
Proof. exact (conj gen_ramp_eq_model (conj gen_ramp_phase gen_ramp_unit)). Qed.
Print Assumptions C16_tie_ramp.

(* _compute_propagator_arrays as coded (i) IS the model's coded Fresnel kernel: exp(-(1/2) lam dz (kr^2 + kc^2) turns), times
   exp(-dz tan_r kr) if theta_r != 0, times exp(-dz tan_c kc) if theta_c != 0; rows <- fftfreq(roi_shape[0], sampling[0]) and tilt
   component 0, columns <- fftfreq(roi_shape[1], sampling[1]) and tilt component 1; (ii) the phases of its factors add up to the
   model's Fresnel exponent; (iii) unit modulus BY CONSTRUCTION, for every wavelength, distance, tilt, sampling and frequency grid *)
Theorem C16_tie_kernel :
  (forall (R : Type) (rO rI : R) (radd rmul rsub : R -> R -> R) (ropp : R -> R),
   ring_theory rO rI radd rmul rsub ropp eq ->
   forall conj : R -> R,
   conj_ok radd rmul conj ->
   forall (P : Type) (pO pI : P) (padd pmul psub : P -> P -> P) (popp : P -> P),
   ring_theory pO pI padd pmul psub popp eq ->
   forall E : P -> R,
   (forall a b : P, E (padd a b) = rmul (E a) (E b)) ->
   E pO = rI ->
   (forall a : P, conj (E a) = E (popp a)) ->
   forall (chalf : P) (fq : nat -> P -> nat -> P) (lam : P) (bt : nat -> bool) (tl samp : nat -> P) (dz : P) (k1 k2 : nat),
   gen_kernel rI rmul pI chalf padd pmul popp E fq lam bt tl samp dz k1 k2 =
   fresnel_kernel_code rmul padd pmul popp E chalf lam (bt 0) (bt 1) (tl 0) (tl 1) (fq 0 (samp 0)) (fq 1 (samp 1)) dz k1 k2) /\
  (forall (R : Type) (rO rI : R) (radd rmul rsub : R -> R -> R) (ropp : R -> R),
   ring_theory rO rI radd rmul rsub ropp eq ->
   forall conj : R -> R,
   conj_ok radd rmul conj ->
   forall (P : Type) (pO pI : P) (padd pmul psub : P -> P -> P) (popp : P -> P),
   ring_theory pO pI padd pmul psub popp eq ->
   forall E : P -> R,
   (forall a b : P, E (padd a b) = rmul (E a) (E b)) ->
   E pO = rI ->
   (forall a : P, conj (E a) = E (popp a)) ->
   forall (chalf : P) (fq : nat -> P -> nat -> P) (lam : P) (tl samp : nat -> P) (dz : P) (k1 k2 : nat),
   esum pO padd (gen_kernel_factors rI rmul pI chalf padd pmul popp E fq lam (fun _ : nat => true) tl samp dz k1 k2) =
   fresnel_phase padd pmul popp chalf lam (tl 0) (tl 1) dz (fq 0 (samp 0) k1) (fq 1 (samp 1) k2)) /\
  (forall (R : Type) (rO rI : R) (radd rmul rsub : R -> R -> R) (ropp : R -> R),
   ring_theory rO rI radd rmul rsub ropp eq ->
   forall conj : R -> R,
   conj_ok radd rmul conj ->
   forall (P : Type) (pO pI : P) (padd pmul psub : P -> P -> P) (popp : P -> P),
   ring_theory pO pI padd pmul psub popp eq ->
   forall E : P -> R,
   (forall a b : P, E (padd a b) = rmul (E a) (E b)) ->
   E pO = rI ->
   (forall a : P, conj (E a) = E (popp a)) ->
   forall (chalf : P) (fq : nat -> P -> nat -> P) (lam : P) (bt : nat -> bool) (tl samp : nat -> P) (dz : P) (k1 k2 : nat),
   abs2 rmul conj (gen_kernel rI rmul pI chalf padd pmul popp E fq lam bt tl samp dz k1 k2) = rI).
Proof. exact (conj gen_kernel_eq_model (conj gen_kernel_phase gen_kernel_unit)). Qed.
Print Assumptions C16_tie_kernel.

(* fourier_shift_expand, PtychographyBase._propagate_array and ObjectBase._propagate_array are ifft2(fft2(x) * h): the model's
   fourier_shift / propagate *)
Theorem C16_tie_fourier_multipliers :
  (forall (R : Type) (rO rI : R) (radd rmul rsub : R -> R -> R) (ropp : R -> R),
   ring_theory rO rI radd rmul rsub ropp eq ->
   forall conj : R -> R,
   conj_ok radd rmul conj ->
   forall (N1 : nat) (w1 : Z -> R) (Ninv1 : R) (N2 : nat) (w2 : Z -> R) (Ninv2 : R),
   root_ok rO rI radd rmul conj N1 w1 Ninv1 ->
   root_ok rO rI radd rmul conj N2 w2 Ninv2 ->
   forall rs rsi : R,
   rmul rs (conj rs) = rmul Ninv1 Ninv2 ->
   rmul rs rsi = rI ->
   forall (ph isq : R -> R) (eps : R) (hr hc : nat -> R) (x : nat -> nat -> R),
   eq2 R N1 N2 (gen_shift_expand rO rI radd rmul rsub conj N1 w1 Ninv1 N2 w2 Ninv2 rs rsi ph isq eps (ramp2 rmul hr hc) x)
     (fourier_shift rO radd rmul N1 w1 Ninv1 N2 w2 Ninv2 hr hc x)) /\
  (forall (R : Type) (rO rI : R) (radd rmul rsub : R -> R -> R) (ropp : R -> R),
   ring_theory rO rI radd rmul rsub ropp eq ->
   forall conj : R -> R,
   conj_ok radd rmul conj ->
   forall (N1 : nat) (w1 : Z -> R) (Ninv1 : R) (N2 : nat) (w2 : Z -> R) (Ninv2 : R),
   root_ok rO rI radd rmul conj N1 w1 Ninv1 ->
   root_ok rO rI radd rmul conj N2 w2 Ninv2 ->
   forall rs rsi : R,
   rmul rs (conj rs) = rmul Ninv1 Ninv2 ->
   rmul rs rsi = rI ->
   forall (ph isq : R -> R) (eps : R) (p x : nat -> nat -> R),
   eq2 R N1 N2 (gen_propagate_base rO rI radd rmul rsub conj N1 w1 Ninv1 N2 w2 Ninv2 rs rsi ph isq eps p x)
     (propagate rO radd rmul N1 w1 Ninv1 N2 w2 Ninv2 p x)) /\
  (forall (R : Type) (rO rI : R) (radd rmul rsub : R -> R -> R) (ropp : R -> R),
   ring_theory rO rI radd rmul rsub ropp eq ->
   forall conj : R -> R,
   conj_ok radd rmul conj ->
   forall (N1 : nat) (w1 : Z -> R) (Ninv1 : R) (N2 : nat) (w2 : Z -> R) (Ninv2 : R),
   root_ok rO rI radd rmul conj N1 w1 Ninv1 ->
   root_ok rO rI radd rmul conj N2 w2 Ninv2 ->
   forall rs rsi : R,
   rmul rs (conj rs) = rmul Ninv1 Ninv2 ->
   rmul rs rsi = rI ->
   forall (ph isq : R -> R) (eps : R) (p x : nat -> nat -> R),
   eq2 R N1 N2 (gen_propagate_obj rO rI radd rmul rsub conj N1 w1 Ninv1 N2 w2 Ninv2 rs rsi ph isq eps p x)
     (propagate rO radd rmul N1 w1 Ninv1 N2 w2 Ninv2 p x)).
Proof. exact (conj gen_shift_expand_eq (conj gen_propagate_base_eq gen_propagate_obj_eq)). Qed.
Print Assumptions C16_tie_fourier_multipliers.

(* DetectorPixelated.forward IS the model's: |fft2_ortho|^2 summed over the modes, then fftshift over the last two axes;
   estimate_intensities IS the model's (no shift) *)
Theorem C16_tie_detector :
  (forall (R : Type) (rO rI : R) (radd rmul rsub : R -> R -> R) (ropp : R -> R),
   ring_theory rO rI radd rmul rsub ropp eq ->
   forall conj : R -> R,
   conj_ok radd rmul conj ->
   forall (N1 : nat) (w1 : Z -> R) (Ninv1 : R) (N2 : nat) (w2 : Z -> R) (Ninv2 : R),
   root_ok rO rI radd rmul conj N1 w1 Ninv1 ->
   root_ok rO rI radd rmul conj N2 w2 Ninv2 ->
   forall rs rsi : R,
   rmul rs (conj rs) = rmul Ninv1 Ninv2 ->
   rmul rs rsi = rI ->
   forall (ph isq : R -> R) (eps : R) (psis : list (nat -> nat -> R)),
   gen_detector_forward rO rI radd rmul rsub conj N1 w1 Ninv1 N2 w2 Ninv2 rs rsi ph isq eps psis =
   detector_forward rO radd rmul conj N1 w1 N2 w2 rs psis) /\
  (forall (R : Type) (rO rI : R) (radd rmul rsub : R -> R -> R) (ropp : R -> R),
   ring_theory rO rI radd rmul rsub ropp eq ->
   forall conj : R -> R,
   conj_ok radd rmul conj ->
   forall (N1 : nat) (w1 : Z -> R) (Ninv1 : R) (N2 : nat) (w2 : Z -> R) (Ninv2 : R),
   root_ok rO rI radd rmul conj N1 w1 Ninv1 ->
   root_ok rO rI radd rmul conj N2 w2 Ninv2 ->
   forall rs rsi : R,
   rmul rs (conj rs) = rmul Ninv1 Ninv2 ->
   rmul rs rsi = rI ->
   forall (ph isq : R -> R) (eps : R) (psis : list (nat -> nat -> R)),
   gen_estimate_intensities rO rI radd rmul rsub conj N1 w1 Ninv1 N2 w2 Ninv2 rs rsi ph isq eps psis =
   estimate_intensities rO radd rmul conj N1 w1 N2 w2 rs psis).
Proof. exact (conj gen_detector_forward_eq gen_estimate_intensities_eq). Qed.
Print Assumptions C16_tie_detector.

(* fourier_projection as coded IS the model's. One probe mode: the measured amplitudes are corner-centred with ifftshift (the INVERSE
   of the detector's fftshift), times exp(i angle(fft2_ortho psi)), ifft2_ortho.  Several modes: the same corner-centred amplitudes,
   divided by the corner-centred (NOT shifted) summed estimate sqrt(sum |F_m + eps|^2) with zeros replaced by inf, times every
   mode's spectrum.  gradient_step IS projection minus exit wave *)
Theorem C16_tie_fourier_projection :
  (forall (R : Type) (rO rI : R) (radd rmul rsub : R -> R -> R) (ropp : R -> R),
   ring_theory rO rI radd rmul rsub ropp eq ->
   forall conj : R -> R,
   conj_ok radd rmul conj ->
   forall (N1 : nat) (w1 : Z -> R) (Ninv1 : R) (N2 : nat) (w2 : Z -> R) (Ninv2 : R),
   root_ok rO rI radd rmul conj N1 w1 Ninv1 ->
   root_ok rO rI radd rmul conj N2 w2 Ninv2 ->
   forall rs rsi : R,
   rmul rs (conj rs) = rmul Ninv1 Ninv2 ->
   rmul rs rsi = rI ->
   forall (ph isq : R -> R) (eps : R) (a psi : nat -> nat -> R),
   eq2 R N1 N2 (gen_fproj_single rO rI radd rmul rsub conj N1 w1 Ninv1 N2 w2 Ninv2 rs rsi ph isq eps a psi)
     (fourier_projection rO radd rmul N1 w1 Ninv1 N2 w2 Ninv2 rs rsi ph a psi)) /\
  (forall (R : Type) (rO rI : R) (radd rmul rsub : R -> R -> R) (ropp : R -> R),
   ring_theory rO rI radd rmul rsub ropp eq ->
   forall conj : R -> R,
   conj_ok radd rmul conj ->
   forall (N1 : nat) (w1 : Z -> R) (Ninv1 : R) (N2 : nat) (w2 : Z -> R) (Ninv2 : R),
   root_ok rO rI radd rmul conj N1 w1 Ninv1 ->
   root_ok rO rI radd rmul conj N2 w2 Ninv2 ->
   forall rs rsi : R,
   rmul rs (conj rs) = rmul Ninv1 Ninv2 ->
   rmul rs rsi = rI ->
   forall (ph isq : R -> R) (eps : R) (a : nat -> nat -> R) (psis : list (nat -> nat -> R)),
   Forall2 (eq2 R N1 N2) (gen_fproj_mixed rO rI radd rmul rsub conj N1 w1 Ninv1 N2 w2 Ninv2 rs rsi ph isq eps a psis)
     (fourier_projection_mixed rO radd rmul conj N1 w1 Ninv1 N2 w2 Ninv2 rs rsi isq eps a psis)) /\
  (forall (R : Type) (rO rI : R) (radd rmul rsub : R -> R -> R) (ropp : R -> R),
   ring_theory rO rI radd rmul rsub ropp eq ->
   forall conj : R -> R,
   conj_ok radd rmul conj ->
   forall (N1 : nat) (w1 : Z -> R) (Ninv1 : R) (N2 : nat) (w2 : Z -> R) (Ninv2 : R),
   root_ok rO rI radd rmul conj N1 w1 Ninv1 ->
   root_ok rO rI radd rmul conj N2 w2 Ninv2 ->
   forall rs rsi : R,
   rmul rs (conj rs) = rmul Ninv1 Ninv2 ->
   rmul rs rsi = rI ->
   forall (ph isq : R -> R) (eps : R) (a psi : nat -> nat -> R),
   eq2 R N1 N2 (gen_gradient_step rO rI radd rmul rsub conj N1 w1 Ninv1 N2 w2 Ninv2 rs rsi ph isq eps a psi)
     (gradient_step rO radd rmul rsub N1 w1 Ninv1 N2 w2 Ninv2 rs rsi ph a psi)).
Proof. exact (conj gen_fproj_single_eq (conj gen_fproj_mixed_eq gen_gradient_step_eq)). Qed.
Print Assumptions C16_tie_fourier_projection.

(* the property clause about the TRANSLATED code: replacing the Fourier magnitudes by the measured amplitudes yields exactly the
   measured amplitudes at the (translated) detector, and is idempotent *)
Theorem C16_tie_projection_exact_idempotent :
  (forall (R : Type) (rO rI : R) (radd rmul rsub : R -> R -> R) (ropp : R -> R),
   ring_theory rO rI radd rmul rsub ropp eq ->
   forall conj : R -> R,
   conj_ok radd rmul conj ->
   forall (N1 : nat) (w1 : Z -> R) (Ninv1 : R) (N2 : nat) (w2 : Z -> R) (Ninv2 : R),
   root_ok rO rI radd rmul conj N1 w1 Ninv1 ->
   root_ok rO rI radd rmul conj N2 w2 Ninv2 ->
   forall rs rsi : R,
   rmul rs (conj rs) = rmul Ninv1 Ninv2 ->
   rmul rs rsi = rI ->
   forall (ph isq : R -> R) (eps : R) (amp : R -> Prop),
   (forall a : R, amp a -> conj a = a) ->
   (forall z : R, abs2 rmul conj (ph z) = rI) ->
   (forall a u : R, amp a -> abs2 rmul conj u = rI -> rmul a (ph (rmul a u)) = rmul a u) ->
   forall a psi : nat -> nat -> R,
   amp2 R N1 N2 amp a ->
   eq2 R N1 N2
     (gen_detector_forward rO rI radd rmul rsub conj N1 w1 Ninv1 N2 w2 Ninv2 rs rsi ph isq eps
        (gen_fproj_single rO rI radd rmul rsub conj N1 w1 Ninv1 N2 w2 Ninv2 rs rsi ph isq eps a psi :: nil))
     (fun n1 n2 : nat => rmul (a n1 n2) (a n1 n2))) /\
  (forall (R : Type) (rO rI : R) (radd rmul rsub : R -> R -> R) (ropp : R -> R),
   ring_theory rO rI radd rmul rsub ropp eq ->
   forall conj : R -> R,
   conj_ok radd rmul conj ->
   forall (N1 : nat) (w1 : Z -> R) (Ninv1 : R) (N2 : nat) (w2 : Z -> R) (Ninv2 : R),
   root_ok rO rI radd rmul conj N1 w1 Ninv1 ->
   root_ok rO rI radd rmul conj N2 w2 Ninv2 ->
   forall rs rsi : R,
   rmul rs (conj rs) = rmul Ninv1 Ninv2 ->
   rmul rs rsi = rI ->
   forall (ph isq : R -> R) (eps : R) (amp : R -> Prop),
   (forall a : R, amp a -> conj a = a) ->
   (forall z : R, abs2 rmul conj (ph z) = rI) ->
   (forall a u : R, amp a -> abs2 rmul conj u = rI -> rmul a (ph (rmul a u)) = rmul a u) ->
   forall a psi : nat -> nat -> R,
   amp2 R N1 N2 amp a ->
   eq2 R N1 N2
     (gen_fproj_single rO rI radd rmul rsub conj N1 w1 Ninv1 N2 w2 Ninv2 rs rsi ph isq eps a
        (gen_fproj_single rO rI radd rmul rsub conj N1 w1 Ninv1 N2 w2 Ninv2 rs rsi ph isq eps a psi))
     (gen_fproj_single rO rI radd rmul rsub conj N1 w1 Ninv1 N2 w2 Ninv2 rs rsi ph isq eps a psi)).
Proof. exact (conj gen_fproj_exact gen_fproj_idem). Qed.
Print Assumptions C16_tie_projection_exact_idempotent.

(* sum_patches_base as coded (zeros(prod(obj_shape)).index_add_(0, indices.reshape(-1), patches.reshape(-1))) IS the model's scatter;
   sum_patches of complex patches (real / imaginary parts scattered separately with the SAME indices) is the scatter of the complex
   values; _get_obj_patches (real / imaginary parts gathered separately with the SAME index tensor) is the model's gather of the
   complex object; and the adjoint clause about the TRANSLATED pair: <gather(obj), v> = <obj, sum_patches(v)> for every index list
   inside the object (repeats, any order, wrap-around), complex values *)
Theorem C16_tie_scatter_gather :
  (forall (R : Type) (rO rI : R) (radd rmul rsub : R -> R -> R) (ropp : R -> R),
   ring_theory rO rI radd rmul rsub ropp eq ->
   forall (idx : list nat) (vals : list R) (n : nat),
   gen_sum_patches_base rO radd rmul idx vals n = scatter rO radd idx vals n) /\
  (forall (R : Type) (rO rI : R) (radd rmul rsub : R -> R -> R) (ropp : R -> R),
   ring_theory rO rI radd rmul rsub ropp eq ->
   forall (ci : R) (idx : list nat) (re im : list R) (n : nat),
   length re = length im ->
   gen_sum_patches_complex rO radd rmul ci idx re im n =
   scatter rO radd idx (zipw (fun a b : R => radd a (rmul ci b)) re im) n) /\
  (forall (R : Type) (rO rI : R) (radd rmul rsub : R -> R -> R) (ropp : R -> R),
   ring_theory rO rI radd rmul rsub ropp eq ->
   forall (ci : R) (re im : nat -> R) (idx : list nat),
   gen_get_obj_patches rO radd rmul ci re im idx = gather (fun n : nat => radd (re n) (rmul ci (im n))) idx) /\
  (forall (R : Type) (rO rI : R) (radd rmul rsub : R -> R -> R) (ropp : R -> R),
   ring_theory rO rI radd rmul rsub ropp eq ->
   forall (size : nat) (ci : R) (ore oim : nat -> R) (idx : list nat) (vre vim : list R),
   Forall (fun i : nat => i < size) idx ->
   length vre = length vim ->
   ldot rO radd rmul (gen_get_obj_patches rO radd rmul ci ore oim idx) (zipw (fun a b : R => radd a (rmul ci b)) vre vim) =
   adot rO radd rmul size (fun n : nat => radd (ore n) (rmul ci (oim n)))
     (gen_sum_patches_complex rO radd rmul ci idx vre vim)).
Proof. exact (conj gen_sum_patches_base_eq (conj gen_sum_patches_complex_eq (conj gen_get_obj_patches_eq gen_scatter_adjoint_gather))). Qed.
Print Assumptions C16_tie_scatter_gather.

(* ------------------------------------------------------------------------------ non-vacuity
   the translated ramp and kernel evaluated on the concrete character of C16_nonvacuous_character (P = Z, E m = (-i)^(-m) in Q(i),
   grid f k = k): the values are not the constant 1, and they are the model's *)
Example C16_tie_nonvacuous_ramp :
  gen_ramp c1 cmul 1%Z 0%Z Z.add Z.mul Z.opp EZ (fun _ _ => fZ) (fun _ => 1%Z) 1 0 <> c1 /\
  gen_ramp c1 cmul 1%Z 0%Z Z.add Z.mul Z.opp EZ (fun _ _ => fZ) (fun c => Z.of_nat c) 2 1
  = ramp2 cmul (shift_ramp Z.mul Z.opp EZ fZ 0%Z) (shift_ramp Z.mul Z.opp EZ fZ 1%Z) 2 1.
Proof. split; [vm_compute; discriminate | vm_compute; reflexivity]. Qed.

Example C16_tie_nonvacuous_kernel :
  gen_kernel c1 cmul 1%Z 1%Z Z.add Z.mul Z.opp EZ (fun _ _ => fZ) 1%Z (fun a => Nat.eqb a 0) (fun _ => 1%Z) (fun _ => 1%Z) 1%Z 1 0 <> c1 /\
  gen_kernel c1 cmul 1%Z 1%Z Z.add Z.mul Z.opp EZ (fun _ _ => fZ) 1%Z (fun a => Nat.eqb a 0) (fun _ => 1%Z) (fun _ => 1%Z) 1%Z 1 0
  = fresnel_kernel_code cmul Z.add Z.mul Z.opp EZ 1%Z 1%Z true false 1%Z 1%Z fZ fZ 1%Z 1 0.
Proof. split; [vm_compute; discriminate | vm_compute; reflexivity]. Qed.

Example C16_tie_nonvacuous_scatter :
  forall (o1 o2 : nat -> Z) (a b c d e f : Z),
  ldot 0%Z Z.add Z.mul (gen_get_obj_patches 0%Z Z.add Z.mul 2%Z o1 o2 [1; 0; 1]%nat) (zipw (fun x y => (x + 2 * y)%Z) [a; b; c] [d; e; f])
  = adot 0%Z Z.add Z.mul 2 (fun n => (o1 n + 2 * o2 n)%Z) (gen_sum_patches_complex 0%Z Z.add Z.mul 2%Z [1; 0; 1]%nat [a; b; c] [d; e; f]).
Proof. intros. cbv -[Z.add Z.mul]. ring. Qed.
