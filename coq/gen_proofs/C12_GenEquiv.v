(* C12 — FIXED proof script (second stage: needs C12_GenAlg and C12_GenDeriv) over the GENERATED file
   build/C12/Gen_Chi.v.  Equivalent coefficient sets: two sets with the same surface have the same
   analytic gradients (uniqueness of the derivative, Coquelicot), hence the set returned by
   polar -> Cartesian -> polar — for EVERY input set, inside or outside the principal domain — has
   the same polar gradient, Cartesian gradient and parallax shifts as the original. *)
From Coq Require Import Reals Lra String List.
From Coquelicot Require Import Coquelicot.
From QV.lib Require Import C12_RealLib C12_Trig.
From Gen12 Require Import Gen_Chi C12_GenAlg C12_GenDeriv.
Open Scope R_scope.

(* two coefficient sets with the same surface have the same analytic gradients *)
Lemma same_surface_same_gradients (c c' : env) :
  (forall alpha phi lambda, lambda <> 0 -> chi_polar c' alpha phi lambda = chi_polar c alpha phi lambda) ->
  forall alpha phi,
    dchi_dk c' alpha phi = dchi_dk c alpha phi /\ dchi_dphi c' alpha phi = dchi_dphi c alpha phi.
Proof.
  intros E alpha phi.
  assert (H1 : (1 : R) <> 0) by lra.
  destruct (grad_is_lambda_times_derivative c alpha phi 1 H1) as [A1 A2].
  destruct (grad_is_lambda_times_derivative c' alpha phi 1 H1) as [B1 B2].
  split.
  - rewrite A1, B1. f_equal. apply Derive_ext. intros a. now apply E.
  - destruct (Req_dec alpha 0) as [-> | Ha].
    + unfold dchi_dphi. ring.
    + apply (Rmult_eq_reg_l alpha); [| exact Ha].
      rewrite A2, B2. f_equal. apply Derive_ext. intros p. now apply E.
Qed.

Lemma gradients_roundtrip (c : env) (alpha phi : R) :
  dchi_dk (roundtrip c) alpha phi = dchi_dk c alpha phi /\
  dchi_dphi (roundtrip c) alpha phi = dchi_dphi c alpha phi /\
  dchi_dx (roundtrip c) alpha phi = dchi_dx c alpha phi /\
  dchi_dy (roundtrip c) alpha phi = dchi_dy c alpha phi.
Proof.
  destruct (same_surface_same_gradients c (roundtrip c) (chi_roundtrip_all c) alpha phi) as [E1 E2].
  unfold dchi_dx, dchi_dy. rewrite E1, E2. repeat split; reflexivity.
Qed.

Lemma shifts_roundtrip (c : env) (theta lambda kx0 ky0 : R) :
  lateral_shift_x (roundtrip c) theta lambda kx0 ky0 = lateral_shift_x c theta lambda kx0 ky0 /\
  lateral_shift_y (roundtrip c) theta lambda kx0 ky0 = lateral_shift_y c theta lambda kx0 ky0.
Proof.
  unfold lateral_shift_x, lateral_shift_y.
  split.
  - now rewrite (proj1 (proj2 (proj2 (gradients_roundtrip c _ _)))).
  - now rewrite (proj2 (proj2 (proj2 (gradients_roundtrip c _ _)))).
Qed.
