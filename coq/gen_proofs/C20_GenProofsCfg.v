(* C20 — FIXED proof script, part 3 (round-3 extension): the path
       configuration (NormalizationConfig / preset / dict)
         -> keyword arguments of CustomNormalization(...) in visualization.py
         -> interval and stretch objects built by CustomNormalization.__init__
         -> limits frozen by _set_limits
   over the file GENERATED from the current sources (build/C20/Gen_Cfg.v, harness/translate_norm.py
   translate_config).  A field that does not reach the constructor (the `vmax=norm_config.vmin`
   typo), a field added on one side only, a stretch outside the six proved ones, a preset whose
   parameters the constructor rejects, or limits that are not frozen make this script fail. *)
From Coq Require Import Reals Lra String List.
From QV.lib Require Import C20_NpReal.
From QV.model Require Import C20_Model.
From QV.proof Require Import C20_RLemmas C20_Proofs.
From Gen20 Require Import Gen_Norm C20_GenProofs C20_GenProofs2 Gen_Cfg.
Import ListNotations.
Local Open Scope R_scope.

(* ------------------------------------------------------------------ every field reaches the constructor *)
(* the intended mapping: each constructor argument is the configuration field of the same name *)
Definition cn_args_of_config (c : NormalizationConfig) : CN_args :=
  {| a_interval_type := nc_interval_type c;
     a_stretch_type := nc_stretch_type c;
     a_lower_quantile := nc_lower_quantile c;
     a_upper_quantile := nc_upper_quantile c;
     a_vmin := nc_vmin c;
     a_vmax := nc_vmax c;
     a_vcenter := nc_vcenter c;
     a_half_range := nc_half_range c;
     a_power := nc_power c;
     a_logarithmic_index := nc_logarithmic_index c;
     a_asinh_linear_range := nc_asinh_linear_range c |}.

Lemma show_args_faithful c :
  show_2d_array_args c = cn_args_of_config c /\ show_2d_combined_args c = cn_args_of_config c.
Proof. split; reflexivity. Qed.

(* the defaults of the configuration dataclass and of the constructor agree *)
Lemma config_defaults_agree : cn_args_of_config NormalizationConfig_default = CN_args_default.
Proof. reflexivity. Qed.

(* ------------------------------------------------------------------ what __init__ builds *)
Definition known_interval (t : string) : Prop :=
  t = "quantile"%string \/ t = "manual"%string \/ t = "centered"%string.

Lemma init_interval_lemma a :
  (forall io, CN_init_interval a = Some io ->
     match io with
     | IO_QuantileInterval lq uq =>
         a_interval_type a = "quantile"%string /\ lq = a_lower_quantile a /\ uq = a_upper_quantile a
     | IO_ManualInterval v1 v2 =>
         a_interval_type a = "manual"%string /\ v1 = a_vmin a /\ v2 = a_vmax a
     | IO_CenteredInterval vc hr =>
         a_interval_type a = "centered"%string /\ vc = a_vcenter a /\ hr = a_half_range a
     end) /\
  (known_interval (a_interval_type a) <-> exists io, CN_init_interval a = Some io).
Proof.
  unfold CN_init_interval, known_interval.
  destruct (String.eqb_spec (a_interval_type a) "quantile") as [E1 | N1];
    [| destruct (String.eqb_spec (a_interval_type a) "manual") as [E2 | N2];
       [| destruct (String.eqb_spec (a_interval_type a) "centered") as [E3 | N3]]].
  - split; [intros io H; injection H as <-; auto | split; eauto].
  - split; [intros io H; injection H as <-; auto | split; eauto].
  - split; [intros io H; injection H as <-; auto | split; eauto].
  - split; [intros io H; discriminate H |].
    split; [intros [H | [H | H]]; contradiction | intros [io H]; discriminate H].
Qed.

(* the stretch object, whenever the constructor returns one whose own domain check passes, is
   one of the six stretches the analytic theorems cover, with the configuration's parameter *)
Definition cfg_of_obj (o : stretch_obj) : option stretch_cfg :=
  match o with
  | SO_LinearStretch slope intercept =>
      if Req_EM_T slope 1 then (if Req_EM_T intercept 0 then Some SLinearDefault else None) else None
  | SO_PowerLawStretch p => Some (SPower p)
  | SO_LogarithmicStretch a => Some (SLog a)
  | SO_InverseLogarithmicStretch a => Some (SInvLog a)
  | SO_InverseHyperbolicSineStretch a => Some (SAsinh a)
  | SO_HyperbolicSineStretch a => Some (SSinh a)
  end.

Lemma cfg_of_obj_sound o s :
  cfg_of_obj o = Some s ->
  (forall x, so_call o x = cfg_call s x) /\ (so_domain o <-> cfg_domain s).
Proof.
  destruct o as [sl ic | p | a | a | a | a]; simpl; intros H;
    try (injection H as <-; split; [reflexivity | reflexivity]).
  destruct (Req_EM_T sl 1) as [-> |]; [| discriminate H].
  destruct (Req_EM_T ic 0) as [-> |]; [| discriminate H].
  injection H as <-. split; [reflexivity | reflexivity].
Qed.

Lemma init_stretch_lemma a so :
  CN_init_stretch a = Some so ->
  (exists s, cfg_of_obj so = Some s) /\
  match so with
  | SO_LinearStretch _ _ => a_stretch_type a = "linear"%string /\ a_power a = 1
  | SO_PowerLawStretch p => p = a_power a /\ (a_stretch_type a = "power"%string \/ a_power a <> 1)
  | SO_LogarithmicStretch x => a_stretch_type a = "logarithmic"%string /\ x = a_logarithmic_index a /\ a_power a = 1
  | SO_InverseHyperbolicSineStretch x => a_stretch_type a = "asinh"%string /\ x = a_asinh_linear_range a /\ a_power a = 1
  | SO_InverseLogarithmicStretch _ | SO_HyperbolicSineStretch _ => False
  end.
Proof.
  unfold CN_init_stretch.
  destruct (String.eqb_spec (a_stretch_type a) "power") as [E0 | N0].
  { intros H. injection H as <-. split; [simpl; eauto | auto]. }
  destruct (Req_EM_T (a_power a) 1) as [P1 | NP1].
  2: { intros H. injection H as <-. split; [simpl; eauto | auto]. }
  destruct (String.eqb_spec (a_stretch_type a) "linear") as [E1 | N1].
  { intros H. injection H as <-. split; [| auto]. simpl.
    destruct (Req_EM_T 1 1) as [_ | n]; [| exfalso; apply n; reflexivity].
    destruct (Req_EM_T 0 0) as [_ | n]; [eauto | exfalso; apply n; reflexivity]. }
  destruct (String.eqb_spec (a_stretch_type a) "logarithmic") as [E2 | N2].
  { intros H. injection H as <-. split; [simpl; eauto | auto]. }
  destruct (String.eqb_spec (a_stretch_type a) "asinh") as [E3 | N3].
  { intros H. injection H as <-. split; [simpl; eauto | auto]. }
  intros H. discriminate H.
Qed.

(* the normalisation that visualization.py builds from a configuration: a function of the frozen
   limits, whenever __init__ succeeds (both dispatches return an object and the stretch
   constructor's own check passes) *)
Definition built (a : CN_args) (io : interval_obj) (so : stretch_obj) : Prop :=
  CN_init_interval a = Some io /\ CN_init_stretch a = Some so /\ so_domain so.

Lemma constructed_normalisation_lemma c io so :
  built (show_2d_array_args c) io so ->
  built (show_2d_combined_args c) io so /\
  exists s, cfg_domain s /\ (forall x, so_call so x = cfg_call s x) /\
    forall vmin vmax,
      (forall x, 0 <= so_call so (interval_map vmin vmax x) <= 1) /\
      (vmin <= vmax -> forall x y, x <= y ->
         so_call so (interval_map vmin vmax x) <= so_call so (interval_map vmin vmax y)) /\
      (vmin < vmax -> so_call so (interval_map vmin vmax vmin) = 0 /\
                      so_call so (interval_map vmin vmax vmax) = 1).
Proof.
  intros [Hi [Hs Hd]]. split.
  - destruct (show_args_faithful c) as [E1 E2]. rewrite E2, <- E1. repeat split; assumption.
  - destruct (init_stretch_lemma _ _ Hs) as [[s Es] _].
    destruct (cfg_of_obj_sound so s Es) as [Hc Hdom].
    exists s. split; [now apply Hdom |]. split; [exact Hc |].
    assert (Hds : cfg_domain s) by now apply Hdom.
    intros vmin vmax. split; [| split].
    + intros x. rewrite Hc. apply (norm_range_lemma s vmin vmax x Hds).
    + intros Hv x y Hxy. rewrite !Hc. now apply (norm_monotone_lemma s vmin vmax x y).
    + intros Hv. rewrite !Hc. exact (norm_endpoints_lemma s vmin vmax Hds Hv).
Qed.

(* ------------------------------------------------------------------ presets *)
Definition preset_ok (c : NormalizationConfig) : Prop :=
  exists io so, built (show_2d_array_args c) io so.

Ltac req_decide :=
  repeat match goal with
         | |- context [Req_EM_T ?a ?b] =>
           let e := fresh "e" in let n := fresh "n" in
           destruct (Req_EM_T a b) as [e | n];
           [ try (exfalso; lra) | try (exfalso; apply n; lra) ]
         end.

Ltac domain_close :=
  cbv beta iota delta [so_domain LinearStretch_domain PowerLawStretch_domain LogarithmicStretch_domain
                       InverseLogarithmicStretch_domain InverseHyperbolicSineStretch_domain
                       HyperbolicSineStretch_domain];
  first [ exact I | lra | (intros ?; lra) ].

Ltac preset_close :=
  unfold preset_ok, built; cbn [snd];
  cbv beta iota delta [show_2d_array_args CN_init_interval CN_init_stretch
    a_interval_type a_stretch_type a_lower_quantile a_upper_quantile a_vmin a_vmax a_vcenter
    a_half_range a_power a_logarithmic_index a_asinh_linear_range
    nc_interval_type nc_stretch_type nc_lower_quantile nc_upper_quantile nc_vmin nc_vmax nc_vcenter
    nc_half_range nc_power nc_logarithmic_index nc_asinh_linear_range];
  cbn [String.eqb Ascii.eqb Bool.eqb];
  req_decide;
  eexists; eexists; split; [reflexivity | split; [reflexivity | domain_close]].

Lemma presets_ok_lemma : Forall (fun p => preset_ok (snd p)) NORMALIZATION_PRESETS.
Proof. unfold NORMALIZATION_PRESETS. repeat (constructor; [preset_close |]). constructor. Qed.

Lemma default_config_ok : preset_ok NormalizationConfig_default.
Proof. unfold NormalizationConfig_default. preset_close. Qed.

(* ------------------------------------------------------------------ _set_limits freezes the limits *)
Lemma set_limits_frozen o q dmin dmax :
  (* the interval becomes a ManualInterval carrying the computed limits, the attributes
     vmin / vmax are those limits ... *)
  CN_set_limits o q dmin dmax =
    IO_ManualInterval (Some (fst (io_get_limits o q dmin dmax))) (Some (snd (io_get_limits o q dmin dmax))) /\
  CN_limits_attr o q dmin dmax = io_get_limits o q dmin dmax /\
  (* ... and from then on neither other data nor a second _set_limits changes them *)
  (forall q' dmin' dmax',
     io_get_limits (CN_set_limits o q dmin dmax) q' dmin' dmax' = io_get_limits o q dmin dmax /\
     CN_set_limits (CN_set_limits o q dmin dmax) q' dmin' dmax' = CN_set_limits o q dmin dmax).
Proof.
  unfold CN_set_limits, CN_limits_attr.
  destruct (io_get_limits o q dmin dmax) as [lo hi] eqn:E. cbn [fst snd].
  split; [reflexivity |]. split; [reflexivity |].
  intros q' dmin' dmax'.
  assert (H : io_get_limits (IO_ManualInterval (Some lo) (Some hi)) q' dmin' dmax' = (lo, hi))
    by (cbn [io_get_limits]; apply (proj1 manual_limits_lemma)).
  split; [exact H |]. rewrite H. reflexivity.
Qed.

Lemma set_limits_bool_lemma q dmin dmax :
  io_get_limits CN_set_limits_bool q dmin dmax = (0, 1).
Proof. unfold CN_set_limits_bool. cbn [io_get_limits]. apply (proj1 manual_limits_lemma). Qed.
