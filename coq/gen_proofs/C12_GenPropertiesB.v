(* C12 — One aberration surface (part B): parallax shifts and the polar-decomposition fit on the
   identifiable domain.  Property theorems about the functions TRANSLATED on this run from the
   current sources (Gen12.Gen_Chi); ONLY statements closed by `exact`, assumption reports and
   non-vacuity examples; proofs in the fixed scripts C12_GenFit.v and lib/C12_Trig.v.  Vocabulary: see
   C12_GenProperties.v (these theorems were moved out of that file unchanged so that the property
   files are checked in parallel). *)
From Coq Require Import Reals String List.
From QV.lib Require Import C12_RealLib C12_Trig.
From Gen12 Require Import Gen_Chi C12_GenFit.
Import ListNotations.
Local Open Scope R_scope.

(* parallax shifts of {C10, C12, phi12} at rotation theta: (lambda k0) · R(theta)^T · A *)
Theorem C12_shift_matrix :
  forall (C10 C12 p theta lambda kx0 ky0 : R),
    lateral_shift_x (env3 C10 C12 p) theta lambda kx0 ky0
      = (lambda * kx0) * m00 (shift_M theta C10 C12 p) + (lambda * ky0) * m10 (shift_M theta C10 C12 p) /\
    lateral_shift_y (env3 C10 C12 p) theta lambda kx0 ky0
      = (lambda * kx0) * m01 (shift_M theta C10 C12 p) + (lambda * ky0) * m11 (shift_M theta C10 C12 p).
Proof. exact shift_matrix. Qed.
Print Assumptions C12_shift_matrix.

(* least-squares contract: two linearly independent frequency rows determine the matrix *)
Theorem C12_lstsq_unique :
  forall (x1 y1 x2 y2 : R) (M N : mat2),
    x1 * y2 - x2 * y1 <> 0 ->
    x1 * m00 M + y1 * m10 M = x1 * m00 N + y1 * m10 N ->
    x1 * m01 M + y1 * m11 M = x1 * m01 N + y1 * m11 N ->
    x2 * m00 M + y2 * m10 M = x2 * m00 N + y2 * m10 N ->
    x2 * m01 M + y2 * m11 M = x2 * m01 N + y2 * m11 N ->
    M = N.
Proof. exact lstsq_unique. Qed.
Print Assumptions C12_lstsq_unique.

(* _torch_polar returns an orthogonal and a symmetric positive-semidefinite factor whose
   product is M, from ANY singular value decomposition of M *)
Theorem C12_svd_polar :
  forall (U Vh : mat2) (s0 s1 : R) (M : mat2),
    orthogonal U -> orthogonal Vh -> orthogonal (mT Vh) -> 0 <= s0 -> 0 <= s1 ->
    M = mmul (mmul U (mdiag s0 s1)) Vh ->
    orthogonal (torch_polar_u U s0 s1 Vh) /\ psd (torch_polar_p U s0 s1 Vh) /\
    mmul (torch_polar_u U s0 s1 Vh) (torch_polar_p U s0 s1 Vh) = M.
Proof. exact svd_polar. Qed.
Print Assumptions C12_svd_polar.

(* the fit returns the generating parameters, for every polar pair of the shift matrix *)
Theorem C12_fit_extracts :
  forall (theta C10 C12 p : R) (U P : mat2),
    - (PI / 2) < theta < PI / 2 -> 0 < C12 < Rabs C10 -> - (PI / 2) < p <= PI / 2 ->
    orthogonal U -> psd P -> mmul U P = shift_M theta C10 C12 p ->
    fit_rotation_angle U P = theta /\ fit_C10 U P = C10 /\ fit_C12 U P = C12 /\ fit_phi12 U P = p.
Proof. exact fit_extracts. Qed.
Print Assumptions C12_fit_extracts.

Theorem C12_fit_extracts_svd :
  forall (theta C10 C12 p : R) (Us Vh : mat2) (s0 s1 : R),
    - (PI / 2) < theta < PI / 2 -> 0 < C12 < Rabs C10 -> - (PI / 2) < p <= PI / 2 ->
    orthogonal Us -> orthogonal Vh -> orthogonal (mT Vh) -> 0 <= s0 -> 0 <= s1 ->
    shift_M theta C10 C12 p = mmul (mmul Us (mdiag s0 s1)) Vh ->
    let U := torch_polar_u Us s0 s1 Vh in
    let P := torch_polar_p Us s0 s1 Vh in
    fit_rotation_angle U P = theta /\ fit_C10 U P = C10 /\ fit_C12 U P = C12 /\ fit_phi12 U P = p.
Proof. exact fit_extracts_svd. Qed.
Print Assumptions C12_fit_extracts_svd.

Example C12_nonvacuous_fit :
  exists U P, orthogonal U /\ psd P /\ mmul U P = shift_M 0 2 1 0.
Proof. exact fit_extracts_nonvacuous. Qed.
