(* C07 — FIXED proof script of the tie between the integer geometry read from the CURRENT source of
   iradon_torch (GenC07.C07_Gen, emitted by harness/translate_C07.py on every run) and the hand-written
   model (model/C07_Model.v): for EVERY detector width N >= 1.  The tactics accept the source as it is
   and the equivalent integer forms a refactor would produce (1 << (2 N - 1).bit_length(), reordered
   sums); any other change makes a lemma fail, which the check reports as a broken tie. *)
From QV.lib Require Import Prelude.
From QV.model Require Import C07_Model C07_Model_Ext.
From QV.proof Require Import C07_Proofs C07_Proofs_Iradon C07_Proofs_Ext.
From GenC07 Require Import C07_Gen.
Local Open Scope Z_scope.

Ltac geom_facts N HN :=
  pose proof (diagonal_ge N HN) as Hdg; pose proof (diagonal_margin N HN) as [Hm1 Hm2];
  unfold diagonal in Hdg, Hm1, Hm2.

Ltac geom_close :=
  first [ reflexivity
        | progress (rewrite ?Z.mul_1_l, ?Z.mul_1_r); reflexivity
        | rewrite ?Z.mul_1_l, ?Z.mul_1_r; rewrite bit_length_pred by lia; reflexivity
        | match goal with |- context [Z.sqrt_up ?x] => set (d := Z.sqrt_up x) in * end; lia
        | lia ].

Lemma gen_filter_size_circle_eq N :
  1 <= N -> gen_filter_size_circle N = padded_size (port_det_size repaired N true).
Proof.
  intros HN. geom_facts N HN.
  unfold gen_filter_size_circle, port_det_size, repaired, padded_size, diagonal; cbn [v_circle_pad andb].
  geom_close.
Qed.

Lemma gen_filter_size_nocircle_eq N :
  1 <= N -> gen_filter_size_nocircle N = padded_size (port_det_size repaired N false).
Proof.
  intros HN. unfold gen_filter_size_nocircle, port_det_size, repaired, padded_size; cbn [v_circle_pad andb].
  geom_close.
Qed.

Lemma gen_pad_eq N :
  1 <= N ->
  gen_pad_before N = port_pad_before repaired N true /\
  gen_pad_before N + N + gen_pad_after N = port_det_size repaired N true /\
  0 <= gen_pad_before N /\ 0 <= gen_pad_after N.
Proof.
  intros HN. geom_facts N HN.
  unfold gen_pad_before, gen_pad_after, port_pad_before, port_det_size, repaired, diagonal; cbn [v_circle_pad andb].
  set (d := Z.sqrt_up (2 * N * N)) in *.
  repeat split; first [reflexivity | lia].
Qed.

Lemma gen_fftpad_eq N :
  1 <= N ->
  gen_fftpad_before_circle N = 0 /\ gen_fftpad_before_nocircle N = 0 /\
  port_det_size repaired N true + gen_fftpad_after_circle N = gen_filter_size_circle N /\
  port_det_size repaired N false + gen_fftpad_after_nocircle N = gen_filter_size_nocircle N.
Proof.
  intros HN.
  unfold gen_fftpad_before_circle, gen_fftpad_before_nocircle, gen_fftpad_after_circle, gen_fftpad_after_nocircle,
    gen_filter_size_circle, gen_filter_size_nocircle, port_det_size, repaired, diagonal; cbn [v_circle_pad andb].
  repeat split; first [reflexivity | lia].
Qed.

Lemma gen_out_eq N :
  1 <= N -> gen_out_circle N = output_size N true /\ gen_out_nocircle N = output_size N false.
Proof.
  intros HN. unfold gen_out_circle, gen_out_nocircle, output_size. split; first [reflexivity | lia].
Qed.

(* ------------------------------------------------------------------------------ the tie *)
Theorem C07_src_filter_size_tie :
  forall N : Z, 1 <= N ->
    gen_filter_size_circle N = padded_size (port_det_size repaired N true) /\
    gen_filter_size_nocircle N = padded_size (port_det_size repaired N false).
Proof. exact (fun N HN => conj (gen_filter_size_circle_eq N HN) (gen_filter_size_nocircle_eq N HN)). Qed.
Print Assumptions C07_src_filter_size_tie.

Theorem C07_src_detector_padding_tie :
  forall N : Z, 1 <= N ->
    gen_pad_before N = port_pad_before repaired N true /\
    gen_pad_before N + N + gen_pad_after N = port_det_size repaired N true /\
    0 <= gen_pad_before N /\ 0 <= gen_pad_after N.
Proof. exact gen_pad_eq. Qed.
Print Assumptions C07_src_detector_padding_tie.

Theorem C07_src_fft_padding_tie :
  forall N : Z, 1 <= N ->
    gen_fftpad_before_circle N = 0 /\ gen_fftpad_before_nocircle N = 0 /\
    port_det_size repaired N true + gen_fftpad_after_circle N = gen_filter_size_circle N /\
    port_det_size repaired N false + gen_fftpad_after_nocircle N = gen_filter_size_nocircle N.
Proof. exact gen_fftpad_eq. Qed.
Print Assumptions C07_src_fft_padding_tie.

Theorem C07_src_output_size_tie :
  forall N : Z, 1 <= N -> gen_out_circle N = output_size N true /\ gen_out_nocircle N = output_size N false.
Proof. exact gen_out_eq. Qed.
Print Assumptions C07_src_output_size_tie.
