(* C20 — FIXED proof script, compiled at check time against the file GENERATED from the current
   custom_normalizations.py (build/C20/Gen_Norm.v, logical name Gen20.Gen_Norm):

     coqc -Q /verif/coq QV -Q <build>/C20 Gen20 -o <build>/C20/C20_GenProofs.vo C20_GenProofs.v

   Step 1 shows that every generated function equals its canonical form of
   proof/C20_RLemmas.v (by unfolding; if the source was re-associated, by unifying the
   arguments of ln / exp / arcsinh / sinh / inverse that are equal as field expressions and
   closing with ring / field).  Step 2 transfers the analytic results.  A changed constant,
   a swapped argument, a missing clip or a wrong inverse parameter makes Step 1 fail. *)
From Coq Require Import Reals Lra.
From QV.lib Require Import C20_NpReal.
From QV.model Require Import C20_Model.
From QV.proof Require Import C20_RLemmas C20_Proofs.
From Gen20 Require Import Gen_Norm.
Local Open Scope R_scope.

(* ------------------------------------------------------------------ tactics *)
Ltac alg := first [ reflexivity | ring | (field; lra) | lra ].

Ltac unify1 F :=
  match goal with
  | |- context [F ?A] =>
    match goal with
    | |- context [F ?B] =>
      tryif constr_eq A B then fail else (replace A with B by alg)
    end
  end.

Ltac unify_power :=
  match goal with
  | |- context [np_power ?A ?P] =>
    match goal with
    | |- context [np_power ?B ?Q] =>
      first [ tryif constr_eq A B then fail else (replace A with B by alg)
            | tryif constr_eq P Q then fail else (replace P with Q by alg) ]
    end
  end.

Ltac unify_args :=
  repeat first [ unify1 ln | unify1 exp | unify1 arcsinh | unify1 sinh | unify1 sqrt
               | unify1 Rabs | unify_power | unify1 Rinv ].

(* generated = canonical *)
Ltac spec_close :=
  first [ reflexivity
        | alg
        | (unfold Rdiv; unify_args; alg) ].

Ltac split_ifs :=
  repeat match goal with
         | |- context [Req_EM_T ?a ?b] => destruct (Req_EM_T a b)
         | |- context [Rle_dec ?a ?b] => destruct (Rle_dec a b)
         | |- context [Rlt_dec ?a ?b] => destruct (Rlt_dec a b)
         end.

(* a domain predicate read from __post_init__ yields positivity of the parameter *)
Ltac dom_pos H p :=
  assert (0 < p) by
    (destruct (Rlt_dec 0 p) as [Hpos | Hneg];
     [exact Hpos | exfalso; cbv beta delta [PowerLawStretch_domain LogarithmicStretch_domain
        InverseLogarithmicStretch_domain InverseHyperbolicSineStretch_domain
        HyperbolicSineStretch_domain] in H; tauto || lra]).

(* ------------------------------------------------------------------ Step 1: generated = canonical *)
Lemma imap_spec vmin vmax x :
  interval_map vmin vmax x =
  if Req_EM_T (vmax - vmin) 0 then c_imap_deg vmin x else c_imap vmin vmax x.
Proof.
  unfold interval_map, c_imap_deg, c_imap, clip01.
  split_ifs; try lra; spec_close.
Qed.

Lemma imap_proper vmin vmax x : vmin < vmax -> interval_map vmin vmax x = c_imap vmin vmax x.
Proof. intros H. rewrite imap_spec. destruct (Req_EM_T (vmax - vmin) 0); [lra | reflexivity]. Qed.

Lemma imap_degenerate v x : interval_map v v x = c_imap_deg v x.
Proof.
  rewrite imap_spec. destruct (Req_EM_T (v - v) 0) as [_ | n]; [reflexivity |].
  exfalso. apply n. ring.
Qed.

Lemma iinv_spec vmin vmax y : interval_inverse vmin vmax y = y * (vmax - vmin) + vmin.
Proof. unfold interval_inverse. spec_close. Qed.

Lemma linear_spec s i x :
  LinearStretch_call s i x =
  if Req_EM_T s 1 then (if Req_EM_T i 0 then x else c_linear s i x) else c_linear s i x.
Proof.
  unfold LinearStretch_call, c_linear, clip01.
  split_ifs; subst; try lra; spec_close.
Qed.

Lemma power_spec p x :
  PowerLawStretch_call p x = if Req_EM_T p 1 then x else c_power p x.
Proof.
  unfold PowerLawStretch_call, c_power, pw, clip01.
  split_ifs; subst; try lra; spec_close.
Qed.

Lemma log_spec a x : 0 < a -> LogarithmicStretch_call a x = c_log a x.
Proof. intros Ha. unfold LogarithmicStretch_call, c_log, clip01. spec_close. Qed.

Lemma invlog_spec a x : 0 < a -> InverseLogarithmicStretch_call a x = c_invlog a x.
Proof. intros Ha. unfold InverseLogarithmicStretch_call, c_invlog, clip01. spec_close. Qed.

Lemma asinh_spec a x : 0 < a -> InverseHyperbolicSineStretch_call a x = c_asinh a x.
Proof. intros Ha. unfold InverseHyperbolicSineStretch_call, c_asinh, clip01. spec_close. Qed.

Lemma sinh_spec a x : 0 < a -> HyperbolicSineStretch_call a x = c_sinh a x.
Proof. intros Ha. unfold HyperbolicSineStretch_call, c_sinh, clip01. spec_close. Qed.

(* ------------------------------------------------------------------ configurations *)
(* every stretch object of the source: the default LinearStretch() that CustomNormalization
   constructs, and the five parametrised classes *)
Inductive stretch_cfg : Type :=
| SLinearDefault
| SPower (p : R)
| SLog (a : R)
| SInvLog (a : R)
| SAsinh (a : R)
| SSinh (a : R).

(* what the constructors enforce (read from __post_init__) *)
Definition cfg_domain (s : stretch_cfg) : Prop :=
  match s with
  | SLinearDefault => LinearStretch_default_domain
  | SPower p => PowerLawStretch_domain p
  | SLog a => LogarithmicStretch_domain a
  | SInvLog a => InverseLogarithmicStretch_domain a
  | SAsinh a => InverseHyperbolicSineStretch_domain a
  | SSinh a => HyperbolicSineStretch_domain a
  end.

Definition cfg_call (s : stretch_cfg) : R -> R :=
  match s with
  | SLinearDefault => LinearStretch_default_call
  | SPower p => PowerLawStretch_call p
  | SLog a => LogarithmicStretch_call a
  | SInvLog a => InverseLogarithmicStretch_call a
  | SAsinh a => InverseHyperbolicSineStretch_call a
  | SSinh a => HyperbolicSineStretch_call a
  end.

(* the declared inverse (`inverse` property): target class and transformed parameters *)
Definition cfg_inverse_call (s : stretch_cfg) : R -> R :=
  match s with
  | SLinearDefault => LinearStretch_default_inverse_call
  | SPower p => PowerLawStretch_inverse_call p
  | SLog a => LogarithmicStretch_inverse_call a
  | SInvLog a => InverseLogarithmicStretch_inverse_call a
  | SAsinh a => InverseHyperbolicSineStretch_inverse_call a
  | SSinh a => HyperbolicSineStretch_inverse_call a
  end.

(* the declared inverse is itself constructible *)
Definition cfg_inverse_domain (s : stretch_cfg) : Prop :=
  match s with
  | SLinearDefault => LinearStretch_inverse_domain 1 0
  | SPower p => PowerLawStretch_inverse_domain p
  | SLog a => LogarithmicStretch_inverse_domain a
  | SInvLog a => InverseLogarithmicStretch_inverse_domain a
  | SAsinh a => InverseHyperbolicSineStretch_inverse_domain a
  | SSinh a => HyperbolicSineStretch_inverse_domain a
  end.

(* CustomNormalization.__call__ with frozen limits (before masking) *)
Definition norm (s : stretch_cfg) (vmin vmax x : R) : R :=
  CustomNormalization_call (interval_map vmin vmax) (cfg_call s) x.

(* CustomNormalization.inverse *)
Definition norm_inverse (s : stretch_cfg) (vmin vmax y : R) : R :=
  CustomNormalization_inverse (cfg_inverse_call s) (interval_inverse vmin vmax) y.

Lemma norm_unfold s vmin vmax x : norm s vmin vmax x = cfg_call s (interval_map vmin vmax x).
Proof. reflexivity. Qed.

Lemma norm_inverse_unfold s vmin vmax y :
  norm_inverse s vmin vmax y = interval_inverse vmin vmax (cfg_inverse_call s y).
Proof. reflexivity. Qed.

(* the four stretch objects CustomNormalization.__init__ can construct are among them *)
Lemma cn_dispatch :
  (forall x, CustomNormalization_stretch_LinearStretch x = cfg_call SLinearDefault x) /\
  (forall p x, CustomNormalization_stretch_PowerLawStretch p x = cfg_call (SPower p) x) /\
  (forall a x, CustomNormalization_stretch_LogarithmicStretch a x = cfg_call (SLog a) x) /\
  (forall a x, CustomNormalization_stretch_InverseHyperbolicSineStretch a x = cfg_call (SAsinh a) x).
Proof. repeat split; reflexivity. Qed.

(* ------------------------------------------------------------------ Step 2: every stretch is admissible *)
Lemma linear_default_id x : LinearStretch_default_call x = x.
Proof.
  unfold LinearStretch_default_call. rewrite linear_spec.
  destruct (Req_EM_T 1 1) as [_ | n]; [| exfalso; apply n; reflexivity].
  destruct (Req_EM_T 0 0) as [_ | n]; [reflexivity | exfalso; apply n; reflexivity].
Qed.

Lemma power_ok p : 0 < p -> stretch_ok (PowerLawStretch_call p).
Proof.
  intros Hp. destruct (Req_EM_T p 1) as [E | NE].
  - apply (stretch_ok_ext _ (fun x => x)); [| apply stretch_ok_id].
    intros x. rewrite power_spec. destruct (Req_EM_T p 1); [reflexivity | contradiction].
  - apply (stretch_ok_ext _ (c_power p)); [| now apply c_power_ok].
    intros x. rewrite power_spec. destruct (Req_EM_T p 1); [contradiction | reflexivity].
Qed.

Lemma cfg_ok s : cfg_domain s -> stretch_ok (cfg_call s).
Proof.
  destruct s as [| p | a | a | a | a]; simpl; intros H.
  - apply (stretch_ok_ext _ (fun x => x)); [apply linear_default_id | apply stretch_ok_id].
  - dom_pos H p. now apply power_ok.
  - dom_pos H a. apply (stretch_ok_ext _ (c_log a)); [intros; now apply log_spec | now apply c_log_ok].
  - dom_pos H a. apply (stretch_ok_ext _ (c_invlog a)); [intros; now apply invlog_spec | now apply c_invlog_ok].
  - dom_pos H a. apply (stretch_ok_ext _ (c_asinh a)); [intros; now apply asinh_spec | now apply c_asinh_ok].
  - dom_pos H a. apply (stretch_ok_ext _ (c_sinh a)); [intros; now apply sinh_spec | now apply c_sinh_ok].
Qed.

(* ------------------------------------------------------------------ range, monotonicity, endpoints *)
Lemma imap_range vmin vmax x : 0 <= interval_map vmin vmax x <= 1.
Proof.
  rewrite imap_spec. destruct (Req_EM_T (vmax - vmin) 0); [apply c_imap_deg_range | apply c_imap_range].
Qed.

Lemma imap_mono vmin vmax : vmin <= vmax -> mono (interval_map vmin vmax).
Proof.
  intros H x y Hxy. rewrite !imap_spec. destruct (Req_EM_T (vmax - vmin) 0).
  - now apply c_imap_deg_mono.
  - apply c_imap_mono; lra.
Qed.

Lemma norm_range_lemma s vmin vmax x : cfg_domain s -> 0 <= norm s vmin vmax x <= 1.
Proof.
  intros Hd. rewrite norm_unfold. apply stretch_ok_range; [now apply cfg_ok | apply imap_range].
Qed.

Lemma norm_monotone_lemma s vmin vmax x y :
  cfg_domain s -> vmin <= vmax -> x <= y -> norm s vmin vmax x <= norm s vmin vmax y.
Proof.
  intros Hd Hv Hxy. rewrite !norm_unfold.
  apply (so_mono _ (cfg_ok s Hd)). now apply imap_mono.
Qed.

Lemma norm_endpoints_lemma s vmin vmax :
  cfg_domain s -> vmin < vmax -> norm s vmin vmax vmin = 0 /\ norm s vmin vmax vmax = 1.
Proof.
  intros Hd Hv. rewrite !norm_unfold, !imap_proper by exact Hv.
  rewrite c_imap_vmin, c_imap_vmax by exact Hv.
  split; [apply (so_0 _ (cfg_ok s Hd)) | apply (so_1 _ (cfg_ok s Hd))].
Qed.

(* vmin = vmax: range and monotonicity survive, the common limit goes to 0 (so the clause
   "upper limit to 1" cannot hold there: 0 <> 1) *)
Lemma degenerate_safe_lemma s v x y :
  cfg_domain s ->
  0 <= norm s v v x <= 1 /\ (x <= y -> norm s v v x <= norm s v v y) /\ norm s v v v = 0.
Proof.
  intros Hd. split; [now apply norm_range_lemma |]. split.
  - intros Hxy. apply norm_monotone_lemma; [exact Hd | lra | exact Hxy].
  - rewrite norm_unfold, imap_degenerate, c_imap_deg_v. apply (so_0 _ (cfg_ok s Hd)).
Qed.

(* reversed limits are outside the domain: monotonicity really needs vmin <= vmax *)
Lemma reversed_limits_not_monotone :
  ~ (forall vmin vmax x y, x <= y ->
       norm SLinearDefault vmin vmax x <= norm SLinearDefault vmin vmax y).
Proof.
  intros H. specialize (H 1 0 0 1 ltac:(lra)).
  rewrite !norm_unfold in H. simpl in H. rewrite !linear_default_id, !imap_spec in H.
  destruct (Req_EM_T (0 - 1) 0); [lra |].
  unfold c_imap in H.
  replace ((0 - 1) / (0 - 1)) with 1 in H by (field; lra).
  replace ((1 - 1) / (0 - 1)) with 0 in H by (field; lra).
  rewrite clip01_0, clip01_1 in H. lra.
Qed.

(* ------------------------------------------------------------------ declared inverses *)
Lemma power_inverse p x :
  0 < p -> 0 <= x <= 1 ->
  PowerLawStretch_inverse_call p (PowerLawStretch_call p x) = x /\
  PowerLawStretch_call p (PowerLawStretch_inverse_call p x) = x.
Proof.
  intros Hp Hx. unfold PowerLawStretch_inverse_call. rewrite !power_spec.
  pose proof (inv_pos p Hp) as Hip.
  destruct (Req_EM_T p 1) as [E | NE].
  - subst p. destruct (Req_EM_T (1 / 1) 1) as [_ | n]; [split; reflexivity |].
    exfalso. apply n. field.
  - destruct (Req_EM_T (1 / p) 1) as [E | _].
    + exfalso. apply NE. apply (f_equal (fun t => t * p)) in E.
      replace (1 / p * p) with 1 in E by (field; lra). lra.
    + split; [now apply c_power_inverse |].
      rewrite <- (inv_inv p Hp) at 1. now apply c_power_inverse.
Qed.

Lemma linear_default_inverse x :
  LinearStretch_default_inverse_call (LinearStretch_default_call x) = x /\
  LinearStretch_default_call (LinearStretch_default_inverse_call x) = x.
Proof.
  rewrite !linear_default_id. unfold LinearStretch_default_inverse_call, LinearStretch_inverse_call.
  rewrite linear_spec.
  destruct (Req_EM_T (1 / 1) 1) as [_ | n]; [| exfalso; apply n; field].
  destruct (Req_EM_T (- 0 / 1) 0) as [_ | n]; [split; reflexivity | exfalso; apply n; field].
Qed.

(* a general LinearStretch(s, i) and its declared inverse cancel wherever the stretched value
   stays in [0, 1] *)
Lemma linear_inverse_general s i x :
  s <> 0 -> 0 <= x <= 1 -> 0 <= x * s + i <= 1 ->
  LinearStretch_inverse_call s i (LinearStretch_call s i x) = x.
Proof.
  intros Hs Hx Hy. unfold LinearStretch_inverse_call. rewrite !linear_spec.
  assert (Hc : c_linear s i x = x * s + i) by (unfold c_linear; now rewrite clip01_id).
  destruct (Req_EM_T s 1) as [Es | NEs]; [destruct (Req_EM_T i 0) as [Ei | NEi] |].
  - subst. destruct (Req_EM_T (1 / 1) 1) as [_ | n]; [| exfalso; apply n; field].
    destruct (Req_EM_T (- 0 / 1) 0) as [_ | n]; [reflexivity | exfalso; apply n; field].
  - subst s. destruct (Req_EM_T (1 / 1) 1) as [_ | n]; [| exfalso; apply n; field].
    destruct (Req_EM_T (- i / 1) 0) as [E | _].
    + exfalso. apply NEi. replace (- i / 1) with (- i) in E by field. lra.
    + apply c_linear_inverse; assumption.
  - destruct (Req_EM_T (1 / s) 1) as [E | _].
    + exfalso. apply NEs. apply (f_equal (fun t => t * s)) in E.
      replace (1 / s * s) with 1 in E by (field; exact Hs). lra.
    + apply c_linear_inverse; assumption.
Qed.

Lemma stretch_inverse_lemma s x :
  cfg_domain s -> 0 <= x <= 1 ->
  cfg_inverse_call s (cfg_call s x) = x /\ cfg_call s (cfg_inverse_call s x) = x.
Proof.
  destruct s as [| p | a | a | a | a]; simpl; intros H Hx.
  - apply linear_default_inverse.
  - dom_pos H p. now apply power_inverse.
  - dom_pos H a. unfold LogarithmicStretch_inverse_call.
    rewrite !log_spec, !invlog_spec by assumption.
    split; [now apply c_invlog_log | now apply c_log_invlog].
  - dom_pos H a. unfold InverseLogarithmicStretch_inverse_call.
    rewrite !log_spec, !invlog_spec by assumption.
    split; [now apply c_log_invlog | now apply c_invlog_log].
  - dom_pos H a. unfold InverseHyperbolicSineStretch_inverse_call.
    assert (0 < 1 / arcsinh (1 / a)) by (apply inv_pos, arcsinh_pos; now apply inv_pos).
    rewrite !asinh_spec, !sinh_spec by assumption.
    split; [now apply c_sinh_asinh | now apply c_asinh_sinh'].
  - dom_pos H a. unfold HyperbolicSineStretch_inverse_call.
    assert (0 < 1 / sinh (1 / a)) by (apply inv_pos, sinh_pos; now apply inv_pos).
    rewrite !asinh_spec, !sinh_spec by assumption.
    split; [now apply c_asinh_sinh | now apply c_sinh_asinh'].
Qed.

Lemma inverse_constructible s : cfg_domain s -> cfg_inverse_domain s.
Proof.
  destruct s as [| p | a | a | a | a]; simpl; intros H.
  - unfold LinearStretch_inverse_domain. cbv beta delta [LinearStretch_domain]. exact I.
  - dom_pos H p. pose proof (inv_pos p H0).
    unfold PowerLawStretch_inverse_domain. cbv beta delta [PowerLawStretch_domain]. lra.
  - exact H.
  - exact H.
  - dom_pos H a. pose proof (inv_pos _ (arcsinh_pos _ (inv_pos a H0))).
    unfold InverseHyperbolicSineStretch_inverse_domain. cbv beta delta [HyperbolicSineStretch_domain]. lra.
  - dom_pos H a. pose proof (inv_pos _ (sinh_pos _ (inv_pos a H0))).
    unfold HyperbolicSineStretch_inverse_domain. cbv beta delta [InverseHyperbolicSineStretch_domain]. lra.
Qed.

(* CustomNormalization.inverse undoes CustomNormalization.__call__ between the limits *)
Lemma norm_inverse_lemma s vmin vmax x :
  cfg_domain s -> vmin < vmax -> vmin <= x <= vmax ->
  norm_inverse s vmin vmax (norm s vmin vmax x) = x.
Proof.
  intros Hd Hv Hx. rewrite norm_inverse_unfold, norm_unfold, imap_proper by exact Hv.
  pose proof (c_imap_range vmin vmax x) as Hr.
  rewrite (proj1 (stretch_inverse_lemma s _ Hd Hr)).
  rewrite iinv_spec, c_imap_inside by assumption. field. lra.
Qed.

(* ------------------------------------------------------------------ limits (translated get_limits) *)
Lemma manual_limits_lemma :
  (forall a b dmin dmax, ManualInterval_get_limits (Some a) (Some b) dmin dmax = (a, b)) /\
  (forall dmin dmax, ManualInterval_get_limits None None dmin dmax = (dmin, dmax)) /\
  (forall a dmin dmax, ManualInterval_get_limits (Some a) None dmin dmax = (a, dmax)) /\
  (forall b dmin dmax, ManualInterval_get_limits None (Some b) dmin dmax = (dmin, b)).
Proof. repeat split; intros; reflexivity. Qed.

Lemma centered_limits_lemma :
  (forall c h dmin dmax, CenteredInterval_get_limits c (Some h) dmin dmax = (c - h, c + h)) /\
  (forall c dmin dmax, dmin <= dmax ->
     let '(vmin, vmax) := CenteredInterval_get_limits c None dmin dmax in
     vmin + vmax = 2 * c /\ vmin <= dmin /\ dmax <= vmax /\ vmin <= vmax /\
     (dmin < dmax -> vmin < vmax)).
Proof.
  split.
  - intros. cbv beta iota delta [CenteredInterval_get_limits]. f_equal; spec_close.
  - intros c dmin dmax Hd. cbv beta iota delta [CenteredInterval_get_limits].
    destruct (centered_limits c dmin dmax Hd) as [H1 [H2 [H3 H4]]].
    cbv zeta in H1, H2, H3, H4.
    match goal with
    | |- context [c - ?h] =>
      replace h with (Rmax (Rabs (dmin - c)) (Rabs (dmax - c)))
        by (first [reflexivity | (unify_args; alg) | apply Rmax_comm])
    end.
    repeat split; try assumption. ring.
Qed.

Lemma quantile_limits_lemma (quantile : R -> R) lq uq :
  (forall p q, p <= q -> quantile p <= quantile q) -> lq <= uq ->
  let '(vmin, vmax) := QuantileInterval_get_limits quantile lq uq in
  vmin = quantile lq /\ vmax = quantile uq /\ vmin <= vmax.
Proof.
  intros Hm Hq. cbv beta iota delta [QuantileInterval_get_limits].
  repeat split. now apply Hm.
Qed.

(* ------------------------------------------------------------------ the extended-value model over R *)
(* the polymorphic functions of model/C20_Model.v (run on Q and checked against NumPy by the
   harness) instantiated with the reals *)
Definition Rcarrier : carrier R :=
  {| k_zero := 0; k_one := 1; k_sub := Rminus; k_div := Rdiv;
     k_leb := fun a b => if Rle_dec a b then true else false;
     k_eqb := fun a b => if Req_EM_T a b then true else false |}.

Lemma x_interval_map_R vmin vmax x :
  x_interval_map Rcarrier vmin vmax (Fin x) = Fin (interval_map vmin vmax x).
Proof.
  rewrite imap_spec. unfold x_interval_map, x_sub, x_div, x_clip01, k_min, k_max; simpl.
  unfold c_imap_deg, c_imap, clip01, np_clip, Rmin, Rmax.
  destruct (Req_EM_T (vmax - vmin) 0); repeat destruct Rle_dec; try reflexivity; try lra.
Qed.

Lemma x_norm_R_fin s vmin vmax x :
  x_norm Rcarrier (cfg_call s) vmin vmax (Fin x) = Fin (norm s vmin vmax x).
Proof. unfold x_norm. rewrite x_interval_map_R. reflexivity. Qed.

Lemma norm_extended_lemma s vmin vmax :
  cfg_domain s -> vmin <= vmax ->
  (forall x, x_norm Rcarrier (cfg_call s) vmin vmax (Fin x) = Fin (norm s vmin vmax x)) /\
  x_norm Rcarrier (cfg_call s) vmin vmax PInf = Fin 1 /\
  x_norm Rcarrier (cfg_call s) vmin vmax NInf = Fin 0 /\
  (forall v, x_masked (x_norm Rcarrier (cfg_call s) vmin vmax v) = true <-> v = XNaN).
Proof.
  intros Hd Hv. split; [intros; apply x_norm_R_fin |].
  assert (Hlt : k_ltb Rcarrier (k_sub Rcarrier vmax vmin) (k_zero Rcarrier) = false).
  { unfold k_ltb; simpl. destruct (Rle_dec 0 (vmax - vmin)); [reflexivity | lra]. }
  destruct (x_norm_inf Rcarrier (cfg_call s) vmin vmax Hlt) as [HP HN].
  simpl in HP, HN. rewrite (so_1 _ (cfg_ok s Hd)) in HP. rewrite (so_0 _ (cfg_ok s Hd)) in HN.
  repeat split; try assumption; apply x_norm_masked_iff.
Qed.
