(* C19 — fixed proof script over the file GENERATED on every run from the current
   /repo/src/quantem/core/quantem.yaml (build/C19/C19_Yaml.v: probe_defaults = what the module
   body computes for has_torch / has_cupy on this host, yaml_defaults = the parsed yaml; list
   values are opaque string leaves).  An edit of the yaml re-runs these proofs on the new text. *)
From QV.lib Require Import Prelude.
From QV.model Require Import C19_Model C19_Model2.
From QV.proof Require Import C19_Proofs_Keys C19_Proofs_Set C19_Proofs_Update C19_Proofs_Ctx C19_Proofs_Hist
  C19_Proofs_Last C19_Proofs_With C19_Proofs_Ext.
From Gen19 Require Import C19_Yaml.
From Coq Require Import String Ascii.

(* the store after `import quantem.core.config` on this host *)
Definition init_store : store := fst (import_store validate_nogpu probe_defaults yaml_defaults).

Lemma yaml_good : good (Node probe_defaults) /\ good (Node yaml_defaults).
Proof. split; apply goodb_sound; vm_compute; reflexivity. Qed.

Lemma import_ok : snd (import_store validate_nogpu probe_defaults yaml_defaults) = None.
Proof. vm_compute. reflexivity. Qed.

Lemma init_inv : inv init_store /\ dev_ok validate_nogpu (conf init_store).
Proof. exact (import_store_inv validate_nogpu _ _ (proj1 yaml_good) (proj2 yaml_good)). Qed.

Lemma init_dflts : dflts init_store = [probe_defaults; yaml_defaults].
Proof. vm_compute. reflexivity. Qed.

(* the shipped defaults name the cpu, and every history started after import keeps both invariants *)
Lemma init_device : C19_Model.get "device" (conf init_store) = inr (Leaf (JStr "cpu")).
Proof. vm_compute. reflexivity. Qed.

Lemma histories_after_import ops :
  Forall op_ok ops ->
  inv (run validate_nogpu ops init_store) /\ dev_ok validate_nogpu (conf (run validate_nogpu ops init_store)).
Proof. intros Ok. exact (invariants_from validate_nogpu init_store ops (proj1 init_inv) (proj2 init_inv) Ok). Qed.

(* refresh (no user yaml files) gives back exactly the configuration of a fresh import, after any
   statements and with-blocks that do not register further defaults *)
Lemma refresh_init : conf (fst (refresh validate_nogpu [] init_store)) = conf init_store.
Proof. vm_compute. reflexivity. Qed.

Lemma refresh_restores_import ops :
  Forall (no_upd) ops ->
  conf (fst (refresh validate_nogpu [] (run validate_nogpu ops init_store))) = conf init_store.
Proof.
  intros H. rewrite (proj1 (refresh_after_sets validate_nogpu ops [] init_store H)). exact refresh_init.
Qed.

(* every scalar the yaml file sets is what get returns after import, under either spelling of
   its path (device excepted: it is normalised) *)
Lemma yaml_leaf_after_import q q' x :
  pure_path q -> pure_path q' -> nodev q -> same_path q q' -> q <> [] ->
  get_path q (Node yaml_defaults) = inr (Leaf x) ->
  get_path q' (Node (conf init_store)) = inr (Leaf x).
Proof.
  intros Pq Pq' Nq Sq Hq Hg.
  rewrite <- refresh_init.
  pose proof (refresh_is_merge_defaults validate_nogpu [] init_store) as [_ [_ R]].
  rewrite R. cbn [fst conf]. rewrite init_dflts.
  destruct (merge validate_nogpu [probe_defaults; yaml_defaults]) as [m e] eqn:M. cbn [fst].
  assert (E : e = None).
  { pose proof (f_equal snd M) as E. cbn [snd] in E. rewrite <- E. vm_compute. reflexivity. }
  subst e.
  apply (merge_last_writer validate_nogpu [probe_defaults] yaml_defaults [] m q q' x); try assumption.
  - constructor; [exact (proj1 yaml_good) | constructor; [exact (proj2 yaml_good) | constructor]].
  - intros d2 [].
Qed.
