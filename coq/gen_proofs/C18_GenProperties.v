(* C18 translator tie: the theorems that tie the definitions TRANSLATED on this run from the current
   sources of CenterOfMassOriginModel.calculate_origin / .shift_origin_to / .fit_origin_background,
   PtychographyDatasetRaster._set_intensities_com, SimpleBatcher.__iter__, fit_origin, _plane, _parabola,
   _bezier_two (GenC18.Gen_C18, written by harness/translate_C18.py) to the hand-written model
   coq/model/C18_Model.v, and the property clauses restated about the translated code.
   ONLY statements closed by `exact` and their assumption reports. *)
From Coq Require Import String.
From QV.lib Require Import Prelude Chunks C18_QTensor C18_GenLib.
From QV.model Require Import C18_Model.
From GenC18 Require Import Gen_C18 C18_GenProofs.
From Coq Require Import QArith Qround.
Local Close Scope Q_scope.

(* ---------------------------------------------------------------- batching *)
(* SimpleBatcher.__iter__ (range(0, len, b), train_order[i : i + b]) yields the consecutive chunks
   the C09 / C18 models use, for every batch size >= 1 and every index list *)
Theorem C18_gen_batches_tie :
  forall (A : Type) (b : nat) (l : list A), 1 <= b -> gen_batches b l = chunks b l.
Proof. exact @gen_batches_eq. Qed.
Print Assumptions C18_gen_batches_tie.

(* ---------------------------------------------------------------- calculate_origin *)
(* the translated batched loop (meshgrid 'ij' grids, sum(I * grid) / sum(I) per pattern with NO floor
   or epsilon on the total, scatter into columns 0 / 1) is the model's, for every max_batch_size
   (None = all patterns in one batch), every detector shape and every list of patterns *)
Theorem C18_gen_calculate_origin_tie :
  forall (mb : option nat) (H W : nat) (pats : list matrix),
    gen_calculate_origin mb H W pats = calculate_origin (batch_of mb (length pats)) H W pats.
Proof. exact gen_calculate_origin_eq. Qed.
Print Assumptions C18_gen_calculate_origin_tie.

(* hence: every entry is written and is the intensity-weighted mean (row, then column) *)
Theorem C18_gen_com_batched_is_weighted_mean :
  forall (mb : option nat) (H W : nat) (pats : list matrix) (i : nat) (I : matrix),
    1 <= batch_of mb (length pats) -> Forall (wf_mat H W) pats -> nth_error pats i = Some I ->
    exists q0 q1,
      nth_error (fst (gen_calculate_origin mb H W pats)) i = Some (Some q0) /\
      nth_error (snd (gen_calculate_origin mb H W pats)) i = Some (Some q1) /\
      peq (q0, q1) (wmean H W (get I)).
Proof. exact gen_com_batched_is_weighted_mean. Qed.
Print Assumptions C18_gen_com_batched_is_weighted_mean.

Theorem C18_gen_com_batch_invariant :
  forall (mb mb' : option nat) (H W : nat) (pats : list matrix),
    1 <= batch_of mb (length pats) -> 1 <= batch_of mb' (length pats) ->
    gen_calculate_origin mb H W pats = gen_calculate_origin mb' H W pats.
Proof. exact gen_com_batch_invariant. Qed.
Print Assumptions C18_gen_com_batch_invariant.

(* ---------------------------------------------------------------- _set_intensities_com *)
(* vectorised path, with and without mask: krm (first 'ij' output) feeds the row component, kcm the
   column component, the mask multiplies the intensities, division by the masked total *)
Theorem C18_gen_com_vectorised_tie :
  forall (H W : nat) (mask : option matrix) (I4 : list (list matrix)),
    gen_com_vectorised H W mask I4 = com_vectorised H W mask I4.
Proof. exact gen_com_vectorised_eq. Qed.
Print Assumptions C18_gen_com_vectorised_tie.

(* looped path: the loop nest over product(range(Rn), range(Cn)) with its two np.zeros arrays as
   fold state assigns every cell once: the model's tabulation *)
Theorem C18_gen_com_looped_tie :
  forall (Rn Cn H W : nat) (mask : option matrix) (I4 : list (list matrix)),
    gen_com_looped Rn Cn H W mask I4 = com_looped Rn Cn H W mask I4.
Proof. exact gen_com_looped_eq. Qed.
Print Assumptions C18_gen_com_looped_tie.

Theorem C18_gen_com_paths_agree :
  forall (Rn Cn H W : nat) (mask : option matrix) (I4 : list (list matrix)),
    wf_scan Rn Cn I4 -> gen_com_looped Rn Cn H W mask I4 = gen_com_vectorised H W mask I4.
Proof. exact gen_com_paths_agree. Qed.
Print Assumptions C18_gen_com_paths_agree.

(* neither translated path stores into (or updates in place) the caller's array: any history *)
Theorem C18_gen_com_history_independent :
  forall (Rn Cn H W : nat) (I4 : list (list matrix)) (calls : list com_call),
    wf_scan Rn Cn I4 ->
    com_history (gen_com_step Rn Cn H W) I4 calls
    = map (fun c => gen_com_vectorised H W (call_mask c) I4) calls.
Proof. exact gen_com_history_independent. Qed.
Print Assumptions C18_gen_com_history_independent.

(* the fit dispatch: "none", then "no_shift", everything else goes to fit_origin((row, column)) *)
Theorem C18_gen_com_fit_chain_tie : gen_com_fit_chain = ["none"; "no_shift"]%string.
Proof. exact gen_com_fit_chain_eq. Qed.
Print Assumptions C18_gen_com_fit_chain_tie.

(* ---------------------------------------------------------------- shift_origin_to *)
(* (base_grid + (origin - coordinate)) % (H, W) on BOTH components, x normalised with W and y with H
   (max(size - 1, 1)), grid = (x, y), bilinear / zeros / align_corners: the model's shift_pattern_r *)
Theorem C18_gen_shift_tie :
  forall (H W : nat) (oy ox cy cx : Q) (I : matrix),
    meq (gen_shift_pattern H W oy ox cy cx I) (shift_pattern_r H W oy ox cy cx I).
Proof. exact gen_shift_pattern_eq. Qed.
Print Assumptions C18_gen_shift_tie.

(* hence: for an integer-valued (fitted origin - coordinate), NEGATIVE values included, the translated
   shift is the circular roll, for every detector shape *)
Theorem C18_gen_shift_integer_is_roll :
  forall (H W : nat) (oy ox cy cx : Q) (sy sx : Z) (I : matrix),
    1 <= H -> 1 <= W -> wf_mat H W I ->
    (oy - cy == inject_Z sy)%Q -> (ox - cx == inject_Z sx)%Q ->
    meq (gen_shift_pattern H W oy ox cy cx I) (roll2 (- sy) (- sx) I).
Proof. exact gen_shift_integer_is_roll. Qed.
Print Assumptions C18_gen_shift_integer_is_roll.

(* batch invariance of the shift: for every max_batch_size (None included) the translated loop writes every
   pattern, shifted by its own fitted origin *)
Theorem C18_gen_shift_all_batches :
  forall (mb : option nat) (H W : nat) (cy cx : Q) (org : list (Q * Q)) (pats : list matrix),
    1 <= batch_of mb (length pats) ->
    gen_shift_all mb H W cy cx org pats
    = map (fun i => Some (gen_shift_pattern H W (fst (nth i org (0, 0)%Q)) (snd (nth i org (0, 0)%Q)) cy cx (nth i pats [])))
          (seq 0 (length pats)).
Proof. exact gen_shift_all_eq. Qed.
Print Assumptions C18_gen_shift_all_batches.

(* ---------------------------------------------------------------- fit_origin_background *)
Theorem C18_gen_fit_constant_tie :
  forall o0 o1 : list Q, gen_fit_constant_origin o0 o1 = fit_constant_origin o0 o1.
Proof. exact gen_fit_constant_origin_eq. Qed.
Print Assumptions C18_gen_fit_constant_tie.

(* the matrices handed to eigh, the eigenvector column taken, and the evaluated surface *)
Theorem C18_gen_plane_tie :
  forall (pos : list (Q * Q)) (o0 o1 : list Q) (n0 n1 : P3) (x y : Q),
    gen_plane_cov_r pos o0 o1 = plane_covariance (points_of pos o0) /\
    gen_plane_cov_c pos o0 o1 = plane_covariance (points_of pos o1) /\
    gen_plane_eig_column = 0%Z /\
    peq (gen_plane_fitted pos o0 o1 n0 n1 x y)
        (plane_fitted (points_of pos o0) n0 x y, plane_fitted (points_of pos o1) n1 x y).
Proof.
  intros pos o0 o1 n0 n1 x y.
  exact (conj (proj1 (gen_plane_cov_eq pos o0 o1))
           (conj (proj2 (gen_plane_cov_eq pos o0 o1))
              (conj gen_plane_eig_column_eq (gen_plane_fitted_eq pos o0 o1 n0 n1 x y)))).
Qed.
Print Assumptions C18_gen_plane_tie.

Theorem C18_gen_plane_fit_exact :
  forall (A0 B0 D0 A1 B1 D1 : Q) (pos : list (Q * Q)) (o0 o1 : list Q) (l0 l1 : Q) (n0 n1 : P3),
    on_plane A0 B0 D0 (points_of pos o0) -> on_plane A1 B1 D1 (points_of pos o1) ->
    noncollinear (points_of pos o0) -> noncollinear (points_of pos o1) ->
    eigh_min_contract (gen_plane_cov_r pos o0 o1) l0 n0 -> eigh_min_contract (gen_plane_cov_c pos o0 o1) l1 n1 ->
    forall p q, In p (points_of pos o0) -> In q (points_of pos o1) ->
      (fst (gen_plane_fitted pos o0 o1 n0 n1 (px p) (py p)) == pz p)%Q /\
      (snd (gen_plane_fitted pos o0 o1 n0 n1 (px q) (py q)) == pz q)%Q.
Proof. exact gen_plane_fit_exact. Qed.
Print Assumptions C18_gen_plane_fit_exact.

(* ---------------------------------------------------------------- fit_origin *)
Theorem C18_gen_fit_origin_tie :
  (forall g0 g1 : list (list Q),
     gen_fit_origin_constant g0 g1 = (fit_origin_constant g0, fit_origin_constant g1)) /\
  gen_fit_origin_chain
  = [("plane", "_plane"); ("parabola", "_parabola"); ("bezier_two", "_bezier_two"); ("constant", "<mean>")]%string.
Proof. exact (conj gen_fit_origin_constant_eq gen_fit_origin_chain_eq). Qed.
Print Assumptions C18_gen_fit_origin_tie.

(* the three curve_fit families on the (row index, column index) grid: xy[0] = row *)
Theorem C18_gen_families_tie :
  (forall p r c, (gen_plane_fn p r c == plane_fn p r c)%Q) /\
  (forall p r c, (gen_parabola_fn p r c == parabola_fn p r c)%Q) /\
  (forall p r c, (gen_bezier2_fn p r c == bezier2_fn p r c)%Q).
Proof. exact (conj gen_plane_fn_eq (conj gen_parabola_fn_eq gen_bezier2_fn_eq)). Qed.
Print Assumptions C18_gen_families_tie.

Theorem C18_gen_plane_lsq_exact :
  forall (Rn Cn : nat) (data : list (list Q)) (p0 p : Q * Q * Q),
    (forall r c, r < Rn -> c < Cn -> (gen_plane_fn p0 r c == get data r c)%Q) ->
    (forall q, (sse gen_plane_fn Rn Cn data p <= sse gen_plane_fn Rn Cn data q)%Q) ->
    forall r c, r < Rn -> c < Cn -> (gen_plane_fn p r c == get data r c)%Q.
Proof. exact gen_plane_lsq_exact. Qed.
Print Assumptions C18_gen_plane_lsq_exact.

(* ---------------------------------------------------------------- non-vacuity *)
Definition gx_I : matrix := zmat [[1; 2; 3]; [4; 5; 60]]%Z.
Definition gx_J : matrix := zmat [[7; 1; 1]; [1; 1; 2]]%Z.

Example C18_gen_nonvacuous_batches :
  gen_batches 2 [0; 1; 2; 3; 4] = [[0; 1]; [2; 3]; [4]].
Proof. vm_compute. reflexivity. Qed.

Example C18_gen_nonvacuous_origin :
  map showol [fst (gen_calculate_origin (Some 1) 2 3 [gx_I; gx_J]); snd (gen_calculate_origin None 2 3 [gx_I; gx_J])]
  = [[[23; 25]; [4; 13]]; [[133; 75]; [8; 13]]]%Z.
Proof. vm_compute. reflexivity. Qed.

Example C18_gen_nonvacuous_paths :
  let m := Some (zmat [[1; 1; 0]; [1; 1; 1]]%Z) in
  gen_com_looped 1 2 2 3 m [[gx_I; gx_J]] = gen_com_vectorised 2 3 m [[gx_I; gx_J]] /\
  showm (fst (gen_com_vectorised 2 3 m [[gx_I; gx_J]])) = [[[23; 24]; [1; 3]]]%Z.
Proof. vm_compute. split; reflexivity. Qed.

(* a NEGATIVE fitted origin: shift by (-1, -4) on a 2 x 3 detector is the roll by (1, 4) = (1, 1) *)
Example C18_gen_nonvacuous_shift :
  showm (gen_shift_pattern 2 3 (-1) (-3) 0 1 gx_I) = showm (roll2 1 4 gx_I) /\
  showm (roll2 1 4 gx_I) = [[[60; 1]; [4; 1]; [5; 1]]; [[3; 1]; [1; 1]; [2; 1]]]%Z.
Proof. vm_compute. split; reflexivity. Qed.

Example C18_gen_nonvacuous_shift_all :
  map (fun o => match o with Some m => showm m | None => [] end)
      (gen_shift_all (Some 1) 2 3 0 0 [(1, 0); (0, -1)]%Q [gx_I; gx_J])
  = [showm (roll2 (-1) 0 gx_I); showm (roll2 0 1 gx_J)].
Proof. vm_compute. reflexivity. Qed.

Example C18_gen_nonvacuous_families :
  showq (gen_plane_fn (1 # 2, 3, -1)%Q 2 5) = [15; 1]%Z /\
  showq (gen_parabola_fn (1, 2, 3, 4, 5, 6)%Q 1 2) = [46; 1]%Z /\
  showq (gen_bezier2_fn ((1, 2, 3), (4, 5, 6), (7, 8, 9))%Q 2 3) = showq (bezier2_fn ((1, 2, 3), (4, 5, 6), (7, 8, 9))%Q 2 3).
Proof. vm_compute. repeat split; reflexivity. Qed.
