(* C08 — FIXED proof script of the effect-program tie: the token list `gen_save_toks` that harness/c08_tie.py
   extracted on THIS run from the source of AutoSerialize.save (GenC08.Gen_C08) evaluates, for both stores, to the
   skeleton `save_skeleton` (model/C08_Model_Tie.v) whose expansion IS the protocol of the C08 theorems
   (proof/C08_Proofs_Tie.v: expand_skeleton, for every mode, target, chain of directories, staging paths, object).
   The script does not depend on local names or on the order of side-effect free statements of the source (the
   translator drops them and tracks path variables symbolically); it depends on the order of the effects, on the
   `if store == ...` / `with` blocks around them and on which version of which path variable reaches each site. *)
From QV.lib Require Import Prelude.
From QV.model Require Import C08_Model C08_Model_Tree C08_Model_Tie.
From QV.proof Require Import C08_Proofs_Tie.
From GenC08 Require Import Gen_C08.

Lemma gen_save_is_skeleton : forall st, interp gen_save_toks st 0 [] = Some (save_skeleton st).
Proof. intros [|]; vm_compute; reflexivity. Qed.

(* the kinds of the effects of the extracted program for an object with n item writes (split over the three
   phases) and nz archive members: evaluated by the check against the recorded trace of the real save *)
Definition gen_kinds (st : store) (m : mode) (nanc n1 n2 n3 nz : nat) : list Z :=
  match interp gen_save_toks st 0 [] with
  | Some sk => map (fun x => effect_kind (fst x))
                   (expand m 0 9 (seq 10 nanc) 1 2 (zseq 0 n1) (zseq 100 n2) (zseq 200 n3) (zseq 500 nz) sk)
  | None => [(-1)%Z]
  end.
