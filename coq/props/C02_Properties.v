(* C02 — Ptychography forward pipeline reproduces independently simulated data.  PARTIAL:
   the theorems below cover the index / convention / normalisation / loss algebra the pipeline
   depends on, for ALL sizes; the end-to-end equality with independently simulated data is
   VALIDATED on every run by harness/props/C02.py against harness/c02_sim.py, not proved.
   This file contains ONLY the property theorems (closed by `exact`), their assumption reports
   and non-vacuity examples. *)
From QV.lib Require Import Prelude FinSum DFT DFT2 DFT_Inst.
From QV.model Require Import C02_Model.
From QV.proof Require Import C02_Proofs_Index C02_Proofs_Forward C02_Proofs_Inst C02_Proofs_Ext C02_Proofs_ExtInst C02_Proofs_Geom C02_Proofs_ModeOrder.
From Coq Require Import Permutation.
From Coq Require Import QArith Qcanon.
Local Close Scope Q_scope.
Local Open Scope Z_scope.

(* ------------------------------------------------------------------------------------------
   patch indices (_set_patch_indices): for every object H x W, ROI n x m and rounded position
   (r0, c0): the transcription of the code has the ROI shape; its (i, j) entry is
   ((r0 + fftfreq_index i n) mod H) * W + ((c0 + fftfreq_index j m) mod W); that flat index is
   in range and decodes to the wrapped (row, column); the rows read are exactly the window
   r0 - floor(n/2) .. r0 + ceil(n/2) - 1, each once; and no two ROI pixels read the same object
   pixel when the ROI fits in the object (n <= H, m <= W). *)
Theorem C02_patch_indices_window :
  forall H W n m r0 c0 : Z,
    0 < H -> 0 < W -> 0 <= n -> 0 <= m ->
    (length (patch_indices H W n m r0 c0) = Z.to_nat n /\
     Forall (fun row => length row = Z.to_nat m) (patch_indices H W n m r0 c0)) /\
    (forall i j, 0 <= i < n -> 0 <= j < m ->
       nth (Z.to_nat j) (nth (Z.to_nat i) (patch_indices H W n m r0 c0) []) 0
       = ((r0 + fftfreq_index i n) mod H) * W + ((c0 + fftfreq_index j m) mod W)) /\
    (forall i j, 0 <= patch_index H W n m r0 c0 i j < H * W /\
       patch_index H W n m r0 c0 i j / W = (r0 + fftfreq_index i n) mod H /\
       (patch_index H W n m r0 c0 i j) mod W = (c0 + fftfreq_index j m) mod W) /\
    (forall i, 0 <= i < n -> - (n / 2) <= fftfreq_index i n < (n + 1) / 2) /\
    (forall d, - (n / 2) <= d < (n + 1) / 2 -> exists i, 0 <= i < n /\ fftfreq_index i n = d) /\
    (n <= H -> m <= W -> forall i j i' j',
       0 <= i < n -> 0 <= j < m -> 0 <= i' < n -> 0 <= j' < m ->
       patch_index H W n m r0 c0 i j = patch_index H W n m r0 c0 i' j' -> i = i' /\ j = j').
Proof. exact patch_indices_window. Qed.
Print Assumptions C02_patch_indices_window.

Example C02_nonvacuous_patch_indices :
  patch_indices 6 8 4 4 5 7 = [[47; 40; 45; 46]; [7; 0; 5; 6]; [31; 24; 29; 30]; [39; 32; 37; 38]]
  /\ fftfreq_list 5 = [0; 1; 2; -2; -1] /\ fftfreq_list 6 = [0; 1; 2; -3; -2; -1].
Proof. vm_compute. repeat split. Qed.

(* the size condition of the injectivity clause is needed: a 6-row ROI in a 4-row object aliases *)
Example C02_nonvacuous_patch_alias : exists H W n m r0 c0 i j i' j',
  0 <= i < n /\ 0 <= i' < n /\ 0 <= j < m /\ 0 <= j' < m /\ (i, j) <> (i', j') /\
  patch_index H W n m r0 c0 i j = patch_index H W n m r0 c0 i' j'.
Proof. exact patch_index_aliases. Qed.

(* the i-th entry of torch.fft.fftfreq(n, 1/n) (as generated: two ascending runs) is the closed
   form, and it is congruent to i modulo n (so Fourier ramps may use either) *)
Theorem C02_fftfreq_order :
  forall n i, 0 <= i < n ->
    nth (Z.to_nat i) (fftfreq_list n) 0 = fftfreq_index i n /\ (fftfreq_index i n) mod n = i mod n.
Proof. exact fftfreq_order. Qed.
Print Assumptions C02_fftfreq_order.

(* ------------------------------------------------------------------------------------------
   integer patch origin + sub-pixel shift: position = round(position) + fraction, |fraction| <= 1/2
   (torch.round = round half to even), for every rational position *)
Theorem C02_round_frac_split :
  forall q : Q, (q == inject_Z (round_half_even q) + frac_part q /\ - (1 # 2) <= frac_part q <= 1 # 2)%Q.
Proof. exact round_frac_split. Qed.
Print Assumptions C02_round_frac_split.

Example C02_nonvacuous_round :
  round_half_even (5 # 2) = 2 /\ round_half_even (7 # 2) = 4 /\ round_half_even (-1 # 2) = 0 /\
  round_half_even (22 # 3) = 7 /\ Qred (frac_part (22 # 3)) = (1 # 3)%Q.
Proof. vm_compute. repeat split. Qed.

(* ------------------------------------------------------------------------------------------
   `no_shift` preprocessing: amplitudes are Fourier-shifted by -(N1/2, N2/2) and fftshifted.
   Whenever that shift is a whole number of pixels (2 s = -N, i.e. N even) the composite is the
   identity on the detector — over the abstract ring, every N1 x N2. *)
Theorem C02_centre_then_fftshift_id :
  forall (R : Type) (rO rI : R) (radd rmul rsub : R -> R -> R) (ropp : R -> R),
    ring_theory rO rI radd rmul rsub ropp eq ->
    forall conj : R -> R, conj_ok radd rmul conj ->
    forall (N1 : nat) (w1 : Z -> R) (Ninv1 : R) (N2 : nat) (w2 : Z -> R) (Ninv2 : R),
    root_ok rO rI radd rmul conj N1 w1 Ninv1 ->
    root_ok rO rI radd rmul conj N2 w2 Ninv2 ->
    forall (s1 s2 : Z) (x : nat -> nat -> R) (n1 n2 : nat),
      2 * s1 = - Z.of_nat N1 -> 2 * s2 = - Z.of_nat N2 -> (n1 < N1)%nat -> (n2 < N2)%nat ->
      fftshift2 N1 N2
        (fmul2 rO radd rmul N1 w1 Ninv1 N2 w2 Ninv2
           (fun k1 k2 => rmul (w1 (Z.of_nat k1 * s1)) (w2 (Z.of_nat k2 * s2))) x) n1 n2
      = x n1 n2.
Proof. exact centre_then_fftshift_id. Qed.
Print Assumptions C02_centre_then_fftshift_id.

Example C02_nonvacuous_centre : forall (x : nat -> nat -> C) n1 n2, (n1 < 4)%nat -> (n2 < 4)%nat ->
  fftshift2 4 4 (fmul2 c0 cadd cmul 4 w4 quarter 4 w4 quarter
                   (fun k1 k2 => cmul (w4 (Z.of_nat k1 * -2)) (w4 (Z.of_nat k2 * -2))) x) n1 n2 = x n1 n2.
Proof. exact C02i_centre. Qed.

(* index form, and what happens for odd sizes: for odd n the origin n/2 is not a pixel (no integer
   s with 2 s = n: the library then interpolates by half a pixel — such data are reported
   separately by the check); the integer origin floor(n/2) + d, for every n, is centred by a
   plain roll of d (the `constant` mode for a beam displaced by whole pixels) *)
Theorem C02_centre_index :
  forall n, 0 < n ->
    (forall s i, 2 * s = no_shift_origin_twice n -> 0 <= i < n -> centre_index n s i = i) /\
    (Z.odd n = true -> forall s, 2 * s <> no_shift_origin_twice n) /\
    (forall d i, 0 <= i < n -> centre_index n (n / 2 + d) i = (i + d) mod n).
Proof. exact centre_index_all. Qed.
Print Assumptions C02_centre_index.

Theorem C02_centre_floor_origin :
  forall (R : Type) (rO rI : R) (radd rmul rsub : R -> R -> R) (ropp : R -> R),
    ring_theory rO rI radd rmul rsub ropp eq ->
    forall conj : R -> R, conj_ok radd rmul conj ->
    forall (N1 : nat) (w1 : Z -> R) (Ninv1 : R) (N2 : nat) (w2 : Z -> R) (Ninv2 : R),
    root_ok rO rI radd rmul conj N1 w1 Ninv1 ->
    root_ok rO rI radd rmul conj N2 w2 Ninv2 ->
    forall (d1 d2 : Z) (x : nat -> nat -> R) (n1 n2 : nat),
      fftshift2 N1 N2
        (fmul2 rO radd rmul N1 w1 Ninv1 N2 w2 Ninv2
           (fun k1 k2 => rmul (w1 (Z.of_nat k1 * (- Z.of_nat (N1 / 2) - d1)))
                              (w2 (Z.of_nat k2 * (- Z.of_nat (N2 / 2) - d2)))) x) n1 n2
      = roll2 N1 N2 (- d1) (- d2) x n1 n2.
Proof. exact centre_floor_origin. Qed.
Print Assumptions C02_centre_floor_origin.

Example C02_nonvacuous_centre_index :
  map (centre_index 6 3) [0; 1; 2; 3; 4; 5] = [0; 1; 2; 3; 4; 5] /\
  map (centre_index 5 2) [0; 1; 2; 3; 4] = [0; 1; 2; 3; 4] /\
  map (centre_index 6 4) [0; 1; 2; 3; 4; 5] = [1; 2; 3; 4; 5; 0] /\ Z.odd 5 = true.
Proof. vm_compute. repeat split. Qed.

(* ------------------------------------------------------------------------------------------
   detector: after fftshift the zero-frequency bin sits at (floor(N1/2), floor(N2/2)) and holds
   the plain sum of the exit wave — every N1 x N2, even or odd *)
Theorem C02_detector_dc_position :
  forall (R : Type) (rO rI : R) (radd rmul rsub : R -> R -> R) (ropp : R -> R),
    ring_theory rO rI radd rmul rsub ropp eq ->
    forall conj : R -> R, conj_ok radd rmul conj ->
    forall (N1 : nat) (w1 : Z -> R) (Ninv1 : R) (N2 : nat) (w2 : Z -> R) (Ninv2 : R),
    root_ok rO rI radd rmul conj N1 w1 Ninv1 ->
    root_ok rO rI radd rmul conj N2 w2 Ninv2 ->
    forall x : nat -> nat -> R,
      fftshift2 N1 N2 (dft2 rO radd rmul N1 w1 N2 w2 x) (N1 / 2)%nat (N2 / 2)%nat = sum2 rO radd N1 N2 x.
Proof. exact detector_dc_position. Qed.
Print Assumptions C02_detector_dc_position.

Theorem C02_dc_position_index :
  forall n, 0 < n -> 0 <= dc_position n < n /\ roll_index n (n / 2) (dc_position n) = 0.
Proof. exact dc_position_spec. Qed.
Print Assumptions C02_dc_position_index.

Example C02_nonvacuous_dc : forall x : nat -> nat -> C,
  fftshift2 4 4 (dft2 c0 cadd cmul 4 w4 4 w4 x) 2 2 = sum2 c0 cadd 4 4 x.
Proof. exact C02i_dc. Qed.

(* ------------------------------------------------------------------------------------------
   losses (error_estimate): each of the four data-fidelity losses is non-negative and is zero
   exactly when predicted and measured amplitudes agree pattern by pattern, pixel by pixel — for
   every number of pixels, batch size, number of patterns and positive mean intensity *)
Theorem C02_loss_zero_iff_equal :
  forall (a b : list Q) (batch n : positive) (mi : Q),
    length a = length b -> (0 < mi)%Q ->
    Forall (fun x => (0 <= x)%Q) a -> Forall (fun x => (0 <= x)%Q) b ->
    ((loss_l1_amplitude a b batch n mi == 0)%Q <-> Forall2 Qeq a b) /\
    ((loss_l2_amplitude a b batch n mi == 0)%Q <-> Forall2 Qeq a b) /\
    ((loss_l1_intensity a b batch n mi == 0)%Q <-> Forall2 Qeq a b) /\
    ((loss_l2_intensity a b batch n mi == 0)%Q <-> Forall2 Qeq a b) /\
    (0 <= loss_l1_amplitude a b batch n mi)%Q /\ (0 <= loss_l2_amplitude a b batch n mi)%Q /\
    (0 <= loss_l1_intensity a b batch n mi)%Q /\ (0 <= loss_l2_intensity a b batch n mi)%Q.
Proof. exact loss_zero_iff_equal. Qed.
Print Assumptions C02_loss_zero_iff_equal.

Example C02_nonvacuous_loss :
  Qred (loss_l2_amplitude [1; 2]%Q [1; 3]%Q 2 4 10) = (1 # 5)%Q /\
  Qred (loss_l1_intensity [1; 2]%Q [1; 3]%Q 2 4 10) = 1%Q /\
  Qred (loss_l2_amplitude [1; 2]%Q [1; 2]%Q 2 4 10) = 0%Q.
Proof. vm_compute. repeat split. Qed.

(* batch-fraction scaling: for EVERY partition of the patterns into non-empty batches (sizes need
   not be equal nor divide the number of patterns), the batch losses weighted by their batch
   fractions add up to the full-batch loss; with equal sizes the plain mean does *)
Theorem C02_loss_batch_scaling :
  forall (n : positive) (mi : Q) (bs : list (list Q)),
    ~ (mi == 0)%Q -> Forall (fun b => b <> []) bs ->
    (weighted_batch_sum n mi bs == full_loss mi bs)%Q.
Proof. exact loss_batch_scaling. Qed.
Print Assumptions C02_loss_batch_scaling.

Theorem C02_loss_batch_mean_equal_sizes :
  forall (n : positive) (mi : Q) (bs : list (list Q)) (k : positive),
    ~ (mi == 0)%Q -> Forall (fun b => length b = Pos.to_nat k) bs ->
    (Pos.to_nat n = length bs * Pos.to_nat k)%nat -> bs <> [] ->
    (qsum (map (batch_loss n mi) bs) / inject_Z (Z.of_nat (length bs)) == full_loss mi bs)%Q.
Proof. exact loss_batch_mean_equal_sizes. Qed.
Print Assumptions C02_loss_batch_mean_equal_sizes.

Example C02_nonvacuous_batch :
  Qred (weighted_batch_sum 3 2 [[1; 2]; [3]]%Q) = 3%Q /\ Qred (full_loss 2 [[1; 2]; [3]]%Q) = 3%Q.
Proof. vm_compute. repeat split. Qed.

(* ------------------------------------------------------------------------------------------
   the pipeline as the code runs it (flat gather by patch indices, Fourier sub-pixel shift,
   overlap loop over slices, ortho FFT, |.|^2, incoherent sum over modes, fftshift) equals the
   reference composition  gather(window) o shift o multislice(transmit, propagate) o ortho-DFT o
   mode-sum o fftshift  — every ROI size, any number of slices and modes, any object size *)
Theorem C02_forward_is_composition :
  forall (R : Type) (rO rI : R) (radd rmul rsub : R -> R -> R) (ropp : R -> R),
    ring_theory rO rI radd rmul rsub ropp eq ->
    forall conj : R -> R, conj_ok radd rmul conj ->
    forall (N1 : nat) (w1 : Z -> R) (Ninv1 : R) (N2 : nat) (w2 : Z -> R) (Ninv2 : R),
    root_ok rO rI radd rmul conj N1 w1 Ninv1 ->
    root_ok rO rI radd rmul conj N2 w2 Ninv2 ->
    forall (sN : R) (obj2 : list (Z -> Z -> R)) (H W r0 c0 : Z) (rr rc : nat -> R)
           (props probes : list (nat -> nat -> R)) (k1 k2 : nat),
      0 < H -> 0 < W -> length props = pred (length obj2) ->
      forward_code rO radd rmul conj N1 w1 Ninv1 N2 w2 Ninv2 sN
                   (map (fun o => flatten o W) obj2) H W r0 c0 rr rc props probes k1 k2
      = forward_ref rO radd rmul conj N1 w1 Ninv1 N2 w2 Ninv2 sN obj2 H W r0 c0 rr rc props probes k1 k2.
Proof. exact forward_is_composition. Qed.
Print Assumptions C02_forward_is_composition.

Example C02_nonvacuous_composition : forall (P Q : nat -> nat -> C) k1 k2,
  forward_code c0 cadd cmul cconj 4 w4 quarter 4 w4 quarter quarter
               (map (fun o => flatten o 5) [iobj 1 2; iobj 3 1]) 6 5 4 3 (iramp 1) (iramp 3) [ikern 1] [P; Q] k1 k2
  = forward_ref c0 cadd cmul cconj 4 w4 quarter 4 w4 quarter quarter
               [iobj 1 2; iobj 3 1] 6 5 4 3 (iramp 1) (iramp 3) [ikern 1] [P; Q] k1 k2.
Proof. exact C02i_composition. Qed.

(* ------------------------------------------------------------------------------------------
   probe normalisation (_apply_weights + Parseval): if the modes are scaled by a common factor c
   such that the total probe intensity equals the mean measured pattern sum, then EVERY predicted
   pattern sums to that mean — for unit-modulus transmission in every slice (intensity-conserving
   object), unit-modulus propagators and sub-pixel ramps, any number of slices and modes *)
Theorem C02_probe_normalisation :
  forall (R : Type) (rO rI : R) (radd rmul rsub : R -> R -> R) (ropp : R -> R),
    ring_theory rO rI radd rmul rsub ropp eq ->
    forall conj : R -> R, conj_ok radd rmul conj ->
    forall (N1 : nat) (w1 : Z -> R) (Ninv1 : R) (N2 : nat) (w2 : Z -> R) (Ninv2 : R),
    root_ok rO rI radd rmul conj N1 w1 Ninv1 ->
    root_ok rO rI radd rmul conj N2 w2 Ninv2 ->
    forall sN : R, rmul sN sN = rmul Ninv1 Ninv2 -> conj sN = sN ->
    forall (obj2 : list (Z -> Z -> R)) (H W r0 c0 : Z) (rr rc : nat -> R)
           (props probes : list (nat -> nat -> R)) (c mean_i : R),
      Forall (unit2 R rI rmul conj N1 N2) (map (fun o => gather_window N1 N2 o H W r0 c0) obj2) ->
      Forall (unit2 R rI rmul conj N1 N2) props ->
      unit2 R rI rmul conj N1 N2 (fun k1 k2 => rmul (rr k1) (rc k2)) ->
      rmul (rmul c (conj c)) (total_probe_intensity rO radd rmul conj N1 N2 probes) = mean_i ->
      sum2 rO radd N1 N2
        (forward_ref rO radd rmul conj N1 w1 Ninv1 N2 w2 Ninv2 sN obj2 H W r0 c0 rr rc props
                     (scale_modes rmul c probes)) = mean_i.
Proof. exact probe_normalisation. Qed.
Print Assumptions C02_probe_normalisation.

Example C02_nonvacuous_setting :
  ring_theory c0 c1 cadd cmul csub copp eq /\ conj_ok cadd cmul cconj /\
  root_ok c0 c1 cadd cmul cconj 4 w4 quarter /\
  cmul quarter quarter = cmul quarter quarter /\ cconj quarter = quarter.
Proof. exact C02i_setting. Qed.

Example C02_nonvacuous_normalisation : forall (P Q : nat -> nat -> C) (c : C),
  sum2 c0 cadd 4 4
    (forward_ref c0 cadd cmul cconj 4 w4 quarter 4 w4 quarter quarter
       [iobj 1 2; iobj 3 1] 6 5 4 3 (iramp 1) (iramp 3) [ikern 1] (scale_modes cmul c [P; Q]))
  = cmul (cmul c (cconj c)) (total_probe_intensity c0 cadd cmul cconj 4 4 [P; Q]).
Proof. exact C02i_normalisation. Qed.

(* ==========================================================================================
   round-3 extensions
   ========================================================================================== *)

(* ------------------------------------------------------------------------------------------
   repaired `no_shift` preprocessing (com_fit = roi // 2, fixes/C02-no-shift-odd-roi.diff): the
   Fourier shift by -(floor(N1/2), floor(N2/2)) followed by fftshift is the identity on the detector
   for EVERY N1 x N2 — even, odd, non-square.  (The unrepaired origin N/2 is not a pixel for odd N:
   second clause of C02_centre_index.) *)
Theorem C02_no_shift_identity_all_sizes :
  forall (R : Type) (rO rI : R) (radd rmul rsub : R -> R -> R) (ropp : R -> R),
    ring_theory rO rI radd rmul rsub ropp eq ->
    forall conj : R -> R, conj_ok radd rmul conj ->
    forall (N1 : nat) (w1 : Z -> R) (Ninv1 : R) (N2 : nat) (w2 : Z -> R) (Ninv2 : R),
    root_ok rO rI radd rmul conj N1 w1 Ninv1 ->
    root_ok rO rI radd rmul conj N2 w2 Ninv2 ->
    forall (x : nat -> nat -> R) (n1 n2 : nat), (n1 < N1)%nat -> (n2 < N2)%nat ->
      fftshift2 N1 N2
        (fmul2 rO radd rmul N1 w1 Ninv1 N2 w2 Ninv2
           (fun k1 k2 => rmul (w1 (Z.of_nat k1 * - Z.of_nat (N1 / 2))) (w2 (Z.of_nat k2 * - Z.of_nat (N2 / 2)))) x) n1 n2
      = x n1 n2.
Proof. exact no_shift_identity. Qed.
Print Assumptions C02_no_shift_identity_all_sizes.

(* an odd x even (1 x 4) detector over Q(i): the root-of-unity hypotheses hold for an odd size too *)
Example C02_nonvacuous_no_shift_odd : and (root_ok c0 c1 cadd cmul cconj 1%nat w1c c1) (
  forall (x : nat -> nat -> C) n1 n2, (n1 < 1)%nat -> (n2 < 4)%nat ->
  fftshift2 1 4 (fmul2 c0 cadd cmul 1 w1c c1 4 w4 quarter
                   (fun k1 k2 => cmul (w1c (Z.of_nat k1 * - Z.of_nat (1 / 2))) (w4 (Z.of_nat k2 * - Z.of_nat (4 / 2)))) x) n1 n2
  = x n1 n2).
Proof. split; [exact C_root_ok_1 | exact C02i_no_shift_odd]. Qed.

(* index form: the repaired origin is the detector model's zero-frequency pixel floor(n/2), it is
   centred by the identity permutation for every n, and for even n it is the old origin n/2 *)
Theorem C02_no_shift_index :
  forall n, 0 < n ->
    (forall i, 0 <= i < n -> centre_index n (no_shift_origin n) i = i) /\
    no_shift_origin n = dc_position n /\
    (Z.even n = true -> 2 * no_shift_origin n = no_shift_origin_twice n).
Proof. exact no_shift_index_all. Qed.
Print Assumptions C02_no_shift_index.

Example C02_nonvacuous_no_shift_index :
  map (centre_index 7 (no_shift_origin 7)) [0; 1; 2; 3; 4; 5; 6] = [0; 1; 2; 3; 4; 5; 6] /\
  map (centre_index 8 (no_shift_origin 8)) [0; 1; 2; 3; 4; 5; 6; 7] = [0; 1; 2; 3; 4; 5; 6; 7] /\
  no_shift_origin 7 = 3 /\ no_shift_origin 8 = 4.
Proof. vm_compute. repeat split. Qed.

(* ------------------------------------------------------------------------------------------
   exact half-integer scan positions z + 1/2 (every integer z): the patch anchor is the EVEN
   neighbour, the sub-pixel part is +1/2 or -1/2 accordingly — anchor and sub-pixel shift use the
   same rounding (torch.round), so anchor + shift is the position (C02_round_frac_split) *)
Theorem C02_round_tie :
  forall z : Z,
    round_half_even (inject_Z z + (1 # 2))%Q = (if Z.even z then z else z + 1) /\
    Z.even (round_half_even (inject_Z z + (1 # 2))%Q) = true /\
    (frac_part (inject_Z z + (1 # 2)) == (if Z.even z then 1 # 2 else - (1 # 2)))%Q.
Proof. exact round_tie. Qed.
Print Assumptions C02_round_tie.

Example C02_nonvacuous_round_tie :
  round_half_even (25 # 2) = 12 /\ round_half_even (27 # 2) = 14 /\ round_half_even (-3 # 2) = -2 /\
  Qred (frac_part (25 # 2)) = (1 # 2)%Q /\ Qred (frac_part (27 # 2)) = (-1 # 2)%Q.
Proof. vm_compute. repeat split. Qed.

(* ------------------------------------------------------------------------------------------
   potential objects.  e : P -> R is a character of a phase group (P, padd, popp, pzero) — the role
   of exp(i .): e (a + b) = e a * e b, e 0 = 1, conj (e a) = e (- a).  (1) the code exponentiates the
   whole potential array and gathers by flat patch indices; that is e of the periodically wrapped
   potential WINDOW.  (2) with the object exp(i V_s) in every slice, sub-pixel ramps e(phi) and
   kernels e(kappa) — any potentials, phases, number of slices and modes — the pipeline AS THE CODE
   RUNS IT predicts patterns that each sum to the mean measured pattern sum once the probe is
   normalised: unit modulus of object, ramps and propagators is proved from the character laws *)
Theorem C02_potential_gather_commutes :
  forall (R : Type) (rO rI : R) (radd rmul rsub : R -> R -> R) (ropp : R -> R),
    ring_theory rO rI radd rmul rsub ropp eq ->
    forall conj : R -> R, conj_ok radd rmul conj ->
    forall (N1 : nat) (w1 : Z -> R) (Ninv1 : R) (N2 : nat) (w2 : Z -> R) (Ninv2 : R),
    root_ok rO rI radd rmul conj N1 w1 Ninv1 ->
    root_ok rO rI radd rmul conj N2 w2 Ninv2 ->
    forall (P : Type) (padd : P -> P -> P) (popp : P -> P) (pzero : P) (e : P -> R),
    (forall a b, e (padd a b) = rmul (e a) (e b)) -> e pzero = rI ->
    (forall a, conj (e a) = e (popp a)) -> (forall a, padd a (popp a) = pzero) ->
    forall (V : Z -> Z -> P) (H W r0 c0 : Z) (i j : nat), 0 < H -> 0 < W ->
      gather_flat N1 N2 (flatten (pot_obj e V) W) H W r0 c0 i j = e (gather_window N1 N2 V H W r0 c0 i j).
Proof. exact potential_gather_commutes. Qed.
Print Assumptions C02_potential_gather_commutes.

Theorem C02_potential_forward_total :
  forall (R : Type) (rO rI : R) (radd rmul rsub : R -> R -> R) (ropp : R -> R),
    ring_theory rO rI radd rmul rsub ropp eq ->
    forall conj : R -> R, conj_ok radd rmul conj ->
    forall (N1 : nat) (w1 : Z -> R) (Ninv1 : R) (N2 : nat) (w2 : Z -> R) (Ninv2 : R),
    root_ok rO rI radd rmul conj N1 w1 Ninv1 ->
    root_ok rO rI radd rmul conj N2 w2 Ninv2 ->
    forall (P : Type) (padd : P -> P -> P) (popp : P -> P) (pzero : P) (e : P -> R),
    (forall a b, e (padd a b) = rmul (e a) (e b)) -> e pzero = rI ->
    (forall a, conj (e a) = e (popp a)) -> (forall a, padd a (popp a) = pzero) ->
    forall sN : R, rmul sN sN = rmul Ninv1 Ninv2 -> conj sN = sN ->
    forall (Vs : list (Z -> Z -> P)) (H W r0 c0 : Z) (phr phc : nat -> P) (ks : list (nat -> nat -> P))
           (probes : list (nat -> nat -> R)) (c mean_i : R),
      0 < H -> 0 < W -> length ks = pred (length Vs) ->
      rmul (rmul c (conj c)) (total_probe_intensity rO radd rmul conj N1 N2 probes) = mean_i ->
      sum2 rO radd N1 N2
        (forward_code rO radd rmul conj N1 w1 Ninv1 N2 w2 Ninv2 sN
           (map (fun o => flatten o W) (map (pot_obj e) Vs)) H W r0 c0
           (phase_ramp e phr) (phase_ramp e phc) (map (phase_img e) ks) (scale_modes rmul c probes))
      = mean_i.
Proof. exact potential_forward_total. Qed.
Print Assumptions C02_potential_forward_total.

(* the character hypotheses are satisfiable: e = w4 on (Z, +); two-slice potential, two modes *)
Example C02_nonvacuous_potential :
  (forall a b, w4 (a + b) = cmul (w4 a) (w4 b)) /\ w4 0 = c1 /\ (forall a, cconj (w4 a) = w4 (- a)) /\
  forall (P Q : nat -> nat -> C) (c : C),
  sum2 c0 cadd 4 4
    (forward_code c0 cadd cmul cconj 4 w4 quarter 4 w4 quarter quarter
       (map (fun o => flatten o 5) (map (pot_obj w4) [ipot 1 2; ipot 3 1])) 6 5 4 3
       (phase_ramp w4 (iphi 1)) (phase_ramp w4 (iphi 3)) (map (phase_img w4) [ikap 1]) (scale_modes cmul c [P; Q]))
  = cmul (cmul c (cconj c)) (total_probe_intensity c0 cadd cmul cconj 4 4 [P; Q]).
Proof. repeat split; [exact w4_add | exact w4_conj | exact C02i_potential]. Qed.

(* ------------------------------------------------------------------------------------------
   probe normalisation WITH MODE WEIGHTS (_apply_weights).  weights_ok M ds ps wts says: for every
   mode m, (d_m conj d_m) * energy(p_m) = wt_m * M.  Then every predicted pattern sums to
   (sum of the weights) * M.  As the code runs it — common factor c with (c conj c) * total = M, then
   per-mode factors d_m with (d_m conj d_m) * energy(c p_m) = w_m * (total after the first step),
   weights summing to one — every predicted pattern sums to M and mode m carries exactly w_m * M. *)
Theorem C02_probe_normalisation_weights :
  forall (R : Type) (rO rI : R) (radd rmul rsub : R -> R -> R) (ropp : R -> R),
    ring_theory rO rI radd rmul rsub ropp eq ->
    forall conj : R -> R, conj_ok radd rmul conj ->
    forall (N1 : nat) (w1 : Z -> R) (Ninv1 : R) (N2 : nat) (w2 : Z -> R) (Ninv2 : R),
    root_ok rO rI radd rmul conj N1 w1 Ninv1 ->
    root_ok rO rI radd rmul conj N2 w2 Ninv2 ->
    forall sN : R, rmul sN sN = rmul Ninv1 Ninv2 -> conj sN = sN ->
    forall (obj2 : list (Z -> Z -> R)) (H W r0 c0 : Z) (rr rc : nat -> R)
           (props : list (nat -> nat -> R)) (M : R) (ds : list R) (ps : list (nat -> nat -> R)) (wts : list R),
      Forall (unit2 R rI rmul conj N1 N2) (map (fun o => gather_window N1 N2 o H W r0 c0) obj2) ->
      Forall (unit2 R rI rmul conj N1 N2) props ->
      unit2 R rI rmul conj N1 N2 (fun k1 k2 => rmul (rr k1) (rc k2)) ->
      weights_ok R rO radd rmul conj N1 N2 M ds ps wts ->
      sum2 rO radd N1 N2
        (forward_ref rO radd rmul conj N1 w1 Ninv1 N2 w2 Ninv2 sN obj2 H W r0 c0 rr rc props
                     (scale_modes_w rmul ds ps)) = rmul (suml rO radd wts) M.
Proof. exact probe_normalisation_weights. Qed.
Print Assumptions C02_probe_normalisation_weights.

Theorem C02_apply_weights_code_normalises :
  forall (R : Type) (rO rI : R) (radd rmul rsub : R -> R -> R) (ropp : R -> R),
    ring_theory rO rI radd rmul rsub ropp eq ->
    forall conj : R -> R, conj_ok radd rmul conj ->
    forall (N1 : nat) (w1 : Z -> R) (Ninv1 : R) (N2 : nat) (w2 : Z -> R) (Ninv2 : R),
    root_ok rO rI radd rmul conj N1 w1 Ninv1 ->
    root_ok rO rI radd rmul conj N2 w2 Ninv2 ->
    forall sN : R, rmul sN sN = rmul Ninv1 Ninv2 -> conj sN = sN ->
    forall (obj2 : list (Z -> Z -> R)) (H W r0 c0 : Z) (rr rc : nat -> R)
           (props : list (nat -> nat -> R)) (M c : R) (ds : list R) (ps : list (nat -> nat -> R)) (wts : list R),
      Forall (unit2 R rI rmul conj N1 N2) (map (fun o => gather_window N1 N2 o H W r0 c0) obj2) ->
      Forall (unit2 R rI rmul conj N1 N2) props ->
      unit2 R rI rmul conj N1 N2 (fun k1 k2 => rmul (rr k1) (rc k2)) ->
      rmul (rmul c (conj c)) (total_probe_intensity rO radd rmul conj N1 N2 ps) = M ->
      weights_ok R rO radd rmul conj N1 N2 (total_probe_intensity rO radd rmul conj N1 N2 (scale_modes rmul c ps))
                 ds (scale_modes rmul c ps) wts ->
      suml rO radd wts = rI ->
      sum2 rO radd N1 N2
        (forward_ref rO radd rmul conj N1 w1 Ninv1 N2 w2 Ninv2 sN obj2 H W r0 c0 rr rc props
                     (apply_weights_code rmul c ds ps)) = M /\
      map (fun pr => energy2 rO radd rmul conj N1 N2 pr) (apply_weights_code rmul c ds ps)
      = map (fun wt => rmul wt M) wts.
Proof. exact apply_weights_code_normalises. Qed.
Print Assumptions C02_apply_weights_code_normalises.

Example C02_nonvacuous_weights : forall (P Q : nat -> nat -> C) (d1 d2 M wt1 wt2 : C),
  cmul (cmul d1 (cconj d1)) (energy2 c0 cadd cmul cconj 4 4 P) = cmul wt1 M ->
  cmul (cmul d2 (cconj d2)) (energy2 c0 cadd cmul cconj 4 4 Q) = cmul wt2 M ->
  sum2 c0 cadd 4 4
    (forward_ref c0 cadd cmul cconj 4 w4 quarter 4 w4 quarter quarter
       [iobj 1 2; iobj 3 1] 6 5 4 3 (iramp 1) (iramp 3) [ikern 1] (scale_modes_w cmul [d1; d2] [P; Q]))
  = cmul (suml c0 cadd [wt1; wt2]) M.
Proof. exact C02i_weights. Qed.


(* ==========================================================================================
   round 4 — model definitions that harness/c02_tie.py ties to the CURRENT source by theorem on every run
   (coq/gen_proofs/C02_GenProperties.v); the statements below are about those definitions. *)

(* the patch-index cache of PtychographyDatasetRaster.forward: whatever positions the cache was computed for
   (learned / clipped / re-preprocessed positions), the indices returned for a batch are the windows of the CURRENT
   rounded positions — for every scan, batch, object and ROI size *)
Theorem C02_forward_returns_current_windows :
  forall H W n m cached_pos cache pos batch,
    cache = patch_indices_all H W n m cached_pos ->
    Forall (fun b => 0 <= b < Z.of_nat (length pos)) batch ->
    fst (fst (forward_indices H W n m cached_pos cache pos batch)) =
    map (fun b => let p := nth (Z.to_nat b) pos (0 # 1, 0 # 1)%Q in
                  patch_indices H W n m (round_half_even (fst p)) (round_half_even (snd p))) batch.
Proof. exact forward_indices_correct. Qed.
Print Assumptions C02_forward_returns_current_windows.

Example C02_nonvacuous_cache :
  let old := [(1 # 1, 1 # 1)]%Q in let new := [(9 # 4, 1 # 1)]%Q in
  need_update old new = true /\
  fst (fst (forward_indices 6 5 3 2 old (patch_indices_all 6 5 3 2 old) new [0])) = [[[11; 10]; [16; 15]; [6; 5]]] /\
  need_update old [(5 # 4, 3 # 4)]%Q = false.
Proof. vm_compute. repeat split; reflexivity. Qed.

(* the object holds the raster: with the crop shape floor(fov/sampling) + 2 made even, every scan coordinate in
   [0, floor(fov/sampling) + 1] moved by the padding lies inside [0, shape - 1]: clip_scan_positions moves nothing *)
Theorem C02_object_holds_raster :
  forall F pad (q : Q),
    0 <= pad -> (0 <= q)%Q -> (q <= inject_Z (F + 1))%Q ->
    (obj_shape_crop F) mod 2 = 0 /\
    (0 <= q + inject_Z pad)%Q /\ (q + inject_Z pad <= inject_Z (obj_shape_full (obj_shape_crop F) pad - 1))%Q.
Proof.
  exact (fun F pad q Hp H0 H1 => conj (proj1 (obj_shape_crop_spec F)) (raster_inside_object F Hp H0 H1)).
Qed.
Print Assumptions C02_object_holds_raster.

(* adjust_padding_power2: for an even object shape and every level >= 1 the adjusted padding makes the padded shape
   divisible by 2^level, never shrinks the padding and adds less than 2^(level-1); an odd shape raises *)
Theorem C02_adjust_pad_divisible :
  forall level s0 s1 p0 p1, 1 <= level -> s0 mod 2 = 0 -> s1 mod 2 = 0 ->
    exists q0 q1, adjust_pad level s0 s1 p0 p1 = Some (q0, q1) /\
                  (s0 + 2 * q0) mod 2 ^ level = 0 /\ (s1 + 2 * q1) mod 2 ^ level = 0 /\
                  p0 <= q0 < p0 + 2 ^ (level - 1) /\ p1 <= q1 < p1 + 2 ^ (level - 1).
Proof. exact adjust_pad_spec. Qed.
Print Assumptions C02_adjust_pad_divisible.

Theorem C02_adjust_pad_odd_raises :
  forall level s0 s1 p0 p1, 1 <= level -> s0 mod 2 = 1 -> adjust_pad level s0 s1 p0 p1 = None.
Proof. exact adjust_pad_odd_raises. Qed.
Print Assumptions C02_adjust_pad_odd_raises.

Example C02_nonvacuous_adjust_pad :
  adjust_pad 3 14 18 4 4 = Some (5, 7) /\ adjust_pad 3 15 18 4 4 = None /\ obj_shape_crop 12 = 14 /\ obj_shape_crop 13 = 16.
Proof. vm_compute. repeat split; reflexivity. Qed.

(* history of a dataset object: after ANY sequence of preprocessings and target selections, the targets a loss is
   compared against are never those of an earlier preprocessing, and after a final selection they are the selected
   array as the last preprocessing wrote it *)
Theorem C02_targets_never_stale :
  forall ops st,
    (forall s v, d_targets st = Some (s, v) -> v = d_version st) ->
    forall s v, d_targets (drun ops st) = Some (s, v) -> v = d_version (drun ops st).
Proof. exact targets_never_stale. Qed.
Print Assumptions C02_targets_never_stale.

Theorem C02_targets_after_history :
  forall ops st lt learned,
    d_targets (drun (ops ++ [SetTargets lt learned]) st) = Some (target_source lt learned, d_version (drun ops st)).
Proof. exact targets_after_history. Qed.
Print Assumptions C02_targets_after_history.

Example C02_nonvacuous_targets :
  let st0 := {| d_version := 0; d_targets := None |} in
  d_targets (drun [Preprocess false; SetTargets L2_intensity false; Preprocess false] st0) = Some (CenteredAmplitudes, 2%nat) /\
  d_targets (drun [Preprocess false; Preprocess false; SetTargets L1_amplitude false] st0) = Some (CenteredAmplitudes, 2%nat).
Proof. vm_compute. split; reflexivity. Qed.

(* ------------------------------------------------------------------------------------------
   the ORDER of the incoherent probe modes is not observable (round 6): the pipeline as the code runs
   it predicts the same pattern for every permutation of the mode list — the order in which a caller
   hands the modes to the probe setter, or the re-ordering by intensity that the orthogonalisation
   constraint applies, cannot change a loss.  Every ROI size, any number of slices and modes. *)
Theorem C02_mode_order_irrelevant :
  forall (R : Type) (rO rI : R) (radd rmul rsub : R -> R -> R) (ropp : R -> R),
    ring_theory rO rI radd rmul rsub ropp eq ->
    forall (conj : R -> R) (N1 : nat) (w1 : Z -> R) (Ninv1 : R) (N2 : nat) (w2 : Z -> R) (Ninv2 : R)
           (sN : R) (objf : list (Z -> R)) (H W r0 c0 : Z) (rr rc : nat -> R)
           (props probes probes' : list (nat -> nat -> R)) (k1 k2 : nat),
      Permutation probes probes' ->
      forward_code rO radd rmul conj N1 w1 Ninv1 N2 w2 Ninv2 sN objf H W r0 c0 rr rc props probes k1 k2
      = forward_code rO radd rmul conj N1 w1 Ninv1 N2 w2 Ninv2 sN objf H W r0 c0 rr rc props probes' k1 k2.
Proof. exact forward_code_mode_order. Qed.
Print Assumptions C02_mode_order_irrelevant.

Example C02_nonvacuous_mode_order : forall (P Q S : nat -> nat -> C) k1 k2,
  forward_code c0 cadd cmul cconj 4 w4 quarter 4 w4 quarter quarter
               (map (fun o => flatten o 5) [iobj 1 2; iobj 3 1]) 6 5 4 3 (iramp 1) (iramp 3) [ikern 1] [P; Q; S] k1 k2
  = forward_code c0 cadd cmul cconj 4 w4 quarter 4 w4 quarter quarter
               (map (fun o => flatten o 5) [iobj 1 2; iobj 3 1]) 6 5 4 3 (iramp 1) (iramp 3) [ikern 1] [S; P; Q] k1 k2.
Proof.
  intros P Q S k1 k2. apply (C02_mode_order_irrelevant C c0 c1 cadd cmul csub copp C_ring).
  apply Permutation_sym. change [S; P; Q] with (S :: [P; Q]). change [P; Q; S] with ([P; Q] ++ [S]).
  apply Permutation_cons_append.
Qed.
