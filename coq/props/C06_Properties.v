(* C06 — Dataset binning, Fourier resampling, padding and cropping obey conservation laws.
   This file contains ONLY the property theorems (closed by `exact`), their assumption
   reports, and non-vacuity examples.

   bin / pad / crop: flat row-major tensors over canonical rationals Qc (Leibniz equality); an
   axis a of a tensor of shape sh is addressed through its (outer, n, inner) view: element
   (o, i, k) lives at flat index (o*n + i)*inner + k.  Statements hold for every shape, every
   axis (subset) and every factor; f = 0 makes n / f = 0 blocks, so f >= 1 is only needed where
   a mean over f items is taken.
   Fourier resampling: the one-axis pipeline dft -> fftshift -> centred crop / zero pad ->
   ifftshift -> idft -> scale m/n over ANY commutative ring with conjugation and root-of-unity
   families of the two sizes (premises ring_theory / conj_ok / root_ok of lib/DFT.v, shown
   satisfiable below in Q(i)); all sizes n, m >= 1.  C06_resample_axis_lines lifts the one-axis
   statements to every line of any axis of an N-D array. *)
From QV.lib Require Import Prelude FinSum DFT DFT_Inst.
From QV.lib Require Import C06_Eisenstein.
From QV.model Require Import C06_Model C06_ModelND.
From QV.proof Require Import C06_Proofs C06_Proofs_Resample C06_Proofs_ND.
From QV.proof Require Import C06_Proofs_Index C06_Proofs_BinND C06_Proofs_Sep C06_Proofs_SepCor.
From Coq Require Import QArith Qcanon PrimFloat.
Local Close Scope Q_scope.
Local Close Scope Qc_scope.

(* ================================================================== binning: data *)

(* every output pixel is the sum of exactly the f pixels of its block (one binned axis seen
   through the (outer, n, inner) view: any axis of an array of any dimension) *)
Theorem C06_bin_block_sum :
  forall (outer n inner f : nat) (x : list Qc) (o j k : nat),
    length x = outer * (n * inner) -> o < outer -> j < n / f -> k < inner ->
    nth ((o * (n / f) + j) * inner + k) (bin_axis outer n inner f x) 0%Qc
    = FinSum.sumn 0%Qc Qcplus f (fun t => nth ((o * n + (j * f + t)) * inner + k) x 0%Qc).
Proof. exact bin_axis_block_sum. Qed.
Print Assumptions C06_bin_block_sum.

(* the same for Dataset.bin on an N-D tensor with one listed axis, reducer = "mean": the block
   sum divided by the block volume f *)
Theorem C06_bin_mean_block :
  forall (a f : nat) (t : tensor Qc) (o j k : nat),
    wf t -> a < length (shape t) ->
    o < outer_of a (shape t) -> j < len_of a (shape t) / f -> k < inner_of a (shape t) ->
    nth ((o * (len_of a (shape t) / f) + j) * inner_of a (shape t) + k) (data (bin_mean [(a, f)] t)) 0%Qc
    = (FinSum.sumn 0%Qc Qcplus f
         (fun u => nth ((o * len_of a (shape t) + (j * f + u)) * inner_of a (shape t) + k) (data t) 0%Qc)
       / qc_of_nat f)%Qc.
Proof. exact bin_mean_block. Qed.
Print Assumptions C06_bin_mean_block.

(* N-D, several axes at once.  Dataset.bin is, by definition of the model,
   bin_sum afs t = reduce_nd afs (take_nd afs t): cut every listed axis to its covered region,
   then reduce the listed axes one after the other.  One reduction step replaces every block
   along its axis by the block sum (any axis, any dimension) ... *)
Theorem C06_bin_nd_definition :
  forall (afs : list (nat * nat)) (t : tensor Qc),
    bin_sum afs t = fold_left (fun acc af => reduce_at (fst af) (snd af) acc) afs
                      (fold_left (fun acc af => take_at (fst af) (eff_len (len_of (fst af) (shape acc)) (snd af)) acc) afs t).
Proof. exact (fun afs t => eq_refl). Qed.
Print Assumptions C06_bin_nd_definition.

Theorem C06_bin_nd_reduce_step :
  forall (a f : nat) (t : tensor Qc) (o j k : nat),
    a < length (shape t) ->
    o < outer_of a (shape t) -> j < len_of a (shape t) / f -> k < inner_of a (shape t) ->
    nth ((o * (len_of a (shape t) / f) + j) * inner_of a (shape t) + k) (data (reduce_at a f t)) 0%Qc
    = FinSum.sumn 0%Qc Qcplus f
        (fun u => nth ((o * ((len_of a (shape t) / f) * f) + (j * f + u)) * inner_of a (shape t) + k) (data t) 0%Qc).
Proof. exact reduce_at_block_sum. Qed.
Print Assumptions C06_bin_nd_reduce_step.

(* ... and one cut step keeps exactly the entries with axis index below L *)
Theorem C06_bin_nd_cut_step :
  forall (A : Type) (a L : nat) (t : tensor A) (o i k : nat) (d : A),
    wf t -> a < length (shape t) -> L <= len_of a (shape t) ->
    o < outer_of a (shape t) -> i < L -> k < inner_of a (shape t) ->
    nth ((o * L + i) * inner_of a (shape t) + k) (data (take_at a L t)) d
    = nth ((o * len_of a (shape t) + i) * inner_of a (shape t) + k) (data t) d.
Proof. exact @take_at_nth. Qed.
Print Assumptions C06_bin_nd_cut_step.

(* N-D, any set of distinct axes, any factors: the result has n / f entries on every binned
   axis and the other axes are untouched *)
Theorem C06_bin_shape :
  forall (afs : list (nat * nat)) (t : tensor Qc),
    wf t -> axes_ok afs (length (shape t)) ->
    wf (bin_sum afs t) /\
    length (shape (bin_sum afs t)) = length (shape t) /\
    (forall b, ~ In b (map fst afs) -> len_of b (shape (bin_sum afs t)) = len_of b (shape t)) /\
    (forall af, In af afs -> len_of (fst af) (shape (bin_sum afs t)) = len_of (fst af) (shape t) / snd af).
Proof. exact bin_sum_shape. Qed.
Print Assumptions C06_bin_shape.

(* counts, N-D, any axis subset, any factors (dividing or not): the binned array carries the
   total of the covered region array[0:(n0//f0)*f0, ...] *)
Theorem C06_bin_counts :
  forall (afs : list (nat * nat)) (t : tensor Qc),
    wf t -> axes_ok afs (length (shape t)) ->
    FinSum.suml 0%Qc Qcplus (data (bin_sum afs t)) = FinSum.suml 0%Qc Qcplus (data (take_nd afs t)).
Proof. exact bin_sum_counts. Qed.
Print Assumptions C06_bin_counts.

(* the covered region: every listed axis is cut to (n // f) * f leading entries, nothing else *)
Theorem C06_bin_covered_region :
  forall (afs : list (nat * nat)) (t : tensor Qc),
    wf t -> axes_ok afs (length (shape t)) ->
    wf (take_nd afs t) /\ length (shape (take_nd afs t)) = length (shape t) /\
    (forall b, ~ In b (map fst afs) -> len_of b (shape (take_nd afs t)) = len_of b (shape t)) /\
    (forall af, In af afs ->
       len_of (fst af) (shape (take_nd afs t)) = eff_len (len_of (fst af) (shape t)) (snd af)).
Proof. exact take_nd_props. Qed.
Print Assumptions C06_bin_covered_region.

(* when every factor divides its axis nothing is dropped and the total is preserved *)
Theorem C06_bin_counts_divisible :
  forall (afs : list (nat * nat)) (t : tensor Qc),
    wf t -> axes_ok afs (length (shape t)) ->
    (forall af, In af afs -> len_of (fst af) (shape t) mod (snd af) = 0) ->
    FinSum.suml 0%Qc Qcplus (data (bin_sum afs t)) = FinSum.suml 0%Qc Qcplus (data t).
Proof. exact bin_sum_counts_divisible. Qed.
Print Assumptions C06_bin_counts_divisible.

(* reducer = "mean": total = total of the covered region / block volume *)
Theorem C06_bin_mean_counts :
  forall (afs : list (nat * nat)) (t : tensor Qc),
    wf t -> axes_ok afs (length (shape t)) ->
    FinSum.suml 0%Qc Qcplus (data (bin_mean afs t))
    = (FinSum.suml 0%Qc Qcplus (data (take_nd afs t)) / qc_of_nat (block_volume afs))%Qc.
Proof. exact bin_mean_counts. Qed.
Print Assumptions C06_bin_mean_counts.

(* only the trailing n mod f entries of the axis are dropped: the result is a function of the
   entries with axis index below n - n mod f ... *)
Theorem C06_bin_drops_only_tail :
  forall (outer n inner f : nat) (x y : list Qc),
    length x = outer * (n * inner) -> length y = outer * (n * inner) ->
    (forall o i k, o < outer -> i < n - n mod f -> k < inner ->
       nth ((o * n + i) * inner + k) x 0%Qc = nth ((o * n + i) * inner + k) y 0%Qc) ->
    bin_axis outer n inner f x = bin_axis outer n inner f y.
Proof. exact bin_axis_drops_only_tail. Qed.
Print Assumptions C06_bin_drops_only_tail.

(* ... and every one of those entries belongs to exactly one block (i / f, offset i mod f) *)
Theorem C06_bin_covered_blocks :
  forall n f i : nat, 1 <= f ->
    (i < n - n mod f <-> (i / f < n / f /\ i = (i / f) * f + i mod f /\ i mod f < f)).
Proof. exact covered_blocks. Qed.
Print Assumptions C06_bin_covered_blocks.

(* ================================================================== binning: metadata *)

Theorem C06_bin_sampling :
  forall (f : nat) (s : Qc), bin_sampling f s = (qc_of_nat f * s)%Qc.
Proof. exact bin_sampling_scaled. Qed.
Print Assumptions C06_bin_sampling.

(* origin + 0.5 * (f - 1) * sampling is the mean coordinate of the first block *)
Theorem C06_bin_origin_is_block_mean :
  forall (f : nat) (o s : Qc), 1 <= f ->
    bin_origin f o s = (FinSum.sumn 0%Qc Qcplus f (coord o s) / qc_of_nat f)%Qc.
Proof. exact bin_origin_is_block_mean. Qed.
Print Assumptions C06_bin_origin_is_block_mean.

(* the physical coordinate of EVERY binned pixel j is the mean coordinate of its block *)
Theorem C06_bin_centres :
  forall (f : nat) (o s : Qc) (j : nat), 1 <= f ->
    coord (bin_origin f o s) (bin_sampling f s) j
    = (FinSum.sumn 0%Qc Qcplus f (fun t => coord o s (j * f + t)) / qc_of_nat f)%Qc.
Proof. exact bin_centres. Qed.
Print Assumptions C06_bin_centres.

(* N-D: every listed axis gets exactly that origin and sampling, ... *)
Theorem C06_bin_meta_binned_axes :
  forall (afs : list (nat * nat)) (m : meta) (nd a f : nat),
    meta_ok m nd -> axes_ok afs nd -> In (a, f) afs ->
    nth a (origin (bin_meta afs m)) 0%Qc = bin_origin f (nth a (origin m) 0%Qc) (nth a (sampling m) 0%Qc) /\
    nth a (sampling (bin_meta afs m)) 0%Qc = bin_sampling f (nth a (sampling m) 0%Qc).
Proof. exact bin_meta_nd. Qed.
Print Assumptions C06_bin_meta_binned_axes.

(* ... every other axis keeps its calibration *)
Theorem C06_bin_meta_other_axes :
  forall (afs : list (nat * nat)) (m : meta) (nd b : nat),
    meta_ok m nd -> axes_ok afs nd -> ~ In b (map fst afs) ->
    nth b (origin (bin_meta afs m)) 0%Qc = nth b (origin m) 0%Qc /\
    nth b (sampling (bin_meta afs m)) 0%Qc = nth b (sampling m) 0%Qc.
Proof. exact bin_meta_other. Qed.
Print Assumptions C06_bin_meta_other_axes.

(* ================================================================== Fourier resampling *)

(* the array mean is preserved, any n -> m (up or down, odd <-> even), complex pipeline *)
Theorem C06_resample_mean :
  forall (R : Type) (rO rI : R) (radd rmul rsub : R -> R -> R) (ropp : R -> R),
    ring_theory rO rI radd rmul rsub ropp eq ->
    forall conj : R -> R, conj_ok radd rmul conj ->
    forall (n m : nat) (wn wm : Z -> R) (ninv minv : R),
      root_ok rO rI radd rmul conj n wn ninv -> root_ok rO rI radd rmul conj m wm minv ->
      forall x : nat -> R,
        rmul minv (sumn rO radd m (resample rO rI radd rmul n m wn wm ninv minv x))
        = rmul ninv (sumn rO radd n x).
Proof. exact resample_mean. Qed.
Print Assumptions C06_resample_mean.

(* ... and for real input, where the code returns `.real` of the inverse transform *)
Theorem C06_resample_real_mean :
  forall (R : Type) (rO rI : R) (radd rmul rsub : R -> R -> R) (ropp : R -> R),
    ring_theory rO rI radd rmul rsub ropp eq ->
    forall conj : R -> R, conj_ok radd rmul conj ->
    forall rhalf : R, rmul rhalf (radd rI rI) = rI ->
    forall (n m : nat) (wn wm : Z -> R) (ninv minv : R),
      root_ok rO rI radd rmul conj n wn ninv -> root_ok rO rI radd rmul conj m wm minv ->
      forall x : nat -> R,
        (forall i, i < n -> conj (x i) = x i) ->
        rmul minv (sumn rO radd m (resample_re rO rI radd rmul conj rhalf n m wn wm ninv minv x))
        = rmul ninv (sumn rO radd n x).
Proof. exact resample_re_mean. Qed.
Print Assumptions C06_resample_real_mean.

(* unchanged shape: the identity *)
Theorem C06_resample_id :
  forall (R : Type) (rO rI : R) (radd rmul rsub : R -> R -> R) (ropp : R -> R),
    ring_theory rO rI radd rmul rsub ropp eq ->
    forall conj : R -> R, conj_ok radd rmul conj ->
    forall (n : nat) (w : Z -> R) (ninv : R),
      root_ok rO rI radd rmul conj n w ninv ->
      forall (x : nat -> R) (j : nat),
        j < n -> resample rO rI radd rmul n n w w ninv ninv x j = x j.
Proof. exact resample_id. Qed.
Print Assumptions C06_resample_id.

Theorem C06_resample_real_id :
  forall (R : Type) (rO rI : R) (radd rmul rsub : R -> R -> R) (ropp : R -> R),
    ring_theory rO rI radd rmul rsub ropp eq ->
    forall conj : R -> R, conj_ok radd rmul conj ->
    forall rhalf : R, rmul rhalf (radd rI rI) = rI ->
    forall (n : nat) (w : Z -> R) (ninv : R),
      root_ok rO rI radd rmul conj n w ninv ->
      forall (x : nat -> R) (j : nat),
        j < n -> (forall i, i < n -> conj (x i) = x i) ->
        resample_re rO rI radd rmul conj rhalf n n w w ninv ninv x j = x j.
Proof. exact resample_re_id. Qed.
Print Assumptions C06_resample_real_id.

(* linearity (complex coefficients for the complex pipeline, real ones for the real one) *)
Theorem C06_resample_linear :
  forall (R : Type) (rO rI : R) (radd rmul rsub : R -> R -> R) (ropp : R -> R),
    ring_theory rO rI radd rmul rsub ropp eq ->
    forall conj : R -> R, conj_ok radd rmul conj ->
    forall (n m : nat) (wn wm : Z -> R) (ninv minv : R),
      root_ok rO rI radd rmul conj n wn ninv -> root_ok rO rI radd rmul conj m wm minv ->
      forall (a b : R) (x y : nat -> R) (j : nat),
        resample rO rI radd rmul n m wn wm ninv minv (fun i => radd (rmul a (x i)) (rmul b (y i))) j
        = radd (rmul a (resample rO rI radd rmul n m wn wm ninv minv x j))
               (rmul b (resample rO rI radd rmul n m wn wm ninv minv y j)).
Proof. exact resample_linear. Qed.
Print Assumptions C06_resample_linear.

Theorem C06_resample_real_linear :
  forall (R : Type) (rO rI : R) (radd rmul rsub : R -> R -> R) (ropp : R -> R),
    ring_theory rO rI radd rmul rsub ropp eq ->
    forall conj : R -> R, conj_ok radd rmul conj ->
    forall rhalf : R, rmul rhalf (radd rI rI) = rI ->
    forall (n m : nat) (wn wm : Z -> R) (ninv minv : R),
      root_ok rO rI radd rmul conj n wn ninv -> root_ok rO rI radd rmul conj m wm minv ->
      forall (a b : R) (x y : nat -> R) (j : nat),
        conj a = a -> conj b = b ->
        resample_re rO rI radd rmul conj rhalf n m wn wm ninv minv (fun i => radd (rmul a (x i)) (rmul b (y i))) j
        = radd (rmul a (resample_re rO rI radd rmul conj rhalf n m wn wm ninv minv x j))
               (rmul b (resample_re rO rI radd rmul conj rhalf n m wn wm ninv minv y j)).
Proof. exact resample_re_linear. Qed.
Print Assumptions C06_resample_real_linear.

(* what the crop / zero pad does to the spectrum, in signed frequencies: output bin k (signed
   frequency sfreq m k in -(m//2) .. m-m//2-1) takes the input bin of the same signed frequency
   when that lies in the input band -(n//2) .. n-n//2-1, and is zero otherwise *)
Theorem C06_resample_spectrum :
  forall (R : Type) (rO rI : R) (radd rmul rsub : R -> R -> R) (ropp : R -> R),
    ring_theory rO rI radd rmul rsub ropp eq ->
    forall conj : R -> R, conj_ok radd rmul conj ->
    forall (n m : nat) (X : nat -> R) (k : nat),
      0 < n -> 0 < m -> k < m ->
      respectrum rO n m X k = (if in_band n (sfreq m k) then X (zidx n (sfreq m k)) else rO).
Proof. exact respectrum_index. Qed.
Print Assumptions C06_resample_spectrum.

(* up-sampling n -> m >= n followed by down-sampling m -> n returns the original data.
   Complex pipeline (complex input): for EVERY signal, whatever its Nyquist content *)
Theorem C06_resample_updown :
  forall (R : Type) (rO rI : R) (radd rmul rsub : R -> R -> R) (ropp : R -> R),
    ring_theory rO rI radd rmul rsub ropp eq ->
    forall conj : R -> R, conj_ok radd rmul conj ->
    forall (n m : nat) (wn wm : Z -> R) (ninv minv : R),
      root_ok rO rI radd rmul conj n wn ninv -> root_ok rO rI radd rmul conj m wm minv ->
      forall (x : nat -> R) (j : nat),
        n <= m -> j < n ->
        resample rO rI radd rmul m n wm wn minv ninv (resample rO rI radd rmul n m wn wm ninv minv x) j = x j.
Proof. exact resample_updown_complex. Qed.
Print Assumptions C06_resample_updown.

(* real input (`.real` is taken after each of the two calls): for every real signal without
   Nyquist-frequency content — n odd (no Nyquist bin), or n even with a zero Nyquist bin *)
Theorem C06_resample_real_updown :
  forall (R : Type) (rO rI : R) (radd rmul rsub : R -> R -> R) (ropp : R -> R),
    ring_theory rO rI radd rmul rsub ropp eq ->
    forall conj : R -> R, conj_ok radd rmul conj ->
    forall rhalf : R, rmul rhalf (radd rI rI) = rI ->
    forall (n m : nat) (wn wm : Z -> R) (ninv minv : R),
      root_ok rO rI radd rmul conj n wn ninv -> root_ok rO rI radd rmul conj m wm minv ->
      forall (x : nat -> R) (j : nat),
        n <= m -> j < n ->
        (forall i, i < n -> conj (x i) = x i) ->
        (Nat.odd n = true \/ dft rO radd rmul n wn x (n / 2) = rO) ->
        resample_re rO rI radd rmul conj rhalf m n wm wn minv ninv
          (resample_re rO rI radd rmul conj rhalf n m wn wm ninv minv x) j = x j.
Proof. exact resample_re_updown. Qed.
Print Assumptions C06_resample_real_updown.

(* under the same hypothesis the up-sampled signal is itself real: `.real` discards nothing *)
Theorem C06_resample_up_real :
  forall (R : Type) (rO rI : R) (radd rmul rsub : R -> R -> R) (ropp : R -> R),
    ring_theory rO rI radd rmul rsub ropp eq ->
    forall conj : R -> R, conj_ok radd rmul conj ->
    forall rhalf : R, rmul rhalf (radd rI rI) = rI ->
    forall (n m : nat) (wn wm : Z -> R) (ninv minv : R),
      root_ok rO rI radd rmul conj n wn ninv -> root_ok rO rI radd rmul conj m wm minv ->
      forall (x : nat -> R) (j : nat),
        n <= m ->
        (forall i, i < n -> conj (x i) = x i) ->
        (Nat.odd n = true \/ dft rO radd rmul n wn x (n / 2) = rO) ->
        conj (resample rO rI radd rmul n m wn wm ninv minv x j) = resample rO rI radd rmul n m wn wm ninv minv x j.
Proof. exact up_real. Qed.
Print Assumptions C06_resample_up_real.

(* N-D: resampling along an axis of an N-D buffer ((outer, n, inner) view) puts into output
   line (o, :, k) the one-axis resample of input line (o, :, k) — so every statement above holds
   line by line along any axis of an array of any dimension *)
Theorem C06_resample_axis_lines :
  forall (R : Type) (rO rI : R) (radd rmul : R -> R -> R) (tw : nat -> Z -> R) (inv : nat -> R)
         (outer n inner m : nat) (x : list R) (o j k : nat),
    o < outer -> j < m -> k < inner ->
    nth ((o * m + j) * inner + k) (resample_axis rO rI radd rmul tw inv outer n inner m x) rO
    = resample rO rI radd rmul n m (tw n) (tw m) (inv n) (inv m) (line rO n inner o k x) j.
Proof. exact resample_axis_nth. Qed.
Print Assumptions C06_resample_axis_lines.

(* metadata: the field of view m * s' = n * s and the physical centre are preserved; an
   unchanged shape leaves the calibration unchanged *)
Theorem C06_resample_extent :
  forall (n m : nat) (s : Qc), 1 <= n -> 1 <= m ->
    (qc_of_nat m * resample_sampling n m s = qc_of_nat n * s)%Qc.
Proof. exact resample_extent. Qed.
Print Assumptions C06_resample_extent.

Theorem C06_resample_centre :
  forall (n m : nat) (o s : Qc),
    (resample_origin n m o s + ((qc_of_nat m - 1) / (1 + 1)) * resample_sampling n m s
     = o + ((qc_of_nat n - 1) / (1 + 1)) * s)%Qc.
Proof. exact resample_centre. Qed.
Print Assumptions C06_resample_centre.

Theorem C06_resample_meta_id :
  forall (n : nat) (o s : Qc), 1 <= n ->
    resample_sampling n n s = s /\ resample_origin n n o s = o.
Proof. exact resample_meta_id. Qed.
Print Assumptions C06_resample_meta_id.

(* ================================================================== pad / crop *)

(* Dataset.pad(output_shape = out) followed by Dataset.crop with the pad widths
   ((before, -after) per axis; after = 0 means "to the end") returns the original tensor —
   any element type, any dimension, ANY out (axes with out < shape get zero widths) *)
Theorem C06_crop_pad_id :
  forall (A : Type) (zero : A) (t : tensor A) (out : list nat),
    wf t -> length out = length (shape t) ->
    crop_nd (uncrop_specs (pad_widths_to (shape t) out)) (pad zero (PadShape out) t) = t.
Proof. exact @crop_pad_id. Qed.
Print Assumptions C06_crop_pad_id.

(* the same for explicit pad widths *)
Theorem C06_crop_pad_widths_id :
  forall (A : Type) (zero : A) (t : tensor A) (widths : list (nat * nat)),
    wf t -> length widths <= length (shape t) ->
    crop_nd (uncrop_specs widths) (pad_nd zero widths t) = t.
Proof. exact @crop_pad_widths_id. Qed.
Print Assumptions C06_crop_pad_widths_id.

(* when out >= shape on every axis, the padded shape is exactly out *)
Theorem C06_pad_to_shape_shape :
  forall (A : Type) (zero : A) (t : tensor A) (out : list nat),
    Forall2 le (shape t) out -> shape (pad zero (PadShape out) t) = out.
Proof. exact @pad_to_shape_shape. Qed.
Print Assumptions C06_pad_to_shape_shape.

(* ================================================================== non-vacuity *)
Definition ex_t : tensor Qc := mkT [5; 3] (qci [1; 2; 3;  4; 5; 6;  7; 8; 9;  10; 11; 12;  13; 14; 15]%Z).

(* 5 x 3 binned by (2, 2): the last row and the last column are dropped *)
Example C06_nonvacuous_bin :
  wf ex_t /\ axes_ok [(0, 2); (1, 2)] (length (shape ex_t)) /\
  show_t (bin_sum [(0, 2); (1, 2)] ex_t) = ([2; 1]%Z, [(12, 1); (36, 1)]%Z) /\
  show_t (take_nd [(0, 2); (1, 2)] ex_t) = ([4; 2]%Z, [(1, 1); (2, 1); (4, 1); (5, 1); (7, 1); (8, 1); (10, 1); (11, 1)]%Z) /\
  show_t (bin_mean [(0, 2)] ex_t) = ([2; 3]%Z, [(5, 2); (7, 2); (9, 2); (17, 2); (19, 2); (21, 2)]%Z) /\
  2 < len_of 0 (shape ex_t) / 2 + 1 /\ len_of 0 (shape ex_t) mod 2 = 1.
Proof.
  split; [reflexivity|]. split.
  - split; [repeat constructor; cbn; intuition lia|].
    intros af [<-|[<-|[]]]; cbn; lia.
  - repeat split; vm_compute; try reflexivity; lia.
Qed.

Example C06_nonvacuous_bin_divisible :
  let t := mkT [4; 3] (qci [1; 2; 3;  4; 5; 6;  7; 8; 9;  10; 11; 12]%Z) in
  wf t /\ (forall af, In af [(0, 2); (1, 3)] -> len_of (fst af) (shape t) mod (snd af) = 0) /\
  show_t (bin_sum [(0, 2); (1, 3)] t) = ([2; 1]%Z, [(21, 1); (57, 1)]%Z).
Proof.
  split; [reflexivity|]. split; [|vm_compute; reflexivity].
  intros af [<-|[<-|[]]]; reflexivity.
Qed.

Example C06_nonvacuous_bin_meta :
  let m := mkM (qcl [(1, 1); (2, 1)]%Z) (qcl [(1, 2); (1, 4)]%Z) in
  meta_ok m 2 /\ axes_ok [(1, 3)] 2 /\
  show_m (bin_meta [(1, 3)] m) = ([(1, 1); (9, 4)]%Z, [(1, 2); (3, 4)]%Z) /\
  show_qc (coord (bin_origin 3 (Q2Qc 2) (Q2Qc (1 # 4))) (bin_sampling 3 (Q2Qc (1 # 4))) 2) = (15, 4)%Z.
Proof.
  split; [split; reflexivity|]. split.
  - split; [repeat constructor; cbn; intuition|]. intros af [<-|[]]; cbn; lia.
  - split; vm_compute; reflexivity.
Qed.

Example C06_nonvacuous_crop_pad :
  let t := mkT [2; 3] [1; 2; 3; 4; 5; 6]%Z in
  wf t /\ Forall2 le (shape t) [5; 4] /\
  pad_widths_to (shape t) [5; 4] = [(1, 2); (0, 1)] /\
  show_ti (pad 0%Z (PadShape [5; 4]) t)
  = ([5; 4]%Z, [0; 0; 0; 0;  1; 2; 3; 0;  4; 5; 6; 0;  0; 0; 0; 0;  0; 0; 0; 0]%Z) /\
  uncrop_specs (pad_widths_to (shape t) [5; 4]) = [(0, (1, -2)%Z); (1, (0, -1)%Z)].
Proof.
  split; [reflexivity|]. split; [repeat constructor|].
  repeat split; vm_compute; reflexivity.
Qed.

(* the ring / conjugation / root-of-unity hypotheses are satisfiable for two DIFFERENT sizes
   at once: Gaussian rationals Q(i), sizes 2 and 4 (and 1).  Up-sampling [1; 3] to 4 samples
   gives [1; 2+i; 3; 2-i]: mean 2 on both sides; down-sampling back returns [1; 3] even though
   [1; 3] has Nyquist content (complex pipeline); down-sampling [1; 2; 3; 2] gives [3/2; 5/2],
   mean 2 again *)
Definition ex_c (l : list Z) : nat -> C := fun i => (Q2Qc (nth i l 0%Z # 1), 0%Qc).
Definition ex_show (N : nat) (f : nat -> C) := map (fun i => (show_qc (fst (f i)), show_qc (snd (f i)))) (seq 0 N).
Definition ex_up := resample c0 c1 cadd cmul 2 4 w2 w4 chalf quarter.
Definition ex_down := resample c0 c1 cadd cmul 4 2 w4 w2 quarter chalf.

Example C06_nonvacuous_resample :
  ring_theory c0 c1 cadd cmul csub copp eq /\ conj_ok cadd cmul cconj /\
  root_ok c0 c1 cadd cmul cconj 1 w1 c1 /\
  root_ok c0 c1 cadd cmul cconj 2 w2 chalf /\ root_ok c0 c1 cadd cmul cconj 4 w4 quarter /\
  cmul chalf (cadd c1 c1) = c1 /\
  ex_show 4 (ex_up (ex_c [1; 3]%Z)) = [((1, 1), (0, 1)); ((2, 1), (1, 1)); ((3, 1), (0, 1)); ((2, 1), (-1, 1))]%Z /\
  ex_show 2 (ex_down (ex_up (ex_c [1; 3]%Z))) = [((1, 1), (0, 1)); ((3, 1), (0, 1))]%Z /\
  ex_show 2 (ex_down (ex_c [1; 2; 3; 2]%Z)) = [((3, 2), (0, 1)); ((5, 2), (0, 1))]%Z.
Proof.
  split; [exact C_ring|]. split; [exact C_conj_ok|]. split; [exact C_root_ok_1|].
  split; [exact C_root_ok_2|]. split; [exact C_root_ok|]. split; [exact chalf_ok|].
  repeat split; vm_compute; reflexivity.
Qed.

(* hypotheses of the real up/down theorem with an even n: [1; 2; 3; 2] is real and its Nyquist
   bin (k = 2 of 4) is 1 - 2 + 3 - 2 = 0; a size-1 signal is the odd case *)
Example C06_nonvacuous_real_updown :
  (forall i, i < 4 -> cconj (ex_c [1; 2; 3; 2]%Z i) = ex_c [1; 2; 3; 2]%Z i) /\
  (Nat.odd 4 = true \/ dft c0 cadd cmul 4 w4 (ex_c [1; 2; 3; 2]%Z) (4 / 2) = c0) /\
  (Nat.odd 1 = true \/ dft c0 cadd cmul 1 w1 (ex_c [7]%Z) (1 / 2) = c0) /\
  ex_show 4 (resample_re c0 c1 cadd cmul cconj chalf 1 4 w1 w4 c1 quarter (ex_c [7]%Z))
  = [((7, 1), (0, 1)); ((7, 1), (0, 1)); ((7, 1), (0, 1)); ((7, 1), (0, 1))]%Z /\
  ex_show 4 (resample_re c0 c1 cadd cmul cconj chalf 4 4 w4 w4 quarter quarter (ex_c [1; 2; 3; 2]%Z))
  = [((1, 1), (0, 1)); ((2, 1), (0, 1)); ((3, 1), (0, 1)); ((2, 1), (0, 1))]%Z.
Proof.
  split.
  - intros i Hi. unfold ex_c, cconj. cbn [fst snd]. f_equal; apply Qc_is_canon; reflexivity.
  - split; [right; vm_compute; reflexivity|]. split; [left; reflexivity|].
    split; vm_compute; reflexivity.
Qed.

(* a real signal WITH Nyquist content is not returned by the real up/down round trip (the
   hypothesis of C06_resample_real_updown cannot be dropped): [1; 3] -> [1; 2; 3; 2] (the
   imaginary parts +-i are discarded by `.real`) -> [3/2; 5/2] *)
Example C06_nyquist_hypothesis_needed :
  let up := resample_re c0 c1 cadd cmul cconj chalf 2 4 w2 w4 chalf quarter (ex_c [1; 3]%Z) in
  ex_show 4 up = [((1, 1), (0, 1)); ((2, 1), (0, 1)); ((3, 1), (0, 1)); ((2, 1), (0, 1))]%Z /\
  ex_show 2 (resample_re c0 c1 cadd cmul cconj chalf 4 2 w4 w2 quarter chalf up)
  = [((3, 2), (0, 1)); ((5, 2), (0, 1))]%Z /\
  dft c0 cadd cmul 2 w2 (ex_c [1; 3]%Z) (2 / 2) <> c0.
Proof. split; [vm_compute; reflexivity|]. split; [vm_compute; reflexivity|]. vm_compute. discriminate. Qed.

(* ... while a real signal of even length with an empty Nyquist bin is: [5; 5] -> 4 -> 2 *)
Example C06_nonvacuous_real_updown_even :
  let x := ex_c [5; 5]%Z in
  (Nat.odd 2 = true \/ dft c0 cadd cmul 2 w2 x (2 / 2) = c0) /\ 2 <= 4 /\
  ex_show 2 (resample_re c0 c1 cadd cmul cconj chalf 4 2 w4 w2 quarter chalf
               (resample_re c0 c1 cadd cmul cconj chalf 2 4 w2 w4 chalf quarter x))
  = [((5, 1), (0, 1)); ((5, 1), (0, 1))]%Z.
Proof. split; [right; vm_compute; reflexivity|]. split; [lia|]. vm_compute. reflexivity. Qed.

Example C06_nonvacuous_resample_meta :
  show_qc (resample_sampling 4 6 (Q2Qc (3 # 2))) = (1, 1)%Z /\
  show_qc (resample_origin 4 6 (Q2Qc 1) (Q2Qc (3 # 2))) = (3, 4)%Z /\
  out_len_of_factor 5 (15 / 10)%float = Some 8%Z /\ out_len_of_factor 5 (1 / 2)%float = Some 2%Z.
Proof. repeat split; vm_compute; reflexivity. Qed.

(* ================================================================== round 3: N-D closed forms *)

(* multi-index addressing (model/C06_ModelND.v): get d t J = the entry of t at the multi-index J =
   nth (ravel (shape t) J) (data t) d with ravel the row-major flat index; in_bounds sh J: J has one
   coordinate per axis, each below the axis length.
   BIN over several axes AT ONCE, one closed formula: output pixel J of Dataset.bin over the
   distinct axes a_1..a_k with factors f_1..f_k is the sum over all offset tuples (u_1..u_k),
   u_i < f_i, of the input pixel at the multi-index block_index afs J us ... *)
Theorem C06_bin_multi_axis_block_sum :
  forall (afs : list (nat * nat)) (t : tensor Qc) (J : list nat),
    wf t -> axes_ok afs (length (shape t)) ->
    in_bounds (shape (bin_sum afs t)) J ->
    get 0%Qc (bin_sum afs t) J = osum (map snd afs) (fun us => get 0%Qc t (block_index afs J us)).
Proof. exact bin_sum_closed. Qed.
Print Assumptions C06_bin_multi_axis_block_sum.

(* ... whose coordinate on the p-th listed axis a_p is J[a_p] * f_p + u_p, whose other coordinates
   are those of J, and which always lies inside the input array *)
Theorem C06_bin_block_index_coordinates :
  forall (afs : list (nat * nat)) (J us : list nat) (nd : nat),
    axes_ok afs nd -> length J = nd -> length us = length afs ->
    (forall p, p < length afs ->
       nth (fst (nth p afs (0, 0))) (block_index afs J us) 0
       = nth (fst (nth p afs (0, 0))) J 0 * snd (nth p afs (0, 0)) + nth p us 0) /\
    (forall b, ~ In b (map fst afs) -> nth b (block_index afs J us) 0 = nth b J 0).
Proof.
  intros afs J us nd Hok HJ Hus. split.
  - intros p Hp. apply (block_index_listed afs J us nd p); assumption.
  - intros b Hb. apply (block_index_other afs J us nd b); [destruct Hok as [_ H]; exact H | exact HJ | exact Hb].
Qed.
Print Assumptions C06_bin_block_index_coordinates.

Theorem C06_bin_block_index_in_bounds :
  forall (afs : list (nat * nat)) (sh J us : list nat),
    axes_ok afs (length sh) -> length J = length sh ->
    (forall b, b < length sh -> ~ In b (map fst afs) -> nth b J 0 < nth b sh 0) ->
    (forall af, In af afs -> nth (fst af) J 0 < nth (fst af) sh 0 / snd af) ->
    Forall2 lt us (map snd afs) ->
    in_bounds sh (block_index afs J us).
Proof. exact block_index_in_bounds. Qed.
Print Assumptions C06_bin_block_index_in_bounds.

(* reducer = "mean": the same closed block sum divided by the block volume f_1 * .. * f_k *)
Theorem C06_bin_multi_axis_block_mean :
  forall (afs : list (nat * nat)) (t : tensor Qc) (J : list nat),
    wf t -> axes_ok afs (length (shape t)) ->
    in_bounds (shape (bin_sum afs t)) J ->
    get 0%Qc (bin_mean afs t) J
    = (osum (map snd afs) (fun us => get 0%Qc t (block_index afs J us)) / qc_of_nat (block_volume afs))%Qc.
Proof. exact bin_mean_closed. Qed.
Print Assumptions C06_bin_multi_axis_block_mean.

(* binning a set of axes in ONE call = binning them one call after the other (any dimension, any
   distinct axes in any order, dividing or non-dividing factors); the calibration of the one call
   is by definition the composition of the one-axis calibrations (bin_meta is a fold) *)
Theorem C06_bin_sequential_calls :
  forall (afs : list (nat * nat)) (t : tensor Qc),
    wf t -> axes_ok afs (length (shape t)) ->
    bin_sum afs t = fold_left (fun acc af => bin_sum [af] acc) afs t.
Proof. exact bin_sum_sequential. Qed.
Print Assumptions C06_bin_sequential_calls.

(* ================================================================== round 3: N-D separability *)

(* Dataset.fourier_resample computes fftn / fftshift / centred crop-pad / ifftshift / ifftn over
   ALL listed axes at once and multiplies once by N_out / N_in (pipeline_nd).  That is EQUAL to the
   one-axis pipeline `resample` applied axis after axis (resample_nd, the executable model and the
   subject of the one-axis theorems) — any commutative ring, any dimension, any list of distinct
   axes, any target lengths >= 1; no root-of-unity hypothesis is needed *)
Theorem C06_resample_nd_separable :
  forall (R : Type) (rO rI : R) (radd rmul rsub : R -> R -> R) (ropp : R -> R),
    ring_theory rO rI radd rmul rsub ropp eq ->
    forall (tw : nat -> Z -> R) (inv : nat -> R) (nd : nat) (ams : list (nat * nat)) (t : tensor R),
      axes_ok ams nd -> axes_pos ams -> good R nd t ->
      pipeline_nd rO rI radd rmul tw inv ams t = resample_nd rO rI radd rmul tw inv ams t.
Proof. exact pipeline_nd_separable. Qed.
Print Assumptions C06_resample_nd_separable.

(* N-D, all axes at once: an unchanged shape gives the identity *)
Theorem C06_resample_nd_id :
  forall (R : Type) (rO rI : R) (radd rmul rsub : R -> R -> R) (ropp : R -> R),
    ring_theory rO rI radd rmul rsub ropp eq ->
    forall conj : R -> R, conj_ok radd rmul conj ->
    forall (tw : nat -> Z -> R) (inv : nat -> R) (nd : nat) (ams : list (nat * nat)) (t : tensor R),
      axes_ok ams nd -> good R nd t ->
      (forall am, In am ams -> snd am = len_of (fst am) (shape t)) ->
      (forall am, In am ams -> root_ok rO rI radd rmul conj (snd am) (tw (snd am)) (inv (snd am))) ->
      pipeline_nd rO rI radd rmul tw inv ams t = t.
Proof. exact pipeline_nd_id. Qed.
Print Assumptions C06_resample_nd_id.

(* ================================================================== round 3: non-vacuity *)

(* 5 x 3 binned by (2, 2) in one call: pixel (1, 0) = 7 + 8 + 10 + 11 through the closed formula;
   the four block multi-indices are (2,0) (2,1) (3,0) (3,1); one call = two calls *)
Example C06_nonvacuous_bin_closed :
  in_bounds (shape (bin_sum [(0, 2); (1, 2)] ex_t)) [1; 0] /\
  map (block_index [(0, 2); (1, 2)] [1; 0]) [[0; 0]; [0; 1]; [1; 0]; [1; 1]] = [[2; 0]; [2; 1]; [3; 0]; [3; 1]] /\
  show_qc (osum [2; 2] (fun us => get 0%Qc ex_t (block_index [(0, 2); (1, 2)] [1; 0] us))) = (36, 1)%Z /\
  show_qc (get 0%Qc (bin_sum [(0, 2); (1, 2)] ex_t) [1; 0]) = (36, 1)%Z /\
  show_t (bin_sum [(1, 2)] (bin_sum [(0, 2)] ex_t)) = show_t (bin_sum [(0, 2); (1, 2)] ex_t) /\
  map show_qc (bin_closed [(1, 2); (0, 2)] ex_t [2; 1]) = [(12, 1); (36, 1)]%Z.
Proof.
  split; [split; [reflexivity | intros [|[|b]] Hb; cbn in *; lia]|].
  repeat split; vm_compute; reflexivity.
Qed.

(* Eisenstein rationals Q(omega): the ring / conjugation / root-of-unity hypotheses hold TOGETHER
   for the sizes 1, 2, 3 and 6, so the odd <-> even statements are exercised: [1; 2; 4] (n = 3,
   odd, no Nyquist bin) up-sampled to 6 and back, complex and `.real` pipelines; mean 7/3 kept;
   3 -> 2 (odd -> even, down) and 2 -> 3 (even -> odd, up) keep the mean *)
Definition ex_e (l : list Z) : nat -> E := fun i => (Q2Qc (nth i l 0%Z # 1), 0%Qc).
Definition ex_eshow (N : nat) (f : nat -> E) := map (fun i => (show_qc (fst (f i)), show_qc (snd (f i)))) (seq 0 N).
Definition ex_emean (N : nat) (ninv : E) (f : nat -> E) :=
  let m := emul ninv (FinSum.sumn e0 eadd N f) in (show_qc (fst m), show_qc (snd m)).

Example C06_nonvacuous_resample_odd :
  ring_theory e0 e1 eadd emul esub eopp eq /\ conj_ok eadd emul econj /\
  root_ok e0 e1 eadd emul econj 1 v1 e1 /\ root_ok e0 e1 eadd emul econj 2 v2 ehalf /\
  root_ok e0 e1 eadd emul econj 3 v3 ethird /\ root_ok e0 e1 eadd emul econj 6 v6 esixth /\
  emul ehalf (eadd e1 e1) = e1 /\
  (forall i, i < 3 -> econj (ex_e [1; 2; 4]%Z i) = ex_e [1; 2; 4]%Z i) /\
  (Nat.odd 3 = true \/ dft e0 eadd emul 3 v3 (ex_e [1; 2; 4]%Z) (3 / 2) = e0) /\ 3 <= 6 /\
  (* complex pipeline 3 -> 6 -> 3 *)
  ex_eshow 3 (resample e0 e1 eadd emul 6 3 v6 v3 esixth ethird
                (resample e0 e1 eadd emul 3 6 v3 v6 ethird esixth (ex_e [1; 2; 4]%Z)))
  = [((1, 1), (0, 1)); ((2, 1), (0, 1)); ((4, 1), (0, 1))]%Z /\
  (* `.real` pipeline 3 -> 6 -> 3, and the up-sampled signal is real and keeps the mean *)
  ex_eshow 3 (resample_re e0 e1 eadd emul econj ehalf 6 3 v6 v3 esixth ethird
                (resample_re e0 e1 eadd emul econj ehalf 3 6 v3 v6 ethird esixth (ex_e [1; 2; 4]%Z)))
  = [((1, 1), (0, 1)); ((2, 1), (0, 1)); ((4, 1), (0, 1))]%Z /\
  map snd (ex_eshow 6 (resample e0 e1 eadd emul 3 6 v3 v6 ethird esixth (ex_e [1; 2; 4]%Z)))
  = [(0, 1); (0, 1); (0, 1); (0, 1); (0, 1); (0, 1)]%Z /\
  ex_emean 6 esixth (resample e0 e1 eadd emul 3 6 v3 v6 ethird esixth (ex_e [1; 2; 4]%Z)) = ((7, 3), (0, 1))%Z /\
  (* odd -> even down-sampling and even -> odd up-sampling keep the mean *)
  ex_emean 2 ehalf (resample e0 e1 eadd emul 3 2 v3 v2 ethird ehalf (ex_e [1; 2; 4]%Z)) = ((7, 3), (0, 1))%Z /\
  ex_emean 3 ethird (resample e0 e1 eadd emul 2 3 v2 v3 ehalf ethird (ex_e [1; 4]%Z)) = ((5, 2), (0, 1))%Z /\
  (* even n = 2 with an empty Nyquist bin, up to the odd size 3 and back *)
  (Nat.odd 2 = true \/ dft e0 eadd emul 2 v2 (ex_e [5; 5]%Z) (2 / 2) = e0) /\
  ex_eshow 2 (resample_re e0 e1 eadd emul econj ehalf 3 2 v3 v2 ethird ehalf
                (resample_re e0 e1 eadd emul econj ehalf 2 3 v2 v3 ehalf ethird (ex_e [5; 5]%Z)))
  = [((5, 1), (0, 1)); ((5, 1), (0, 1))]%Z.
Proof.
  split; [exact E_ring|]. split; [exact E_conj_ok|]. split; [exact E_root_ok_1|]. split; [exact E_root_ok_2|].
  split; [exact E_root_ok_3|]. split; [exact E_root_ok_6|]. split; [exact ehalf_ok|].
  split; [intros i Hi; unfold ex_e; apply econj_real|].
  split; [left; reflexivity|]. split; [lia|].
  repeat split; try (vm_compute; reflexivity). right. vm_compute. reflexivity.
Qed.

(* separability, on a concrete 3 x 2 array over Q(omega) resampled to 6 x 3 (odd -> even on axis
   0, even -> odd on axis 1): the hypotheses hold and both sides compute to the same tensor *)
Definition etw (n : nat) : Z -> E := match n with 1 => v1 | 2 => v2 | 3 => v3 | _ => v6 end.
Definition einv (n : nat) : E := match n with 1 => e1 | 2 => ehalf | 3 => ethird | _ => esixth end.
Definition ex_te : tensor E := mkT [3; 2] (map (fun z => (Q2Qc (z # 1), 0%Qc)) [1; 2; 3; 5; 8; 13]%Z).
Definition eshow_t (t : tensor E) := (zl (shape t), map (fun z => (show_qc (fst z), show_qc (snd z))) (data t)).

Example C06_nonvacuous_separable :
  axes_ok [(0, 6); (1, 3)] 2 /\ axes_pos [(0, 6); (1, 3)] /\ good E 2 ex_te /\
  eshow_t (pipeline_nd e0 e1 eadd emul etw einv [(0, 6); (1, 3)] ex_te)
  = eshow_t (resample_nd e0 e1 eadd emul etw einv [(0, 6); (1, 3)] ex_te) /\
  fst (eshow_t (pipeline_nd e0 e1 eadd emul etw einv [(0, 6); (1, 3)] ex_te)) = [6; 3]%Z /\
  eshow_t (pipeline_nd e0 e1 eadd emul etw einv [(1, 2); (0, 3)] ex_te) = eshow_t ex_te.
Proof.
  split; [split; [repeat constructor; cbn; intuition lia | intros af [<-|[<-|[]]]; cbn; lia]|].
  split; [intros am [<-|[<-|[]]]; cbn; lia|].
  split; [split; [reflexivity | split; [reflexivity | intros [|[|b]] Hb; cbn; lia]]|].
  repeat split; vm_compute; reflexivity.
Qed.
