(* C07 — Torch Radon / filtered back-projection agree with the scikit-image reference.
   This file contains ONLY the property theorems (closed by `exact`), their assumption
   reports, and non-vacuity examples.

   Conventions (model/C07_Model.v): exact rationals Q; (c, s) stands for (cos theta, sin theta)
   and is an arbitrary pair of rationals unless c*c + s*s == 1 is a stated premise; `sample` is
   an arbitrary image sampler (grid_sample / skimage.warp: oracle contract) unless stated;
   `sk_...` is the transcription of scikit-image 0.26, `port_... repaired` is radon.py of /repo
   with fixes/C07-*.diff applied, `port_... as_written` is the code before those repairs. *)
From QV.lib Require Import Prelude.
From QV.model Require Import C07_Model C07_Model_Ext.
From QV.proof Require Import C07_Proofs C07_Proofs_Iradon C07_Proofs_Ext.
From Coq Require Import QArith Qround.
Local Open Scope Q_scope.

(* ============================================================================== radon *)

(* every sample point of the port (coords, rot, `2 p/(N-1) - 1`, grid_sample's
   align_corners=True un-normalisation) IS scikit-image's warp point R (k, r, 1)^T: for every
   size n >= 2 (odd and even), every row r, detector column k and every (c, s).  In particular
   the multiset of sample points of a detector column is the same in both. *)
Theorem C07_radon_points_coincide :
  forall (c s : Q) (n r k : Z),
    (2 <= n)%Z ->
    fst (port_point repaired c s n r k) == fst (sk_point c s n r k) /\
    snd (port_point repaired c s n r k) == snd (sk_point c s n r k).
Proof. exact port_point_repaired. Qed.
Print Assumptions C07_radon_points_coincide.

(* hence the sinograms agree, for ANY sampler that respects == (the port masks the image with
   the reconstruction disc itself; scikit-image expects the masked image) *)
Theorem C07_radon_eq_skimage :
  forall (sample : sampler), sampler_proper sample ->
  forall (img : image) (n : Z) (c s : Q) (k : Z),
    (2 <= n)%Z ->
    port_radon repaired sample img n c s k == sk_radon sample (disc_mask n img) n c s k.
Proof. exact radon_eq_skimage. Qed.
Print Assumptions C07_radon_eq_skimage.

(* the projection at 0 degrees is the column sum of the disc-masked image (sampler exact on
   grid points) — for the port and for scikit-image *)
Theorem C07_radon_theta0_colsum :
  forall (sample : sampler), sampler_proper sample -> sampler_on_grid sample ->
  forall (img : image) (n k : Z),
    (2 <= n)%Z -> (0 <= k < n)%Z ->
    port_radon repaired sample img n 1 0 k == sumQ (fun r => disc_mask n img r k) (zrange n).
Proof. exact radon_theta0_colsum. Qed.
Print Assumptions C07_radon_theta0_colsum.

Theorem C07_sk_radon_theta0_colsum :
  forall (sample : sampler), sampler_proper sample -> sampler_on_grid sample ->
  forall (img : image) (n k : Z),
    (0 <= k < n)%Z -> sk_radon sample img n 1 0 k == sumQ (fun r => img r k) (zrange n).
Proof. exact sk_radon_theta0_colsum. Qed.
Print Assumptions C07_sk_radon_theta0_colsum.

(* the Radon transform is linear in the image (any linear sampler; both code variants) *)
Theorem C07_radon_linear :
  forall (sample : sampler), sampler_proper sample -> sampler_linear sample ->
  forall (v : variant) (a : Q) (f : image) (b : Q) (g : image) (n : Z) (c s : Q) (k : Z),
    port_radon v sample (lin_img a f b g) n c s k
    == a * port_radon v sample f n c s k + b * port_radon v sample g n c s k.
Proof. exact radon_linear. Qed.
Print Assumptions C07_radon_linear.

(* the bilinear sampler (grid_sample(mode="bilinear", padding_mode="zeros") / warp(order=1,
   cval=0)) satisfies every sampler premise used above *)
Theorem C07_bilinear_sampler_laws :
  sampler_proper bilinear /\ sampler_linear bilinear /\ sampler_on_grid bilinear.
Proof. exact (conj bilinear_proper (conj bilinear_linear bilinear_on_grid)). Qed.
Print Assumptions C07_bilinear_sampler_laws.

(* a batched call [B, n, n] gives, per image, the sinogram of the single-image call (and is
   squeezed to one sinogram exactly when B = 1) *)
Theorem C07_radon_batched_eq_single :
  forall (v : variant) (sample : sampler) (imgs : list image) (n : Z) (angles : list (Q * Q))
         (b : nat) (d : image),
    (b < length imgs)%nat ->
    match port_radon_batched v sample imgs n angles with
    | Single x => length imgs = 1%nat /\ x = port_sinogram v sample (nth b imgs d) n angles
    | Batch ys => (2 <= length imgs)%nat /\
                  nth b ys [] = port_sinogram v sample (nth b imgs d) n angles
    end.
Proof. exact radon_batched_eq_single. Qed.
Print Assumptions C07_radon_batched_eq_single.

(* the code before fixes/C07-even-size-centre.diff: agrees for odd n (rows visited in reverse
   order), refuted for even n (witness n = 4, theta = 0, unit pixel at (0, 2)) *)
Theorem C07_radon_as_written_odd :
  forall (sample : sampler), sampler_proper sample ->
  forall (img : image) (n : Z) (c s : Q) (k : Z),
    (3 <= n)%Z -> Z.odd n = true ->
    port_radon as_written sample img n c s k == sk_radon sample (disc_mask n img) n c s k.
Proof. exact radon_as_written_odd. Qed.
Print Assumptions C07_radon_as_written_odd.

Theorem C07_radon_as_written_even_refuted :
  exists (n : Z) (img : image) (c s : Q) (k : Z),
    Z.even n = true /\ (2 <= n)%Z /\ (0 <= k < n)%Z /\ c * c + s * s == 1 /\
    ~ port_radon as_written bilinear img n c s k == sk_radon bilinear (disc_mask n img) n c s k.
Proof. exact radon_as_written_even_refuted. Qed.
Print Assumptions C07_radon_as_written_even_refuted.

(* ============================================================== Fourier reconstruction filter *)

(* the index vector n of the spatial ramp kernel (numpy float arange cast to int vs torch
   integer arange) is the same list for every even size, hence the same kernel *)
Theorem C07_filter_index_vector_eq :
  forall size : Z, Z.even size = true ->
    sk_filter_n size = port_filter_n size /\ port_ramp_kernel size = sk_ramp_kernel size.
Proof. exact (fun size He => conj (filter_n_eq size He) (ramp_kernel_eq size He)). Qed.
Print Assumptions C07_filter_index_vector_eq.

(* closed form for sizes divisible by 4 (every padded FFT size is a power of two >= 64): the
   vector has size/2 entries (so `f[1::2] = ...` is well shaped) and n_j = min(2j+1, size-(2j+1)) *)
Theorem C07_filter_index_vector_closed_form :
  forall q : Z, (1 <= q)%Z ->
    length (port_filter_n (4 * q)) = Z.to_nat (2 * q) /\
    forall j, (0 <= j < 2 * q)%Z ->
      nth (Z.to_nat j) (port_filter_n (4 * q)) 0%Z = Z.min (2 * j + 1) (4 * q - (2 * j + 1)).
Proof. exact filter_n_closed_form. Qed.
Print Assumptions C07_filter_index_vector_closed_form.

(* per filter name (ramp, shepp-logan, cosine, hamming, hann, None), every even size >= 2 and
   every index k: the port's filter value is scikit-image's.  sinpi / cospi / sincpi stand for
   sin(pi a), cos(pi a), sin(pi a)/(pi a) and rampF for 2 Re(fft(kernel)); they are arbitrary
   functions with the stated laws (np.hamming/np.hanning sample 0.54 + 0.46 cos(pi m/(M-1)) on
   m = 1-M, 3-M, ..; torch's windows sample 0.54 - 0.46 cos(2 pi j/(M-1)): equal by
   cos(x - pi) = - cos x). *)
Theorem C07_filter_eq_skimage :
  forall (sinpi cospi sincpi : Q -> Q) (rampF : list (Q * Q) -> Z -> Q),
    (forall a b, a == b -> sinpi a == sinpi b) ->
    (forall a b, a == b -> cospi a == cospi b) ->
    (forall a, cospi (a - 1) == - cospi a) ->
  forall (name : fname) (size k : Z),
    (2 <= size)%Z -> Z.even size = true ->
    port_filter sinpi cospi sincpi rampF repaired name size k
    == sk_filter sinpi cospi sincpi rampF name size k.
Proof. exact filter_eq. Qed.
Print Assumptions C07_filter_eq_skimage.

(* the cosine filter before fixes/C07-cosine-filter-endpoint.diff sampled sin at j pi/(size-1)
   instead of j pi/size: a different argument for EVERY size and every index j <> 0 *)
Theorem C07_cosine_as_written_refuted :
  forall size j : Z, (2 <= size)%Z -> j <> 0%Z ->
    ~ port_cosine_coef as_written size j == linspace_coef size false j.
Proof. exact cosine_coef_as_written_refuted. Qed.
Print Assumptions C07_cosine_as_written_refuted.

(* =================================================================== filtered back-projection *)

(* geometry handed to the FFT filter and the interpolation: detector length after
   _sinogram_circle_to_square, pad_before, hence the padded FFT size — equal for every N *)
Theorem C07_backproj_geometry_eq :
  forall (N : Z) (circle : bool),
    port_det_size repaired N circle = sk_det_size N circle /\
    port_pad_before repaired N circle = sk_pad_before N circle /\
    padded_size (port_det_size repaired N circle) = padded_size (sk_det_size N circle).
Proof.
  exact (fun N circle =>
           match det_size_repaired N circle with
           | conj E1 E2 => conj E1 (conj E2 (f_equal padded_size E1))
           end).
Qed.
Print Assumptions C07_backproj_geometry_eq.

(* int(ceil(sqrt 2 N)) and the padded size are what the comments say *)
Theorem C07_diagonal_padded_spec :
  forall N : Z, (1 <= N)%Z ->
    ((diagonal N - 1) * (diagonal N - 1) < 2 * N * N <= diagonal N * diagonal N)%Z /\
    (2 * diagonal N <= padded_size (diagonal N))%Z /\ (64 <= padded_size (diagonal N))%Z /\
    (exists e, (0 <= e)%Z /\ padded_size (diagonal N) = (2 ^ e)%Z).
Proof.
  exact (fun N HN =>
    let HD := Z.le_trans 1 (N + 1) (diagonal N) (Z.le_trans 1 N (N + 1) HN (Z.le_succ_diag_r N))
                         (diagonal_ge N HN) in
    match padded_size_spec (diagonal N) HD with
    | conj A (conj B (conj C _)) => conj (diagonal_spec N HN) (conj A (conj B C))
    end).
Qed.
Print Assumptions C07_diagonal_padded_spec.

(* back-projection indices and weights: t = x cos - y sin is the same expression; the port's
   t_idx = t + S//2, floor, clamp(0, S-2), weights (1-w, w) and the validity mask reproduce
   np.interp(t, arange(S) - S//2, col, left=0, right=0) for EVERY t — inside a cell, exactly on a
   sample, on the last sample, and outside the detector *)
Theorem C07_backproj_index_eq :
  forall (S : Z) (fp : Z -> Q) (t : Q) (out : Z) (c s : Q) (row col : Z),
    (2 <= S)%Z ->
    port_t out c s row col = sk_t out c s row col /\
    port_interp repaired S fp t == np_interp (- (S / 2)) S fp t.
Proof. exact (fun S fp t out c s row col HS => conj (port_t_eq_sk out c s row col) (interp_eq S fp t HS)). Qed.
Print Assumptions C07_backproj_index_eq.

(* whole reconstruction: padded detector, filtering as circular convolution with ANY kernel
   `hker` (the inverse DFT of the Fourier filter: equal filters by C07_filter_eq_skimage), linear
   interpolation, circle mask, pi/(2A) — equal to scikit-image for every N >= 2, every number
   of projections A, every angle list, circle or not, every sinogram, every pixel *)
Theorem C07_iradon_eq_skimage :
  forall (hker : Z -> Z -> Q) (pi : Q) (A N : Z) (circle : bool) (ang : Z -> Q * Q)
         (sino : Z -> Z -> Q) (row col : Z),
    (2 <= N)%Z ->
    port_iradon hker pi repaired A N circle ang sino row col
    == sk_iradon hker pi A N circle ang sino row col.
Proof. exact iradon_eq. Qed.
Print Assumptions C07_iradon_eq_skimage.

(* default projection angles (theta=None) *)
Theorem C07_default_theta_eq :
  forall A i : Z, port_default_theta repaired A i == sk_default_theta A i.
Proof. exact default_theta_repaired. Qed.
Print Assumptions C07_default_theta_eq.

(* circle=True with the default output size: every pixel of the reconstruction disc projects
   inside the padded detector for every angle with c^2 + s^2 = 1 — the interpolation is never
   evaluated at its discontinuity (the detector ends), which is what makes the float comparison
   with scikit-image well conditioned *)
Theorem C07_backproj_in_range :
  forall (N : Z) (c s : Q) (row col : Z),
    (1 <= N)%Z -> c * c + s * s == 1 -> outside_circle N row col = false ->
    0 <= port_t N c s row col + iz (diagonal N / 2) /\
    port_t N c s row col + iz (diagonal N / 2) <= iz (diagonal N - 1).
Proof. exact backproj_in_range. Qed.
Print Assumptions C07_backproj_in_range.

(* filtered back-projection is linear in the sinogram (both code variants) *)
Theorem C07_iradon_linear :
  forall (hker : Z -> Z -> Q) (pi : Q) (v : variant) (A N : Z) (circle : bool) (ang : Z -> Q * Q)
         (a : Q) (f : Z -> Z -> Q) (b : Q) (g : Z -> Z -> Q) (row col : Z),
    port_iradon hker pi v A N circle ang (lin_sino a f b g) row col
    == a * port_iradon hker pi v A N circle ang f row col
       + b * port_iradon hker pi v A N circle ang g row col.
Proof. exact iradon_linear. Qed.
Print Assumptions C07_iradon_linear.

Theorem C07_iradon_batched_eq_single :
  forall (hker : Z -> Z -> Q) (pi : Q) (v : variant) (A N : Z) (circle : bool) (ang : Z -> Q * Q)
         (sinos : list (Z -> Z -> Q)) (b : nat) (d : Z -> Z -> Q),
    (b < length sinos)%nat ->
    match port_iradon_batched hker pi v A N circle ang sinos with
    | Single x => length sinos = 1%nat /\ x = port_iradon_image hker pi v A N circle ang (nth b sinos d)
    | Batch ys => (2 <= length sinos)%nat /\
                  nth b ys [] = port_iradon_image hker pi v A N circle ang (nth b sinos d)
    end.
Proof. exact iradon_batched_eq_single. Qed.
Print Assumptions C07_iradon_batched_eq_single.

(* the code before fixes/C07-iradon-circle-padding.diff and
   fixes/C07-iradon-default-theta-endpoint.diff, isolated causes:
   (1) FFT length from N instead of the padded detector (N = 31: 64 vs 128 frequencies);
   (2) no left/right = 0: extrapolation beyond the last detector pixel;
   (3) fed the same sinogram, even N: witness N = 4, one projection at 180 degrees;
   (4) default theta includes the endpoint 180: different for every A >= 2, i <> 0 *)
Theorem C07_iradon_as_written_refuted :
  (exists N, padded_size (port_det_size as_written N true) <> padded_size (sk_det_size N true)) /\
  (exists S fp t, (2 <= S)%Z /\ ~ port_interp as_written S fp t == np_interp (- (S / 2)) S fp t) /\
  (exists (N A : Z) (ang : Z -> Q * Q) (sino : Z -> Z -> Q) (row col : Z),
     Z.even N = true /\ (2 <= N)%Z /\ outside_circle N row col = false /\
     (fst (ang 0%Z)) * (fst (ang 0%Z)) + (snd (ang 0%Z)) * (snd (ang 0%Z)) == 1 /\
     ~ port_iradon delta_ker 1 as_written A N true ang sino row col
       == sk_iradon delta_ker 1 A N true ang sino row col) /\
  (forall A i : Z, (2 <= A)%Z -> i <> 0%Z -> ~ port_default_theta as_written A i == sk_default_theta A i).
Proof.
  exact (conj padded_size_as_written_refuted
          (conj interp_as_written_refuted
            (conj iradon_as_written_even_refuted default_theta_as_written_refuted))).
Qed.
Print Assumptions C07_iradon_as_written_refuted.

(* on the detector range the unmasked interpolation already agreed *)
Theorem C07_interp_as_written_in_range :
  forall (S : Z) (fp : Z -> Q) (t : Q),
    (2 <= S)%Z -> 0 <= t + iz (S / 2) -> t + iz (S / 2) <= iz (S - 1) ->
    port_interp as_written S fp t == np_interp (- (S / 2)) S fp t.
Proof. exact interp_as_written_in_range. Qed.
Print Assumptions C07_interp_as_written_in_range.

(* ============================================================================ non-vacuity *)
Local Close Scope Q_scope.

(* the sampler premises are satisfiable (by the bilinear sampler), and the theorems say
   something on a concrete image: 5 x 5 ramp image, angle (3/5, 4/5) *)
Definition ex_img : image := fun r k => inject_Z (3 * r + k * k).
Example C07_nonvacuous_radon_eq :
  sampler_proper bilinear /\
  (port_radon repaired bilinear ex_img 5 (3 # 5) (4 # 5) 2 ==
   sk_radon bilinear (disc_mask 5 ex_img) 5 (3 # 5) (4 # 5) 2)%Q /\
  ~ (port_radon repaired bilinear ex_img 5 (3 # 5) (4 # 5) 2 == 0)%Q.
Proof.
  split; [exact bilinear_proper|]. split.
  - apply radon_eq_skimage; [exact bilinear_proper | lia].
  - vm_compute. discriminate.
Qed.

Example C07_nonvacuous_even_size :
  (port_radon repaired bilinear ex_img 6 (3 # 5) (4 # 5) 1 ==
   sk_radon bilinear (disc_mask 6 ex_img) 6 (3 # 5) (4 # 5) 1)%Q /\
  ~ (port_radon repaired bilinear ex_img 6 (3 # 5) (4 # 5) 1
     == port_radon as_written bilinear ex_img 6 (3 # 5) (4 # 5) 1)%Q.
Proof. split; [vm_compute; reflexivity | vm_compute; discriminate]. Qed.

Example C07_nonvacuous_theta0 :
  (port_radon repaired bilinear ex_img 6 1 0 2 == 65 # 1)%Q /\ in_disc 6 0 2 = false /\ in_disc 6 1 2 = true.
Proof. repeat split; vm_compute; reflexivity. Qed.

(* the laws asked of sinpi / cospi are satisfiable by a non-constant function (a square wave
   with cos's symmetry), so C07_filter_eq_skimage is not vacuous; and the hamming window
   arguments really differ between numpy and torch (the law is needed) *)
Definition sq_cospi (a : Q) : Q := if Z.even (Qfloor a) then 1%Q else (-1)%Q.
Example C07_nonvacuous_filter_laws :
  (forall a b, (a == b)%Q -> (sq_cospi a == sq_cospi b)%Q) /\
  (forall a, (sq_cospi (a - 1) == - sq_cospi a)%Q) /\
  ~ (np_window_arg 64 3 == torch_window_arg 64 3)%Q /\
  Z.even 64 = true /\ length (port_filter_n 64) = 32%nat.
Proof.
  split; [|split; [|split; [|split]]].
  - intros a b H. unfold sq_cospi. rewrite (Qfloor_comp _ _ H). reflexivity.
  - intros a. unfold sq_cospi.
    assert (E : Qfloor (a - 1) = (Qfloor a - 1)%Z).
    { change (a - 1)%Q with (a + iz (-1))%Q. rewrite Qfloor_add_Z. lia. }
    rewrite E. replace (Qfloor a - 1)%Z with (Z.pred (Qfloor a)) by lia. rewrite Z.even_pred.
    rewrite <- Z.negb_even. destruct (Z.even (Qfloor a)); reflexivity.
  - vm_compute. discriminate.
  - reflexivity.
  - vm_compute. reflexivity.
Qed.

(* back-projection: S = diagonal 8 = 12, a point inside a cell, on the last sample, beyond it *)
Example C07_nonvacuous_backproj :
  diagonal 8 = 12%Z /\ padded_size (diagonal 31) = 128%Z /\ padded_size 31 = 64%Z /\
  (np_interp (-6) 12 (fun j => inject_Z (j * j)) (3 # 2) == 113 # 2)%Q /\
  (port_interp repaired 12 (fun j => inject_Z (j * j)) (3 # 2) == 113 # 2)%Q /\
  (port_interp repaired 12 (fun j => inject_Z (j * j)) 5 == 121 # 1)%Q /\
  (port_interp repaired 12 (fun j => inject_Z (j * j)) (11 # 2) == 0)%Q /\
  ~ (port_interp as_written 12 (fun j => inject_Z (j * j)) (11 # 2) == 0)%Q.
Proof. repeat split; try (vm_compute; reflexivity). vm_compute. discriminate. Qed.

(* a unit angle and a disc pixel satisfying the premises of C07_backproj_in_range *)
Example C07_nonvacuous_in_range :
  ((3 # 5) * (3 # 5) + (4 # 5) * (4 # 5) == 1)%Q /\ outside_circle 8 1 2 = false /\ outside_circle 8 0 0 = true.
Proof. repeat split; vm_compute; reflexivity. Qed.

(* ===================================================================================== round 3 *)
Local Open Scope Q_scope.

(* `output_size` as a parameter: for EVERY output size (smaller or larger than the detector: pixels
   beyond it receive no contribution, np.interp(left=0, right=0)), every N >= 2 — and N = 1 in circle
   mode, where the padded detector has 2 samples — the reconstruction is scikit-image's.  With the
   default size this is C07_iradon_eq_skimage (the two definitions coincide by computation). *)
Theorem C07_iradon_output_size_eq_skimage :
  forall (hker : Z -> Z -> Q) (pi : Q) (out A N : Z) (circle : bool) (ang : Z -> Q * Q)
         (sino : Z -> Z -> Q) (row col : Z),
    (2 <= N \/ (N = 1 /\ circle = true))%Z ->
    port_iradon_out hker pi repaired out A N circle ang sino row col
    == sk_iradon_out hker pi out A N circle ang sino row col.
Proof. exact iradon_out_eq. Qed.
Print Assumptions C07_iradon_output_size_eq_skimage.

Theorem C07_iradon_output_size_default :
  forall (hker : Z -> Z -> Q) (pi : Q) (v : variant) (A N : Z) (circle : bool) (ang : Z -> Q * Q)
         (sino : Z -> Z -> Q) (row col : Z),
    port_iradon_out hker pi v (output_size N circle) A N circle ang sino row col
    = port_iradon hker pi v A N circle ang sino row col /\
    sk_iradon_out hker pi (output_size N circle) A N circle ang sino row col
    = sk_iradon hker pi A N circle ang sino row col.
Proof.
  exact (fun hker pi v A N circle ang sino row col =>
           conj (iradon_out_default_port hker pi v A N circle ang sino row col)
                (iradon_out_default_sk hker pi A N circle ang sino row col)).
Qed.
Print Assumptions C07_iradon_output_size_default.

(* the padded FFT size is the LEAST power of two >= 64 holding 2 m samples, and equals the integer
   form max(64, 1 << (2 m - 1).bit_length()) for every detector length *)
Theorem C07_padded_size_least :
  forall m p e : Z, (1 <= m)%Z -> (0 <= e)%Z -> p = (2 ^ e)%Z -> (64 <= p)%Z -> (2 * m <= p)%Z ->
    (padded_size m <= p)%Z.
Proof. exact padded_size_least. Qed.
Print Assumptions C07_padded_size_least.

Theorem C07_padded_size_integer_form :
  forall m : Z, (1 <= m)%Z -> padded_size_int m = padded_size m.
Proof. exact padded_size_int_eq. Qed.
Print Assumptions C07_padded_size_integer_form.

(* the seeded variant max(64, 1 << (2 m).bit_length()) (seeded/C07-a) agrees with the reference for
   every detector length whose double is not a power of two, and DOUBLES the FFT length at m = 32,
   64, 128, ... (circle mode: image sizes 22, 45, 90, ... whose diagonal is such a power of two):
   exactly the sizes the quick tier always contains *)
Theorem C07_padded_size_seeded_variant :
  (forall m : Z, (1 <= m)%Z -> (~ exists b : Z, (2 * m = 2 ^ b)%Z) -> padded_size_seeded m = padded_size m) /\
  (forall e : Z, (5 <= e)%Z -> padded_size_seeded (2 ^ e) = (2 * padded_size (2 ^ e))%Z) /\
  diagonal 22 = 32%Z /\ diagonal 45 = 64%Z /\ diagonal 90 = 128%Z.
Proof.
  exact (conj padded_seeded_eq (conj padded_seeded_neq
          (conj (eq_refl : diagonal 22 = 32%Z) (conj (eq_refl : diagonal 45 = 64%Z) (eq_refl : diagonal 90 = 128%Z))))).
Qed.
Print Assumptions C07_padded_size_seeded_variant.

(* non-square images (outside the property's domain, inside the anchored function): both libraries
   mask with the disc of the full image and crop the same central square; a square image is not
   cropped and the mask is the reconstruction disc *)
Theorem C07_crop_eq_skimage :
  (forall e : Z, sk_crop_start e = port_crop_start e) /\
  (forall (H W : Z) (img : image) (r k : Z),
     crop_masked sk_crop_start H W img r k = crop_masked port_crop_start H W img r k) /\
  (forall (n : Z) (img : image) (r k : Z), crop_masked port_crop_start n n img r k = disc_mask n img r k) /\
  (forall e : Z, (0 <= e)%Z -> (0 <= port_crop_start e <= e)%Z).
Proof. exact (conj crop_start_eq (conj crop_masked_eq (conj crop_masked_square crop_window))). Qed.
Print Assumptions C07_crop_eq_skimage.

(* the caller, tomography_conv.py (TomographyConv._sirt_run_epoch): one SIRT update computed with
   radon_torch / iradon_torch(filter) / iradon_torch(ones, None) is the update computed with
   scikit-image's radon / iradon — any sampler respecting ==, any filter kernel, any angles, any
   tilt series and volume slice, every pixel, including the `normalization == 0 -> 1e-6` branch *)
Theorem C07_sirt_epoch_eq_skimage :
  forall (sample : sampler) (hker : Z -> Z -> Q) (pi : Q) (A n : Z) (ang : Z -> Q * Q)
         (tilt : Z -> Z -> Q) (obj : image) (row col : Z),
    sampler_proper sample -> (2 <= n)%Z ->
    port_sirt sample hker pi repaired A n ang tilt obj row col
    == sk_sirt sample hker pi A n ang tilt obj row col.
Proof. exact sirt_eq. Qed.
Print Assumptions C07_sirt_epoch_eq_skimage.

Local Close Scope Q_scope.

(* N = 1 in circle mode: 2 detector samples, one output pixel; a pixel beyond the detector of an
   enlarged reconstruction gets 0; the integer forms on the sizes of the seeded change *)
Example C07_nonvacuous_output_size :
  sk_det_size 1 true = 2%Z /\ output_size 1 true = 1%Z /\ output_size 1 false = 0%Z /\
  (port_iradon_out delta_ker 1%Q repaired 1%Z 2%Z 1%Z true (fun _ => (1, 0)%Q) (fun _ _ => 1%Q) 0%Z 0%Z == 1 # 2)%Q /\
  (port_iradon_out delta_ker 1%Q repaired 12%Z 1%Z 4%Z false (fun _ => (1, 0)%Q) (fun _ _ => 1%Q) 6%Z 11%Z == 0)%Q /\
  ~ (port_iradon_out delta_ker 1%Q repaired 12%Z 1%Z 4%Z false (fun _ => (1, 0)%Q) (fun _ _ => 1%Q) 6%Z 6%Z == 0)%Q.
Proof. repeat split; try (vm_compute; reflexivity). vm_compute. discriminate. Qed.

Example C07_nonvacuous_padded :
  padded_size 32 = 64%Z /\ padded_size_int 32 = 64%Z /\ padded_size_seeded 32 = 128%Z /\
  padded_size 33 = 128%Z /\ padded_size_seeded 33 = 128%Z /\ bit_length 0 = 0%Z /\ bit_length 255 = 8%Z /\
  bit_length 256 = 9%Z /\ ~ (exists b : Z, (2 * 33 = 2 ^ b)%Z).
Proof.
  repeat split; try reflexivity.
  intros [b Hb]. assert (Hb0 : (0 <= b)%Z). { destruct (Z.neg_nonneg_cases b) as [L|L]; [|exact L].
    rewrite (Z.pow_neg_r 2 b L) in Hb. discriminate Hb. }
  assert (Hb7 : (b < 7)%Z). { apply (Z.pow_lt_mono_r_iff 2); [lia | lia |]. rewrite <- Hb. reflexivity. }
  assert (C : b = 0%Z \/ b = 1%Z \/ b = 2%Z \/ b = 3%Z \/ b = 4%Z \/ b = 5%Z \/ b = 6%Z) by lia.
  destruct C as [-> | [-> | [-> | [-> | [-> | [-> | ->]]]]]]; discriminate Hb.
Qed.

Example C07_nonvacuous_crop :
  port_crop_start 3 = 2%Z /\ sk_crop_start 3 = 2%Z /\ port_crop_start 4 = 2%Z /\ port_crop_start 0 = 0%Z /\
  in_disc_rect 9 12 4 10 = true /\ in_disc_rect 9 12 4 11 = false.
Proof. repeat split; vm_compute; reflexivity. Qed.

(* one SIRT update on a concrete 5 x 5 slice: normalisation pi/2 inside the disc, the update moves the pixel *)
Example C07_nonvacuous_sirt :
  (port_sirt bilinear delta_ker 1%Q repaired 1%Z 5%Z (fun _ => (1, 0)%Q) (fun _ _ => 7%Q) ex_img 2%Z 2%Z
   == sk_sirt bilinear delta_ker 1%Q 1%Z 5%Z (fun _ => (1, 0)%Q) (fun _ _ => 7%Q) ex_img 2%Z 2%Z)%Q /\
  ~ (port_sirt bilinear delta_ker 1%Q repaired 1%Z 5%Z (fun _ => (1, 0)%Q) (fun _ _ => 7%Q) ex_img 2%Z 2%Z == ex_img 2%Z 2%Z)%Q.
Proof. split; [vm_compute; reflexivity | vm_compute; discriminate]. Qed.
