(* C10 — Object and probe constraints always yield physically admissible models.
   This file contains ONLY the property theorems (closed by `exact`), the full-strength statement
   that the code does not satisfy together with its refutation, the assumption reports, and
   non-vacuity examples.  The model is /repo WITH fixes/C10-pure-phase-fov-mask.diff applied.
   hard_polar is the complex / pure-phase object BEFORE the slice-tying step (the property claims
   nothing about amplitudes of tied slices); the tying step itself is tie_if / tie_slices, applied
   by the code to the real and imaginary channel.
   Objects: list of slices, each the flattened list of pixels; a complex / pure-phase pixel is
   (amplitude, phase) over Q, a potential pixel is a rational; `mask` is the FOV mask (one entry per
   pixel, broadcast over slices).  Probes: lists of vectors over Q(i); a mode (s, u) denotes
   sqrt(s) * u (normalise-and-restore), so intensities and |Gram entries|^2 are rational. *)
From QV.lib Require Import Prelude C10_Cplx.
From QV.model Require Import C10_Model.
From QV.proof Require Import C10_Proofs.
From Coq Require Import QArith Qcanon Sorted.
Local Close Scope Q_scope.

(* ================================================================ objects *)
Local Open Scope Q_scope.

(* complex objects: amplitude in [0, 1] for every raw amplitude and phase, every configuration and
   every FOV mask in [0,1] (applied or not) *)
Theorem C10_complex_amp_le_1 : forall cfg mask obj,
  mask_in_01 mask ->
  Forall (Forall (fun p : polar => 0 <= fst p <= 1)) (hard_polar Complex cfg mask obj).
Proof. exact complex_amp_le_1. Qed.
Print Assumptions C10_complex_amp_le_1.

(* pure-phase objects: amplitude exactly one — every configuration, every FOV mask (applied or
   not; the mask acts on the phase only) *)
Theorem C10_pure_phase_amp_eq_1 : forall cfg mask obj,
  Forall (Forall (fun p : polar => fst p == 1)) (hard_polar PurePhase cfg mask obj).
Proof. exact pure_phase_amp_eq_1. Qed.
Print Assumptions C10_pure_phase_amp_eq_1.

(* the defect this replaced (snapshot of /repo before fixes/C10-pure-phase-fov-mask.diff): the mask
   was multiplied into the amplitude twice, so a "pure-phase" pixel had amplitude mask^2 *)
Theorem C10_unrepaired_pure_phase_amp_is_mask_sq : forall mean_ph m p,
  fst (polar_pixel_unrepaired PurePhase mean_ph (Some m) p) == m * m.
Proof. exact pure_phase_pixel_unrepaired. Qed.
Print Assumptions C10_unrepaired_pure_phase_amp_is_mask_sq.

(* potential objects under positivity: every value non-negative, with any baseline offset,
   any FOV mask in [0,1] and with or without slice tying *)
Theorem C10_potential_nonneg : forall cfg mask obj,
  positivity cfg = true -> mask_in_01 mask ->
  Forall (Forall (fun x => 0 <= x)) (hard_potential cfg mask obj).
Proof. exact potential_nonneg. Qed.
Print Assumptions C10_potential_nonneg.

(* identical slices when requested: any two slices of the output are equal (the tying step on any
   real channel, and the potential pipeline as a whole) *)
Theorem C10_slices_identical : forall cfg mask obj a b,
  identical_slices cfg = true ->
  In a (hard_potential cfg mask obj) -> In b (hard_potential cfg mask obj) -> a = b.
Proof. exact slices_identical. Qed.
Print Assumptions C10_slices_identical.

Theorem C10_tie_slices_identical : forall xs a b,
  In a (tie_slices xs) -> In b (tie_slices xs) -> a = b.
Proof. exact tie_slices_identical. Qed.
Print Assumptions C10_tie_slices_identical.

(* the tying step as applied to the two real channels (re, im) of a complex / pure-phase object *)
Theorem C10_slices_identical_channel : forall cfg xs a b,
  identical_slices cfg = true -> In a (tie_if cfg xs) -> In b (tie_if cfg xs) -> a = b.
Proof. exact tie_if_identical. Qed.
Print Assumptions C10_slices_identical_channel.

(* re-applying the constraint to an already constrained object (obj2: same amplitudes as the
   constrained object, arbitrary phases) does not change the amplitude — pure-phase objects under
   any mask; complex objects when the mask is not applied or is binary (entries 0 or 1) *)
Theorem C10_hard_idempotent_amp : forall ty cfg mask obj obj2,
  is_wave ty -> (ty = PurePhase \/ mask_binary cfg mask) ->
  amps_eq (amps obj2) (amps (hard_polar ty cfg mask obj)) ->
  amps_eq (amps (hard_polar ty cfg mask obj2)) (amps (hard_polar ty cfg mask obj)).
Proof. exact hard_idempotent_amp. Qed.
Print Assumptions C10_hard_idempotent_amp.

(* at full strength (any FOV mask in [0,1]) FALSE for complex objects: a fractional mask value is
   multiplied into the amplitude again on every application (clamp(a) m -> clamp(a) m^2);
   known finding C10/complex-fov-mask-reapplication *)
Definition C10_hard_idempotent_amp_statement : Prop :=
  forall ty cfg mask obj obj2,
    is_wave ty -> mask_in_01 mask ->
    amps_eq (amps obj2) (amps (hard_polar ty cfg mask obj)) ->
    amps_eq (amps (hard_polar ty cfg mask obj2)) (amps (hard_polar ty cfg mask obj)).
Theorem C10_hard_idempotent_amp_refuted : ~ C10_hard_idempotent_amp_statement.
Proof. exact hard_idempotent_amp_refuted. Qed.
Print Assumptions C10_hard_idempotent_amp_refuted.

(* tomography: positivity clamp and / or shrinkage give non-negative volumes *)
Theorem C10_tomo_nonneg : forall pos shrink obj,
  (pos = true \/ shrink <> None) ->
  Forall (fun x => 0 <= x) (tomo_hard pos shrink obj).
Proof. exact tomo_nonneg. Qed.
Print Assumptions C10_tomo_nonneg.

Local Close Scope Q_scope.

(* ================================================================ probes *)
Local Open Scope Qc_scope.

(* distinct output modes are orthogonal: the directions have zero Hermitian inner product and the
   squared modulus of the inner product of the restored modes is zero — for every number of modes
   and every vector length, for linearly independent inputs *)
Theorem C10_gs_orthogonal : forall n ps i j mi mj,
  allN n ps -> lin_indep n ps -> i <> j ->
  nth_error (orthogonalize ps) i = Some mi -> nth_error (orthogonalize ps) j = Some mj ->
  dot (snd mi) (snd mj) = c0 /\ mode_gram2 mi mj = 0.
Proof. exact gs_orthogonal. Qed.
Print Assumptions C10_gs_orthogonal.

(* the output carries the same multiset of mode intensities as the input *)
Theorem C10_gs_intensity_multiset : forall n ps,
  allN n ps -> lin_indep n ps ->
  Permutation (map mode_intensity (orthogonalize ps)) (map norm2 ps).
Proof. exact gs_intensity_multiset. Qed.
Print Assumptions C10_gs_intensity_multiset.

(* in descending order of intensity (unconditionally) *)
Theorem C10_gs_sorted_desc : forall ps,
  StronglySorted (fun a b => mode_intensity b <= mode_intensity a) (orthogonalize ps).
Proof. exact gs_sorted_desc. Qed.
Print Assumptions C10_gs_sorted_desc.

(* the running-residual (modified) loop of the code equals the classical formula
   u = p - sum_j (<u_j, p> / <u_j, u_j>) u_j on an orthogonal family *)
Theorem C10_gs_residual_classical : forall n us p,
  allN n us -> length p = n -> pairwise (fun a b => dot a b = c0) us ->
  residual us p = cgs_residual us p.
Proof. exact residual_eq_cgs. Qed.
Print Assumptions C10_gs_residual_classical.

(* initial probe: total intensity = mean diffraction intensity, relative mode intensities = the
   requested relative weights (I: mode intensities of the input probe, all non-zero) *)
Theorem C10_weights_total : forall mean raw I,
  length raw = length I -> 0 < mean -> qcsum raw <> 0 -> Forall (fun x => 0 < x) I ->
  qcsum (apply_weights mean (norm_weights raw) I) = mean.
Proof. exact weights_total. Qed.
Print Assumptions C10_weights_total.

Theorem C10_weights_ratio : forall mean raw I,
  length raw = length I -> 0 < mean -> qcsum raw <> 0 -> Forall (fun x => 0 < x) I ->
  map (fun x => x / qcsum (apply_weights mean (norm_weights raw) I)) (apply_weights mean (norm_weights raw) I)
  = map (fun w => w / qcsum raw) raw.
Proof. exact weights_ratio. Qed.
Print Assumptions C10_weights_ratio.

Theorem C10_weights_total_default : forall mean I,
  I <> [] -> 0 < mean -> Forall (fun x => 0 < x) I ->
  qcsum (apply_weights mean (default_weights (length I)) I) = mean.
Proof. exact weights_total_default. Qed.
Print Assumptions C10_weights_total_default.

Local Close Scope Qc_scope.

(* ================================================================ non-vacuity *)
Local Open Scope Q_scope.

Definition ex_cfg (tie msk : bool) : ocfg :=
  {| positivity := true; fix_baseline := true; baseline_factor := 1 # 2; identical_slices := tie;
     apply_fov_mask := msk |}.

Lemma ex_mask_ok : mask_in_01 (Some [1 # 2; 1]).
Proof. cbn. repeat constructor; apply Qle_bool_iff; reflexivity. Qed.

(* the clamp acts (raw amplitude 3 -> 1) and the mask in [0,1] is applied (once) *)
Example C10_nonvacuous_complex :
  mask_in_01 (Some [1 # 2; 1]) /\
  amps (hard_polar Complex (ex_cfg false true) (Some [1 # 2; 1]) [[(3, 1); (1 # 3, -2)]])
  = [[1 # 2; 1 # 3]].
Proof. split; [exact ex_mask_ok | vm_compute; reflexivity]. Qed.

(* a fractional mask that IS applied: amplitude one, phase (phi - mean) * mask *)
Example C10_nonvacuous_pure_phase :
  hard_polar PurePhase (ex_cfg false true) (Some [1 # 2; 1]) [[(3, 1); (1 # 3, -2)]]
  = [[(1, 3 # 4); (1, -3 # 2)]].
Proof. vm_compute; reflexivity. Qed.

(* the recorded defect: before the repair the same pixel had amplitude 1/4 *)
Example C10_unrepaired_pure_phase_refuted :
  ~ fst (polar_pixel_unrepaired PurePhase 0 (Some (1 # 2)) (3, 1)) == 1.
Proof. vm_compute. discriminate. Qed.

Example C10_nonvacuous_potential :
  positivity (ex_cfg true true) = true /\
  hard_potential (ex_cfg true true) (Some [1 # 4; 1]) [[-3; 2]; [1; -5]]
  = [[24 # 128; 10 # 8]; [24 # 128; 10 # 8]].
Proof. split; [reflexivity | vm_compute; reflexivity]. Qed.

(* a binary mask that is applied, a complex object whose clamp acts *)
Example C10_nonvacuous_idempotent :
  let cfg := ex_cfg false true in let mask := Some [0; 1] in
  let o1 := hard_polar Complex cfg mask [[(3, 1); (1 # 3, -2)]] in
  mask_binary cfg mask /\ amps o1 = [[0; 1 # 3]] /\
  amps (hard_polar Complex cfg mask o1) = [[0; 1 # 3]].
Proof.
  cbn zeta. split; [|split; vm_compute; reflexivity].
  cbn. constructor; [left; reflexivity | constructor; [right; reflexivity | constructor]].
Qed.

Example C10_nonvacuous_tie_channel :
  identical_slices (ex_cfg true false) = true /\
  tie_if (ex_cfg true false) [[1; 2]; [3; -4]] = [[4 # 2; -2 # 2]; [4 # 2; -2 # 2]].
Proof. split; [reflexivity | vm_compute; reflexivity]. Qed.

Example C10_nonvacuous_tomo :
  tomo_hard true (Some (1 # 4)) [-1; 1 # 8; 1] = [0; 0; 3 # 4].
Proof. vm_compute. reflexivity. Qed.

Local Close Scope Q_scope.
Local Open Scope Qc_scope.

(* two non-orthogonal, linearly independent modes: p1 = (1, 0), p2 = (1 + i, 2) *)
Definition ex_ps : list vec := [[c1; c0]; [(1, 1); (Q2Qc 2, 0)]].

Example C10_nonvacuous_gs_hyps : allN 2 ex_ps /\ lin_indep 2 ex_ps /\ dot [c1; c0] [(1, 1); (Q2Qc 2, 0)] <> c0.
Proof.
  split; [repeat constructor | split].
  - intros cs Hl H. destruct cs as [|a [|b [|? ?]]]; try discriminate Hl.
    unfold ex_ps in H. cbn [lincomb vadd vzip vscale map vzeros repeat] in H.
    pose proof (f_equal (fun v => nth 0 v c0) H) as H0.
    pose proof (f_equal (fun v => nth 1 v c0) H) as H1. cbn [nth] in H0, H1.
    assert (Hb : b = c0).
    { assert (E : cmul (Q2Qc 2, 0) b = c0).
      { rewrite <- H1. ring. }
      destruct b as [x y]. unfold cmul, c0 in E; cbn [fst snd] in E.
      pose proof (f_equal fst E) as E1. pose proof (f_equal snd E) as E2. cbn [fst snd] in E1, E2.
      assert (Hx : x = 0).
      { assert (X : x = (Q2Qc 2 * x - 0 * y) / Q2Qc 2) by (field; intro Z; discriminate Z). rewrite X, E1. field. intro Z; discriminate Z. }
      assert (Hy : y = 0).
      { assert (Y : y = (Q2Qc 2 * y + 0 * x) / Q2Qc 2) by (field; intro Z; discriminate Z). rewrite Y, E2. field. intro Z; discriminate Z. }
      subst. reflexivity. }
    subst b.
    assert (Ha : a = c0). { rewrite <- H0. ring. }
    subst a. repeat constructor.
  - intro E. apply (f_equal fst) in E. vm_compute in E. discriminate E.
Qed.

Example C10_nonvacuous_gs_run :
  map (fun m => (this (fst m), map (fun z => (this (fst z), this (snd z))) (snd m))) (orthogonalize ex_ps)
  = [(3 # 2, [(0, 0); (2, 0)]); (1, [(1, 0); (0, 0)])]%Q
  /\ map (fun m => this (mode_intensity m)) (orthogonalize ex_ps) = [6; 1]%Q
  /\ map (fun p => this (norm2 p)) ex_ps = [1; 6]%Q.
Proof. repeat split; vm_compute; reflexivity. Qed.

Example C10_nonvacuous_weights :
  let raw := [Q2Qc 6; Q2Qc 3; 1] in let I := [Q2Qc (7 # 2); Q2Qc 5; Q2Qc (1 # 3)] in
  length raw = length I /\ 0 < Q2Qc (2469 # 2) /\ qcsum raw <> 0 /\ Forall (fun x => 0 < x) I /\
  map this (apply_weights (Q2Qc (2469 # 2)) (norm_weights raw) I)
  = [7407 # 10; 7407 # 20; 2469 # 20]%Q.
Proof.
  cbn zeta. split; [reflexivity | split; [reflexivity | split; [intro Z; discriminate Z | split]]].
  - repeat constructor.
  - vm_compute. reflexivity.
Qed.

(* ######################################################################## round 3 (coverage extension)
   Everything below is additive: the guards of the code (clamp_min in the orthogonalisation, the
   length-only check of the requested weights), linearly DEPENDENT and zero modes, ties, every
   tomography combination, one common shift for all modes (center_probe, repaired). *)
Local Close Scope Qc_scope.
Local Open Scope Q_scope.

(* ================================================================ tomography: every combination *)
Theorem C10_tomo_pixel_cases : forall x s,
  tomo_pixel false None x = x /\
  tomo_pixel true None x = qmax x 0 /\
  tomo_pixel false (Some s) x = qmax (x - s) 0 /\
  tomo_pixel true (Some s) x = qmax (qmax x 0 - s) 0.
Proof. exact tomo_pixel_cases. Qed.
Print Assumptions C10_tomo_pixel_cases.

Theorem C10_tomo_unconstrained : forall obj, tomo_hard false None obj = obj.
Proof. exact tomo_unconstrained. Qed.
Print Assumptions C10_tomo_unconstrained.

(* re-applying the positivity clamp changes nothing; shrinkage (a soft threshold) is NOT idempotent *)
Theorem C10_tomo_positivity_idempotent : forall obj,
  tomo_hard true None (tomo_hard true None obj) = tomo_hard true None obj.
Proof. exact tomo_positivity_idempotent. Qed.
Print Assumptions C10_tomo_positivity_idempotent.

Theorem C10_tomo_shrinkage_not_idempotent :
  exists pos s obj, ~ Forall2 Qeq (tomo_hard pos (Some s) (tomo_hard pos (Some s) obj)) (tomo_hard pos (Some s) obj).
Proof. exact tomo_shrinkage_not_idempotent. Qed.
Print Assumptions C10_tomo_shrinkage_not_idempotent.

Theorem C10_tomo_shrink_le : forall pos s obj, 0 <= s ->
  Forall2 (fun y x => y <= qmax x 0) (tomo_hard pos (Some s) obj) obj.
Proof. exact tomo_shrink_le_all. Qed.
Print Assumptions C10_tomo_shrink_le.

Local Close Scope Q_scope.
Local Open Scope Qc_scope.

(* ================================================================ Gram-Schmidt without independence *)
(* the residuals of ANY input family (dependent, repeated, zero modes included) are pairwise
   orthogonal *)
Theorem C10_gs_orthogonal_any_inputs : forall n ps,
  allN n ps -> pairwise (fun a b => dot a b = c0) (gs ps).
Proof. exact gs_pairwise_any. Qed.
Print Assumptions C10_gs_orthogonal_any_inputs.

(* a residual vanishes exactly when its mode is a linear combination of the earlier modes *)
Theorem C10_gs_zero_residual_iff_dependent : forall n front p,
  allN n front -> length p = n ->
  (norm2 (residual (gs front) p) = 0 <->
   exists cs, length cs = length front /\ p = lincomb n cs front).
Proof. exact residual_zero_iff_dependent. Qed.
Print Assumptions C10_gs_zero_residual_iff_dependent.

(* ================================================================ the clamp_min(1e-12) guard *)
(* every residual at least eps long: the clamped loop IS the model of the theorems above *)
Theorem C10_gsc_clamp_idle_is_model : forall eps2 ps,
  Forall (fun u => eps2 <= norm2 u) (gs ps) -> orthogonalize_c eps2 ps = orthogonalize ps.
Proof. exact orthogonalize_c_idle. Qed.
Print Assumptions C10_gsc_clamp_idle_is_model.

(* hence the three clauses of the property for the code WITH its guard, the premise "the clamp never
   acts" now explicit and checkable on the exact residuals *)
Theorem C10_gsc_property_clauses : forall n eps2 ps,
  allN n ps -> lin_indep n ps -> Forall (fun u => eps2 <= norm2 u) (gs ps) ->
  (forall i j mi mj, i <> j ->
     nth_error (orthogonalize_c eps2 ps) i = Some mi -> nth_error (orthogonalize_c eps2 ps) j = Some mj ->
     dot (snd mi) (snd mj) = c0 /\ mode_gram2 mi mj = 0) /\
  Permutation (map mode_intensity (orthogonalize_c eps2 ps)) (map norm2 ps) /\
  StronglySorted (fun a b => mode_intensity b <= mode_intensity a) (orthogonalize_c eps2 ps).
Proof. exact gsc_property_clauses. Qed.
Print Assumptions C10_gsc_property_clauses.

(* linearly DEPENDENT or zero inputs, each residual exactly zero or at least eps long (what the clamp
   does then: the dependent mode comes out as the zero vector).  What still holds: orthogonality ... *)
Theorem C10_gsc_orthogonal_dependent : forall n eps2 ps i j mi mj,
  allN n ps -> clamp_clean eps2 (gs ps) -> i <> j ->
  nth_error (orthogonalize_c eps2 ps) i = Some mi -> nth_error (orthogonalize_c eps2 ps) j = Some mj ->
  dot (snd mi) (snd mj) = c0 /\ mode_gram2 mi mj = 0.
Proof. exact gsc_orthogonal_dependent. Qed.
Print Assumptions C10_gsc_orthogonal_dependent.

(* ... and every mode keeps its intensity except the dependent ones, which lose all of it (the
   intensity multiset is NOT preserved for dependent inputs: this is why they are outside the claim) *)
Theorem C10_gsc_intensity_dependent : forall eps2 ps, 0 < eps2 -> clamp_clean eps2 (gs ps) ->
  Permutation (map mode_intensity (orthogonalize_c eps2 ps))
              (map (fun pu => kept_intensity (fst pu) (snd pu)) (combine ps (gs ps))).
Proof. exact gsc_intensity_dependent. Qed.
Print Assumptions C10_gsc_intensity_dependent.

(* for ALL inputs and every eps > 0: no mode gains intensity, the total never grows, the order is
   descending *)
Theorem C10_gsc_intensity_le : forall eps2 ps, 0 < eps2 ->
  Forall2 (fun m p => mode_intensity m <= norm2 p) (gs_modes_c eps2 ps) ps.
Proof. exact gsc_intensity_le. Qed.
Print Assumptions C10_gsc_intensity_le.

Theorem C10_gsc_total_intensity_le : forall eps2 ps, 0 < eps2 ->
  qcsum (map mode_intensity (orthogonalize_c eps2 ps)) <= qcsum (map norm2 ps).
Proof. exact gsc_total_intensity_le. Qed.
Print Assumptions C10_gsc_total_intensity_le.

Theorem C10_gsc_sorted_desc : forall eps2 ps,
  StronglySorted (fun a b => mode_intensity b <= mode_intensity a) (orthogonalize_c eps2 ps).
Proof. exact gsc_sorted_desc. Qed.
Print Assumptions C10_gsc_sorted_desc.

(* ================================================================ ties *)
(* any descending arrangement of the same modes (any tie-break of argsort) shows the intensity
   sequence of the model's sort *)
Theorem C10_gs_any_tiebreak_same_intensities : forall (ms out : list (Qc * list C)),
  Permutation out ms ->
  StronglySorted (fun a b => mode_intensity b <= mode_intensity a) out ->
  map mode_intensity out = map mode_intensity (sort_desc ms).
Proof. exact any_tiebreak_same_intensities. Qed.
Print Assumptions C10_gs_any_tiebreak_same_intensities.

(* the model's sort is stable: modes of one intensity keep their input order *)
Theorem C10_gs_sort_stable : forall v l,
  filter (has_intensity v) (sort_desc l) = filter (has_intensity v) l.
Proof. exact sort_desc_stable. Qed.
Print Assumptions C10_gs_sort_stable.

(* ================================================================ one isometry for the whole stack *)
(* center_probe (repaired: one Fourier shift, from the centre of mass of the total intensity): a
   map that preserves inner products, applied to every mode, preserves every mode intensity and
   every Gram entry — orthogonality, multiset and order survive *)
Theorem C10_common_isometry_preserves : forall U ms n,
  isometry U -> Forall (fun m : Qc * list C => length (snd m) = n) ms ->
  map mode_intensity (map_modes U ms) = map mode_intensity ms /\
  (forall i j mi mj, nth_error ms i = Some mi -> nth_error ms j = Some mj ->
     exists mi' mj', nth_error (map_modes U ms) i = Some mi' /\ nth_error (map_modes U ms) j = Some mj' /\
                     dot (snd mi') (snd mj') = dot (snd mi) (snd mj) /\ mode_gram2 mi' mj' = mode_gram2 mi mj).
Proof. exact common_isometry_preserves. Qed.
Print Assumptions C10_common_isometry_preserves.

(* ================================================================ requested weights at the edges *)
(* the mode intensities of the initial probe: mean * w_i / sum w, whatever the input intensities *)
Theorem C10_weights_closed_form : forall mean raw I,
  length raw = length I -> mean <> 0 -> qcsum raw <> 0 -> Forall (fun x => 0 < x) I ->
  apply_weights mean (norm_weights raw) I = map (fun w => w / qcsum raw * mean) raw.
Proof. exact weights_closed_form. Qed.
Print Assumptions C10_weights_closed_form.

(* the squared factor applied to mode i, and that it reproduces apply_weights *)
Theorem C10_weight_scales_closed : forall mean w I,
  length w = length I -> mean <> 0 -> qcsum I <> 0 -> Forall (fun x => x <> 0) I ->
  weight_scales mean w I = map (fun wx => fst wx * mean / snd wx) (combine w I).
Proof. exact weight_scales_closed. Qed.
Print Assumptions C10_weight_scales_closed.

Theorem C10_weight_scales_spec : forall mean w I,
  map (fun sx => fst sx * snd sx) (combine (weight_scales mean w I) I) = apply_weights mean w I.
Proof. exact weight_scales_spec. Qed.
Print Assumptions C10_weight_scales_spec.

(* admissible request (non-zero sum, all relative weights >= 0; zeros and all-negative lists
   included): a real scaling exists for every mode *)
Theorem C10_weight_scales_nonneg : forall mean raw I,
  length raw = length I -> 0 < mean -> weights_admissible raw -> Forall (fun x => 0 < x) I ->
  Forall (fun s => 0 <= s) (weight_scales mean (norm_weights raw) I).
Proof. exact weight_scales_nonneg. Qed.
Print Assumptions C10_weight_scales_nonneg.

(* a negative relative weight: the squared factor is negative (the code's sqrt gives NaN) *)
Theorem C10_weight_scale_negative : forall mean w I k wk Ik,
  length w = length I -> 0 < mean -> qcsum I <> 0 -> Forall (fun x => 0 < x) I ->
  nth_error w k = Some wk -> nth_error I k = Some Ik -> wk < 0 ->
  exists s, nth_error (weight_scales mean w I) k = Some s /\ s < 0.
Proof. exact weight_scale_negative. Qed.
Print Assumptions C10_weight_scale_negative.

(* under the only guard the setter has (the length) the total-intensity clause is FALSE: a zero-sum
   request cannot be normalised (the code returns inf / NaN weights) *)
Definition C10_weights_unguarded_statement : Prop :=
  forall mean raw I, weights_guard_code raw I -> 0 < mean -> Forall (fun x => 0 < x) I ->
    qcsum (apply_weights mean (norm_weights raw) I) = mean.
Theorem C10_weights_unguarded_refuted : ~ C10_weights_unguarded_statement.
Proof. exact weights_unguarded_refuted. Qed.
Print Assumptions C10_weights_unguarded_refuted.

Theorem C10_weights_zero_weight_mode : forall mean raw I k,
  length raw = length I -> mean <> 0 -> qcsum raw <> 0 -> Forall (fun x => 0 < x) I ->
  nth_error raw k = Some 0 ->
  nth_error (apply_weights mean (norm_weights raw) I) k = Some 0.
Proof. exact weights_zero_weight_mode. Qed.
Print Assumptions C10_weights_zero_weight_mode.

(* ================================================================ non-vacuity (round 3) *)
Definition qi : C := (0, 1).
Definition q2 : Qc := Q2Qc 2.
(* p1 = (1, 0), p2 = 2i p1 (dependent), p3 = (1, 3) *)
Definition ex_dep : list vec := [[c1; c0]; [(0, q2); c0]; [c1; (Q2Qc 3, 0)]].

Example C10_nonvacuous_dependent_hyps :
  allN 2 ex_dep /\ 0 < eps2_code /\ clamp_clean eps2_code (gs ex_dep) /\ ~ lin_indep 2 ex_dep.
Proof.
  split; [repeat constructor | split; [reflexivity | split]].
  - apply clamp_clean_b_ok. vm_compute. reflexivity.
  - intros H. specialize (H [(0, q2); copp c1; c0] eq_refl).
    assert (E : lincomb 2 [(0, q2); copp c1; c0] ex_dep = vzeros 2).
    { unfold ex_dep. cbn [lincomb vadd vzip vscale map vzeros repeat]. repeat f_equal; apply injective_projections; cbn [fst snd]; apply Qc_is_canon; vm_compute; reflexivity. }
    specialize (H E). inversion H as [|? ? H0 _]. apply (f_equal snd) in H0. apply (f_equal this) in H0. vm_compute in H0. discriminate H0.
Qed.

(* the dependent mode comes out as the zero vector with intensity 0 (input intensities 1, 4, 10) *)
Example C10_nonvacuous_dependent_run :
  map (fun m => this (mode_intensity m)) (orthogonalize_c eps2_code ex_dep) = [10; 1; 0]%Q /\
  map (fun p => this (norm2 p)) ex_dep = [1; 4; 10]%Q /\
  map (fun pu => this (kept_intensity (fst pu) (snd pu))) (combine ex_dep (gs ex_dep)) = [1; 0; 10]%Q.
Proof. repeat split; vm_compute; reflexivity. Qed.

(* a non-zero mode shorter than eps = 1e-12 is not restored to its norm: |p|^2 = 1e-26 -> 1e-28 *)
Example C10_gsc_tiny_mode_loses_intensity :
  let p : vec := [(Q2Qc (1 # 10000000000000), 0)] in
  map (fun m => this (mode_intensity m)) (orthogonalize_c eps2_code [p]) = [1 # 10000000000000000000000000000]%Q /\
  this (norm2 p) = (1 # 100000000000000000000000000)%Q.
Proof. cbn zeta. split; vm_compute; reflexivity. Qed.

(* the premise of C10_gsc_clamp_idle_is_model on the round-2 example *)
Example C10_nonvacuous_clamp_idle : Forall (fun u => eps2_code <= norm2 u) (gs ex_ps).
Proof. repeat constructor; vm_compute; discriminate. Qed.

(* two orthogonal modes of EQUAL intensity: both arrangements are descending; the model keeps the
   input order *)
Definition ex_tie : list (Qc * list C) := [(1, [c1; c0]); (1, [c0; qi])].
Definition show_mode (m : Qc * list C) := (this (fst m), map (fun z : C => (this (fst z), this (snd z))) (snd m)).
Example C10_nonvacuous_ties :
  map show_mode (sort_desc ex_tie) = map show_mode ex_tie /\
  map show_mode (sort_desc (rev ex_tie)) = map show_mode (rev ex_tie) /\
  map (fun m => this (mode_intensity m)) (sort_desc ex_tie) = [1; 1]%Q /\
  StronglySorted (fun a b => mode_intensity b <= mode_intensity a) (rev ex_tie) /\
  Permutation (rev ex_tie) ex_tie.
Proof.
  split; [vm_compute; reflexivity | split; [vm_compute; reflexivity | split; [vm_compute; reflexivity | split]]].
  - cbn [rev app ex_tie]. constructor; [constructor; [constructor | constructor] | constructor; [|constructor]].
    vm_compute. discriminate.
  - cbn [rev app ex_tie]. apply perm_swap.
Qed.

(* multiplication by i is an isometry: the premise of C10_common_isometry_preserves is satisfiable *)
Example C10_nonvacuous_isometry : isometry (vscale qi).
Proof. apply vscale_unit_isometry. apply Qc_is_canon. vm_compute. reflexivity. Qed.

(* shifting ONE mode alone (what center_probe did before the repair) destroys orthogonality:
   a = (1, 0), b = (0, 1), b rolled by one pixel = a *)
Example C10_per_mode_shift_breaks_orthogonality :
  let a : vec := [c1; c0] in let b : vec := [c0; c1] in let roll (v : vec) := tl v ++ firstn 1 v in
  dot a b = c0 /\ norm2 (roll b) = norm2 b /\ dot a (roll b) <> c0.
Proof.
  cbn zeta. repeat split; try (vm_compute; reflexivity).
  intro E. apply (f_equal fst) in E. apply (f_equal this) in E. vm_compute in E. discriminate E.
Qed.

(* weights: a zero weight and an all-negative request are admissible; a mixed-sign one is not *)
Example C10_nonvacuous_weights_edges :
  weights_admissible [Q2Qc 3; 0; 1] /\ weights_admissible [- (1); - Q2Qc 3] /\
  ~ weights_admissible [Q2Qc 2; - (1); 1] /\ ~ weights_admissible [1; - (1)] /\
  map this (apply_weights (Q2Qc 100) (norm_weights [Q2Qc 3; 0; 1]) [Q2Qc 5; Q2Qc 7; Q2Qc (1 # 2)]) = [75; 0; 25]%Q /\
  map this (weight_scales (Q2Qc 100) (norm_weights [Q2Qc 2; - (1); 1]) [Q2Qc 5; Q2Qc 7; Q2Qc (1 # 2)]) = [20; -50 # 7; 100]%Q.
Proof.
  repeat split; try (vm_compute; reflexivity).
  - intro Z; discriminate Z.
  - repeat constructor; vm_compute; discriminate.
  - intro Z; discriminate Z.
  - repeat constructor; vm_compute; discriminate.
  - intros [_ H]. inversion H as [|? ? _ H1]; subst. inversion H1 as [|? ? H2 _]; subst. vm_compute in H2. apply H2. reflexivity.
  - intros [H _]. apply H. apply Qc_is_canon. vm_compute. reflexivity.
Qed.
