(* C10 — Object and probe constraints always yield physically admissible models.
   This file contains ONLY the property theorems (closed by `exact`), the full-strength statement
   that the code does not satisfy together with its refutation, the assumption reports, and
   non-vacuity examples.  The model is /repo WITH fixes/C10-pure-phase-fov-mask.diff applied.
   hard_polar is the complex / pure-phase object BEFORE the slice-tying step (the property claims
   nothing about amplitudes of tied slices); the tying step itself is tie_if / tie_slices, applied
   by the code to the real and imaginary channel.
   Objects: list of slices, each the flattened list of pixels; a complex / pure-phase pixel is
   (amplitude, phase) over Q, a potential pixel is a rational; `mask` is the FOV mask (one entry per
   pixel, broadcast over slices).  Probes: lists of vectors over Q(i); a mode (s, u) denotes
   sqrt(s) * u (normalise-and-restore), so intensities and |Gram entries|^2 are rational. *)
From QV.lib Require Import Prelude C10_Cplx.
From QV.model Require Import C10_Model.
From QV.proof Require Import C10_Proofs.
From Coq Require Import QArith Qcanon Sorted.
Local Close Scope Q_scope.

(* ================================================================ objects *)
Local Open Scope Q_scope.

(* complex objects: amplitude in [0, 1] for every raw amplitude and phase, every configuration and
   every FOV mask in [0,1] (applied or not) *)
Theorem C10_complex_amp_le_1 : forall cfg mask obj,
  mask_in_01 mask ->
  Forall (Forall (fun p : polar => 0 <= fst p <= 1)) (hard_polar Complex cfg mask obj).
Proof. exact complex_amp_le_1. Qed.
Print Assumptions C10_complex_amp_le_1.

(* pure-phase objects: amplitude exactly one — every configuration, every FOV mask (applied or
   not; the mask acts on the phase only) *)
Theorem C10_pure_phase_amp_eq_1 : forall cfg mask obj,
  Forall (Forall (fun p : polar => fst p == 1)) (hard_polar PurePhase cfg mask obj).
Proof. exact pure_phase_amp_eq_1. Qed.
Print Assumptions C10_pure_phase_amp_eq_1.

(* the defect this replaced (snapshot of /repo before fixes/C10-pure-phase-fov-mask.diff): the mask
   was multiplied into the amplitude twice, so a "pure-phase" pixel had amplitude mask^2 *)
Theorem C10_unrepaired_pure_phase_amp_is_mask_sq : forall mean_ph m p,
  fst (polar_pixel_unrepaired PurePhase mean_ph (Some m) p) == m * m.
Proof. exact pure_phase_pixel_unrepaired. Qed.
Print Assumptions C10_unrepaired_pure_phase_amp_is_mask_sq.

(* potential objects under positivity: every value non-negative, with any baseline offset,
   any FOV mask in [0,1] and with or without slice tying *)
Theorem C10_potential_nonneg : forall cfg mask obj,
  positivity cfg = true -> mask_in_01 mask ->
  Forall (Forall (fun x => 0 <= x)) (hard_potential cfg mask obj).
Proof. exact potential_nonneg. Qed.
Print Assumptions C10_potential_nonneg.

(* identical slices when requested: any two slices of the output are equal (the tying step on any
   real channel, and the potential pipeline as a whole) *)
Theorem C10_slices_identical : forall cfg mask obj a b,
  identical_slices cfg = true ->
  In a (hard_potential cfg mask obj) -> In b (hard_potential cfg mask obj) -> a = b.
Proof. exact slices_identical. Qed.
Print Assumptions C10_slices_identical.

Theorem C10_tie_slices_identical : forall xs a b,
  In a (tie_slices xs) -> In b (tie_slices xs) -> a = b.
Proof. exact tie_slices_identical. Qed.
Print Assumptions C10_tie_slices_identical.

(* the tying step as applied to the two real channels (re, im) of a complex / pure-phase object *)
Theorem C10_slices_identical_channel : forall cfg xs a b,
  identical_slices cfg = true -> In a (tie_if cfg xs) -> In b (tie_if cfg xs) -> a = b.
Proof. exact tie_if_identical. Qed.
Print Assumptions C10_slices_identical_channel.

(* re-applying the constraint to an already constrained object (obj2: same amplitudes as the
   constrained object, arbitrary phases) does not change the amplitude — pure-phase objects under
   any mask; complex objects when the mask is not applied or is binary (entries 0 or 1) *)
Theorem C10_hard_idempotent_amp : forall ty cfg mask obj obj2,
  is_wave ty -> (ty = PurePhase \/ mask_binary cfg mask) ->
  amps_eq (amps obj2) (amps (hard_polar ty cfg mask obj)) ->
  amps_eq (amps (hard_polar ty cfg mask obj2)) (amps (hard_polar ty cfg mask obj)).
Proof. exact hard_idempotent_amp. Qed.
Print Assumptions C10_hard_idempotent_amp.

(* at full strength (any FOV mask in [0,1]) FALSE for complex objects: a fractional mask value is
   multiplied into the amplitude again on every application (clamp(a) m -> clamp(a) m^2);
   known finding C10/complex-fov-mask-reapplication *)
Definition C10_hard_idempotent_amp_statement : Prop :=
  forall ty cfg mask obj obj2,
    is_wave ty -> mask_in_01 mask ->
    amps_eq (amps obj2) (amps (hard_polar ty cfg mask obj)) ->
    amps_eq (amps (hard_polar ty cfg mask obj2)) (amps (hard_polar ty cfg mask obj)).
Theorem C10_hard_idempotent_amp_refuted : ~ C10_hard_idempotent_amp_statement.
Proof. exact hard_idempotent_amp_refuted. Qed.
Print Assumptions C10_hard_idempotent_amp_refuted.

(* tomography: positivity clamp and / or shrinkage give non-negative volumes *)
Theorem C10_tomo_nonneg : forall pos shrink obj,
  (pos = true \/ shrink <> None) ->
  Forall (fun x => 0 <= x) (tomo_hard pos shrink obj).
Proof. exact tomo_nonneg. Qed.
Print Assumptions C10_tomo_nonneg.

Local Close Scope Q_scope.

(* ================================================================ probes *)
Local Open Scope Qc_scope.

(* distinct output modes are orthogonal: the directions have zero Hermitian inner product and the
   squared modulus of the inner product of the restored modes is zero — for every number of modes
   and every vector length, for linearly independent inputs *)
Theorem C10_gs_orthogonal : forall n ps i j mi mj,
  allN n ps -> lin_indep n ps -> i <> j ->
  nth_error (orthogonalize ps) i = Some mi -> nth_error (orthogonalize ps) j = Some mj ->
  dot (snd mi) (snd mj) = c0 /\ mode_gram2 mi mj = 0.
Proof. exact gs_orthogonal. Qed.
Print Assumptions C10_gs_orthogonal.

(* the output carries the same multiset of mode intensities as the input *)
Theorem C10_gs_intensity_multiset : forall n ps,
  allN n ps -> lin_indep n ps ->
  Permutation (map mode_intensity (orthogonalize ps)) (map norm2 ps).
Proof. exact gs_intensity_multiset. Qed.
Print Assumptions C10_gs_intensity_multiset.

(* in descending order of intensity (unconditionally) *)
Theorem C10_gs_sorted_desc : forall ps,
  StronglySorted (fun a b => mode_intensity b <= mode_intensity a) (orthogonalize ps).
Proof. exact gs_sorted_desc. Qed.
Print Assumptions C10_gs_sorted_desc.

(* the running-residual (modified) loop of the code equals the classical formula
   u = p - sum_j (<u_j, p> / <u_j, u_j>) u_j on an orthogonal family *)
Theorem C10_gs_residual_classical : forall n us p,
  allN n us -> length p = n -> pairwise (fun a b => dot a b = c0) us ->
  residual us p = cgs_residual us p.
Proof. exact residual_eq_cgs. Qed.
Print Assumptions C10_gs_residual_classical.

(* initial probe: total intensity = mean diffraction intensity, relative mode intensities = the
   requested relative weights (I: mode intensities of the input probe, all non-zero) *)
Theorem C10_weights_total : forall mean raw I,
  length raw = length I -> 0 < mean -> qcsum raw <> 0 -> Forall (fun x => 0 < x) I ->
  qcsum (apply_weights mean (norm_weights raw) I) = mean.
Proof. exact weights_total. Qed.
Print Assumptions C10_weights_total.

Theorem C10_weights_ratio : forall mean raw I,
  length raw = length I -> 0 < mean -> qcsum raw <> 0 -> Forall (fun x => 0 < x) I ->
  map (fun x => x / qcsum (apply_weights mean (norm_weights raw) I)) (apply_weights mean (norm_weights raw) I)
  = map (fun w => w / qcsum raw) raw.
Proof. exact weights_ratio. Qed.
Print Assumptions C10_weights_ratio.

Theorem C10_weights_total_default : forall mean I,
  I <> [] -> 0 < mean -> Forall (fun x => 0 < x) I ->
  qcsum (apply_weights mean (default_weights (length I)) I) = mean.
Proof. exact weights_total_default. Qed.
Print Assumptions C10_weights_total_default.

Local Close Scope Qc_scope.

(* ================================================================ non-vacuity *)
Local Open Scope Q_scope.

Definition ex_cfg (tie msk : bool) : ocfg :=
  {| positivity := true; fix_baseline := true; baseline_factor := 1 # 2; identical_slices := tie;
     apply_fov_mask := msk |}.

Lemma ex_mask_ok : mask_in_01 (Some [1 # 2; 1]).
Proof. cbn. repeat constructor; apply Qle_bool_iff; reflexivity. Qed.

(* the clamp acts (raw amplitude 3 -> 1) and the mask in [0,1] is applied (once) *)
Example C10_nonvacuous_complex :
  mask_in_01 (Some [1 # 2; 1]) /\
  amps (hard_polar Complex (ex_cfg false true) (Some [1 # 2; 1]) [[(3, 1); (1 # 3, -2)]])
  = [[1 # 2; 1 # 3]].
Proof. split; [exact ex_mask_ok | vm_compute; reflexivity]. Qed.

(* a fractional mask that IS applied: amplitude one, phase (phi - mean) * mask *)
Example C10_nonvacuous_pure_phase :
  hard_polar PurePhase (ex_cfg false true) (Some [1 # 2; 1]) [[(3, 1); (1 # 3, -2)]]
  = [[(1, 3 # 4); (1, -3 # 2)]].
Proof. vm_compute; reflexivity. Qed.

(* the recorded defect: before the repair the same pixel had amplitude 1/4 *)
Example C10_unrepaired_pure_phase_refuted :
  ~ fst (polar_pixel_unrepaired PurePhase 0 (Some (1 # 2)) (3, 1)) == 1.
Proof. vm_compute. discriminate. Qed.

Example C10_nonvacuous_potential :
  positivity (ex_cfg true true) = true /\
  hard_potential (ex_cfg true true) (Some [1 # 4; 1]) [[-3; 2]; [1; -5]]
  = [[24 # 128; 10 # 8]; [24 # 128; 10 # 8]].
Proof. split; [reflexivity | vm_compute; reflexivity]. Qed.

(* a binary mask that is applied, a complex object whose clamp acts *)
Example C10_nonvacuous_idempotent :
  let cfg := ex_cfg false true in let mask := Some [0; 1] in
  let o1 := hard_polar Complex cfg mask [[(3, 1); (1 # 3, -2)]] in
  mask_binary cfg mask /\ amps o1 = [[0; 1 # 3]] /\
  amps (hard_polar Complex cfg mask o1) = [[0; 1 # 3]].
Proof.
  cbn zeta. split; [|split; vm_compute; reflexivity].
  cbn. constructor; [left; reflexivity | constructor; [right; reflexivity | constructor]].
Qed.

Example C10_nonvacuous_tie_channel :
  identical_slices (ex_cfg true false) = true /\
  tie_if (ex_cfg true false) [[1; 2]; [3; -4]] = [[4 # 2; -2 # 2]; [4 # 2; -2 # 2]].
Proof. split; [reflexivity | vm_compute; reflexivity]. Qed.

Example C10_nonvacuous_tomo :
  tomo_hard true (Some (1 # 4)) [-1; 1 # 8; 1] = [0; 0; 3 # 4].
Proof. vm_compute. reflexivity. Qed.

Local Close Scope Q_scope.
Local Open Scope Qc_scope.

(* two non-orthogonal, linearly independent modes: p1 = (1, 0), p2 = (1 + i, 2) *)
Definition ex_ps : list vec := [[c1; c0]; [(1, 1); (Q2Qc 2, 0)]].

Example C10_nonvacuous_gs_hyps : allN 2 ex_ps /\ lin_indep 2 ex_ps /\ dot [c1; c0] [(1, 1); (Q2Qc 2, 0)] <> c0.
Proof.
  split; [repeat constructor | split].
  - intros cs Hl H. destruct cs as [|a [|b [|? ?]]]; try discriminate Hl.
    unfold ex_ps in H. cbn [lincomb vadd vzip vscale map vzeros repeat] in H.
    pose proof (f_equal (fun v => nth 0 v c0) H) as H0.
    pose proof (f_equal (fun v => nth 1 v c0) H) as H1. cbn [nth] in H0, H1.
    assert (Hb : b = c0).
    { assert (E : cmul (Q2Qc 2, 0) b = c0).
      { rewrite <- H1. ring. }
      destruct b as [x y]. unfold cmul, c0 in E; cbn [fst snd] in E.
      pose proof (f_equal fst E) as E1. pose proof (f_equal snd E) as E2. cbn [fst snd] in E1, E2.
      assert (Hx : x = 0).
      { assert (X : x = (Q2Qc 2 * x - 0 * y) / Q2Qc 2) by (field; intro Z; discriminate Z). rewrite X, E1. field. intro Z; discriminate Z. }
      assert (Hy : y = 0).
      { assert (Y : y = (Q2Qc 2 * y + 0 * x) / Q2Qc 2) by (field; intro Z; discriminate Z). rewrite Y, E2. field. intro Z; discriminate Z. }
      subst. reflexivity. }
    subst b.
    assert (Ha : a = c0). { rewrite <- H0. ring. }
    subst a. repeat constructor.
  - intro E. apply (f_equal fst) in E. vm_compute in E. discriminate E.
Qed.

Example C10_nonvacuous_gs_run :
  map (fun m => (this (fst m), map (fun z => (this (fst z), this (snd z))) (snd m))) (orthogonalize ex_ps)
  = [(3 # 2, [(0, 0); (2, 0)]); (1, [(1, 0); (0, 0)])]%Q
  /\ map (fun m => this (mode_intensity m)) (orthogonalize ex_ps) = [6; 1]%Q
  /\ map (fun p => this (norm2 p)) ex_ps = [1; 6]%Q.
Proof. repeat split; vm_compute; reflexivity. Qed.

Example C10_nonvacuous_weights :
  let raw := [Q2Qc 6; Q2Qc 3; 1] in let I := [Q2Qc (7 # 2); Q2Qc 5; Q2Qc (1 # 3)] in
  length raw = length I /\ 0 < Q2Qc (2469 # 2) /\ qcsum raw <> 0 /\ Forall (fun x => 0 < x) I /\
  map this (apply_weights (Q2Qc (2469 # 2)) (norm_weights raw) I)
  = [7407 # 10; 7407 # 20; 2469 # 20]%Q.
Proof.
  cbn zeta. split; [reflexivity | split; [reflexivity | split; [intro Z; discriminate Z | split]]].
  - repeat constructor.
  - vm_compute. reflexivity.
Qed.
