(* C01 — serializer round-trip fidelity.  Model: model/C01_Model.v (of serialize.py as repaired by
   fixes/C01-*.diff, all committed to /repo).  Proofs: proof/C01_Proofs_*.v. *)
From QV.lib Require Import Prelude.
From QV.model Require Import C01_Model.
From QV.proof Require Import C01_Proofs_RT C01_Proofs_Norm C01_Proofs_Dispatch C01_Proofs_Store C01_Proofs_Written.
From Coq Require Import String.
Local Open Scope string_scope.
Local Open Scope list_scope.

(* save() then load() of ANY well-formed object graph (no bound on depth or width; every value
   kind) returns an object of the same class with exactly the attribute names of the original
   and structurally equal values: `norm` only forgets what the quantifier allows (NumPy scalar ->
   Python scalar of the same numeric value, all-numeric sequence -> its promoted numbers, rng
   state), and lists attributes in the canonical order attrs/arrays/groups (maps are unordered). *)
Theorem C01_roundtrip :
  forall v, wf_obj v = true -> load_file [] [] (save_file [] [] v) = RVal (norm v).
Proof. exact roundtrip. Qed.
Print Assumptions C01_roundtrip.

(* the if/elif chain of _serialize_value: for every value exactly one branch fires (every earlier
   guard is false, the guard of the chosen branch is true, 15 = the final `else`), and it is the
   branch intended for that kind of value *)
Theorem C01_dispatch_total_unique :
  forall v, dispatch v = intended v /\ dispatch v <= 15 /\
            (forall j, j < dispatch v -> nth_guard j v = false) /\
            (dispatch v < 15 -> nth_guard (dispatch v) v = true).
Proof. exact dispatch_total_unique. Qed.
Print Assumptions C01_dispatch_total_unique.

(* saving the loaded object again and reloading it is a fixed point: the object w returned by the
   first load is returned unchanged by save/load of w itself *)
Theorem C01_roundtrip_fixpoint :
  forall v, wf_obj v = true ->
    exists w, load_file [] [] (save_file [] [] v) = RVal w /\ load_file [] [] (save_file [] [] w) = RVal w.
Proof. exact roundtrip_fixpoint. Qed.
Print Assumptions C01_roundtrip_fixpoint.

(* the normal form is itself a well-formed graph and normalising twice changes nothing *)
Theorem C01_norm_idem :
  forall v, wf_obj v = true -> wf_obj (norm v) = true /\ norm (norm v) = norm v.
Proof. intros v H. split; [exact (wf_obj_norm v H) | exact (norm_idem v H)]. Qed.
Print Assumptions C01_norm_idem.

(* load-time skip lists on a file saved without skipping (used by C14) *)
Theorem C01_load_skip :
  forall usn ust v, wf_obj v = true -> load_file usn ust (save_file [] [] v) = RVal (prune_load usn ust (norm v)).
Proof. exact load_skip_plain_file. Qed.
Print Assumptions C01_load_skip.

(* store independence: a zarr tree with unique member names per group is recovered exactly from
   its flat file map (what LocalStore keeps in a directory); the zip archive holds the same file
   map (members = files of the staged directory store, extractall restores them), so load() sees
   the same tree, hence returns the same object, for store='zip' and store='dir' *)
Theorem C01_store_independent :
  forall t, wf_node t = true ->
    unflatten (depth t) (unzip_store (zip_store (flatten t))) = Some t /\
    unflatten (depth t) (flatten t) = Some t.
Proof. exact store_independent. Qed.
Print Assumptions C01_store_independent.

(* every tree save() writes satisfies the hypothesis of C01_store_independent: member names
   (arrays and sub-groups share one namespace) are unique in every group, at every depth *)
Theorem C01_written_unique_names :
  forall v, wf_obj v = true -> wf_node (save_file [] [] v) = true.
Proof. exact wf_node_save_file. Qed.
Print Assumptions C01_written_unique_names.

(* hence, with no hypothesis on the tree: save, recover the tree from the flat file map of the
   directory store or from the members of the zip archive, load -> the normal form, for both *)
Theorem C01_roundtrip_both_stores :
  forall v, wf_obj v = true ->
    let t := save_file [] [] v in
    unflatten (depth t) (unzip_store (zip_store (flatten t))) = Some t /\
    unflatten (depth t) (flatten t) = Some t /\
    load_file [] [] t = RVal (norm v).
Proof. exact roundtrip_both_stores. Qed.
Print Assumptions C01_roundtrip_both_stores.

(* limits of the statement (each reproduced on the real code, see known_findings.json / the
   evidence): an optimizer or scheduler inside a container is written but cannot be loaded (they
   are not among the value kinds of the property); an int beyond 2**53 in a sequence that
   promotes to float changes its numeric value.  wf_obj excludes both.  A random generator or a
   dill-fallback value (Python / NumPy complex) inside a container is inside wf_obj since
   fixes/C01-rng-in-container.diff and fixes/C01-dill-fallback-in-container.diff. *)
Example C01_optimizer_in_container_refuted :
  load_file [] [] (save_file [] [] (VObj "m" "C" [("l", VList [VBlob BOptimizer ["torch.optim.sgd.SGD"] [("class_name", JStr "SGD")] 5; VInt 1])])) = RErr.
Proof. vm_compute. reflexivity. Qed.
Example C01_rng_complex_in_container_roundtrip :
  let v := VObj "m" "C" [("l", VList [VRng "PCG64" (JOpaque 7); VInt 1]);
                         ("d", VDict [("z", VOther ["builtins.complex"] 3); ("s", VSet [VRng "SFC64" JNull; VStr "a"])])] in
  wf_obj v = true /\ load_file [] [] (save_file [] [] v) = RVal (norm v).
Proof. vm_compute. split; reflexivity. Qed.
Example C01_numeric_seq_precision_refuted :
  load_file [] [] (save_file [] [] (VObj "m" "C" [("l", VList [VInt (2 ^ 53 + 1); VFloat 4602678819172646912])]))
  = RVal (VObj "m" "C" [("l", VList [VFloat (z2f (2 ^ 53)); VFloat 4602678819172646912])]).
Proof. vm_compute. reflexivity. Qed.

(* non-vacuity: a depth-3 graph using every constructor is well formed, and the theorem's
   conclusion is checked on it by evaluation as well *)
Example C01_nonvacuous_wf : wf_obj ex_graph = true.
Proof. vm_compute. reflexivity. Qed.
Example C01_nonvacuous_store :
  wf_node (save_file [] [] ex_graph) = true /\
  match unflatten (depth (save_file [] [] ex_graph)) (unzip_store (zip_store (flatten (save_file [] [] ex_graph)))) with
  | Some t => res_eqb (load_file [] [] t) (RVal (norm ex_graph)) | None => false end = true.
Proof. vm_compute. split; reflexivity. Qed.
Example C01_nonvacuous_norm_changes : value_eqb (norm ex_graph) ex_graph = false.
Proof. vm_compute. reflexivity. Qed.
Example C01_nonvacuous_roundtrip : res_eqb (load_file [] [] (save_file [] [] ex_graph)) (RVal (norm ex_graph)) = true.
Proof. vm_compute. reflexivity. Qed.
