(* TEMPORARY STUB - replaced by the real property file *)
From QV.model Require Import C01_Model.
Theorem C01_stub : True. Proof. exact I. Qed.
Print Assumptions C01_stub.
