(* C12 — One aberration surface: the 'defocus' alias.  Part 1 of the property theorems: the
   executable model (coq/model/C12_Model.v) of the three places where a coefficient dictionary is
   accepted — validators.validate_aberration_coefficients, complex_probe.standardize_aberration_coefs
   and the ProbeBase.probe_params setter.  ONLY statements closed by `exact`, assumption reports
   and examples; proofs in coq/proof/C12_Proofs.v.  (Part 2 — surface, gradients, conversions,
   fit — is coq/gen_proofs/C12_GenProperties.v over the model translated from the source.)

   Vocabulary (C12_Model.v):
     pydict                 association list in iteration order; values VNum q | VNone | VDict d
     run_handler h d        validate d | standardize d | setter max_order d   (Ok out | error)
     getd o name            coefs.get(name, 0.0) on the returned dictionary
     writes name d          the values that the items of d, in iteration order (nested
                            dictionaries in place), assign to the canonical name:
                            symbol -> value, 'defocus' -> C10 := -value, other alias -> target := value
     written name d         the last of them (0 if none) *)
From Coq Require Import QArith List String.
From QV.model Require Import C12_Model.
From QV.proof Require Import C12_Proofs C12_Proofs_Seq.
Import ListNotations.
Local Open Scope string_scope.
Local Open Scope list_scope.

(* every handler that accepts the dictionary returns, for EVERY canonical name, the value of the
   last item that assigns to it — with 'defocus' entering as C10 = -defocus *)
Theorem C12_alias_handlers_meaning :
  forall (h : handler) (d : pydict) (o : out) (name : string),
    run_handler h d = Ok o -> getd o name = written name d.
Proof. exact handler_spec. Qed.
Print Assumptions C12_alias_handlers_meaning.

(* hence any two handlers that accept the same dictionary give every coefficient the same value *)
Theorem C12_alias_handlers_agree :
  forall (h1 h2 : handler) (d : pydict) (o1 o2 : out) (name : string),
    run_handler h1 d = Ok o1 -> run_handler h2 d = Ok o2 -> getd o1 name = getd o2 name.
Proof. exact handlers_agree. Qed.
Print Assumptions C12_alias_handlers_agree.

(* 'defocus' = v with no later item naming C10 or defocus: C10 = -v, in all three handlers *)
Theorem C12_defocus_alias :
  forall (h : handler) (d1 d2 : pydict) (v : Q) (o : out),
    run_handler h (d1 ++ ("defocus", VNum v) :: d2) = Ok o ->
    flat d2 -> (forall k x, In (k, x) d2 -> k <> "C10" /\ k <> "defocus") ->
    getd o "C10" = Qopp v.
Proof. exact defocus_alias. Qed.
Print Assumptions C12_defocus_alias.

(* 'C10' = v is stored unchanged (and overrides an earlier 'defocus') *)
Theorem C12_c10_direct :
  forall (h : handler) (d1 d2 : pydict) (v : Q) (o : out),
    run_handler h (d1 ++ ("C10", VNum v) :: d2) = Ok o ->
    flat d2 -> (forall k x, In (k, x) d2 -> k <> "C10" /\ k <> "defocus") ->
    getd o "C10" = v.
Proof. exact c10_direct. Qed.
Print Assumptions C12_c10_direct.

(* every other alias is a plain renaming and every symbol is stored unchanged *)
Theorem C12_alias_renames :
  forall (h : handler) (d1 d2 : pydict) (k target : string) (v : Q) (o : out),
    run_handler h (d1 ++ (k, VNum v) :: d2) = Ok o ->
    write_of k v = Some (target, v) -> writes target d2 = [] ->
    getd o target = v.
Proof. exact alias_renames. Qed.
Print Assumptions C12_alias_renames.

(* non-vacuity: each handler accepts a dictionary with 'defocus' *)
Example C12_nonvacuous_validate :
  validate [("defocus", VNum (100 # 1)); ("C12", VNum (5 # 2)); ("Cs", VNone)]
  = Ok [("C10", (-100) # 1); ("C12", 5 # 2)].
Proof. vm_compute. reflexivity. Qed.

Example C12_nonvacuous_standardize :
  standardize [("astigmatism", VNum (5 # 2)); ("defocus", VNum (100 # 1))]
  = Ok [("C12", 5 # 2); ("C10", (-100) # 1)].
Proof. vm_compute. reflexivity. Qed.

Example C12_nonvacuous_setter :
  setter (Some 1%nat) [("energy", VNum (80000 # 1)); ("defocus", VNum (100 # 1));
                       ("aberration_coefs", VDict [("C30", VNum (7 # 1))])]
  = Ok [("C10", (-100) # 1); ("C30", 7 # 1); ("C12", 0 # 1); ("phi12", 0 # 1)].
Proof. vm_compute. reflexivity. Qed.

(* both 'C10' and 'defocus' given: the later item wins, in every handler *)
Example C12_both_given_last_wins :
  validate [("C10", VNum (5 # 1)); ("defocus", VNum (100 # 1))] = Ok [("C10", (-100) # 1)] /\
  standardize [("defocus", VNum (100 # 1)); ("C10", VNum (5 # 1))] = Ok [("C10", 5 # 1)].
Proof. split; vm_compute; reflexivity. Qed.

(* ================================================================================================
   Round 3: the probe-params setter assigned SEVERAL times on one object.
     assign mo st params     one `obj.probe_params = params` on an object storing st:
                             params["aberration_coefs"] := standardized, st' = DEFAULT | st | params
     assign_all mo st hist   a history of assignments (one that raises leaves the object unchanged)
     stored_coef st name     obj.probe_params["aberration_coefs"].get(name, 0.0)
   NoDup (map fst params): a Python dictionary has unique keys. *)

(* whatever the object held before, every coefficient read after an accepted assignment is the value
   the last item of THAT dictionary assigns to it — 'defocus' entering as C10 = -defocus *)
Theorem C12_setter_sequence_meaning :
  forall (mo : option nat) (st : pydict) (history : list pydict) (params st' : pydict) (name : string),
    NoDup (map fst params) ->
    assign mo (assign_all mo st history) params = Ok st' ->
    stored_coef (assign_all mo st (history ++ [params])) name = written name params.
Proof. exact assign_all_last. Qed.
Print Assumptions C12_setter_sequence_meaning.

(* two objects with different pasts agree after the same accepted assignment, and whether an
   assignment is accepted does not depend on the past *)
Theorem C12_setter_history_independent :
  forall (mo : option nat) (st1 st2 params : pydict),
    NoDup (map fst params) ->
    ((exists s1, assign mo st1 params = Ok s1) <-> (exists s2, assign mo st2 params = Ok s2)) /\
    (forall s1 s2 name, assign mo st1 params = Ok s1 -> assign mo st2 params = Ok s2 ->
                        stored_coef s1 name = stored_coef s2 name).
Proof.
  exact (fun mo st1 st2 params Hnd =>
           conj (iff_trans (assign_accepts mo st1 params) (iff_sym (assign_accepts mo st2 params)))
                (fun s1 s2 name H1 H2 => assign_history_independent mo st1 st2 params s1 s2 name Hnd H1 H2)).
Qed.
Print Assumptions C12_setter_history_independent.

(* non-vacuity: the scenario of the seeded change C12-b — an object configured with C10 = -250 is
   re-focused with defocus = 100: the stored C10 is -100, not the stale -250 *)
Example C12_nonvacuous_setter_sequence :
  stored_coef (assign_all (Some 5%nat) default_probe_params
                 [[("C10", VNum ((-250) # 1))]; [("defocus", VNum (100 # 1))]]) "C10" == (-100) # 1.
Proof. vm_compute. reflexivity. Qed.
