From Coq Require Import QArith String.
From QV.lib Require Import Prelude C03_Slice.
From QV.model Require Import C03_Model.
From QV.proof Require Import C03_Proofs.
Theorem C03_stub : True. Proof. exact stub. Qed.
Print Assumptions C03_stub.
