(* C03 — Dataset containers stay coherent under any history of operations.
   This file contains ONLY the property theorems (closed by `exact`), their assumption reports
   and non-vacuity examples.

   Reading guide (model/C03_Model.v):
     state                 append-only heaps of ndarray objects (shape, row-major data, owner of the
                           buffer), calibration arrays (list Q) and unit lists, plus the table of live
                           Dataset objects (four references + class tag)
     op / step / exec      the public operations (from_array of every class, copy, the four setters,
                           pad, crop, bin, fourier_resample with their in-place flag, __getitem__);
                           step returns Ok state | Err e; exec leaves the state unchanged on Err
     run FR divf s ops     = fold_left exec ops s.  FR (Fourier resampling kernel) and divf (division
                           of the "mean" reducer) are ARBITRARY functions: every theorem holds for all
     observe s t           (class, shape, data, origin, sampling, units) of live dataset t
     np_index sh data idx  SPECIFICATION: NumPy's own indexing (integers, slices with negative
                           bounds/steps, Ellipsis, integer lists incl. broadcasting and the rule that
                           the merged index-array axis goes first when the advanced indices are
                           separated); np_axes = which source axis each result axis runs along
     getitem               the CODE's bookkeeping (code_expand, code_kept_axes, scale_steps, registry),
                           as repaired by fixes/C03-advanced-index-axis-order.diff
   "Every reachable state" = run FR divf empty_state ops for an arbitrary list ops. *)
From Coq Require Import QArith String.
From QV.lib Require Import Prelude C03_Slice.
From QV.model Require Import C03_Model.
From QV.proof Require Import C03_Proofs.
From Coq Require Import List.
Import ListNotations.
Local Close Scope Q_scope.
Local Open Scope list_scope.

(* Clause 1.  After ANY finite sequence of operations (any arguments, malformed ones and failing
   calls included), every live dataset has exactly one origin, sampling and units entry per array
   axis, and its class matches its dimensionality (Dataset2d <-> 2, Dataset3d <-> 3,
   Dataset4d/4dstem <-> 4, Dataset: any). *)
Theorem C03_coherent_reachable :
  forall (FR : list Z -> list Z -> list nat -> list Z -> list Z) (divf : Z -> Z -> Z)
         (ops : list op) (t : nat),
    let s := run FR divf empty_state ops in
    t < length (dss s) ->
    let o := observe s t in
    length (o_origin o) = length (o_shape o) /\ length (o_sampling o) = length (o_shape o) /\
    length (o_units o) = length (o_shape o) /\ cls_ok (o_cls o) (length (o_shape o)).
Proof. exact reach_coherent. Qed.
Print Assumptions C03_coherent_reachable.

(* Clause 2a.  Indexing any reachable dataset with any index expression (integers, slices, lists,
   Ellipsis) that the call accepts returns a NEW dataset whose array is exactly the NumPy-indexed
   array (shape and data). *)
Theorem C03_getitem_data :
  forall (FR : list Z -> list Z -> list nat -> list Z -> list Z) (divf : Z -> Z -> Z)
         (ops : list op) (t : nat) (idx : list index) (s' : state),
    let s := run FR divf empty_state ops in
    t < length (dss s) -> getitem s t idx = Ok s' ->
    exists v, np_index (o_shape (observe s t)) (o_flat (observe s t)) idx = Ok v /\
      o_shape (observe s' (length (dss s))) = np_shape v /\
      o_flat (observe s' (length (dss s))) = np_flat v.
Proof. exact reach_getitem_data. Qed.
Print Assumptions C03_getitem_data.

(* Clause 2b.  ... and its axes carry the calibration of the source axes they run along, in the
   order in which NumPy lays the result out (np_axes v: sliced axes in order; the single merged
   index-array axis where the advanced indices stood, or first when they are separated by a slice
   or an Ellipsis), with the sampling multiplied by the slice step (negative steps included).  The
   merged index-array axis is labelled by the first list-indexed axis and keeps its sampling
   (oax_step = 1).  The class is the source's when the dimensionality is unchanged, the registered
   class of the new dimensionality otherwise. *)
Theorem C03_getitem_axes :
  forall (FR : list Z -> list Z -> list nat -> list Z -> list Z) (divf : Z -> Z -> Z)
         (ops : list op) (t : nat) (idx : list index) (s' : state),
    let s := run FR divf empty_state ops in
    t < length (dss s) -> getitem s t idx = Ok s' ->
    let src := observe s t in
    let res := observe s' (length (dss s)) in
    exists v, np_index (o_shape src) (o_flat src) idx = Ok v /\
      length (dss s') = S (length (dss s)) /\
      o_shape res = np_shape v /\ o_flat res = np_flat v /\
      o_origin res = map (fun ax => nth (oax_src ax) (o_origin src) 0%Q) (np_axes v) /\
      Forall2 Qeq (o_sampling res)
              (map (fun ax => (nth (oax_src ax) (o_sampling src) 1 * inject_Z (oax_step ax))%Q) (np_axes v)) /\
      o_units res = map (fun ax => nth (oax_src ax) (o_units src) ""%string) (np_axes v) /\
      o_cls res = (if length (np_shape v) =? length (o_shape src) then o_cls src
                   else registry (length (np_shape v))).
Proof. exact reach_getitem. Qed.
Print Assumptions C03_getitem_axes.

(* the code's adjacency test and Ellipsis expansion are NumPy's, for every index expression *)
Theorem C03_index_normalisation :
  forall (idx : list index) (n : nat) (ex : list index),
    code_separated idx = separated idx /\
    (np_expand n idx = Ok ex -> code_expand n idx = ex).
Proof.
  exact (fun idx n ex => conj (separated_code idx)
                              (fun H => proj1 (code_expand_np n idx ex H))).
Qed.
Print Assumptions C03_index_normalisation.

(* Clause 3.  An operation that returns a new dataset (from_array, copy, indexing, and the
   copying variants of pad/crop/bin/fourier_resample) leaves EVERY dataset that was alive before —
   in particular its source — exactly as it was: the same objects, the same data and
   calibration. *)
Theorem C03_source_untouched :
  forall (FR : list Z -> list Z -> list nat -> list Z -> list Z) (divf : Z -> Z -> Z)
         (ops : list op) (o : op) (s' : state),
    let s := run FR divf empty_state ops in
    step FR divf s o = Ok s' -> returns_new o = true ->
    length (dss s') = S (length (dss s)) /\
    forall t, t < length (dss s) -> get_ds s' t = get_ds s t /\ observe s' t = observe s t.
Proof. exact reach_source_untouched. Qed.
Print Assumptions C03_source_untouched.

(* ... an in-place operation or a setter changes its target only ... *)
Theorem C03_others_untouched :
  forall (FR : list Z -> list Z -> list nat -> list Z -> list Z) (divf : Z -> Z -> Z)
         (ops : list op) (o : op) (s' : state) (t : nat),
    let s := run FR divf empty_state ops in
    step FR divf s o = Ok s' -> returns_new o = false -> op_target o = Some t ->
    length (dss s') = length (dss s) /\
    forall u, u < length (dss s) -> u <> t -> get_ds s' u = get_ds s u /\ observe s' u = observe s u.
Proof. exact reach_others_untouched. Qed.
Print Assumptions C03_others_untouched.

(* ... and NO operation ever writes into an existing array buffer, calibration array or units
   list (which is why views — indexing, crop — may safely share the source's buffer). *)
Theorem C03_no_buffer_writes :
  forall (FR : list Z -> list Z -> list nat -> list Z -> list Z) (divf : Z -> Z -> Z)
         (ops : list op) (o : op) (s' : state),
    let s := run FR divf empty_state ops in
    step FR divf s o = Ok s' ->
    (forall i, i < length (arrs s) -> get_arr s' i = get_arr s i) /\
    (forall i, i < length (nums s) -> get_num s' i = get_num s i) /\
    (forall i, i < length (strs s) -> get_str s' i = get_str s i).
Proof. exact reach_no_buffer_writes. Qed.
Print Assumptions C03_no_buffer_writes.

(* Clause 4.  For every operation with a modify_in_place flag (pad, crop, bin, fourier_resample),
   every argument and every reachable state: the two variants fail with the same error or both
   succeed, and then the target of the in-place variant shows exactly what the dataset returned
   by the copying variant shows (class, shape, data, origin, sampling, units). *)
Theorem C03_inplace_eq_copy :
  forall (FR : list Z -> list Z -> list nat -> list Z -> list Z) (divf : Z -> Z -> Z)
         (ops : list op) (o : op) (t : nat),
    let s := run FR divf empty_state ops in
    has_flag o = true -> op_target o = Some t -> t < length (dss s) ->
    match step FR divf s (with_flag o true), step FR divf s (with_flag o false) with
    | Ok s1, Ok s2 => observe s1 t = observe s2 (length (dss s))
    | Err e1, Err e2 => e1 = e2
    | _, _ => False
    end.
Proof. exact reach_inplace_eq_copy. Qed.
Print Assumptions C03_inplace_eq_copy.

(* ------------------------------------------------------------------ non-vacuity *)
Definition FR0 (_ _ : list Z) (_ : list nat) (fl : list Z) : list Z := fl.
Definition ex_seed : op :=
  OFromArray D3 [2; 3; 4] (map Z.of_nat (seq 0 24))
             (Some (NList [1; 2; 3]%Q)) (Some (NList [1 # 2; 1 # 4; 2]%Q))
             (Some (UList ["a"; "b"; "c"]%string)).
Definition ex_state : state := run FR0 Z.div empty_state [ex_seed].

(* reachable states do contain datasets *)
Example C03_nonvacuous_coherent : length (dss ex_state) = 1.
Proof. vm_compute. reflexivity. Qed.

(* ds[0, :, [1, 2]] (advanced indices separated by a slice): accepted; NumPy puts the list axis
   first, and the result carries (origin, units) of axis 2 then axis 1; ds[:, ::-2, 0] scales the
   sampling by -2 *)
Example C03_nonvacuous_getitem :
  (exists s', getitem ex_state 0 [IInt 0; full; IList [1; 2]%Z] = Ok s' /\
              o_shape (observe s' 1) = [2; 3] /\ o_origin (observe s' 1) = [3; 2]%Q /\
              o_units (observe s' 1) = ["c"; "b"]%string /\ o_cls (observe s' 1) = D2) /\
  (exists s', getitem ex_state 0 [full; ISlice None None (Some (-2)%Z); IInt 0] = Ok s' /\
              o_shape (observe s' 1) = [2; 2] /\ map Qred (o_sampling (observe s' 1)) = [1 # 2; -1 # 2]%Q).
Proof. split; eexists; vm_compute; repeat split; reflexivity. Qed.

(* two list indices (NumPy merges them into one axis) are accepted as well *)
Example C03_nonvacuous_two_lists :
  exists s', getitem ex_state 0 [IList [0; 1]%Z; IList [1; 2]%Z] = Ok s' /\
             o_shape (observe s' 1) = [2; 4] /\ o_origin (observe s' 1) = [1; 3]%Q.
Proof. eexists. vm_compute. repeat split; reflexivity. Qed.

(* the frame theorems have instances: copying pad returns a new dataset, in-place bin does not *)
Example C03_nonvacuous_frame :
  (exists s', step FR0 Z.div ex_state (OPad 0 (PadInt 1) false) = Ok s' /\ length (dss s') = 2) /\
  (exists s', step FR0 Z.div ex_state (OBin 0 (FInt 2) AxNone false true) = Ok s' /\ length (dss s') = 1).
Proof. split; eexists; vm_compute; split; reflexivity. Qed.

(* both outcomes of clause 4 occur: success of both variants, and the same error in both *)
Example C03_nonvacuous_inplace :
  (exists s1 s2, step FR0 Z.div ex_state (OCrop 0 [(1, 0); (0, -1); (1, 3)]%Z AxNone true) = Ok s1 /\
                 step FR0 Z.div ex_state (OCrop 0 [(1, 0); (0, -1); (1, 3)]%Z AxNone false) = Ok s2 /\
                 o_shape (observe s1 0) = [1; 2; 2]) /\
  step FR0 Z.div ex_state (OBin 0 (FInt 0) AxNone false true) = Err ValueErr /\
  step FR0 Z.div ex_state (OBin 0 (FInt 0) AxNone false false) = Err ValueErr.
Proof. split; [eexists; eexists; vm_compute; repeat split; reflexivity|split; vm_compute; reflexivity]. Qed.
