(* C03 — Dataset containers stay coherent under any history of operations.
   This file contains ONLY the property theorems (closed by `exact`), their assumption reports
   and non-vacuity examples.

   Reading guide (model/C03_Model.v):
     state                 append-only heaps of ndarray objects (shape, row-major data, owner of the
                           buffer), calibration arrays (list Q) and unit lists, plus the table of live
                           Dataset objects (four references + class tag)
     op / step / exec      the public operations (from_array of every class, copy, the four setters,
                           pad, crop, bin, fourier_resample with their in-place flag, __getitem__,
                           Dataset4dstem.get_dp_mean/max/median and get_virtual_image; from_shape is
                           from_array of a constant array, Dataset3d.to_dataset2d a run of ds[i]);
                           setter arguments range over every Python value kind (numarg/unitsarg);
                           step returns Ok state | Err e; exec leaves the state unchanged on Err
     run FR divf s ops     = fold_left exec ops s.  FR (Fourier resampling kernel) and divf (division
                           of the "mean" reducer) are ARBITRARY functions: every theorem holds for all
     observe s t           (class, shape, data, origin, sampling, units) of live dataset t
     np_index sh data idx  SPECIFICATION: NumPy's own indexing (integers, slices with negative
                           bounds/steps, Ellipsis, integer lists incl. broadcasting and the rule that
                           the merged index-array axis goes first when the advanced indices are
                           separated); np_axes = which source axis each result axis runs along
     getitem               the CODE's bookkeeping (code_expand, code_kept_axes, scale_steps, registry),
                           as repaired by fixes/C03-advanced-index-axis-order.diff
   "Every reachable state" = run FR divf empty_state ops for an arbitrary list ops. *)
From Coq Require Import QArith String.
From QV.lib Require Import Prelude C03_Slice.
From QV.model Require Import C03_Model.
From QV.proof Require Import C03_Proofs C03_Proofs_Ext C03_Proofs_Bounds C03_Proofs_Sized.
From Coq Require Import List.
Import ListNotations.
Local Close Scope Q_scope.
Local Open Scope list_scope.

(* Clause 1.  After ANY finite sequence of operations (any arguments, malformed ones and failing
   calls included), every live dataset has exactly one origin, sampling and units entry per array
   axis, and its class matches its dimensionality (Dataset2d <-> 2, Dataset3d <-> 3,
   Dataset4d/4dstem <-> 4, Dataset: any). *)
Theorem C03_coherent_reachable :
  forall (FR : list Z -> list Z -> list nat -> list Z -> list Z) (divf : Z -> Z -> Z)
         (ops : list op) (t : nat),
    let s := run FR divf empty_state ops in
    t < length (dss s) ->
    let o := observe s t in
    length (o_origin o) = length (o_shape o) /\ length (o_sampling o) = length (o_shape o) /\
    length (o_units o) = length (o_shape o) /\ cls_ok (o_cls o) (length (o_shape o)).
Proof. exact reach_coherent. Qed.
Print Assumptions C03_coherent_reachable.

(* Clause 2a.  Indexing any reachable dataset with any index expression (integers, slices, lists,
   Ellipsis) that the call accepts returns a NEW dataset whose array is exactly the NumPy-indexed
   array (shape and data). *)
Theorem C03_getitem_data :
  forall (FR : list Z -> list Z -> list nat -> list Z -> list Z) (divf : Z -> Z -> Z)
         (ops : list op) (t : nat) (idx : list index) (s' : state),
    let s := run FR divf empty_state ops in
    t < length (dss s) -> getitem s t idx = Ok s' ->
    exists v, np_index (o_shape (observe s t)) (o_flat (observe s t)) idx = Ok v /\
      o_shape (observe s' (length (dss s))) = np_shape v /\
      o_flat (observe s' (length (dss s))) = np_flat v.
Proof. exact reach_getitem_data. Qed.
Print Assumptions C03_getitem_data.

(* Clause 2b.  ... and its axes carry the calibration of the source axes they run along, in the
   order in which NumPy lays the result out (np_axes v: sliced axes in order; the single merged
   index-array axis where the advanced indices stood, or first when they are separated by a slice
   or an Ellipsis), with the sampling multiplied by the slice step (negative steps included).  The
   merged index-array axis is labelled by the first list-indexed axis and keeps its sampling
   (oax_step = 1).  The class is the source's when the dimensionality is unchanged, the registered
   class of the new dimensionality otherwise. *)
Theorem C03_getitem_axes :
  forall (FR : list Z -> list Z -> list nat -> list Z -> list Z) (divf : Z -> Z -> Z)
         (ops : list op) (t : nat) (idx : list index) (s' : state),
    let s := run FR divf empty_state ops in
    t < length (dss s) -> getitem s t idx = Ok s' ->
    let src := observe s t in
    let res := observe s' (length (dss s)) in
    exists v, np_index (o_shape src) (o_flat src) idx = Ok v /\
      length (dss s') = S (length (dss s)) /\
      o_shape res = np_shape v /\ o_flat res = np_flat v /\
      o_origin res = map (fun ax => nth (oax_src ax) (o_origin src) 0%Q) (np_axes v) /\
      Forall2 Qeq (o_sampling res)
              (map (fun ax => (nth (oax_src ax) (o_sampling src) 1 * inject_Z (oax_step ax))%Q) (np_axes v)) /\
      o_units res = map (fun ax => nth (oax_src ax) (o_units src) ""%string) (np_axes v) /\
      o_cls res = (if length (np_shape v) =? length (o_shape src) then o_cls src
                   else registry (length (np_shape v))).
Proof. exact reach_getitem. Qed.
Print Assumptions C03_getitem_axes.

(* the code's adjacency test and Ellipsis expansion are NumPy's, for every index expression *)
Theorem C03_index_normalisation :
  forall (idx : list index) (n : nat) (ex : list index),
    code_separated idx = separated idx /\
    (np_expand n idx = Ok ex -> code_expand n idx = ex).
Proof.
  exact (fun idx n ex => conj (separated_code idx)
                              (fun H => proj1 (code_expand_np n idx ex H))).
Qed.
Print Assumptions C03_index_normalisation.

(* Clause 3.  An operation that returns a new dataset (from_array, copy, indexing, and the
   copying variants of pad/crop/bin/fourier_resample) leaves EVERY dataset that was alive before —
   in particular its source — exactly as it was: the same objects, the same data and
   calibration. *)
Theorem C03_source_untouched :
  forall (FR : list Z -> list Z -> list nat -> list Z -> list Z) (divf : Z -> Z -> Z)
         (ops : list op) (o : op) (s' : state),
    let s := run FR divf empty_state ops in
    step FR divf s o = Ok s' -> returns_new o = true ->
    length (dss s') = S (length (dss s)) /\
    forall t, t < length (dss s) -> get_ds s' t = get_ds s t /\ observe s' t = observe s t.
Proof. exact reach_source_untouched. Qed.
Print Assumptions C03_source_untouched.

(* ... an in-place operation or a setter changes its target only ... *)
Theorem C03_others_untouched :
  forall (FR : list Z -> list Z -> list nat -> list Z -> list Z) (divf : Z -> Z -> Z)
         (ops : list op) (o : op) (s' : state) (t : nat),
    let s := run FR divf empty_state ops in
    step FR divf s o = Ok s' -> returns_new o = false -> op_target o = Some t ->
    length (dss s') = length (dss s) /\
    forall u, u < length (dss s) -> u <> t -> get_ds s' u = get_ds s u /\ observe s' u = observe s u.
Proof. exact reach_others_untouched. Qed.
Print Assumptions C03_others_untouched.

(* ... and NO operation ever writes into an existing array buffer, calibration array or units
   list (which is why views — indexing, crop — may safely share the source's buffer). *)
Theorem C03_no_buffer_writes :
  forall (FR : list Z -> list Z -> list nat -> list Z -> list Z) (divf : Z -> Z -> Z)
         (ops : list op) (o : op) (s' : state),
    let s := run FR divf empty_state ops in
    step FR divf s o = Ok s' ->
    (forall i, i < length (arrs s) -> get_arr s' i = get_arr s i) /\
    (forall i, i < length (nums s) -> get_num s' i = get_num s i) /\
    (forall i, i < length (strs s) -> get_str s' i = get_str s i).
Proof. exact reach_no_buffer_writes. Qed.
Print Assumptions C03_no_buffer_writes.

(* Clause 4.  For every operation with a modify_in_place flag (pad, crop, bin, fourier_resample),
   every argument and every reachable state: the two variants fail with the same error or both
   succeed, and then the target of the in-place variant shows exactly what the dataset returned
   by the copying variant shows (class, shape, data, origin, sampling, units). *)
Theorem C03_inplace_eq_copy :
  forall (FR : list Z -> list Z -> list nat -> list Z -> list Z) (divf : Z -> Z -> Z)
         (ops : list op) (o : op) (t : nat),
    let s := run FR divf empty_state ops in
    has_flag o = true -> op_target o = Some t -> t < length (dss s) ->
    match step FR divf s (with_flag o true), step FR divf s (with_flag o false) with
    | Ok s1, Ok s2 => observe s1 t = observe s2 (length (dss s))
    | Err e1, Err e2 => e1 = e2
    | _, _ => False
    end.
Proof. exact reach_inplace_eq_copy. Qed.
Print Assumptions C03_inplace_eq_copy.

(* ------------------------------------------------------------------ non-vacuity *)
Definition FR0 (_ _ : list Z) (_ : list nat) (fl : list Z) : list Z := fl.
Definition ex_seed : op :=
  OFromArray D3 [2; 3; 4] (map Z.of_nat (seq 0 24))
             (Some (NList [1; 2; 3]%Q)) (Some (NList [1 # 2; 1 # 4; 2]%Q))
             (Some (UList ["a"; "b"; "c"]%string)).
Definition ex_state : state := run FR0 Z.div empty_state [ex_seed].

(* reachable states do contain datasets *)
Example C03_nonvacuous_coherent : length (dss ex_state) = 1.
Proof. vm_compute. reflexivity. Qed.

(* ds[0, :, [1, 2]] (advanced indices separated by a slice): accepted; NumPy puts the list axis
   first, and the result carries (origin, units) of axis 2 then axis 1; ds[:, ::-2, 0] scales the
   sampling by -2 *)
Example C03_nonvacuous_getitem :
  (exists s', getitem ex_state 0 [IInt 0; full; IList [1; 2]%Z] = Ok s' /\
              o_shape (observe s' 1) = [2; 3] /\ o_origin (observe s' 1) = [3; 2]%Q /\
              o_units (observe s' 1) = ["c"; "b"]%string /\ o_cls (observe s' 1) = D2) /\
  (exists s', getitem ex_state 0 [full; ISlice None None (Some (-2)%Z); IInt 0] = Ok s' /\
              o_shape (observe s' 1) = [2; 2] /\ map Qred (o_sampling (observe s' 1)) = [1 # 2; -1 # 2]%Q).
Proof. split; eexists; vm_compute; repeat split; reflexivity. Qed.

(* two list indices (NumPy merges them into one axis) are accepted as well *)
Example C03_nonvacuous_two_lists :
  exists s', getitem ex_state 0 [IList [0; 1]%Z; IList [1; 2]%Z] = Ok s' /\
             o_shape (observe s' 1) = [2; 4] /\ o_origin (observe s' 1) = [1; 3]%Q.
Proof. eexists. vm_compute. repeat split; reflexivity. Qed.

(* the frame theorems have instances: copying pad returns a new dataset, in-place bin does not *)
Example C03_nonvacuous_frame :
  (exists s', step FR0 Z.div ex_state (OPad 0 (PadInt 1) false) = Ok s' /\ length (dss s') = 2) /\
  (exists s', step FR0 Z.div ex_state (OBin 0 (FInt 2) AxNone false true) = Ok s' /\ length (dss s') = 1).
Proof. split; eexists; vm_compute; split; reflexivity. Qed.

(* both outcomes of clause 4 occur: success of both variants, and the same error in both *)
Example C03_nonvacuous_inplace :
  (exists s1 s2, step FR0 Z.div ex_state (OCrop 0 [(1, 0); (0, -1); (1, 3)]%Z AxNone true) = Ok s1 /\
                 step FR0 Z.div ex_state (OCrop 0 [(1, 0); (0, -1); (1, 3)]%Z AxNone false) = Ok s2 /\
                 o_shape (observe s1 0) = [1; 2; 2]) /\
  step FR0 Z.div ex_state (OBin 0 (FInt 0) AxNone false true) = Err ValueErr /\
  step FR0 Z.div ex_state (OBin 0 (FInt 0) AxNone false false) = Err ValueErr.
Proof. split; [eexists; eexists; vm_compute; repeat split; reflexivity|split; vm_compute; reflexivity]. Qed.

(* ================================================================== round 3 *)
(* Metadata setters, exactly.  In every reachable state, for every live dataset and EVERY kind of
   Python value handed to the origin / sampling / units setter (number, list, tuple or ndarray of
   numbers, nested list, None, str, bool, dict, non-numeric or ragged list; see numarg/unitsarg):
   the setter raises exactly the validator's error (TypeError / ValueError) — and then nothing
   changes — or it succeeds and replaces exactly that one calibration list by the validated value,
   whose length is the number of axes; class, shape, data and the other calibration are as before. *)
Theorem C03_setters_exact :
  forall (FR : list Z -> list Z -> list nat -> list Z -> list Z) (divf : Z -> Z -> Z)
         (ops : list op) (t : nat),
    let s := run FR divf empty_state ops in
    t < length (dss s) ->
    let o := observe s t in
    let n := length (o_shape o) in
    (forall v, match validate_ndinfo v n with
               | Ok l => (exists s', set_origin s t v = Ok s' /\ observe s' t = with_origin o l) /\
                         (exists s', set_sampling s t v = Ok s' /\ observe s' t = with_sampling o l)
               | Err e => set_origin s t v = Err e /\ set_sampling s t v = Err e
               end) /\
    (forall u, match validate_units u n with
               | Ok l => exists s', set_units s t u = Ok s' /\ observe s' t = with_units o l
               | Err e => set_units s t u = Err e
               end).
Proof. exact reach_setters_exact. Qed.
Print Assumptions C03_setters_exact.

(* Ellipsis in every position.  For every reachable dataset and every index expression with one
   Ellipsis — leading, trailing or between any two items — that stands for k >= 1 axes, indexing
   gives the SAME outcome (same error, or the same new state: NumPy-indexed data, view/copy, axis
   order, calibration, class) as the expression with the k full slices written out.  Together with
   C03_getitem_axes this covers the Ellipsis clause for all positions at once. *)
Theorem C03_getitem_ellipsis_any_position :
  forall (FR : list Z -> list Z -> list nat -> list Z -> list Z) (divf : Z -> Z -> Z)
         (ops : list op) (t : nat) (pre post : list index) (k : nat),
    let s := run FR divf empty_state ops in
    count_ell pre = 0 -> count_ell post = 0 -> 1 <= k ->
    length pre + k + length post = length (o_shape (observe s t)) ->
    getitem s t (pre ++ IEll :: post) = getitem s t (pre ++ repeat full k ++ post).
Proof. exact reach_getitem_ellipsis. Qed.
Print Assumptions C03_getitem_ellipsis_any_position.

(* ... and on the SPECIFICATION side NumPy's own result is the same for both spellings, for every
   array (no reachability needed) *)
Theorem C03_np_index_ellipsis :
  forall (sh : list nat) (fl : list Z) (pre post : list index) (k : nat),
    count_ell pre = 0 -> count_ell post = 0 -> length pre + k + length post = length sh -> 1 <= k ->
    np_index sh fl (pre ++ IEll :: post) = np_index sh fl (pre ++ repeat full k ++ post).
Proof. exact np_index_ellipsis. Qed.
Print Assumptions C03_np_index_ellipsis.

(* Dataset4dstem.get_dp_mean / get_dp_max / get_dp_median on any reachable dataset: when the call
   succeeds the target is a 4-D Dataset4dstem and the result is a NEW Dataset2d over the detector
   axes (2, 3) carrying exactly their origin, sampling and units, in order.  (That the source and
   every other dataset are untouched, that nothing is overwritten and that the result is coherent
   is C03_source_untouched / C03_no_buffer_writes / C03_coherent_reachable, whose operation
   alphabet contains these calls.) *)
Theorem C03_dp_reduction_axes :
  forall (FR : list Z -> list Z -> list nat -> list Z -> list Z) (divf : Z -> Z -> Z)
         (ops : list op) (t : nat) (r : reducer) (s' : state),
    let s := run FR divf empty_state ops in
    t < length (dss s) -> reduce_dp divf s t r = Ok s' ->
    let src := observe s t in
    let res := observe s' (length (dss s)) in
    length (dss s') = S (length (dss s)) /\
    o_cls src = D4stem /\ length (o_shape src) = 4 /\
    o_cls res = D2 /\ o_shape res = lastn 2 (o_shape src) /\
    o_origin res = lastn 2 (o_origin src) /\ o_sampling res = lastn 2 (o_sampling src) /\
    o_units res = lastn 2 (o_units src).
Proof. exact reach_reduce_dp. Qed.
Print Assumptions C03_dp_reduction_axes.

(* Dataset4dstem.get_virtual_image: a NEW Dataset2d over the scan axes (0, 1) with exactly their
   calibration; it is only produced for a well-formed detector (a mask of the detector shape, a
   circle or an annulus). *)
Theorem C03_virtual_image_axes :
  forall (FR : list Z -> list Z -> list nat -> list Z -> list Z) (divf : Z -> Z -> Z)
         (ops : list op) (t : nat) (dt : detector) (s' : state),
    let s := run FR divf empty_state ops in
    t < length (dss s) -> virtual_image s t dt = Ok s' ->
    let src := observe s t in
    let res := observe s' (length (dss s)) in
    length (dss s') = S (length (dss s)) /\
    o_cls src = D4stem /\ length (o_shape src) = 4 /\
    o_cls res = D2 /\ o_shape res = firstn 2 (o_shape src) /\
    o_origin res = firstn 2 (o_origin src) /\ o_sampling res = firstn 2 (o_sampling src) /\
    o_units res = firstn 2 (o_units src) /\
    (exists mask, detector_mask (nth 2 (o_shape src) 0) (nth 3 (o_shape src) 0) dt = Ok mask).
Proof. exact reach_virtual_image. Qed.
Print Assumptions C03_virtual_image_axes.

(* Slices with any step, negative ones included (SPEC side, CPython's PySlice_AdjustIndices): for
   every axis length, all bounds (omitted, negative, beyond the ends) and every non-zero step, the
   indices start + step*k, k < slice_len, are exactly Python's range(start, stop, step): each lies
   inside the axis and strictly before `stop` in the direction of travel, and the next one would
   reach or pass `stop`.  (np_index reads the source at exactly these indices; C03_getitem_axes
   multiplies the sampling by this step.) *)
Theorem C03_slice_is_python_range :
  forall (a b c : option Z) (n start stop step : Z),
    (0 <= n)%Z -> slice_indices a b c n = Some (start, stop, step) ->
    let len := slice_len start stop step in
    (step <> 0)%Z /\ (0 <= len)%Z /\
    (forall k, (0 <= k < len)%Z ->
       (0 <= start + step * k < n)%Z /\
       (if (0 <? step)%Z then (start + step * k < stop)%Z else (stop < start + step * k)%Z)) /\
    (if (0 <? step)%Z then (stop <= start + step * len)%Z else (start + step * len <= stop)%Z).
Proof. exact slice_python_range. Qed.
Print Assumptions C03_slice_is_python_range.

(* The NumPy-indexing specification is well defined.  For EVERY array shape, buffer and index
   expression that np_index accepts (negative bounds and steps, Ellipsis anywhere, integer lists with
   broadcasting, separated or not): the result has exactly prod(result shape) elements and each of
   them is read at an offset j < prod(source shape) of the source buffer — nothing is ever read
   outside the array, so with C03_getitem_data every element of ds[idx].array is an element of
   ds.array. *)
Theorem C03_np_index_in_bounds :
  forall (sh : list nat) (fl : list Z) (idx : list index) (v : npres),
    np_index sh fl idx = Ok v ->
    length (np_flat v) = prodn (np_shape v) /\
    Forall (fun x => exists j, j < prodn sh /\ x = nth j fl 0%Z) (np_flat v).
Proof. exact np_index_in_bounds. Qed.
Print Assumptions C03_np_index_in_bounds.

(* Every ndarray object of every reachable state is a real array: its buffer holds exactly
   prod(shape) elements — after any history of constructions, copies, setters, pads, crops, bins,
   resamplings, indexings and 4dstem reductions.  Two premises, both about things outside the
   model: the arrays handed in by the caller are real arrays (wf_op), and the Fourier kernel returns
   an array of the shape it is asked for (fr_osh: the new lengths on the resampled axes). *)
Theorem C03_arrays_well_formed :
  forall (FR : list Z -> list Z -> list nat -> list Z -> list Z) (divf : Z -> Z -> Z),
    (forall ax outs sh fl, length (FR ax outs sh fl) = prodn (fr_osh ax outs sh)) ->
    forall (ops : list op) (t : nat),
      Forall wf_op ops ->
      let s := run FR divf empty_state ops in
      t < length (dss s) ->
      length (o_flat (observe s t)) = prodn (o_shape (observe s t)).
Proof. exact reach_sized. Qed.
Print Assumptions C03_arrays_well_formed.

(* ... hence indexing returns elements OF THE SOURCE ARRAY (never a value from outside it), exactly
   prod(result shape) of them. *)
Theorem C03_getitem_elements :
  forall (FR : list Z -> list Z -> list nat -> list Z -> list Z) (divf : Z -> Z -> Z),
    (forall ax outs sh fl, length (FR ax outs sh fl) = prodn (fr_osh ax outs sh)) ->
    forall (ops : list op) (t : nat) (idx : list index) (s' : state),
      Forall wf_op ops ->
      let s := run FR divf empty_state ops in
      t < length (dss s) -> getitem s t idx = Ok s' ->
      let src := observe s t in
      let res := observe s' (length (dss s)) in
      length (o_flat res) = prodn (o_shape res) /\
      Forall (fun x => In x (o_flat src)) (o_flat res).
Proof. exact reach_getitem_elements. Qed.
Print Assumptions C03_getitem_elements.

(* ------------------------------------------------------------------ non-vacuity (round 3) *)
(* the premises of C03_arrays_well_formed are satisfiable: a kernel that returns zeros of the
   requested shape, and the example history *)
Definition FRz (ax outs : list Z) (sh : list nat) (_ : list Z) : list Z := repeat 0%Z (prodn (fr_osh ax outs sh)).
Example C03_nonvacuous_sized :
  (forall ax outs sh fl, length (FRz ax outs sh fl) = prodn (fr_osh ax outs sh)) /\
  Forall wf_op [ex_seed; OFourier 0 (FROut [3]%Z) (AxInt 0) true; OGetitem 0 [IEll; ISlice None None (Some (-1)%Z)]] /\
  o_shape (observe (run FRz Z.div empty_state
                        [ex_seed; OFourier 0 (FROut [3]%Z) (AxInt 0) true;
                         OGetitem 0 [IEll; ISlice None None (Some (-1)%Z)]]) 1) = [3; 3; 4].
Proof.
  split; [intros; unfold FRz; apply repeat_length|].
  split; [repeat constructor|vm_compute; reflexivity].
Qed.

(* ds[-1::-2] on an axis of length 5 reads 4, 2, 0 *)
Example C03_nonvacuous_slice :
  slice_indices (Some (-1)%Z) None (Some (-2)%Z) 5 = Some (4, -1, -2)%Z /\ slice_len 4 (-1) (-2) = 3%Z.
Proof. split; reflexivity. Qed.

(* setters: a nested list that flattens to three numbers is accepted; a str is a ValueError, None
   and a ragged list are TypeErrors, a units value that is no str/list/tuple is a TypeError *)
Example C03_nonvacuous_setters :
  (exists s', set_origin ex_state 0 (NNested [[7; 8; 9]]%Q) = Ok s' /\
              o_origin (observe s' 0) = [7; 8; 9]%Q /\ o_sampling (observe s' 0) = [1 # 2; 1 # 4; 2]%Q) /\
  set_sampling ex_state 0 NStr = Err ValueErr /\ set_origin ex_state 0 NNone = Err TypeErr /\
  set_origin ex_state 0 (NNested [[1; 2]; [3]]%Q) = Err TypeErr /\
  set_origin ex_state 0 (NNonNum 3) = Err ValueErr /\ set_units ex_state 0 UOther = Err TypeErr.
Proof. split; [eexists; vm_compute; repeat split; reflexivity|repeat split; vm_compute; reflexivity]. Qed.

(* Ellipsis between an integer and a list (it stands for one axis): accepted, and separated *)
Example C03_nonvacuous_ellipsis :
  exists s', getitem ex_state 0 ([IInt 0] ++ IEll :: [IList [1; 2]%Z]) = Ok s' /\
             getitem ex_state 0 ([IInt 0] ++ repeat full 1 ++ [IList [1; 2]%Z]) = Ok s' /\
             o_shape (observe s' 1) = [2; 3].
Proof. eexists. vm_compute. repeat split; reflexivity. Qed.

Definition ex_stem : state :=
  run FR0 Z.div empty_state
      [OFromArray D4stem [2; 2; 3; 2] (map Z.of_nat (seq 0 24))
                  (Some (NList [0; 1; -2; 1 # 2]%Q)) (Some (NList [1; 2; 1 # 2; 3]%Q))
                  (Some (UList ["nm"; "nm"; "mrad"; "A^-1"]%string))].

Example C03_nonvacuous_reductions :
  (exists s', reduce_dp Z.div ex_stem 0 RMax = Ok s' /\ o_shape (observe s' 1) = [3; 2] /\
              o_flat (observe s' 1) = [18; 19; 20; 21; 22; 23]%Z /\
              o_units (observe s' 1) = ["mrad"; "A^-1"]%string) /\
  (exists s', virtual_image ex_stem 0 (DCircle 1 (1 # 2) 1) = Ok s' /\ o_shape (observe s' 1) = [2; 2] /\
              o_origin (observe s' 1) = [0; 1]%Q) /\
  virtual_image ex_stem 0 DBad = Err ValueErr /\
  reduce_dp Z.div ex_state 0 RMean = Err OtherErr.
Proof.
  split; [eexists; vm_compute; repeat split; reflexivity|].
  split; [eexists; vm_compute; repeat split; reflexivity|].
  split; vm_compute; reflexivity.
Qed.
