(* C16 — Forward-model operators obey energy, adjoint and projection identities.
   ONLY the property theorems (closed by `exact`), their assumption reports and non-vacuity
   examples.  Setting: an arbitrary commutative ring R with a conjugation (conj_ok) and, per
   axis, a family w : Z -> R of N-th roots of unity with the orthogonality relation (root_ok,
   lib/DFT.v; satisfiable: lib/DFT_Inst.v, Gaussian rationals, N = 4).  Every statement is for
   EVERY grid N1 x N2 (odd, even, non-square), every signal, every index list / number of
   slices / number of modes.  Arrays are functions nat -> nat -> R; `eq2` is equality on the
   N1 x N2 grid; `unit1`/`unit2` say "unit modulus on the grid" (z * conj z = 1). *)
From Coq Require Import ZArith List Lia Ring Arith.
From QV.lib Require Import FinSum DFT DFT2 DFT_Inst.
From QV.model Require Import C16_Model.
From QV.proof Require Import C16_Proofs C16_Proofs_Extra C16_Proofs_Inst.
Import ListNotations.

(* ------------------------------------------------------------------------------ translation *)
(* fourier_shift_expand with a unit-modulus separable ramp preserves the total intensity *)
Theorem C16_translate_energy :
  forall (R : Type) (rO rI : R) (radd rmul rsub : R -> R -> R) (ropp : R -> R),
    ring_theory rO rI radd rmul rsub ropp eq ->
    forall conj : R -> R, conj_ok radd rmul conj ->
    forall (N1 : nat) (w1 : Z -> R) (Ninv1 : R) (N2 : nat) (w2 : Z -> R) (Ninv2 : R),
    root_ok rO rI radd rmul conj N1 w1 Ninv1 -> root_ok rO rI radd rmul conj N2 w2 Ninv2 ->
    forall (hr hc : nat -> R) (x : nat -> nat -> R),
    unit1 R rI rmul conj N1 hr -> unit1 R rI rmul conj N2 hc ->
    energy2 rO radd rmul conj N1 N2 (fourier_shift rO radd rmul N1 w1 Ninv1 N2 w2 Ninv2 hr hc x)
    = energy2 rO radd rmul conj N1 N2 x.
Proof. exact translate_energy. Qed.
Print Assumptions C16_translate_energy.

(* translations compose additively: for ANY family of ramps that is a character of the shift
   domain (hr (s+t) = hr s * hr t, as exp(-2 pi i k s) is), shifting by t then s = shifting by s+t *)
Theorem C16_translate_additive :
  forall (R : Type) (rO rI : R) (radd rmul rsub : R -> R -> R) (ropp : R -> R),
    ring_theory rO rI radd rmul rsub ropp eq ->
    forall conj : R -> R, conj_ok radd rmul conj ->
    forall (N1 : nat) (w1 : Z -> R) (Ninv1 : R) (N2 : nat) (w2 : Z -> R) (Ninv2 : R),
    root_ok rO rI radd rmul conj N1 w1 Ninv1 -> root_ok rO rI radd rmul conj N2 w2 Ninv2 ->
    forall (S : Type) (sadd : S -> S -> S) (hr hc : S -> nat -> R),
    (forall (s t : S) (k : nat), k < N1 -> hr (sadd s t) k = rmul (hr s k) (hr t k)) ->
    (forall (s t : S) (k : nat), k < N2 -> hc (sadd s t) k = rmul (hc s k) (hc t k)) ->
    forall (s1 s2 t1 t2 : S) (x : nat -> nat -> R),
    eq2 R N1 N2
      (fourier_shift rO radd rmul N1 w1 Ninv1 N2 w2 Ninv2 (hr s1) (hc s2)
         (fourier_shift rO radd rmul N1 w1 Ninv1 N2 w2 Ninv2 (hr t1) (hc t2) x))
      (fourier_shift rO radd rmul N1 w1 Ninv1 N2 w2 Ninv2 (hr (sadd s1 t1)) (hc (sadd s2 t2)) x).
Proof. exact translate_additive. Qed.
Print Assumptions C16_translate_additive.

(* an integer translation (ramp = w^(k s)) is the circular roll np.roll(x, (s1, s2)) *)
Theorem C16_translate_integer_is_roll :
  forall (R : Type) (rO rI : R) (radd rmul rsub : R -> R -> R) (ropp : R -> R),
    ring_theory rO rI radd rmul rsub ropp eq ->
    forall conj : R -> R, conj_ok radd rmul conj ->
    forall (N1 : nat) (w1 : Z -> R) (Ninv1 : R) (N2 : nat) (w2 : Z -> R) (Ninv2 : R),
    root_ok rO rI radd rmul conj N1 w1 Ninv1 -> root_ok rO rI radd rmul conj N2 w2 Ninv2 ->
    forall (s1 s2 : Z) (hr hc : nat -> R) (x : nat -> nat -> R),
    (forall k : nat, k < N1 -> hr k = w1 (Z.of_nat k * s1)%Z) ->
    (forall k : nat, k < N2 -> hc k = w2 (Z.of_nat k * s2)%Z) ->
    eq2 R N1 N2 (fourier_shift rO radd rmul N1 w1 Ninv1 N2 w2 Ninv2 hr hc x) (roll2 N1 N2 s1 s2 x).
Proof. exact translate_integer_is_roll. Qed.
Print Assumptions C16_translate_integer_is_roll.

(* ------------------------------------------------------------------------------ propagation *)
Theorem C16_propagate_energy :
  forall (R : Type) (rO rI : R) (radd rmul rsub : R -> R -> R) (ropp : R -> R),
    ring_theory rO rI radd rmul rsub ropp eq ->
    forall conj : R -> R, conj_ok radd rmul conj ->
    forall (N1 : nat) (w1 : Z -> R) (Ninv1 : R) (N2 : nat) (w2 : Z -> R) (Ninv2 : R),
    root_ok rO rI radd rmul conj N1 w1 Ninv1 -> root_ok rO rI radd rmul conj N2 w2 Ninv2 ->
    forall p x : nat -> nat -> R,
    unit2 R rI rmul conj N1 N2 p ->
    energy2 rO radd rmul conj N1 N2 (propagate rO radd rmul N1 w1 Ninv1 N2 w2 Ninv2 p x)
    = energy2 rO radd rmul conj N1 N2 x.
Proof. exact propagate_energy. Qed.
Print Assumptions C16_propagate_energy.

(* propagating by a distance and then by its negative (the conjugate unit-modulus kernel) is
   the identity *)
Theorem C16_propagate_inverse :
  forall (R : Type) (rO rI : R) (radd rmul rsub : R -> R -> R) (ropp : R -> R),
    ring_theory rO rI radd rmul rsub ropp eq ->
    forall conj : R -> R, conj_ok radd rmul conj ->
    forall (N1 : nat) (w1 : Z -> R) (Ninv1 : R) (N2 : nat) (w2 : Z -> R) (Ninv2 : R),
    root_ok rO rI radd rmul conj N1 w1 Ninv1 -> root_ok rO rI radd rmul conj N2 w2 Ninv2 ->
    forall p x : nat -> nat -> R,
    unit2 R rI rmul conj N1 N2 p ->
    eq2 R N1 N2
      (propagate rO radd rmul N1 w1 Ninv1 N2 w2 Ninv2 (fun k1 k2 : nat => conj (p k1 k2))
         (propagate rO radd rmul N1 w1 Ninv1 N2 w2 Ninv2 p x)) x.
Proof. exact propagate_inverse. Qed.
Print Assumptions C16_propagate_inverse.

(* propagation composes additively in the distance for any kernel family that is a character *)
Theorem C16_propagate_additive :
  forall (R : Type) (rO rI : R) (radd rmul rsub : R -> R -> R) (ropp : R -> R),
    ring_theory rO rI radd rmul rsub ropp eq ->
    forall conj : R -> R, conj_ok radd rmul conj ->
    forall (N1 : nat) (w1 : Z -> R) (Ninv1 : R) (N2 : nat) (w2 : Z -> R) (Ninv2 : R),
    root_ok rO rI radd rmul conj N1 w1 Ninv1 -> root_ok rO rI radd rmul conj N2 w2 Ninv2 ->
    forall (D : Type) (dadd : D -> D -> D) (p : D -> nat -> nat -> R),
    (forall (a b : D) (k1 k2 : nat), k1 < N1 -> k2 < N2 -> p (dadd a b) k1 k2 = rmul (p a k1 k2) (p b k1 k2)) ->
    forall (a b : D) (x : nat -> nat -> R),
    eq2 R N1 N2
      (propagate rO radd rmul N1 w1 Ninv1 N2 w2 Ninv2 (p a) (propagate rO radd rmul N1 w1 Ninv1 N2 w2 Ninv2 (p b) x))
      (propagate rO radd rmul N1 w1 Ninv1 N2 w2 Ninv2 (p (dadd a b)) x).
Proof. exact propagate_additive. Qed.
Print Assumptions C16_propagate_additive.

(* ------------------------------------------------------------------------------ scatter / gather *)
(* sum_patches (zeros.index_add_) is the exact adjoint of obj_flat[indices] for ANY index list:
   repeats, any order; only "indices inside the flattened object" is required (any commutative ring) *)
Theorem C16_scatter_adjoint_gather :
  forall (R : Type) (rO rI : R) (radd rmul rsub : R -> R -> R) (ropp : R -> R),
    ring_theory rO rI radd rmul rsub ropp eq ->
    forall (size : nat) (obj : nat -> R) (idx : list nat) (vals : list R),
    Forall (fun i : nat => i < size) idx ->
    ldot rO radd rmul (gather obj idx) vals = adot rO radd rmul size obj (scatter rO radd idx vals).
Proof. exact @scatter_adjoint_gather. Qed.
Print Assumptions C16_scatter_adjoint_gather.

(* ... in particular for the wrap-around patch indices (_set_patch_indices) of every batch of
   integer scan positions: negative, beyond the object, overlapping *)
Theorem C16_scatter_adjoint_gather_patches :
  forall (R : Type) (rO rI : R) (radd rmul rsub : R -> R -> R) (ropp : R -> R),
    ring_theory rO rI radd rmul rsub ropp eq ->
    forall (N1 N2 H W : nat) (pos : list (Z * Z)) (obj : nat -> R) (vals : list R),
    0 < H -> 0 < W ->
    ldot rO radd rmul (gather obj (batch_patch_indices N1 N2 H W pos)) vals
    = adot rO radd rmul (H * W) obj (scatter rO radd (batch_patch_indices N1 N2 H W pos) vals).
Proof. exact scatter_adjoint_gather_patches. Qed.
Print Assumptions C16_scatter_adjoint_gather_patches.

(* ------------------------------------------------------------------------------ pure-phase object *)
(* rs = 1/sqrt(N1 N2) (norm="ortho").  For unit-modulus object slices and propagators, ANY number
   of slices and ANY number of probe modes: the summed predicted intensity of the pattern
   (DetectorPixelated.forward, fftshifted) is the summed intensity of the probe modes *)
Theorem C16_pure_phase_intensity :
  forall (R : Type) (rO rI : R) (radd rmul rsub : R -> R -> R) (ropp : R -> R),
    ring_theory rO rI radd rmul rsub ropp eq ->
    forall conj : R -> R, conj_ok radd rmul conj ->
    forall (N1 : nat) (w1 : Z -> R) (Ninv1 : R) (N2 : nat) (w2 : Z -> R) (Ninv2 : R),
    root_ok rO rI radd rmul conj N1 w1 Ninv1 -> root_ok rO rI radd rmul conj N2 w2 Ninv2 ->
    forall rs rsi : R, rmul rs (conj rs) = rmul Ninv1 Ninv2 -> rmul rs rsi = rI ->
    forall objs props probes : list (nat -> nat -> R),
    Forall (unit2 R rI rmul conj N1 N2) objs -> Forall (unit2 R rI rmul conj N1 N2) props ->
    total_intensity rO radd rmul conj N1 w1 N2 w2 rs
      (map (overlap_projection rO radd rmul N1 w1 Ninv1 N2 w2 Ninv2 objs props) probes)
    = suml rO radd (map (energy2 rO radd rmul conj N1 N2) probes).
Proof. exact pure_phase_intensity. Qed.
Print Assumptions C16_pure_phase_intensity.

(* ------------------------------------------------------------------------------ Fourier projection
   single state (num_probes = 1): spectrum := a * ph(F), ph z = exp(i angle z).  What is used of
   ph: |ph z| = 1 for EVERY z (torch.angle(0) = 0, so ph 0 = 1: a vanishing spectrum is handled),
   and a * ph(a u) = a u for a measured amplitude a (real, incl. a = 0) and |u| = 1.
   The measured amplitudes a are in the detector's (fftshifted) layout; the model corner-centres
   them with ifftshift2 (fixes/C16-fourier-projection-ifftshift.diff). *)
Theorem C16_fourier_projection_amp :
  forall (R : Type) (rO rI : R) (radd rmul rsub : R -> R -> R) (ropp : R -> R),
    ring_theory rO rI radd rmul rsub ropp eq ->
    forall conj : R -> R, conj_ok radd rmul conj ->
    forall (N1 : nat) (w1 : Z -> R) (Ninv1 : R) (N2 : nat) (w2 : Z -> R) (Ninv2 : R),
    root_ok rO rI radd rmul conj N1 w1 Ninv1 -> root_ok rO rI radd rmul conj N2 w2 Ninv2 ->
    forall rs rsi : R, rmul rs (conj rs) = rmul Ninv1 Ninv2 -> rmul rs rsi = rI ->
    forall (ph : R -> R) (amp : R -> Prop),
    (forall a : R, amp a -> conj a = a) ->
    (forall z : R, abs2 rmul conj (ph z) = rI) ->
    (forall a u : R, amp a -> abs2 rmul conj u = rI -> rmul a (ph (rmul a u)) = rmul a u) ->
    forall a psi : nat -> nat -> R,
    amp2 R N1 N2 amp a ->
    eq2 R N1 N2
      (detector_forward rO radd rmul conj N1 w1 N2 w2 rs
         [fourier_projection rO radd rmul N1 w1 Ninv1 N2 w2 Ninv2 rs rsi ph a psi])
      (fun n1 n2 : nat => rmul (a n1 n2) (a n1 n2)).
Proof. exact fourier_projection_amp. Qed.
Print Assumptions C16_fourier_projection_amp.

Theorem C16_fourier_projection_idem :
  forall (R : Type) (rO rI : R) (radd rmul rsub : R -> R -> R) (ropp : R -> R),
    ring_theory rO rI radd rmul rsub ropp eq ->
    forall conj : R -> R, conj_ok radd rmul conj ->
    forall (N1 : nat) (w1 : Z -> R) (Ninv1 : R) (N2 : nat) (w2 : Z -> R) (Ninv2 : R),
    root_ok rO rI radd rmul conj N1 w1 Ninv1 -> root_ok rO rI radd rmul conj N2 w2 Ninv2 ->
    forall rs rsi : R, rmul rs (conj rs) = rmul Ninv1 Ninv2 -> rmul rs rsi = rI ->
    forall (ph : R -> R) (amp : R -> Prop),
    (forall a : R, amp a -> conj a = a) ->
    (forall z : R, abs2 rmul conj (ph z) = rI) ->
    (forall a u : R, amp a -> abs2 rmul conj u = rI -> rmul a (ph (rmul a u)) = rmul a u) ->
    forall a psi : nat -> nat -> R,
    amp2 R N1 N2 amp a ->
    eq2 R N1 N2
      (fourier_projection rO radd rmul N1 w1 Ninv1 N2 w2 Ninv2 rs rsi ph a
         (fourier_projection rO radd rmul N1 w1 Ninv1 N2 w2 Ninv2 rs rsi ph a psi))
      (fourier_projection rO radd rmul N1 w1 Ninv1 N2 w2 Ninv2 rs rsi ph a psi).
Proof. exact fourier_projection_idem. Qed.
Print Assumptions C16_fourier_projection_idem.

(* mixed state (num_probes > 1): every mode's spectrum is scaled by a / sqrt(sum_m |F_m|^2)
   (isq s = 1/sqrt s; eps = 0).  isq_ok: at every frequency the summed estimate S is inverted by
   isq (isq S ^2 * S = 1, isq S real), i.e. the estimate is non-zero everywhere. *)
Theorem C16_fourier_projection_mixed_amp :
  forall (R : Type) (rO rI : R) (radd rmul rsub : R -> R -> R) (ropp : R -> R),
    ring_theory rO rI radd rmul rsub ropp eq ->
    forall conj : R -> R, conj_ok radd rmul conj ->
    forall (N1 : nat) (w1 : Z -> R) (Ninv1 : R) (N2 : nat) (w2 : Z -> R) (Ninv2 : R),
    root_ok rO rI radd rmul conj N1 w1 Ninv1 -> root_ok rO rI radd rmul conj N2 w2 Ninv2 ->
    forall rs rsi : R, rmul rs (conj rs) = rmul Ninv1 Ninv2 -> rmul rs rsi = rI ->
    forall (ph : R -> R) (amp : R -> Prop),
    (forall a : R, amp a -> conj a = a) ->
    (forall z : R, abs2 rmul conj (ph z) = rI) ->
    (forall a u : R, amp a -> abs2 rmul conj u = rI -> rmul a (ph (rmul a u)) = rmul a u) ->
    forall (isq : R -> R) (a : nat -> nat -> R) (psis : list (nat -> nat -> R)),
    amp2 R N1 N2 amp a ->
    isq_ok R rO rI radd rmul conj N1 w1 N2 w2 rs isq psis ->
    eq2 R N1 N2
      (detector_forward rO radd rmul conj N1 w1 N2 w2 rs
         (fourier_projection_mixed rO radd rmul conj N1 w1 Ninv1 N2 w2 Ninv2 rs rsi isq rO a psis))
      (fun n1 n2 : nat => rmul (a n1 n2) (a n1 n2)).
Proof. exact fourier_projection_mixed_amp. Qed.
Print Assumptions C16_fourier_projection_mixed_amp.

Theorem C16_fourier_projection_mixed_idem :
  forall (R : Type) (rO rI : R) (radd rmul rsub : R -> R -> R) (ropp : R -> R),
    ring_theory rO rI radd rmul rsub ropp eq ->
    forall conj : R -> R, conj_ok radd rmul conj ->
    forall (N1 : nat) (w1 : Z -> R) (Ninv1 : R) (N2 : nat) (w2 : Z -> R) (Ninv2 : R),
    root_ok rO rI radd rmul conj N1 w1 Ninv1 -> root_ok rO rI radd rmul conj N2 w2 Ninv2 ->
    forall rs rsi : R, rmul rs (conj rs) = rmul Ninv1 Ninv2 -> rmul rs rsi = rI ->
    forall (ph : R -> R) (amp : R -> Prop),
    (forall a : R, amp a -> conj a = a) ->
    (forall z : R, abs2 rmul conj (ph z) = rI) ->
    (forall a u : R, amp a -> abs2 rmul conj u = rI -> rmul a (ph (rmul a u)) = rmul a u) ->
    forall isq : R -> R,
    (forall a : R, amp a -> rmul (rmul a (isq (rmul a a))) a = a) ->
    forall (a : nat -> nat -> R) (psis : list (nat -> nat -> R)),
    amp2 R N1 N2 amp a ->
    isq_ok R rO rI radd rmul conj N1 w1 N2 w2 rs isq psis ->
    Forall2 (eq2 R N1 N2)
      (fourier_projection_mixed rO radd rmul conj N1 w1 Ninv1 N2 w2 Ninv2 rs rsi isq rO a
         (fourier_projection_mixed rO radd rmul conj N1 w1 Ninv1 N2 w2 Ninv2 rs rsi isq rO a psis))
      (fourier_projection_mixed rO radd rmul conj N1 w1 Ninv1 N2 w2 Ninv2 rs rsi isq rO a psis).
Proof. exact fourier_projection_mixed_idem. Qed.
Print Assumptions C16_fourier_projection_mixed_idem.

(* what holds frequency by frequency (corner-centred layout, estimate_intensities): where the
   estimate is inverted by isq the measured amplitude is reproduced exactly ... *)
Theorem C16_fourier_projection_mixed_amp_pointwise :
  forall (R : Type) (rO rI : R) (radd rmul rsub : R -> R -> R) (ropp : R -> R),
    ring_theory rO rI radd rmul rsub ropp eq ->
    forall conj : R -> R, conj_ok radd rmul conj ->
    forall (N1 : nat) (w1 : Z -> R) (Ninv1 : R) (N2 : nat) (w2 : Z -> R) (Ninv2 : R),
    root_ok rO rI radd rmul conj N1 w1 Ninv1 -> root_ok rO rI radd rmul conj N2 w2 Ninv2 ->
    forall rs rsi : R, rmul rs (conj rs) = rmul Ninv1 Ninv2 -> rmul rs rsi = rI ->
    forall (isq : R -> R) (a : nat -> nat -> R) (psis : list (nat -> nat -> R)) (k1 k2 : nat),
    k1 < N1 -> k2 < N2 ->
    let S := estimate_intensities rO radd rmul conj N1 w1 N2 w2 rs psis k1 k2 in
    let am := ifftshift2 N1 N2 a k1 k2 in
    conj am = am -> rmul (rmul (isq S) (isq S)) S = rI -> conj (isq S) = isq S ->
    estimate_intensities rO radd rmul conj N1 w1 N2 w2 rs
      (fourier_projection_mixed rO radd rmul conj N1 w1 Ninv1 N2 w2 Ninv2 rs rsi isq rO a psis) k1 k2
    = rmul am am.
Proof. exact fourier_projection_mixed_amp_pointwise. Qed.
Print Assumptions C16_fourier_projection_mixed_amp_pointwise.

(* ... where every mode's spectrum vanishes the projected spectrum vanishes too (the code divides
   by the estimate, replacing an exact 0 by inf): the measured amplitude is NOT reproduced there
   unless it is 0 — the mixed-state clause holds only where the estimate is non-zero *)
Theorem C16_fourier_projection_mixed_zero_estimate :
  forall (R : Type) (rO rI : R) (radd rmul rsub : R -> R -> R) (ropp : R -> R),
    ring_theory rO rI radd rmul rsub ropp eq ->
    forall conj : R -> R, conj_ok radd rmul conj ->
    forall (N1 : nat) (w1 : Z -> R) (Ninv1 : R) (N2 : nat) (w2 : Z -> R) (Ninv2 : R),
    root_ok rO rI radd rmul conj N1 w1 Ninv1 -> root_ok rO rI radd rmul conj N2 w2 Ninv2 ->
    forall rs rsi : R, rmul rs (conj rs) = rmul Ninv1 Ninv2 -> rmul rs rsi = rI ->
    forall (isq : R -> R) (a : nat -> nat -> R) (psis : list (nat -> nat -> R)) (k1 k2 : nat),
    k1 < N1 -> k2 < N2 ->
    estimate_intensities rO radd rmul conj N1 w1 N2 w2 rs psis k1 k2 = rO ->
    estimate_intensities rO radd rmul conj N1 w1 N2 w2 rs
      (fourier_projection_mixed rO radd rmul conj N1 w1 Ninv1 N2 w2 Ninv2 rs rsi isq rO a psis) k1 k2
    = rO.
Proof. exact fourier_projection_mixed_zero_estimate. Qed.
Print Assumptions C16_fourier_projection_mixed_zero_estimate.

(* a measured zero is reproduced whatever the estimate *)
Theorem C16_fourier_projection_mixed_zero_amplitude :
  forall (R : Type) (rO rI : R) (radd rmul rsub : R -> R -> R) (ropp : R -> R),
    ring_theory rO rI radd rmul rsub ropp eq ->
    forall conj : R -> R, conj_ok radd rmul conj ->
    forall (N1 : nat) (w1 : Z -> R) (Ninv1 : R) (N2 : nat) (w2 : Z -> R) (Ninv2 : R),
    root_ok rO rI radd rmul conj N1 w1 Ninv1 -> root_ok rO rI radd rmul conj N2 w2 Ninv2 ->
    forall rs rsi : R, rmul rs (conj rs) = rmul Ninv1 Ninv2 -> rmul rs rsi = rI ->
    forall (isq : R -> R) (a : nat -> nat -> R) (psis : list (nat -> nat -> R)) (k1 k2 : nat),
    k1 < N1 -> k2 < N2 ->
    ifftshift2 N1 N2 a k1 k2 = rO ->
    estimate_intensities rO radd rmul conj N1 w1 N2 w2 rs
      (fourier_projection_mixed rO radd rmul conj N1 w1 Ninv1 N2 w2 Ninv2 rs rsi isq rO a psis) k1 k2
    = rO.
Proof. exact fourier_projection_mixed_zero_amplitude. Qed.
Print Assumptions C16_fourier_projection_mixed_zero_amplitude.

(* ============================================================================== non-vacuity
   Gaussian rationals Q(i) (lib/DFT_Inst.v), 4 x 4 grid, w k = (-i)^k, rs = 1/4, rsi = 4:
   every hypothesis bundle above is inhabited, with non-trivial ramps / kernels / amplitudes. *)
Example C16_nonvacuous_setting :
  ring_theory c0 c1 cadd cmul csub copp eq /\ conj_ok cadd cmul cconj /\
  root_ok c0 c1 cadd cmul cconj 4 w4 quarter /\
  cmul quarter (cconj quarter) = cmul quarter quarter /\ cmul quarter four = c1.
Proof. exact C16i_setting. Qed.

(* translation: ramps w4(k s) are unit-modulus characters; shift by (1,3) keeps the energy, is a roll,
   and composes additively over Z *)
Example C16_nonvacuous_translate_energy : forall x : nat -> nat -> C,
  energy2 c0 cadd cmul cconj 4 4 (fourier_shift c0 cadd cmul 4 w4 quarter 4 w4 quarter (iramp 1) (iramp 3) x)
  = energy2 c0 cadd cmul cconj 4 4 x.
Proof. exact C16i_translate_energy. Qed.

Example C16_nonvacuous_translate_integer_is_roll : forall x : nat -> nat -> C,
  eq2 C 4 4 (fourier_shift c0 cadd cmul 4 w4 quarter 4 w4 quarter (iramp 1) (iramp 3) x) (roll2 4 4 1 3 x).
Proof. exact C16i_translate_roll. Qed.

Example C16_nonvacuous_translate_additive : forall (s1 s2 t1 t2 : Z) (x : nat -> nat -> C),
  eq2 C 4 4
    (fourier_shift c0 cadd cmul 4 w4 quarter 4 w4 quarter (iramp s1) (iramp s2)
       (fourier_shift c0 cadd cmul 4 w4 quarter 4 w4 quarter (iramp t1) (iramp t2) x))
    (fourier_shift c0 cadd cmul 4 w4 quarter 4 w4 quarter (iramp (s1 + t1)) (iramp (s2 + t2)) x).
Proof. exact C16i_translate_additive. Qed.

(* propagation: the quadratic-phase kernel family p d k1 k2 = w4 (d (k1^2 + k2^2)) is unit-modulus and a
   character of the distance d *)
Example C16_nonvacuous_propagate : forall (d : Z) (x : nat -> nat -> C),
  energy2 c0 cadd cmul cconj 4 4 (propagate c0 cadd cmul 4 w4 quarter 4 w4 quarter (ikernel d) x)
  = energy2 c0 cadd cmul cconj 4 4 x
  /\ eq2 C 4 4 (propagate c0 cadd cmul 4 w4 quarter 4 w4 quarter (fun k1 k2 => cconj (ikernel d k1 k2))
                  (propagate c0 cadd cmul 4 w4 quarter 4 w4 quarter (ikernel d) x)) x
  /\ forall d', eq2 C 4 4 (propagate c0 cadd cmul 4 w4 quarter 4 w4 quarter (ikernel d)
                             (propagate c0 cadd cmul 4 w4 quarter 4 w4 quarter (ikernel d') x))
                          (propagate c0 cadd cmul 4 w4 quarter 4 w4 quarter (ikernel (d + d')) x).
Proof. exact C16i_propagate. Qed.

(* scatter / gather over Z with repeated indices, and with wrap-around patch indices *)
Example C16_nonvacuous_scatter : forall (obj : nat -> Z) (v1 v2 v3 v4 : Z),
  ldot 0%Z Z.add Z.mul (gather obj [2; 0; 2; 5]) [v1; v2; v3; v4]
  = adot 0%Z Z.add Z.mul 6 obj (scatter 0%Z Z.add [2; 0; 2; 5] [v1; v2; v3; v4]).
Proof. exact C16i_scatter. Qed.

Example C16_nonvacuous_scatter_patches : forall (obj : nat -> Z) (vals : list Z),
  batch_patch_indices 2 3 3 4 [((-1)%Z, 5%Z); (2%Z, 2%Z)] = [9; 10; 8; 5; 6; 4; 10; 11; 9; 6; 7; 5]
  /\ ldot 0%Z Z.add Z.mul (gather obj (batch_patch_indices 2 3 3 4 [((-1)%Z, 5%Z); (2%Z, 2%Z)])) vals
     = adot 0%Z Z.add Z.mul (3 * 4) obj (scatter 0%Z Z.add (batch_patch_indices 2 3 3 4 [((-1)%Z, 5%Z); (2%Z, 2%Z)]) vals).
Proof. exact C16i_scatter_patches. Qed.

(* pure-phase object: two slices, one propagator, two probe modes *)
Example C16_nonvacuous_pure_phase : forall (d e f : Z) (P Q : nat -> nat -> C),
  total_intensity c0 cadd cmul cconj 4 w4 4 w4 quarter
    (map (overlap_projection c0 cadd cmul 4 w4 quarter 4 w4 quarter [ikernel d; ikernel e] [ikernel f]) [P; Q])
  = cadd (energy2 c0 cadd cmul cconj 4 4 P) (cadd (energy2 c0 cadd cmul cconj 4 4 Q) c0).
Proof. exact C16i_pure_phase. Qed.

(* Fourier projection: amplitudes in {0, 1} (zeros included), ph z = z if |z|^2 = 1 else 1,
   isq s = 0 if s = 0 else 1 *)
Example C16_nonvacuous_fourier_projection : forall (a psi : nat -> nat -> C),
  amp2 C 4 4 iamp a ->
  eq2 C 4 4 (detector_forward c0 cadd cmul cconj 4 w4 4 w4 quarter
               [fourier_projection c0 cadd cmul 4 w4 quarter 4 w4 quarter quarter four iph a psi])
            (fun n1 n2 => cmul (a n1 n2) (a n1 n2))
  /\ eq2 C 4 4 (fourier_projection c0 cadd cmul 4 w4 quarter 4 w4 quarter quarter four iph a
                  (fourier_projection c0 cadd cmul 4 w4 quarter 4 w4 quarter quarter four iph a psi))
               (fourier_projection c0 cadd cmul 4 w4 quarter 4 w4 quarter quarter four iph a psi).
Proof. exact C16i_fourier_projection. Qed.

Example C16_nonvacuous_fourier_projection_mixed : forall (a : nat -> nat -> C),
  amp2 C 4 4 iamp a ->
  isq_ok C c0 c1 cadd cmul cconj 4 w4 4 w4 quarter iisq [iflat]
  /\ eq2 C 4 4 (detector_forward c0 cadd cmul cconj 4 w4 4 w4 quarter
                  (fourier_projection_mixed c0 cadd cmul cconj 4 w4 quarter 4 w4 quarter quarter four iisq c0 a [iflat]))
               (fun n1 n2 => cmul (a n1 n2) (a n1 n2)).
Proof. exact C16i_fourier_projection_mixed. Qed.

Example C16_nonvacuous_fourier_projection_mixed_idem : forall (a : nat -> nat -> C),
  amp2 C 4 4 iamp a ->
  Forall2 (eq2 C 4 4)
    (fourier_projection_mixed c0 cadd cmul cconj 4 w4 quarter 4 w4 quarter quarter four iisq c0 a
       (fourier_projection_mixed c0 cadd cmul cconj 4 w4 quarter 4 w4 quarter quarter four iisq c0 a [iflat]))
    (fourier_projection_mixed c0 cadd cmul cconj 4 w4 quarter 4 w4 quarter quarter four iisq c0 a [iflat]).
Proof. exact C16i_fourier_projection_mixed_idem. Qed.

(* Why the repair is needed (fixes/C16-fourier-projection-ifftshift.diff): with fftshift instead
   of ifftshift in fourier_projection the detector sees fftshift(fftshift(a))^2, and two fftshifts
   are not the identity on an odd axis (they are on even axes, where the unrepaired code is right). *)
Example C16_unrepaired_double_fftshift_refuted :
  exists a : nat -> nat -> nat, fftshift2 3 3 (fftshift2 3 3 a) 0 0 <> a 0 0.
Proof. exact C16i_double_fftshift_odd. Qed.
Example C16_unrepaired_double_fftshift_even_ok : forall (a : nat -> nat -> nat) (n1 n2 : nat),
  n1 < 4 -> n2 < 6 -> fftshift2 4 6 (fftshift2 4 6 a) n1 n2 = a n1 n2.
Proof. exact C16i_double_fftshift_even. Qed.

(* ==============================================================================================
   ROUND 3 — the kernels as SHAPES over an abstract character, the whole forward pass, gradient_step,
   several slices.  (model/C16_Model_Kernel.v, proof/C16_Proofs_Kernel.v)

   P is a commutative ring of phases in turns (Q in the check's instance C16K), E : P -> R stands for
   t |-> exp(2 pi i t) and is used ONLY through E (a + b) = E a * E b, E 0 = 1, conj (E a) = E (- a).
     shift_ramp f s k        = E (-(f k * s))                                fourier_translation_operator
     fresnel_kernel_code ... = E (-(chalf lam dz (kr^2 + kc^2))) [* E (-(dz tr kr))] [* E (-(dz tc kc))]
                                                                             _compute_propagator_arrays
   (chalf = 1/2, lam the wavelength, tr tc the tangents of the tilt angles, fr fc ANY frequency grids; br bc say
   whether the tilt factors are applied).  Unit modulus, inverse and additivity are now CONSEQUENCES of
   the shape; the shape itself is tied to the code by comparing the model's rational phases with the
   angle of the arrays the implementation builds (harness/props/C16.py, kinds ramp-phase / kernel-phase). *)
From Coq Require Import QArith.
From QV.model Require Import C16_Model_Kernel.
From QV.proof Require Import C16_Proofs_Kernel C16_Proofs_Kernel_Inst.
Local Close Scope Q_scope.

(* fourier_shift_expand with the ramp the code builds, exp(-2 pi i f_k s) = E(-(f_k s)), keeps the total
   intensity for EVERY shift vector and frequency grid: no unit-modulus hypothesis is left (derived from the shape) *)
Theorem C16_ramp_translate_energy :
  forall (R : Type) (rO rI : R) (radd rmul rsub : R -> R -> R) (ropp : R -> R),
  ring_theory rO rI radd rmul rsub ropp eq ->
  forall conj : R -> R,
  conj_ok radd rmul conj ->
  forall (N1 : nat) (w1 : Z -> R) (Ninv1 : R) (N2 : nat) (w2 : Z -> R) (Ninv2 : R),
  root_ok rO rI radd rmul conj N1 w1 Ninv1 ->
  root_ok rO rI radd rmul conj N2 w2 Ninv2 ->
  forall (P : Type) (pO pI : P) (padd pmul psub : P -> P -> P) (popp : P -> P),
  ring_theory pO pI padd pmul psub popp eq ->
  forall E : P -> R,
  (forall a b : P, E (padd a b) = rmul (E a) (E b)) ->
  E pO = rI ->
  (forall a : P, conj (E a) = E (popp a)) ->
  forall (f1 f2 : nat -> P) (s1 s2 : P) (x : nat -> nat -> R),
  energy2 rO radd rmul conj N1 N2
    (fourier_shift rO radd rmul N1 w1 Ninv1 N2 w2 Ninv2 (shift_ramp pmul popp E f1 s1)
       (shift_ramp pmul popp E f2 s2) x) = energy2 rO radd rmul conj N1 N2 x.
Proof. exact ramp_translate_energy. Qed.
Print Assumptions C16_ramp_translate_energy.

(* shifting by t and then by s is shifting by s + t (addition of the phase ring, e.g. Q) *)
Theorem C16_ramp_translate_additive :
  forall (R : Type) (rO rI : R) (radd rmul rsub : R -> R -> R) (ropp : R -> R),
  ring_theory rO rI radd rmul rsub ropp eq ->
  forall conj : R -> R,
  conj_ok radd rmul conj ->
  forall (N1 : nat) (w1 : Z -> R) (Ninv1 : R) (N2 : nat) (w2 : Z -> R) (Ninv2 : R),
  root_ok rO rI radd rmul conj N1 w1 Ninv1 ->
  root_ok rO rI radd rmul conj N2 w2 Ninv2 ->
  forall (P : Type) (pO pI : P) (padd pmul psub : P -> P -> P) (popp : P -> P),
  ring_theory pO pI padd pmul psub popp eq ->
  forall E : P -> R,
  (forall a b : P, E (padd a b) = rmul (E a) (E b)) ->
  E pO = rI ->
  (forall a : P, conj (E a) = E (popp a)) ->
  forall (f1 f2 : nat -> P) (s1 s2 t1 t2 : P) (x : nat -> nat -> R),
  eq2 R N1 N2
    (fourier_shift rO radd rmul N1 w1 Ninv1 N2 w2 Ninv2 (shift_ramp pmul popp E f1 s1)
       (shift_ramp pmul popp E f2 s2)
       (fourier_shift rO radd rmul N1 w1 Ninv1 N2 w2 Ninv2 (shift_ramp pmul popp E f1 t1)
          (shift_ramp pmul popp E f2 t2) x))
    (fourier_shift rO radd rmul N1 w1 Ninv1 N2 w2 Ninv2 (shift_ramp pmul popp E f1 (padd s1 t1))
       (shift_ramp pmul popp E f2 (padd s2 t2)) x).
Proof. exact ramp_translate_additive. Qed.
Print Assumptions C16_ramp_translate_additive.

(* shifting by a vector and then by its negative restores the array *)
Theorem C16_ramp_translate_inverse :
  forall (R : Type) (rO rI : R) (radd rmul rsub : R -> R -> R) (ropp : R -> R),
  ring_theory rO rI radd rmul rsub ropp eq ->
  forall conj : R -> R,
  conj_ok radd rmul conj ->
  forall (N1 : nat) (w1 : Z -> R) (Ninv1 : R) (N2 : nat) (w2 : Z -> R) (Ninv2 : R),
  root_ok rO rI radd rmul conj N1 w1 Ninv1 ->
  root_ok rO rI radd rmul conj N2 w2 Ninv2 ->
  forall (P : Type) (pO pI : P) (padd pmul psub : P -> P -> P) (popp : P -> P),
  ring_theory pO pI padd pmul psub popp eq ->
  forall E : P -> R,
  (forall a b : P, E (padd a b) = rmul (E a) (E b)) ->
  E pO = rI ->
  (forall a : P, conj (E a) = E (popp a)) ->
  forall (f1 f2 : nat -> P) (s1 s2 : P) (x : nat -> nat -> R),
  eq2 R N1 N2
    (fourier_shift rO radd rmul N1 w1 Ninv1 N2 w2 Ninv2 (shift_ramp pmul popp E f1 (popp s1))
       (shift_ramp pmul popp E f2 (popp s2))
       (fourier_shift rO radd rmul N1 w1 Ninv1 N2 w2 Ninv2 (shift_ramp pmul popp E f1 s1)
          (shift_ramp pmul popp E f2 s2) x)) x.
Proof. exact ramp_translate_inverse. Qed.
Print Assumptions C16_ramp_translate_inverse.

(* integer shift vectors: where the character meets the root family (exp(-2 pi i fftfreq(k) s) = w^(k s) for
   integer s) the ramp translation is np.roll *)
Theorem C16_ramp_integer_is_roll :
  forall (R : Type) (rO rI : R) (radd rmul rsub : R -> R -> R) (ropp : R -> R),
  ring_theory rO rI radd rmul rsub ropp eq ->
  forall conj : R -> R,
  conj_ok radd rmul conj ->
  forall (N1 : nat) (w1 : Z -> R) (Ninv1 : R) (N2 : nat) (w2 : Z -> R) (Ninv2 : R),
  root_ok rO rI radd rmul conj N1 w1 Ninv1 ->
  root_ok rO rI radd rmul conj N2 w2 Ninv2 ->
  forall (P : Type) (pO pI : P) (padd pmul psub : P -> P -> P) (popp : P -> P),
  ring_theory pO pI padd pmul psub popp eq ->
  forall E : P -> R,
  (forall a b : P, E (padd a b) = rmul (E a) (E b)) ->
  E pO = rI ->
  (forall a : P, conj (E a) = E (popp a)) ->
  forall (ofZ : Z -> P) (f1 f2 : nat -> P) (s1 s2 : Z) (x : nat -> nat -> R),
  (forall k : nat, k < N1 -> E (ramp_phase pmul popp (f1 k) (ofZ s1)) = w1 (Z.of_nat k * s1)%Z) ->
  (forall k : nat, k < N2 -> E (ramp_phase pmul popp (f2 k) (ofZ s2)) = w2 (Z.of_nat k * s2)%Z) ->
  eq2 R N1 N2
    (fourier_shift rO radd rmul N1 w1 Ninv1 N2 w2 Ninv2 (shift_ramp pmul popp E f1 (ofZ s1))
       (shift_ramp pmul popp E f2 (ofZ s2)) x) (roll2 N1 N2 s1 s2 x).
Proof. exact ramp_integer_is_roll. Qed.
Print Assumptions C16_ramp_integer_is_roll.

(* the propagator as coded (product of exponentials, tilt factors skipped when the tilt angle is 0) is the single
   exponential E(-(1/2) lambda dz (kr^2 + kc^2) - dz (tan_r kr + tan_c kc)) of the Fresnel phase *)
Theorem C16_fresnel_kernel_shape :
  forall (R : Type) (rO rI : R) (radd rmul rsub : R -> R -> R) (ropp : R -> R),
  ring_theory rO rI radd rmul rsub ropp eq ->
  forall conj : R -> R,
  conj_ok radd rmul conj ->
  forall (N1 : nat) (w1 : Z -> R) (Ninv1 : R) (N2 : nat) (w2 : Z -> R) (Ninv2 : R),
  root_ok rO rI radd rmul conj N1 w1 Ninv1 ->
  root_ok rO rI radd rmul conj N2 w2 Ninv2 ->
  forall (P : Type) (pO pI : P) (padd pmul psub : P -> P -> P) (popp : P -> P),
  ring_theory pO pI padd pmul psub popp eq ->
  forall E : P -> R,
  (forall a b : P, E (padd a b) = rmul (E a) (E b)) ->
  E pO = rI ->
  (forall a : P, conj (E a) = E (popp a)) ->
  forall (chalf lam : P) (br bc : bool) (tr tc : P) (fr fc : nat -> P) (dz : P) (k1 k2 : nat),
  (br = false -> tr = pO) ->
  (bc = false -> tc = pO) ->
  fresnel_kernel_code rmul padd pmul popp E chalf lam br bc tr tc fr fc dz k1 k2 =
  fresnel_kernel padd pmul popp E chalf lam tr tc fr fc dz k1 k2.
Proof. exact fresnel_code_shape. Qed.
Print Assumptions C16_fresnel_kernel_shape.

(* the conjugate kernel (used by the analytic back-propagation) is the kernel of the negated distance *)
Theorem C16_fresnel_conj_is_negated_distance :
  forall (R : Type) (rO rI : R) (radd rmul rsub : R -> R -> R) (ropp : R -> R),
  ring_theory rO rI radd rmul rsub ropp eq ->
  forall conj : R -> R,
  conj_ok radd rmul conj ->
  forall (N1 : nat) (w1 : Z -> R) (Ninv1 : R) (N2 : nat) (w2 : Z -> R) (Ninv2 : R),
  root_ok rO rI radd rmul conj N1 w1 Ninv1 ->
  root_ok rO rI radd rmul conj N2 w2 Ninv2 ->
  forall (P : Type) (pO pI : P) (padd pmul psub : P -> P -> P) (popp : P -> P),
  ring_theory pO pI padd pmul psub popp eq ->
  forall E : P -> R,
  (forall a b : P, E (padd a b) = rmul (E a) (E b)) ->
  E pO = rI ->
  (forall a : P, conj (E a) = E (popp a)) ->
  forall (chalf lam : P) (br bc : bool) (tr tc : P) (fr fc : nat -> P) (dz : P) (k1 k2 : nat),
  conj (fresnel_kernel_code rmul padd pmul popp E chalf lam br bc tr tc fr fc dz k1 k2) =
  fresnel_kernel_code rmul padd pmul popp E chalf lam br bc tr tc fr fc (popp dz) k1 k2.
Proof. exact fresnel_code_conj. Qed.
Print Assumptions C16_fresnel_conj_is_negated_distance.

(* free-space propagation with the kernel the code builds keeps the total intensity for EVERY wavelength
   (energy), distance, tilt and frequency grid (sampling): unit modulus is derived from the shape *)
Theorem C16_fresnel_propagate_energy :
  forall (R : Type) (rO rI : R) (radd rmul rsub : R -> R -> R) (ropp : R -> R),
  ring_theory rO rI radd rmul rsub ropp eq ->
  forall conj : R -> R,
  conj_ok radd rmul conj ->
  forall (N1 : nat) (w1 : Z -> R) (Ninv1 : R) (N2 : nat) (w2 : Z -> R) (Ninv2 : R),
  root_ok rO rI radd rmul conj N1 w1 Ninv1 ->
  root_ok rO rI radd rmul conj N2 w2 Ninv2 ->
  forall (P : Type) (pO pI : P) (padd pmul psub : P -> P -> P) (popp : P -> P),
  ring_theory pO pI padd pmul psub popp eq ->
  forall E : P -> R,
  (forall a b : P, E (padd a b) = rmul (E a) (E b)) ->
  E pO = rI ->
  (forall a : P, conj (E a) = E (popp a)) ->
  forall (chalf lam : P) (br bc : bool) (tr tc : P) (fr fc : nat -> P) (dz : P) (x : nat -> nat -> R),
  energy2 rO radd rmul conj N1 N2
    (propagate rO radd rmul N1 w1 Ninv1 N2 w2 Ninv2
       (fresnel_kernel_code rmul padd pmul popp E chalf lam br bc tr tc fr fc dz) x) =
  energy2 rO radd rmul conj N1 N2 x.
Proof. exact fresnel_propagate_energy. Qed.
Print Assumptions C16_fresnel_propagate_energy.

(* propagating by a distance and then by its negative is the identity *)
Theorem C16_fresnel_propagate_inverse :
  forall (R : Type) (rO rI : R) (radd rmul rsub : R -> R -> R) (ropp : R -> R),
  ring_theory rO rI radd rmul rsub ropp eq ->
  forall conj : R -> R,
  conj_ok radd rmul conj ->
  forall (N1 : nat) (w1 : Z -> R) (Ninv1 : R) (N2 : nat) (w2 : Z -> R) (Ninv2 : R),
  root_ok rO rI radd rmul conj N1 w1 Ninv1 ->
  root_ok rO rI radd rmul conj N2 w2 Ninv2 ->
  forall (P : Type) (pO pI : P) (padd pmul psub : P -> P -> P) (popp : P -> P),
  ring_theory pO pI padd pmul psub popp eq ->
  forall E : P -> R,
  (forall a b : P, E (padd a b) = rmul (E a) (E b)) ->
  E pO = rI ->
  (forall a : P, conj (E a) = E (popp a)) ->
  forall (chalf lam : P) (br bc : bool) (tr tc : P) (fr fc : nat -> P) (dz : P) (x : nat -> nat -> R),
  eq2 R N1 N2
    (propagate rO radd rmul N1 w1 Ninv1 N2 w2 Ninv2
       (fresnel_kernel_code rmul padd pmul popp E chalf lam br bc tr tc fr fc (popp dz))
       (propagate rO radd rmul N1 w1 Ninv1 N2 w2 Ninv2
          (fresnel_kernel_code rmul padd pmul popp E chalf lam br bc tr tc fr fc dz) x)) x.
Proof. exact fresnel_propagate_inverse. Qed.
Print Assumptions C16_fresnel_propagate_inverse.

(* propagation distances add *)
Theorem C16_fresnel_propagate_additive :
  forall (R : Type) (rO rI : R) (radd rmul rsub : R -> R -> R) (ropp : R -> R),
  ring_theory rO rI radd rmul rsub ropp eq ->
  forall conj : R -> R,
  conj_ok radd rmul conj ->
  forall (N1 : nat) (w1 : Z -> R) (Ninv1 : R) (N2 : nat) (w2 : Z -> R) (Ninv2 : R),
  root_ok rO rI radd rmul conj N1 w1 Ninv1 ->
  root_ok rO rI radd rmul conj N2 w2 Ninv2 ->
  forall (P : Type) (pO pI : P) (padd pmul psub : P -> P -> P) (popp : P -> P),
  ring_theory pO pI padd pmul psub popp eq ->
  forall E : P -> R,
  (forall a b : P, E (padd a b) = rmul (E a) (E b)) ->
  E pO = rI ->
  (forall a : P, conj (E a) = E (popp a)) ->
  forall (chalf lam : P) (br bc : bool) (tr tc : P) (fr fc : nat -> P) (a b : P) (x : nat -> nat -> R),
  eq2 R N1 N2
    (propagate rO radd rmul N1 w1 Ninv1 N2 w2 Ninv2
       (fresnel_kernel_code rmul padd pmul popp E chalf lam br bc tr tc fr fc a)
       (propagate rO radd rmul N1 w1 Ninv1 N2 w2 Ninv2
          (fresnel_kernel_code rmul padd pmul popp E chalf lam br bc tr tc fr fc b) x))
    (propagate rO radd rmul N1 w1 Ninv1 N2 w2 Ninv2
       (fresnel_kernel_code rmul padd pmul popp E chalf lam br bc tr tc fr fc (padd a b)) x).
Proof. exact fresnel_propagate_additive. Qed.
Print Assumptions C16_fresnel_propagate_additive.

(* back-propagation with the conjugate kernel undoes the propagation *)
Theorem C16_fresnel_backpropagate :
  forall (R : Type) (rO rI : R) (radd rmul rsub : R -> R -> R) (ropp : R -> R),
  ring_theory rO rI radd rmul rsub ropp eq ->
  forall conj : R -> R,
  conj_ok radd rmul conj ->
  forall (N1 : nat) (w1 : Z -> R) (Ninv1 : R) (N2 : nat) (w2 : Z -> R) (Ninv2 : R),
  root_ok rO rI radd rmul conj N1 w1 Ninv1 ->
  root_ok rO rI radd rmul conj N2 w2 Ninv2 ->
  forall (P : Type) (pO pI : P) (padd pmul psub : P -> P -> P) (popp : P -> P),
  ring_theory pO pI padd pmul psub popp eq ->
  forall E : P -> R,
  (forall a b : P, E (padd a b) = rmul (E a) (E b)) ->
  E pO = rI ->
  (forall a : P, conj (E a) = E (popp a)) ->
  forall (chalf lam : P) (br bc : bool) (tr tc : P) (fr fc : nat -> P) (dz : P) (x : nat -> nat -> R),
  eq2 R N1 N2
    (propagate rO radd rmul N1 w1 Ninv1 N2 w2 Ninv2
       (fun k1 k2 : nat =>
        conj (fresnel_kernel_code rmul padd pmul popp E chalf lam br bc tr tc fr fc dz k1 k2))
       (propagate rO radd rmul N1 w1 Ninv1 N2 w2 Ninv2
          (fresnel_kernel_code rmul padd pmul popp E chalf lam br bc tr tc fr fc dz) x)) x.
Proof. exact fresnel_backpropagate. Qed.
Print Assumptions C16_fresnel_backpropagate.

(* pure-phase object + the Fresnel kernels of ANY list of slice thicknesses: the summed predicted intensity is the
   summed probe intensity; the hypothesis on the propagators of C16_pure_phase_intensity is discharged *)
Theorem C16_fresnel_pure_phase_intensity :
  forall (R : Type) (rO rI : R) (radd rmul rsub : R -> R -> R) (ropp : R -> R),
  ring_theory rO rI radd rmul rsub ropp eq ->
  forall conj : R -> R,
  conj_ok radd rmul conj ->
  forall (N1 : nat) (w1 : Z -> R) (Ninv1 : R) (N2 : nat) (w2 : Z -> R) (Ninv2 : R),
  root_ok rO rI radd rmul conj N1 w1 Ninv1 ->
  root_ok rO rI radd rmul conj N2 w2 Ninv2 ->
  forall (P : Type) (pO pI : P) (padd pmul psub : P -> P -> P) (popp : P -> P),
  ring_theory pO pI padd pmul psub popp eq ->
  forall E : P -> R,
  (forall a b : P, E (padd a b) = rmul (E a) (E b)) ->
  E pO = rI ->
  (forall a : P, conj (E a) = E (popp a)) ->
  forall rs rsi : R,
  rmul rs (conj rs) = rmul Ninv1 Ninv2 ->
  rmul rs rsi = rI ->
  forall (chalf lam : P) (br bc : bool) (tr tc : P) (fr fc : nat -> P) (thick : list P)
    (objs probes : list (nat -> nat -> R)),
  Forall (unit2 R rI rmul conj N1 N2) objs ->
  total_intensity rO radd rmul conj N1 w1 N2 w2 rs
    (map
       (overlap_projection rO radd rmul N1 w1 Ninv1 N2 w2 Ninv2 objs
          (propagator_arrays rmul padd pmul popp E chalf lam br bc tr tc fr fc thick)) probes) =
  suml rO radd (map (energy2 rO radd rmul conj N1 N2) probes).
Proof. exact fresnel_pure_phase_intensity. Qed.
Print Assumptions C16_fresnel_pure_phase_intensity.

(* the library's whole forward pass for one pattern (sub-pixel shifted probe modes, multislice with Fresnel
   kernels, descan ramp in real space, detector): summed predicted intensity = summed probe intensity *)
Theorem C16_forward_pass_intensity :
  forall (R : Type) (rO rI : R) (radd rmul rsub : R -> R -> R) (ropp : R -> R),
  ring_theory rO rI radd rmul rsub ropp eq ->
  forall conj : R -> R,
  conj_ok radd rmul conj ->
  forall (N1 : nat) (w1 : Z -> R) (Ninv1 : R) (N2 : nat) (w2 : Z -> R) (Ninv2 : R),
  root_ok rO rI radd rmul conj N1 w1 Ninv1 ->
  root_ok rO rI radd rmul conj N2 w2 Ninv2 ->
  forall (P : Type) (pO pI : P) (padd pmul psub : P -> P -> P) (popp : P -> P),
  ring_theory pO pI padd pmul psub popp eq ->
  forall E : P -> R,
  (forall a b : P, E (padd a b) = rmul (E a) (E b)) ->
  E pO = rI ->
  (forall a : P, conj (E a) = E (popp a)) ->
  forall rs rsi : R,
  rmul rs (conj rs) = rmul Ninv1 Ninv2 ->
  rmul rs rsi = rI ->
  forall (chalf lam : P) (br bc : bool) (tr tc : P) (fr fc : nat -> P) (thick : list P)
    (f1 f2 : nat -> P) (s1 s2 : P) (g1 g2 : nat -> P) (d1 d2 : P)
    (objs probes : list (nat -> nat -> R)),
  Forall (unit2 R rI rmul conj N1 N2) objs ->
  total_intensity rO radd rmul conj N1 w1 N2 w2 rs
    (map
       (forward_operator rO radd rmul N1 w1 Ninv1 N2 w2 Ninv2 objs
          (propagator_arrays rmul padd pmul popp E chalf lam br bc tr tc fr fc thick)
          (shift_ramp pmul popp E f1 s1) (shift_ramp pmul popp E f2 s2) (shift_ramp pmul popp E g1 d1)
          (shift_ramp pmul popp E g2 d2)) probes) =
  suml rO radd (map (energy2 rO radd rmul conj N1 N2) probes).
Proof. exact forward_pass_intensity. Qed.
Print Assumptions C16_forward_pass_intensity.

(* gradient_step: the current exit wave plus the step IS the projected exit wave *)
Theorem C16_gradient_step_plus :
  forall (R : Type) (rO rI : R) (radd rmul rsub : R -> R -> R) (ropp : R -> R),
  ring_theory rO rI radd rmul rsub ropp eq ->
  forall conj : R -> R,
  conj_ok radd rmul conj ->
  forall (N1 : nat) (w1 : Z -> R) (Ninv1 : R) (N2 : nat) (w2 : Z -> R) (Ninv2 : R),
  root_ok rO rI radd rmul conj N1 w1 Ninv1 ->
  root_ok rO rI radd rmul conj N2 w2 Ninv2 ->
  forall rs rsi : R,
  rmul rs (conj rs) = rmul Ninv1 Ninv2 ->
  rmul rs rsi = rI ->
  forall (ph : R -> R) (amp : R -> Prop),
  (forall a : R, amp a -> conj a = a) ->
  (forall z : R, abs2 rmul conj (ph z) = rI) ->
  (forall a u : R, amp a -> abs2 rmul conj u = rI -> rmul a (ph (rmul a u)) = rmul a u) ->
  forall a psi : nat -> nat -> R,
  eq2 R N1 N2
    (fun i j : nat =>
     radd (psi i j) (gradient_step rO radd rmul rsub N1 w1 Ninv1 N2 w2 Ninv2 rs rsi ph a psi i j))
    (fourier_projection rO radd rmul N1 w1 Ninv1 N2 w2 Ninv2 rs rsi ph a psi).
Proof. exact gradient_step_plus. Qed.
Print Assumptions C16_gradient_step_plus.

(* the step vanishes at a projected exit wave *)
Theorem C16_gradient_step_fixed_point :
  forall (R : Type) (rO rI : R) (radd rmul rsub : R -> R -> R) (ropp : R -> R),
  ring_theory rO rI radd rmul rsub ropp eq ->
  forall conj : R -> R,
  conj_ok radd rmul conj ->
  forall (N1 : nat) (w1 : Z -> R) (Ninv1 : R) (N2 : nat) (w2 : Z -> R) (Ninv2 : R),
  root_ok rO rI radd rmul conj N1 w1 Ninv1 ->
  root_ok rO rI radd rmul conj N2 w2 Ninv2 ->
  forall rs rsi : R,
  rmul rs (conj rs) = rmul Ninv1 Ninv2 ->
  rmul rs rsi = rI ->
  forall (ph : R -> R) (amp : R -> Prop),
  (forall a : R, amp a -> conj a = a) ->
  (forall z : R, abs2 rmul conj (ph z) = rI) ->
  (forall a u : R, amp a -> abs2 rmul conj u = rI -> rmul a (ph (rmul a u)) = rmul a u) ->
  forall a psi : nat -> nat -> R,
  amp2 R N1 N2 amp a ->
  eq2 R N1 N2
    (gradient_step rO radd rmul rsub N1 w1 Ninv1 N2 w2 Ninv2 rs rsi ph a
       (fourier_projection rO radd rmul N1 w1 Ninv1 N2 w2 Ninv2 rs rsi ph a psi))
    (fun _ _ : nat => rO).
Proof. exact gradient_step_fixed_point. Qed.
Print Assumptions C16_gradient_step_fixed_point.

(* after one full step the detector sees exactly the measured amplitudes (squared) *)
Theorem C16_gradient_step_detector :
  forall (R : Type) (rO rI : R) (radd rmul rsub : R -> R -> R) (ropp : R -> R),
  ring_theory rO rI radd rmul rsub ropp eq ->
  forall conj : R -> R,
  conj_ok radd rmul conj ->
  forall (N1 : nat) (w1 : Z -> R) (Ninv1 : R) (N2 : nat) (w2 : Z -> R) (Ninv2 : R),
  root_ok rO rI radd rmul conj N1 w1 Ninv1 ->
  root_ok rO rI radd rmul conj N2 w2 Ninv2 ->
  forall rs rsi : R,
  rmul rs (conj rs) = rmul Ninv1 Ninv2 ->
  rmul rs rsi = rI ->
  forall (ph : R -> R) (amp : R -> Prop),
  (forall a : R, amp a -> conj a = a) ->
  (forall z : R, abs2 rmul conj (ph z) = rI) ->
  (forall a u : R, amp a -> abs2 rmul conj u = rI -> rmul a (ph (rmul a u)) = rmul a u) ->
  forall a psi : nat -> nat -> R,
  amp2 R N1 N2 amp a ->
  eq2 R N1 N2
    (detector_forward rO radd rmul conj N1 w1 N2 w2 rs
       [fun i j : nat =>
        radd (psi i j) (gradient_step rO radd rmul rsub N1 w1 Ninv1 N2 w2 Ninv2 rs rsi ph a psi i j)])
    (fun n1 n2 : nat => rmul (a n1 n2) (a n1 n2)).
Proof. exact gradient_step_detector. Qed.
Print Assumptions C16_gradient_step_detector.

(* where the spectrum F of psi has the polar form m * ph F with real m (its modulus), the squared norm of the
   step is the squared amplitude misfit sum_k (a_k - m_k)^2 (the l2-amplitude error of the pattern) *)
Theorem C16_gradient_step_energy :
  forall (R : Type) (rO rI : R) (radd rmul rsub : R -> R -> R) (ropp : R -> R),
  ring_theory rO rI radd rmul rsub ropp eq ->
  forall conj : R -> R,
  conj_ok radd rmul conj ->
  forall (N1 : nat) (w1 : Z -> R) (Ninv1 : R) (N2 : nat) (w2 : Z -> R) (Ninv2 : R),
  root_ok rO rI radd rmul conj N1 w1 Ninv1 ->
  root_ok rO rI radd rmul conj N2 w2 Ninv2 ->
  forall rs rsi : R,
  rmul rs (conj rs) = rmul Ninv1 Ninv2 ->
  rmul rs rsi = rI ->
  forall (ph : R -> R) (amp : R -> Prop),
  (forall a : R, amp a -> conj a = a) ->
  (forall z : R, abs2 rmul conj (ph z) = rI) ->
  (forall a u : R, amp a -> abs2 rmul conj u = rI -> rmul a (ph (rmul a u)) = rmul a u) ->
  forall a psi m : nat -> nat -> R,
  amp2 R N1 N2 amp a ->
  (forall k1 k2 : nat,
   k1 < N1 ->
   k2 < N2 ->
   dft2_ortho rO radd rmul N1 w1 N2 w2 rs psi k1 k2 =
   rmul (m k1 k2) (ph (dft2_ortho rO radd rmul N1 w1 N2 w2 rs psi k1 k2)) /\ 
   conj (m k1 k2) = m k1 k2) ->
  energy2 rO radd rmul conj N1 N2
    (gradient_step rO radd rmul rsub N1 w1 Ninv1 N2 w2 Ninv2 rs rsi ph a psi) =
  sum2 rO radd N1 N2
    (fun k1 k2 : nat =>
     rmul (rsub (ifftshift2 N1 N2 a k1 k2) (m k1 k2)) (rsub (ifftshift2 N1 N2 a k1 k2) (m k1 k2))).
Proof. exact gradient_step_energy. Qed.
Print Assumptions C16_gradient_step_energy.

(* mixed state: every mode's step vanishes at a projected stack of exit waves (estimate non-zero) *)
Theorem C16_gradient_step_mixed_fixed_point :
  forall (R : Type) (rO rI : R) (radd rmul rsub : R -> R -> R) (ropp : R -> R),
  ring_theory rO rI radd rmul rsub ropp eq ->
  forall conj : R -> R,
  conj_ok radd rmul conj ->
  forall (N1 : nat) (w1 : Z -> R) (Ninv1 : R) (N2 : nat) (w2 : Z -> R) (Ninv2 : R),
  root_ok rO rI radd rmul conj N1 w1 Ninv1 ->
  root_ok rO rI radd rmul conj N2 w2 Ninv2 ->
  forall rs rsi : R,
  rmul rs (conj rs) = rmul Ninv1 Ninv2 ->
  rmul rs rsi = rI ->
  forall (ph : R -> R) (amp : R -> Prop),
  (forall a : R, amp a -> conj a = a) ->
  (forall z : R, abs2 rmul conj (ph z) = rI) ->
  (forall a u : R, amp a -> abs2 rmul conj u = rI -> rmul a (ph (rmul a u)) = rmul a u) ->
  forall isq : R -> R,
  (forall a : R, amp a -> rmul (rmul a (isq (rmul a a))) a = a) ->
  forall (a : nat -> nat -> R) (psis : list (nat -> nat -> R)),
  amp2 R N1 N2 amp a ->
  isq_ok R rO rI radd rmul conj N1 w1 N2 w2 rs isq psis ->
  Forall (fun g : nat -> nat -> R => eq2 R N1 N2 g (fun _ _ : nat => rO))
    (gradient_step_mixed rO radd rmul rsub N1 w1 Ninv1 N2 w2 Ninv2 conj rs rsi isq rO a
       (fourier_projection_mixed rO radd rmul conj N1 w1 Ninv1 N2 w2 Ninv2 rs rsi isq rO a psis)).
Proof. exact gradient_step_mixed_fixed_point. Qed.
Print Assumptions C16_gradient_step_mixed_fixed_point.

(* several slices: obj_flat[:, idx] and the per-slice sum_patches of ObjectPixelated.backward are adjoint *)
Theorem C16_scatter_adjoint_gather_slices :
  forall (R : Type) (rO rI : R) (radd rmul rsub : R -> R -> R) (ropp : R -> R),
  ring_theory rO rI radd rmul rsub ropp eq ->
  forall (size : nat) (idx : list nat),
  Forall (fun i : nat => i < size) idx ->
  forall (objs : list (nat -> R)) (valss : list (list R)),
  ldot_slices rO radd rmul (gather_slices objs idx) valss =
  adot_slices rO radd rmul size objs (scatter_slices rO radd idx valss).
Proof. exact scatter_adjoint_gather_slices. Qed.
Print Assumptions C16_scatter_adjoint_gather_slices.

(* ============================================================================== non-vacuity (round 3) *)
(* phases P = Z, E m = w4(-m) = i^m: a non-trivial character into Q(i) with E(a+b) = E a E b, E 0 = 1, conj(E a) = E(-a) *)
Example C16_nonvacuous_character :
  ring_theory 0%Z 1%Z Z.add Z.mul Z.sub Z.opp eq /\
  (forall a b : Z, EZ (a + b) = cmul (EZ a) (EZ b)) /\
  EZ 0 = c1 /\ (forall a : Z, cconj (EZ a) = EZ (- a)) /\ EZ 1 <> c1.
Proof. exact C16k_character. Qed.

(* shift ramp over the grid f k = k: energy, additivity, inverse, integer roll, for all integer shifts *)
Example C16_nonvacuous_ramp :
  forall (s1 s2 t1 t2 : Z) (x : nat -> nat -> C),
  energy2 c0 cadd cmul cconj 4 4
    (fourier_shift c0 cadd cmul 4 w4 quarter 4 w4 quarter (shift_ramp Z.mul Z.opp EZ fZ s1)
       (shift_ramp Z.mul Z.opp EZ fZ s2) x) = energy2 c0 cadd cmul cconj 4 4 x /\
  eq2 C 4 4
    (fourier_shift c0 cadd cmul 4 w4 quarter 4 w4 quarter (shift_ramp Z.mul Z.opp EZ fZ s1)
       (shift_ramp Z.mul Z.opp EZ fZ s2)
       (fourier_shift c0 cadd cmul 4 w4 quarter 4 w4 quarter (shift_ramp Z.mul Z.opp EZ fZ t1)
          (shift_ramp Z.mul Z.opp EZ fZ t2) x))
    (fourier_shift c0 cadd cmul 4 w4 quarter 4 w4 quarter (shift_ramp Z.mul Z.opp EZ fZ (s1 + t1)%Z)
       (shift_ramp Z.mul Z.opp EZ fZ (s2 + t2)%Z) x) /\
  eq2 C 4 4
    (fourier_shift c0 cadd cmul 4 w4 quarter 4 w4 quarter (shift_ramp Z.mul Z.opp EZ fZ (- s1)%Z)
       (shift_ramp Z.mul Z.opp EZ fZ (- s2)%Z)
       (fourier_shift c0 cadd cmul 4 w4 quarter 4 w4 quarter (shift_ramp Z.mul Z.opp EZ fZ s1)
          (shift_ramp Z.mul Z.opp EZ fZ s2) x)) x /\
  eq2 C 4 4
    (fourier_shift c0 cadd cmul 4 w4 quarter 4 w4 quarter (shift_ramp Z.mul Z.opp EZ fZ s1)
       (shift_ramp Z.mul Z.opp EZ fZ s2) x) (roll2 4 4 s1 s2 x).
Proof. exact C16k_ramp. Qed.

(* ... and that ramp is not the constant 1 *)
Example C16_nonvacuous_ramp_nontrivial :
  shift_ramp Z.mul Z.opp EZ fZ 1%Z 1 <> c1.
Proof. exact C16k_ramp_nontrivial. Qed.

(* Fresnel kernel (with or without tilt factors): energy, inverse by the negated distance, additivity, conjugate kernel *)
Example C16_nonvacuous_fresnel :
  forall (lam tr tc dz dz' : Z) (br bc : bool) (x : nat -> nat -> C),
  energy2 c0 cadd cmul cconj 4 4
    (propagate c0 cadd cmul 4 w4 quarter 4 w4 quarter
       (fresnel_kernel_code cmul Z.add Z.mul Z.opp EZ 1%Z lam br bc tr tc fZ fZ dz) x) =
  energy2 c0 cadd cmul cconj 4 4 x /\
  eq2 C 4 4
    (propagate c0 cadd cmul 4 w4 quarter 4 w4 quarter
       (fresnel_kernel_code cmul Z.add Z.mul Z.opp EZ 1%Z lam br bc tr tc fZ fZ (- dz)%Z)
       (propagate c0 cadd cmul 4 w4 quarter 4 w4 quarter
          (fresnel_kernel_code cmul Z.add Z.mul Z.opp EZ 1%Z lam br bc tr tc fZ fZ dz) x)) x /\
  eq2 C 4 4
    (propagate c0 cadd cmul 4 w4 quarter 4 w4 quarter
       (fresnel_kernel_code cmul Z.add Z.mul Z.opp EZ 1%Z lam br bc tr tc fZ fZ dz)
       (propagate c0 cadd cmul 4 w4 quarter 4 w4 quarter
          (fresnel_kernel_code cmul Z.add Z.mul Z.opp EZ 1%Z lam br bc tr tc fZ fZ dz') x))
    (propagate c0 cadd cmul 4 w4 quarter 4 w4 quarter
       (fresnel_kernel_code cmul Z.add Z.mul Z.opp EZ 1%Z lam br bc tr tc fZ fZ (dz + dz')%Z) x) /\
  eq2 C 4 4
    (propagate c0 cadd cmul 4 w4 quarter 4 w4 quarter
       (fun k1 k2 : nat =>
        cconj (fresnel_kernel_code cmul Z.add Z.mul Z.opp EZ 1%Z lam br bc tr tc fZ fZ dz k1 k2))
       (propagate c0 cadd cmul 4 w4 quarter 4 w4 quarter
          (fresnel_kernel_code cmul Z.add Z.mul Z.opp EZ 1%Z lam br bc tr tc fZ fZ dz) x)) x.
Proof. exact C16k_fresnel. Qed.

(* ... a tilted kernel that is not constant *)
Example C16_nonvacuous_fresnel_nontrivial :
  fresnel_kernel_code cmul Z.add Z.mul Z.opp EZ 1%Z 1%Z true false 1%Z 0%Z fZ fZ 1%Z 1 0 <> c1.
Proof. exact C16k_fresnel_nontrivial. Qed.

(* coded product = single exponential, with both tilt factors and with both skipped *)
Example C16_nonvacuous_fresnel_shape :
  forall (lam tr tc dz : Z) (k1 k2 : nat),
  fresnel_kernel_code cmul Z.add Z.mul Z.opp EZ 1%Z lam true true tr tc fZ fZ dz k1 k2 =
  fresnel_kernel Z.add Z.mul Z.opp EZ 1%Z lam tr tc fZ fZ dz k1 k2 /\
  fresnel_kernel_code cmul Z.add Z.mul Z.opp EZ 1%Z lam false false 0%Z 0%Z fZ fZ dz k1 k2 =
  fresnel_kernel Z.add Z.mul Z.opp EZ 1%Z lam 0%Z 0%Z fZ fZ dz k1 k2.
Proof. exact C16k_fresnel_shape. Qed.

(* three unit-modulus slices, two Fresnel kernels (tilted), two probe modes *)
Example C16_nonvacuous_fresnel_pure_phase :
  forall (lam tr tc t1 t2 : Z) (P Q : nat -> nat -> C),
  total_intensity c0 cadd cmul cconj 4 w4 4 w4 quarter
    (map
       (overlap_projection c0 cadd cmul 4 w4 quarter 4 w4 quarter [ikernel 1; ikernel 2; ikernel 3]
          (propagator_arrays cmul Z.add Z.mul Z.opp EZ 1%Z lam true false tr tc fZ fZ [t1; t2]))
       [P; Q]) = cadd (energy2 c0 cadd cmul cconj 4 4 P) (cadd (energy2 c0 cadd cmul cconj 4 4 Q) c0).
Proof. exact C16k_fresnel_pure_phase. Qed.

(* the forward pass with sub-pixel ramp, Fresnel kernels, descan ramp *)
Example C16_nonvacuous_forward_pass :
  forall (lam tr tc t1 t2 s1 s2 d1 d2 : Z) (P Q : nat -> nat -> C),
  total_intensity c0 cadd cmul cconj 4 w4 4 w4 quarter
    (map
       (forward_operator c0 cadd cmul 4 w4 quarter 4 w4 quarter [ikernel 1; ikernel 2; ikernel 3]
          (propagator_arrays cmul Z.add Z.mul Z.opp EZ 1%Z lam true true tr tc fZ fZ [t1; t2])
          (shift_ramp Z.mul Z.opp EZ fZ s1) (shift_ramp Z.mul Z.opp EZ fZ s2)
          (shift_ramp Z.mul Z.opp EZ fZ d1) (shift_ramp Z.mul Z.opp EZ fZ d2)) [
       P; Q]) = cadd (energy2 c0 cadd cmul cconj 4 4 P) (cadd (energy2 c0 cadd cmul cconj 4 4 Q) c0).
Proof. exact C16k_forward_pass. Qed.

(* gradient_step with amplitudes in {0,1} *)
Example C16_nonvacuous_gradient_step :
  forall a psi : nat -> nat -> C,
  amp2 C 4 4 iamp a ->
  eq2 C 4 4
    (fun i j : nat =>
     cadd (psi i j)
       (gradient_step c0 cadd cmul csub 4 w4 quarter 4 w4 quarter quarter four iph a psi i j))
    (fourier_projection c0 cadd cmul 4 w4 quarter 4 w4 quarter quarter four iph a psi) /\
  eq2 C 4 4
    (gradient_step c0 cadd cmul csub 4 w4 quarter 4 w4 quarter quarter four iph a
       (fourier_projection c0 cadd cmul 4 w4 quarter 4 w4 quarter quarter four iph a psi))
    (fun _ _ : nat => c0) /\
  eq2 C 4 4
    (detector_forward c0 cadd cmul cconj 4 w4 4 w4 quarter
       [fun i j : nat =>
        cadd (psi i j)
          (gradient_step c0 cadd cmul csub 4 w4 quarter 4 w4 quarter quarter four iph a psi i j)])
    (fun n1 n2 : nat => cmul (a n1 n2) (a n1 n2)).
Proof. exact C16k_gradient_step. Qed.

(* exit wave with flat unit spectrum (modulus 1): |step|^2 = sum_k (a_k - 1)^2 *)
Example C16_nonvacuous_gradient_step_energy :
  forall a : nat -> nat -> C,
  amp2 C 4 4 iamp a ->
  energy2 c0 cadd cmul cconj 4 4
    (gradient_step c0 cadd cmul csub 4 w4 quarter 4 w4 quarter quarter four iph a iflat) =
  sum2 c0 cadd 4 4
    (fun k1 k2 : nat => cmul (csub (ifftshift2 4 4 a k1 k2) c1) (csub (ifftshift2 4 4 a k1 k2) c1)).
Proof. exact C16k_gradient_step_energy. Qed.

(* mixed-state step at a projected stack *)
Example C16_nonvacuous_gradient_step_mixed :
  forall a : nat -> nat -> C,
  amp2 C 4 4 iamp a ->
  Forall (fun g : nat -> nat -> C => eq2 C 4 4 g (fun _ _ : nat => c0))
    (gradient_step_mixed c0 cadd cmul csub 4 w4 quarter 4 w4 quarter cconj quarter four iisq c0 a
       (fourier_projection_mixed c0 cadd cmul cconj 4 w4 quarter 4 w4 quarter quarter four iisq c0 a
          [iflat])).
Proof. exact C16k_gradient_step_mixed. Qed.

(* two slices over Z, repeated indices *)
Example C16_nonvacuous_scatter_slices :
  forall (o1 o2 : nat -> Z) (u1 u2 u3 v1 v2 v3 : Z),
  ldot_slices 0%Z Z.add Z.mul (gather_slices [o1; o2] [4; 1; 4]) [[u1; u2; u3]; [v1; v2; v3]] =
  adot_slices 0%Z Z.add Z.mul 6 [o1; o2]
    (scatter_slices 0%Z Z.add [4; 1; 4] [[u1; u2; u3]; [v1; v2; v3]]).
Proof. exact C16k_scatter_slices. Qed.

(* the rational phase instance used by the check: fftfreq(5, 1/2) and the ramp phases (turns) of a 2 x 3 grid shifted by (1/2, 3) *)
Example C16_nonvacuous_fftfreq :
  map (fun k : nat => Qred (C16K.fftfreq_q 5 (1 # 2) k)) (seq 0 5) =
  [0%Q; (2 # 5)%Q; (4 # 5)%Q; (-4 # 5)%Q; (-2 # 5)%Q] /\
  map (map Qred) (C16K.ramp_phases 2 3 (1 # 2) 3) = [[0%Q; (-1)%Q; 1%Q]; [(1 # 4)%Q; (-3 # 4)%Q; (5 # 4)%Q]].
Proof. exact C16k_fftfreq_example. Qed.

(* ============================================================================== round 5
   (used by the translator tie coq/gen_proofs/C16_Gen*.v; stated here for every ring / list) *)
From QV.lib Require Import C16_TieLib.
From QV.proof Require Import C16_Proofs_Tie.

(* index_add_ is LINEAR in the values: scattering real and imaginary parts separately (sum_patches does, with the same
   indices) and recombining them is scattering the complex values; every index list (repeats), every c *)
Theorem C16_scatter_linear :
  forall (R : Type) (rO rI : R) (radd rmul rsub : R -> R -> R) (ropp : R -> R),
  ring_theory rO rI radd rmul rsub ropp eq ->
  forall (c : R) (idx : list nat) (re im : list R) (n : nat),
  length re = length im ->
  scatter rO radd idx (zipw (fun a b : R => radd a (rmul c b)) re im) n
  = radd (scatter rO radd idx re n) (rmul c (scatter rO radd idx im n)).
Proof. exact scatter_linear. Qed.
Print Assumptions C16_scatter_linear.

(* ANY product of exponentials of a character (factors multiplied in or skipped by their guards) is one exponential of the
   summed phase and has unit modulus: a kernel built that way cannot change the total intensity *)
Theorem C16_exponential_product :
  forall (R : Type) (rO rI : R) (radd rmul rsub : R -> R -> R) (ropp : R -> R),
  ring_theory rO rI radd rmul rsub ropp eq ->
  forall (conj : R -> R) (P : Type) (pO pI : P) (padd pmul psub : P -> P -> P) (popp : P -> P),
  ring_theory pO pI padd pmul psub popp eq ->
  forall E : P -> R,
  (forall a b : P, E (padd a b) = rmul (E a) (E b)) -> E pO = rI -> (forall a : P, conj (E a) = E (popp a)) ->
  forall l : list (bool * P), abs2 rmul conj (eprod rI rmul E l) = rI.
Proof. exact @eprod_unit. Qed.
Print Assumptions C16_exponential_product.

Example C16_nonvacuous_scatter_linear : forall a b c d e f : Z,
  scatter 0%Z Z.add [1; 0; 1]%nat (zipw (fun x y => (x + 5 * y)%Z) [a; b; c] [d; e; f]) 1%nat
  = (scatter 0%Z Z.add [1; 0; 1]%nat [a; b; c] 1%nat + 5 * scatter 0%Z Z.add [1; 0; 1]%nat [d; e; f] 1%nat)%Z
  /\ scatter 0%Z Z.add [1; 0; 1]%nat [a; b; c] 1%nat = (a + c)%Z.
Proof. intros. split; cbv -[Z.add Z.mul]; ring. Qed.

Example C16_nonvacuous_exponential_product :
  eprod c1 cmul EZ [(true, 1%Z); (false, 1%Z); (true, 2%Z)] = EZ 3 /\ EZ 3 <> c1.
Proof. split; [vm_compute; reflexivity | vm_compute; discriminate]. Qed.
